(* Driver for the extracted action-queue model (C06).  One history per input line:
     HIST trans op op ...      ops:  A id k x y ..  |  M id dx dy  |  T id k x y ..  |  D id  |  C id sx sy dx dy
                                     |  E id which x y  |  P          (integers only)
   Output, one line per history: for every P a block
     "| empty nshapes {id k x y ..} nconns {cid sx sy dx dy}"   (shapes sorted by id, conns sorted by id; unset end = "?")
   or "| ERR" if the model reports a violated precondition (None), after which the line ends. *)
open C06_model

let rec pos_of_int n = if n = 1 then XH else if n land 1 = 0 then XO (pos_of_int (n lsr 1)) else XI (pos_of_int (n lsr 1))
let z_of_int n = if n = 0 then Z0 else if n > 0 then Zpos (pos_of_int n) else Zneg (pos_of_int (-n))
let rec int_of_pos = function XH -> 1 | XO p -> 2 * int_of_pos p | XI p -> 2 * int_of_pos p + 1
let int_of_z = function Z0 -> 0 | Zpos p -> int_of_pos p | Zneg p -> - (int_of_pos p)
let q_of_int n = { qnum = z_of_int n; qden = XH }
let str_q q = if q.qden = XH then string_of_int (int_of_z q.qnum)
  else Printf.sprintf "%d/%d" (int_of_z q.qnum) (int_of_pos q.qden)

let toks = ref [||]
let pos = ref 0
let more () = !pos < Array.length !toks
let next () = let t = !toks.(!pos) in incr pos; t
let next_int () = int_of_string (next ())
let next_pt () = let x = next_int () in let y = next_int () in { px = q_of_int x; py = q_of_int y }
let next_poly () = let k = next_int () in List.init k (fun _ -> next_pt ())

let rec parse_ops acc =
  if not (more ()) then List.rev acc else
  let o = match next () with
    | "A" -> let id = next_int () in let p = next_poly () in AddShape (z_of_int id, p)
    | "M" -> let id = next_int () in let dx = next_int () in let dy = next_int () in MoveShape (z_of_int id, q_of_int dx, q_of_int dy)
    | "T" -> let id = next_int () in let p = next_poly () in MoveShapeTo (z_of_int id, p)
    | "D" -> DeleteShape (z_of_int (next_int ()))
    | "C" -> let id = next_int () in let s = next_pt () in let d = next_pt () in AddConn (z_of_int id, s, d)
    | "E" -> let id = next_int () in let w = next_int () in let p = next_pt () in MoveEndpoint (z_of_int id, (w <> 0), p)
    | "P" -> Process
    | t -> failwith ("bad op " ^ t) in
  parse_ops (o :: acc)

let () =
  try
    while true do
      let line = input_line stdin in
      toks := Array.of_list (List.filter (fun s -> s <> "") (String.split_on_char ' ' line));
      pos := 0;
      if Array.length !toks > 0 then begin
        (match next () with
         | "HIST" ->
           let tr = next_int () <> 0 in
           let ops = parse_ops [] in
           let obs = observe (init tr) ops in
           List.iter (function
               | None -> print_string "| ERR "
               | Some ((sc, cs), empty) ->
                 let sc = List.sort (fun (a, _) (b, _) -> compare (int_of_z a) (int_of_z b)) sc in
                 let cs = List.sort (fun (a, _) (b, _) -> compare (int_of_z a) (int_of_z b)) cs in
                 Printf.printf "| %d %d" (if empty then 1 else 0) (List.length sc);
                 List.iter (fun (id, p) ->
                     Printf.printf " %d %d" (int_of_z id) (List.length p);
                     List.iter (fun q -> Printf.printf " %s %s" (str_q q.px) (str_q q.py)) p) sc;
                 Printf.printf " %d" (List.length cs);
                 List.iter (fun (id, (s, d)) ->
                     let sp = function None -> "? ?" | Some q -> str_q q.px ^ " " ^ str_q q.py in
                     Printf.printf " %d %s %s" (int_of_z id) (sp s) (sp d)) cs;
                 print_string " ") obs;
           print_newline ()
         | t -> print_endline ("? " ^ t));
        flush stdout
      end
    done
  with End_of_file -> ()
