(* Extraction for C06: the action-queue model. *)
Require Extraction.
Require Import ExtrOcamlBasic.
From Adapt Require Import Num.Qaux Avoid.ActionQueueModel.
Extraction "c06_model.ml" init observe run scene seq_run.
