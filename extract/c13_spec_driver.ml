(* C13 spec driver.
   mode `tri`:    stdin lines "dim left pn gn u1 u2 v1 v2 w1 w2 mm me" where mm*2^me is the IMPLEMENTATION's maxSafeAlpha
                  (mm = 0, me = 0 and an extra word EXC when the implementation threw);
                  prints  spec_msa spec_si spec_sf spec_slack(u2,v1,w2) ok   (ok = msa_ok_dec on the implementation's value,
                  tolerance 2^-40)
   mode `layout`: stdin: "EPS m e", then per phase "N m e m e m e m e" ..., "P src dst k (node kind m e m e)*k" ..., "END";
                  numbers are m*2^e.  Prints per END one line: "overlap <0/1>" then per path its result code
                  (0 ok, 2 endpoints, 3 bend, 4 segment through node). *)
open C13_spec
let rec pos_of_int n = if n = 1 then XH else if n land 1 = 0 then XO (pos_of_int (n lsr 1)) else XI (pos_of_int (n lsr 1))
let z_of_int n = if n = 0 then Z0 else if n > 0 then Zpos (pos_of_int n) else Zneg (pos_of_int (-n))
let rec int_of_pos = function XH -> 1 | XO p -> 2 * int_of_pos p | XI p -> 2 * int_of_pos p + 1
let int_of_z = function Z0 -> 0 | Zpos p -> int_of_pos p | Zneg p -> - (int_of_pos p)
let rec nat_of_int n = if n <= 0 then O else S (nat_of_int (n - 1))
let rec pow2 k = if k = 0 then XH else XO (pow2 (k - 1))
let rec shl z k = if k = 0 then z else match z with Z0 -> Z0 | Zpos p -> shl (Zpos (XO p)) (k - 1) | Zneg p -> shl (Zneg (XO p)) (k - 1)
(* m * 2^e as an exact Coq rational *)
let qme m e = if e >= 0 then { qnum = shl (z_of_int m) e; qden = XH } else { qnum = z_of_int m; qden = pow2 (-e) }
let q n d = { qnum = z_of_int n; qden = pos_of_int d }
let pq x = let x = qred x in Printf.sprintf "%d/%d" (int_of_z x.qnum) (int_of_pos x.qden)
let words line = List.filter (fun s -> s <> "") (String.split_on_char ' ' line)

let tri_mode () =
  try while true do
    let line = input_line stdin in
    match words line with
    | _dim :: left :: pn :: gn :: u1 :: u2 :: v1 :: v2 :: w1 :: w2 :: mm :: me :: rest ->
      let i = int_of_string in
      let t = { tc_p = q (i pn) 8; tc_g = q (i gn) 32768; tc_leftOf = (i left <> 0);
                tc_u1 = q (i u1) 32768; tc_u2 = q (i u2) 32768; tc_v1 = q (i v1) 32768; tc_v2 = q (i v2) 32768;
                tc_w1 = q (i w1) 32768; tc_w2 = q (i w2) 32768 } in
      let ok = if rest <> [] then 2 else if msa_ok_dec t (qme (i mm) (i me)) (qme 1 (-40)) then 1 else 0 in
      Printf.printf "%s %s %s %s %d\n" (pq (spec_msa t)) (pq (spec_si t)) (pq (spec_sf t))
        (pq (spec_slack t t.tc_u2 t.tc_v1 t.tc_w2)) ok
    | _ -> ()
  done with End_of_file -> ()

let layout_mode () =
  let eps = ref (qme 1 (-20)) in
  let rects = ref [] and paths = ref [] in
  try while true do
    let line = input_line stdin in
    match words line with
    | ["EPS"; m; e] -> eps := qme (int_of_string m) (int_of_string e)
    | "N" :: r ->
      (match List.map int_of_string r with
       | [a; b; c; d; e; f; g; h] -> rects := { qx0 = qme a b; qy0 = qme c d; qx1 = qme e f; qy1 = qme g h } :: !rects
       | _ -> ())
    | "P" :: src :: dst :: _k :: r ->
      let rec pts = function
        | n :: k :: a :: b :: c :: d :: t ->
          { pp_node = nat_of_int (int_of_string n); pp_kind = z_of_int (int_of_string k);
            pp_pos = { px = qme (int_of_string a) (int_of_string b); py = qme (int_of_string c) (int_of_string d) } } :: pts t
        | _ -> [] in
      paths := (nat_of_int (int_of_string src), nat_of_int (int_of_string dst), pts r) :: !paths
    | ["END"] ->
      let rs = List.rev !rects in
      Printf.printf "overlap %d" (if all_apart !eps rs then 0 else 1);
      List.iter (fun (s, d, p) -> Printf.printf " %d" (int_of_z (check_path_layout !eps rs p s d))) (List.rev !paths);
      print_newline ();
      rects := []; paths := []
    | _ -> ()
  done with End_of_file -> ()

let () = match Sys.argv.(1) with "tri" -> tri_mode () | _ -> layout_mode ()
