(* Extraction for C05: closed-form spec, brute-force search, grid oracle and route checker (independent of Gen). *)
Require Extraction.
Require Import ExtrOcamlBasic.
From Adapt Require Import Num.Qaux Avoid.BendsSpec Avoid.GridOracle.
Extraction "c05_spec.ml" min_bends_spec bfs_min_bends witness nb orth_pathb path_end dir_code oracle_dirs check_path_dirs.
