(* Extraction for C09/C20: scan-line model, removeoverlaps model, verified checkers. *)
Require Extraction.
Require Import ExtrOcamlBasic.
From Adapt Require Import Num.Qaux Rect.RectBase Rect.ScanlineModel Rect.EntailModel Rect.RemoveOverlapsModel
  Cola.PseudoRandomModel.
Extraction "c09_model.ml" generateXConstraints generateYConstraints cmp_node_pos_addr cmp_node_pos_id
  entail_checkX entail_checkY topo_check removeoverlaps
  getMinX getMaxX getMinY getMaxY getCentreX getCentreY width height overlapX overlapY moveCentreX moveCentreY stream.
