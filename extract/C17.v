(* Extraction for C17: Floyd-Warshall (both initialisations, literal and row-organised loops), Dijkstra /
   johnsons, computePathLengths, the Bellman-Ford oracle, the pairing-heap model. *)
Require Extraction.
Require Import ExtrOcamlBasic.
From Adapt Require Import Num.Qaux Graph.Paths Graph.FloydWarshallModel Graph.DijkstraModel Graph.BellmanFord
  Graph.PairingHeapModel.
Extraction "c17_model.ml" mk_edges fw_current fw_fixed fw_current_lit fw_fixed_lit johnsons dijkstra_nat
  compute_path_lengths bf_all Qred
  heap_empty heap_insert find_min delete_min heap_extract_min decrease_key heap_merge elems.
