(* Extraction for C05: the bend estimator regenerated from makepath.cpp (Gen.Bends). *)
Require Extraction.
Require Import ExtrOcamlBasic.
From Adapt Require Import Num.Qaux Gen.Bends.
Extraction "c05_gen.ml" bends bends_asserts_ok orthogonalDirection orthogonalDirectionsCount dirLeft dirRight dirReverse.
