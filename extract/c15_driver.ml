(* C15 driver: replays op scripts (same syntax as harness/c15_life.cpp) on the extracted protocol model
   (core model + checkpoint-vertex layer + connection-pin layer).  argv: fk fl [fc] [fp] (0/1: which code variant, see
   LifecycleModel.v / LifecyclePinModel.v).  Pin handles: the pins the harness creates implicitly get the handles 2*id
   (S: centre pin, J: the junction's own pin) and 2*id+1 (S with npins >= 2); the generator numbers explicit pins from 200.
   Histories are separated by a line "====". *)
open C15_model

let rec nat_of_int n = if n <= 0 then O else S (nat_of_int (n - 1))
let rec int_of_nat = function O -> 0 | S n -> 1 + int_of_nat n

let parse_end toks =
  match toks with
  | "P" :: _ :: _ :: r -> (EPoint, r)
  | "S" :: s :: _ :: r -> (EObst (nat_of_int (int_of_string s)), r)
  | "J" :: j :: r -> (EObst (nat_of_int (int_of_string j)), r)
  | _ -> failwith "bad end"

let canon_queue q =
  let item = function
    | AAdd o -> Printf.sprintf "SA:%d" (int_of_nat o)
    | AMove o -> Printf.sprintf "SM:%d" (int_of_nat o)
    | ARemove o -> Printf.sprintf "SR:%d" (int_of_nat o)
    | AConn (c, ups) -> Printf.sprintf "CC:%d:%d" (int_of_nat c) (List.length ups) in
  List.sort compare (List.map item q)

let dump line px =
  let x = xs px in
  let s = core x in
  if not (alive s) then Printf.printf "%s | destroyed\n" line
  else begin
    let ints l = List.sort compare (List.map int_of_nat l) in
    (* live checkpoint vertices per connector, as the router's vertex list shows them *)
    let owners = List.sort_uniq compare (List.map (fun (c, _) -> int_of_nat c) (cpv x)) in
    let cps = List.filter (fun (_, n) -> n > 0)
        (List.map (fun c -> (c, int_of_nat (live_cp x (nat_of_int c)))) owners) in
    let pins = List.filter (fun (_, n) -> n > 0)
        (List.map (fun o -> (o, int_of_nat (pin_count px (nat_of_int o)))) (ints (active s))) in
    Printf.printf "%s | obst%s | conns%s | q%s | cp%s | pins%s | pv %d\n" line
      (String.concat "" (List.map (fun i -> " " ^ string_of_int i) (ints (active s))))
      (String.concat "" (List.map (fun i -> " " ^ string_of_int i) (ints (aconns s))))
      (String.concat "" (List.map (fun x -> " " ^ x) (canon_queue (queue s))))
      (String.concat "" (List.map (fun (c, n) -> Printf.sprintf " %d:%d" c n) cps))
      (String.concat "" (List.map (fun (o, n) -> Printf.sprintf " %d:%d" o n) pins))
      (int_of_nat (live_pins px))
  end

let () =
  let fk = Sys.argv.(1) = "1" and fl = Sys.argv.(2) = "1" in
  let fc = if Array.length Sys.argv > 3 then Sys.argv.(3) = "1" else true in
  let fp = if Array.length Sys.argv > 4 then Sys.argv.(4) = "1" else true in
  let st = ref (pinit true false) in
  let illegal = ref 0 in
  let finish () =
    let s = core (xs !st) in
    Printf.printf "END bad%s%s%s | leaked%s%s%s | illegal %d\n"
      (String.concat "" (List.map (fun i -> " " ^ string_of_int (int_of_nat i)) (bad s)))
      (String.concat "" (List.map (fun i -> " v" ^ string_of_int (int_of_nat i)) (vbad (xs !st))))
      (String.concat "" (List.map (fun i -> " p" ^ string_of_int (int_of_nat i)) (pbad !st)))
      (String.concat "" (List.map (fun i -> " " ^ string_of_int (int_of_nat i)) (if alive s then [] else heap s)))
      (String.concat "" (List.map (fun i -> " v" ^ string_of_int (int_of_nat i)) (if alive s then [] else vheap (xs !st))))
      (String.concat "" (List.map (fun i -> " p" ^ string_of_int (int_of_nat i)) (if alive s then [] else pheap !st)))
      !illegal in
  (try
    while true do
      let line = input_line stdin in
      if line = "====" then (finish (); st := pinit true false; illegal := 0)
      else if line <> "" && line.[0] <> '#' then begin
        let toks = List.filter (fun x -> x <> "") (String.split_on_char ' ' line) in
        let n s = nat_of_int (int_of_string s) in
        let ops = match toks with
          | ["R"; o; t] -> st := pinit (t = "1") (o = "0"); []
          | ["S"; id; _; _; _; _; np] ->
              let i = int_of_string id in
              [PX (XCore (ONewObst (n id))); PNewPin (n id, nat_of_int (2 * i))]
              @ (if int_of_string np >= 2 then [PNewPin (n id, nat_of_int (2 * i + 1))] else [])
          | "J" :: id :: _ -> [PX (XCore (ONewObst (n id))); PNewPin (n id, nat_of_int (2 * int_of_string id))]
          | "N" :: obj :: pid :: _ -> [PNewPin (n obj, n pid)]
          | ["XN"; pid] -> [PDelPin (n pid)]
          | "C" :: id :: r -> let (e1, r) = parse_end r in let (e2, _) = parse_end r in [PX (XCore (ONewConn (n id, e1, e2)))]
          | "E" :: id :: w :: r -> let (e, _) = parse_end r in [PX (XCore (OSetEnd (n id, (w = "1"), e)))]
          | "M" :: id :: _ -> [PX (XCore (OMove (n id)))]
          | ["D"; id] | ["DJ"; id] -> [PX (XCore (ODelObst (n id)))]
          | ["X"; id] -> [PX (XCore (ODelConn (n id)))]
          | "K" :: id :: k :: _ -> [PX (XSetCP (n id, n k))]
          | ["I"; _] -> []   (* makePathInvalid: no ownership effect *)
          | ["T"] -> [PX (XCore OProcess)]
          | ["Q"] -> [PX (XCore ODestroy)]
          | _ -> failwith ("bad line: " ^ line) in
        List.iter (fun o -> if not (plegal !st o) then incr illegal; st := pstep fk fl fc fp !st o) ops;
        dump line !st
      end
    done
  with End_of_file -> ());
  finish ()
