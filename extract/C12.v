(* Extraction for C12: the verified tree checker and the abstract hyperedge operations. *)
Require Extraction.
Require Import ExtrOcamlBasic.
From Adapt Require Import Graph.UnionFind Graph.Trees Avoid.HyperTreeModel.
Extraction "c12_model.ml" is_tree_with_leaves connectedb acyclicb leavesb leaves kruskal run_hops hop_ok.
