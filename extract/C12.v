(* Extraction for C12: the verified tree checker, the abstract hyperedge operations and the segment-level operations
   of the HyperedgeTree recorded by hook H2. *)
Require Extraction.
Require Import ExtrOcamlBasic.
From Adapt Require Import Graph.UnionFind Graph.Trees Avoid.HyperTreeModel Avoid.HyperSegModel.
Extraction "c12_model.ml" is_tree_with_leaves connectedb acyclicb leavesb leaves kruskal run_hops hop_ok
  is_treeb deg comp_uf uf_same sop_graph sop_safe sop_leaves apply_sop run_sops smooth.
