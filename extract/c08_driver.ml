(* C08 driver.  argv.(1) = gen | check.  Input format: see harness/c08_no.cpp (gen) and checks/c08.py (check).
   Z and Q stay the Coq datatypes. *)
open C08_model

let rec pos_of_int n = if n = 1 then XH else if n land 1 = 0 then XO (pos_of_int (n lsr 1)) else XI (pos_of_int (n lsr 1))
let z_of_int n = if n = 0 then Z0 else if n > 0 then Zpos (pos_of_int n) else Zneg (pos_of_int (-n))
let rec int_of_pos = function XH -> 1 | XO p -> 2 * int_of_pos p | XI p -> 2 * int_of_pos p + 1
let int_of_z = function Z0 -> 0 | Zpos p -> int_of_pos p | Zneg p -> - (int_of_pos p)
let q_of n d = { qnum = z_of_int n; qden = pos_of_int d }
let q16 n = q_of n 16
let rec nat_of_int n = if n <= 0 then O else S (nat_of_int (n - 1))
let rec int_of_nat = function O -> 0 | S k -> 1 + int_of_nat k
let rec gcd a b = if b = 0 then abs a else gcd b (a mod b)
let str_q q = let n = int_of_z q.qnum and d = int_of_pos q.qden in let g = max 1 (gcd n d) in Printf.sprintf "%d/%d" (n / g) (d / g)

type toks = { t : int array; mutable p : int }
let next tk = let v = tk.t.(tk.p) in tk.p <- tk.p + 1; v
let rec rep k f = if k <= 0 then [] else let x = f () in x :: rep (k - 1) f
let nnat tk = nat_of_int (next tk)

let print_cs tag = function
  | GErr InvalidVariableIndex -> Printf.printf "%s ERR idx\n" tag
  | GErr InvalidConstraint -> Printf.printf "%s ERR cons\n" tag
  | GOk cs ->
    let b = Buffer.create 256 in
    Buffer.add_string b (Printf.sprintf "%s OK %d" tag (List.length cs));
    List.iter (fun c -> Buffer.add_string b (Printf.sprintf " %d %d %s%s" (int_of_nat c.sl) (int_of_nat c.sr) (str_q c.sgap) (if c.seqy then " EQ" else ""))) cs;
    Buffer.add_char b '\n'; print_string (Buffer.contents b)

let gen tk =
  let n = next tk in
  let rects = rep n (fun () -> let x = next tk in let xx = next tk in let y = next tk in let yy = next tk in
                               { rx = q16 x; rX = q16 xx; ry = q16 y; rY = q16 yy }) in
  let nexg = next tk in
  let groups = rep nexg (fun () -> let k = next tk in rep k (fun () -> nnat tk)) in
  let exg = if nexg < 0 then [] else exempt_pairs groups in
  let ncex = next tk in
  let cex = rep ncex (fun () -> let a = next tk in let b = next tk in (nat_of_int (min a b), nat_of_int (max a b))) in
  let nops = next tk in
  let ops = rep nops (fun () ->
    match next tk with
    | 1 -> let id = nnat tk in let hw = q16 (next tk) in let hh = q16 (next tk) in let g = nnat tk in
           let k = next tk in let ex = rep k (fun () -> nnat tk) in OpShape (id, hw, hh, g, ex)
    | _ -> let id = nnat tk in let bx = next tk in let bX = next tk in let by = next tk in let bY = next tk in
           let mx = next tk in let mX = next tk in let my = next tk in let mY = next tk in let g = nnat tk in
           let k = next tk in let nodes = rep k (fun () -> nnat tk) in
           (* Box::Box clamps negative values to 0 *)
           let nn v = q16 (max v 0) in
           OpCluster (id, { rx = q16 bx; rX = q16 bX; ry = q16 by; rY = q16 bY },
                      { bminx = nn mx; bmaxx = nn mX; bminy = nn my; bmaxy = nn mY }, nodes, g)) in
  let nv = nnat tk in
  let ncont = next tk in
  let conts = rep ncont (fun () ->
    let cv = nnat tk in
    let nn v = q16 (max v 0) in
    let px = next tk in let pX = next tk in let py = next tk in let pY = next tk in
    let pad = { bminx = nn px; bmaxx = nn pX; bminy = nn py; bmaxy = nn pY } in
    let k = next tk in let mem = rep k (fun () -> nnat tk) in
    let kch = next tk in
    let ch = rep kch (fun () -> let v = nnat tk in let mx = next tk in let mX = next tk in let my = next tk in let mY = next tk in
                                (v, { bminx = nn mx; bmaxx = nn mX; bminy = nn my; bmaxy = nn mY })) in
    (cv, pad, mem, ch)) in
  (* trailing section (absent in old case lines): fixed-rectangle clusters (clusterVarId, rectangle index) *)
  let nfix = if tk.p < Array.length tk.t then next tk else 0 in
  let fixes = rep nfix (fun () -> let cv = nnat tk in let ri = nnat tk in (cv, ri)) in
  let st = run_ops exg cex ops in
  List.iter (fun d ->
    print_cs "N" (gen_nonoverlap d nv st rects);
    List.iter (fun (cv, pad, mem, ch) -> print_cs "C" (GOk (gen_containment d cv pad mem rects ch))) conts;
    List.iter (fun (cv, ri) -> print_cs "F" (GOk (gen_fixed_rect d cv ri rects))) fixes) [DX; DY]

(* check mode input: tolnum tolden den, n rects (x X y Y over den), npairs pairs (i j), nbox box pairs (kA A.. kB B..);
   nfx fixed-rectangle clusters (container index, padding over den, members);
   output: bits for the node pairs, bits for the box pairs, bits for the fixed-rectangle clusters (all members inside) *)
let check tk =
  let tn = next tk in let td = next tk in let tol = q_of tn td in
  let den = next tk in
  let n = next tk in
  let rects = rep n (fun () -> let x = next tk in let xx = next tk in let y = next tk in let yy = next tk in
                               { rx = q_of x den; rX = q_of xx den; ry = q_of y den; rY = q_of yy den }) in
  let r0 = { rx = q_of 1 1; rX = q_of (-1) 1; ry = q_of 1 1; rY = q_of (-1) 1 } in
  let arr = Array.of_list rects in
  let get i = if i < Array.length arr then arr.(i) else r0 in
  let np = next tk in
  let b = Buffer.create 256 in
  Buffer.add_char b 'P';
  for _ = 1 to np do
    let i = next tk in let j = next tk in
    Buffer.add_char b (if sep2b tol (get i) (get j) then '1' else '0')
  done;
  Buffer.add_string b " B";
  let nb = next tk in
  for _ = 1 to nb do
    let ka = next tk in let a = rep ka (fun () -> nnat tk) in
    let kb = next tk in let bb = rep kb (fun () -> nnat tk) in
    Buffer.add_char b (if boxes_sepb tol rects a bb then '1' else '0')
  done;
  (* fixed-rectangle clusters: nfx (container padx padX pady padY (over den) k member*k): members inside the container rectangle *)
  Buffer.add_string b " F";
  let nf = if tk.p < Array.length tk.t then next tk else 0 in
  for _ = 1 to nf do
    let ci = nnat tk in
    let px = next tk in let pX = next tk in let py = next tk in let pY = next tk in
    let pad = { bminx = q_of px den; bmaxx = q_of pX den; bminy = q_of py den; bmaxy = q_of pY den } in
    let k = next tk in let mem = rep k (fun () -> nnat tk) in
    Buffer.add_char b (if members_inside_rectb tol pad rects ci mem then '1' else '0')
  done;
  Buffer.add_string b "\n"; print_string (Buffer.contents b)

(* vars mode: the layout line of harness/c08_no.cpp (n rects | groups | clusters | user constraints | edges ideal mode); prints
   per dimension the model's variable layout (V), the user constraints' separation constraints (U) and the separation
   constraints of all cluster containment constraints (K) and of the fixed-rectangle clusters (F), variables shown by creator
   tag (see the harness). *)
let dim_of n = if n = 0 then DX else DY
let parse_cc tk =
  match next tk with
  | 1 -> let d = next tk in let l = next tk in let r = next tk in let g = next tk in let e = next tk in
         CSep (dim_of d, nat_of_int l, nat_of_int r, q16 g, e <> 0)
  | 2 -> let d = next tk in let l = next tk in let r = next tk in let g = next tk in let e = next tk in
         CSepA (dim_of d, nat_of_int l, nat_of_int r, q16 g, e <> 0)
  | 3 -> let d = next tk in let pos = next tk in let fx = next tk in let k = next tk in
         let sh = rep k (fun () -> let s = next tk in let o = next tk in (nat_of_int s, q16 o)) in
         CAlign (dim_of d, q16 pos, fx <> 0, sh)
  | 5 -> let d = next tk in let sep = next tk in let k = next tk in
         let prs = rep k (fun () -> let a = next tk in let b = next tk in (nat_of_int a, nat_of_int b)) in
         CDistrib (dim_of d, q16 sep, prs)
  | 6 -> let d = next tk in let sep = next tk in let e = next tk in let k = next tk in
         let prs = rep k (fun () -> let a = next tk in let b = next tk in (nat_of_int a, nat_of_int b)) in
         CMultiSep (dim_of d, q16 sep, e <> 0, prs)
  | _ -> failwith "bad cc code"

let vars tk =
  let n = next tk in
  let rects = rep n (fun () -> let x = next tk in let xx = next tk in let y = next tk in let yy = next tk in
                               { rx = q16 x; rX = q16 xx; ry = q16 y; rY = q16 yy }) in
  let nexg = next tk in
  let _ = rep nexg (fun () -> let k = next tk in rep k (fun () -> next tk)) in
  let ncl = next tk in
  let nn v = q16 (max v 0) in
  let fixed = ref [] and ci = ref 0 in
  let cls = Array.of_list (rep ncl (fun () ->
    let parent = next tk in
    let rect = next tk in
    let px = next tk in let pX = next tk in let py = next tk in let pY = next tk in
    let mx = next tk in let mX = next tk in let my = next tk in let mY = next tk in
    let k = next tk in let nodes = rep k (fun () -> nnat tk) in
    fixed := !fixed @ (if rect >= 0 then [(!ci, rect)] else []); incr ci;
    (parent, { bminx = nn px; bmaxx = nn pX; bminy = nn py; bmaxy = nn pY },
     { bminx = nn mx; bmaxx = nn mX; bminy = nn my; bmaxy = nn mY }, nodes))) in
  let ncc = next tk in
  let ccs = rep ncc (fun () -> parse_cc tk) in
  (* the hierarchy as the harness builds it: children in input order (addChildCluster), the root's id is ncl *)
  let rec build k =
    let (_, pad, mar, nodes) = cls.(k) in
    CT (nat_of_int k, pad, mar, nodes, kids_of k)
  and kids_of p = List.filter_map (fun j -> let (par, _, _, _) = cls.(j) in if par = p then Some (build j) else None)
                    (List.init ncl (fun j -> j)) in
  let b0 = { bminx = q16 0; bmaxx = q16 0; bminy = q16 0; bmaxy = q16 0 } in
  let root = CT (nat_of_int ncl, b0, b0, [], kids_of (-1)) in
  let str_tag = function
    | TNode i -> Printf.sprintf "N%d" (int_of_nat i)
    | TMin c -> if int_of_nat c = ncl then "R-" else Printf.sprintf "C%d-" (int_of_nat c)
    | TMax c -> if int_of_nat c = ncl then "R+" else Printf.sprintf "C%d+" (int_of_nat c)
    | TCc (j, k) -> Printf.sprintf "A%d.%d" (int_of_nat j) (int_of_nat k) in
  List.iter (fun d ->
    let flat = (ncl = 0) in
    let lay = if flat then setup_layout_flat d (nat_of_int n) ccs else setup_layout d (nat_of_int n) root ccs in
    let tg i = match tag_at lay i with Some t -> str_tag t | None -> "?" in
    let b = Buffer.create 256 in
    Buffer.add_string b (Printf.sprintf "V %d" (List.length lay));
    List.iter (fun t -> Buffer.add_string b (" " ^ str_tag t)) lay;
    Buffer.add_char b '\n';
    let user = if flat then (match gen_system d (nat_of_int n) ccs with GOk s -> GOk s.so_seps | GErr e -> GErr e)
               else setup_user_system d (nat_of_int n) root ccs in
    (match user with
     | GErr InvalidVariableIndex -> Buffer.add_string b "U ERR idx\n"
     | GErr InvalidConstraint -> Buffer.add_string b "U ERR cons\n"
     | GOk cs ->
       Buffer.add_string b (Printf.sprintf "U %d" (List.length cs));
       List.iter (fun c -> Buffer.add_string b (Printf.sprintf " %s %s %s %d" (tg c.sl) (tg c.sr) (str_q c.sgap) (if c.seqy then 1 else 0))) cs;
       Buffer.add_char b '\n');
    let ks = if flat then [] else List.concat_map snd (containments d (nat_of_int n) root rects) in
    Buffer.add_string b (Printf.sprintf "K %d" (List.length ks));
    List.iter (fun c -> Buffer.add_string b (Printf.sprintf " %s %s %s" (tg c.sl) (tg c.sr) (str_q c.sgap))) ks;
    Buffer.add_char b '\n';
    (* fixed-rectangle clusters: the equalities generated from the STORED cluster variable ids *)
    let fx = List.map (fun (c, r) -> (nat_of_int c, nat_of_int r)) !fixed in
    let fs = if flat then [] else List.concat_map snd (fixed_rect_constraints d (nat_of_int n) root fx rects) in
    Buffer.add_string b (Printf.sprintf "F %d" (List.length fs));
    List.iter (fun c -> Buffer.add_string b (Printf.sprintf " %s %s %s %d" (tg c.sl) (tg c.sr) (str_q c.sgap) (if c.seqy then 1 else 0))) fs;
    Buffer.add_char b '\n';
    print_string (Buffer.contents b)) [DX; DY]

(* exempt mode: the line of harness mode `exempt` [ku ids | ncalls (avoid nexg groups) x ncalls]: after every call the stored set and
   shapePairIsExempt for every ordered pair of distinct ids of the universe, once for the exemption object driven directly
   (D) and once for the layout object's options (L).  noclear = true: the model WITHOUT m_exempt_pairs.clear() (diagnosis only). *)
let read_groups tk =
  let nexg = next tk in
  rep nexg (fun () -> let k = next tk in rep k (fun () -> nnat tk))
let exempt noclear tk =
  let ku = next tk in
  let u = rep ku (fun () -> next tk) in
  let un = List.map (fun i -> (i, nat_of_int i)) u in
  let ncalls = next tk in
  let d = Buffer.create 256 and l = Buffer.create 256 in
  Buffer.add_string d "D"; Buffer.add_string l "L";
  let dump b st =
    Buffer.add_string b (Printf.sprintf " %d" (List.length st));
    List.iter (fun (x, y) -> Buffer.add_string b (Printf.sprintf " %d %d" (int_of_nat x) (int_of_nat y))) st;
    Buffer.add_string b " b";
    List.iter (fun (i, a) -> List.iter (fun (j, c) ->
      if i <> j then Buffer.add_char b (if shape_pair_is_exempt st a c then '1' else '0')) un) un in
  let st = ref [] and o = ref opts0 in
  for _ = 1 to ncalls do
    let avoid = next tk <> 0 in
    let groups = read_groups tk in
    st := (if noclear then add_exempt_groups_noclear !st groups else add_exempt_groups !st groups);
    o := (if noclear then set_avoid_noclear !o avoid groups else set_avoid !o avoid groups);
    Buffer.add_string d " C"; dump d !st;
    Buffer.add_string l (Printf.sprintf " C %d" (if !o.o_avoid then 1 else 0)); dump l !o.o_ex
  done;
  Buffer.add_char d '\n'; Buffer.add_char l '\n';
  print_string (Buffer.contents d); print_string (Buffer.contents l)

(* oblige mode: n | ncalls (avoid nexg groups)*  ->  "m (i j)*m": the node pairs that must not overlap after this sequence of
   setAvoidNodeOverlaps calls (obliged_pairs (after_calls calls) n; C08_obliged_pairs_after_calls) *)
let oblige tk =
  let n = nnat tk in
  let ncalls = next tk in
  let calls = rep ncalls (fun () -> let avoid = next tk <> 0 in let groups = read_groups tk in (avoid, groups)) in
  let prs = obliged_pairs (after_calls calls) n in
  let b = Buffer.create 256 in
  Buffer.add_string b (string_of_int (List.length prs));
  List.iter (fun (i, j) -> Buffer.add_string b (Printf.sprintf " %d %d" (int_of_nat i) (int_of_nat j))) prs;
  Buffer.add_char b '\n'; print_string (Buffer.contents b)

let () =
  let mode = if Array.length Sys.argv > 1 then Sys.argv.(1) else "gen" in
  try
    while true do
      let line = input_line stdin in
      if String.length line > 0 then begin
        let ws = List.filter (fun x -> x <> "" && x <> "|") (String.split_on_char ' ' (String.trim line)) in
        let tk = { t = Array.of_list (List.map int_of_string ws); p = 0 } in
        if mode = "gen" then gen tk else if mode = "vars" then vars tk else if mode = "exempt" then exempt false tk
        else if mode = "exempt-noclear" then exempt true tk else if mode = "oblige" then oblige tk else check tk
      end
    done
  with End_of_file -> ()
