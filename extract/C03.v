(* Extraction for C03 / C04: the verified route checker, the known-finding classifier and the reference router. *)
Require Extraction.
Require Import ExtrOcamlBasic.
From Adapt Require Import Num.Qaux Geom.GeomSpec Geom.GeomSpecDec Avoid.SegPolyModel Avoid.RefRouterModel Avoid.RefRouterVertexOnlyModel.
Extraction "c03_model.ml"
  route_ok offenders degenerate_chord convex_ccw through_interior inside_strict inside_closed seg_clear segs_clear
  route_plain route_taut route_taut_vertex_only taut_select polyline_len polyline_turns spec_validateBendPoint spec_inValidRegion lenZ
  spec_shapeBlocks spec_touchCount spec_crossesEdge poly_edges.
