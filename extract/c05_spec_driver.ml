(* C05 spec driver.
   mode `bends R`:  same sweep as harness/c05_bends.cpp; prints the closed-form spec value, the brute-force BFS value
                    (integer offsets only) and whether the witness path is valid and attains the value.
   mode `routes`:   stdin: one line per connector
                      pen ns (x0 y0 x1 y1)*ns sx sy dx dy sd ad n (x y)*n   (sd/ad: masks over N=1,E=2,S=4,W=8 for first / arrival segment)
                    (n = number of points of the implementation's route, integers); stdout per line:
                      <oracle status> <oracle cost> <impl status> <impl cost> | oracle path
                    status: ok / unreachable / fuel / badpath ; impl status: ok / invalid *)
open C05_spec

let rec pos_of_int n = if n = 1 then XH else if n land 1 = 0 then XO (pos_of_int (n lsr 1)) else XI (pos_of_int (n lsr 1))
let z_of_int n = if n = 0 then Z0 else if n > 0 then Zpos (pos_of_int n) else Zneg (pos_of_int (-n))
let rec int_of_pos = function XH -> 1 | XO p -> 2 * int_of_pos p | XI p -> 2 * int_of_pos p + 1
let int_of_z = function Z0 -> 0 | Zpos p -> int_of_pos p | Zneg p -> - (int_of_pos p)
let q4 n = { qnum = z_of_int n; qden = XO (XO XH) }
let pt4 x y = { px = q4 x; py = q4 y }
let rec nat_of_int n = if n <= 0 then O else S (nat_of_int (n - 1))
let dir_of = function 1 -> DN | 2 -> DE | 4 -> DS | _ -> DW
let qeq a b = (* exact comparison of two Coq rationals *)
  int_of_z a.qnum * int_of_pos b.qden = int_of_z b.qnum * int_of_pos a.qden

let bends_mode r =
  List.iter (fun (bx, by, s) ->
    for dx = -r to r do for dy = -r to r do
      List.iter (fun cd -> List.iter (fun dd ->
        let curr = pt4 bx by and dest = pt4 (bx + s * dx) (by + s * dy) in
        let c = dir_of cd and d = dir_of dd in
        let v = int_of_z (min_bends_spec curr c dest d) in
        let bfs = if dx = 0 && dy = 0 then -2 else
          match bfs_min_bends (z_of_int (r + 1)) Z0 Z0 c (z_of_int dx) (z_of_int dy) d with
          | Some k -> int_of_z k | None -> -1 in
        let wok = if dx = 0 && dy = 0 then 1 else begin
          let w = witness curr c dest d in
          let e = path_end curr w in
          if orth_pathb c w d && qeq e.px dest.px && qeq e.py dest.py && int_of_z (nb c w d) = v then 1 else 0 end in
        Printf.printf "%d %d %d %d %d %d %d %d %d %d\n" bx by s dx dy cd dd v bfs wok)
        [1;2;4;8]) [1;2;4;8]
    done done) [(0, 0, 4); (6, -9, 1); (-20, 12, 8)]

let routes_mode () =
  (try while true do
    let line = input_line stdin in
    let t = Array.of_list (List.filter (fun s -> s <> "") (String.split_on_char ' ' line)) in
    if Array.length t > 0 then begin
      let k = ref 0 in
      let next () = let v = int_of_string t.(!k) in incr k; v in
      let pen = next () in
      let ns = next () in
      let rs = List.init ns (fun _ -> let a = next () in let b = next () in let c = next () in let d = next () in
                 { rx0 = z_of_int a; ry0 = z_of_int b; rx1 = z_of_int c; ry1 = z_of_int d }) in
      let sx = next () in let sy = next () in let dx = next () in let dy = next () in
      let sd = z_of_int (next ()) in let ad = z_of_int (next ()) in
      let n = next () in
      let route = List.init n (fun _ -> let x = next () in let y = next () in (z_of_int x, z_of_int y)) in
      let src = (z_of_int sx, z_of_int sy) and dst = (z_of_int dx, z_of_int dy) in
      let zpen = z_of_int pen in
      let (os, oc, op) = match oracle_dirs rs src dst zpen sd ad (nat_of_int 200) with
        | OR_cost (c, p) -> ("ok", int_of_z c, p)
        | OR_unreachable -> ("unreachable", -1, [])
        | OR_out_of_fuel -> ("fuel", -1, [])
        | OR_bad_path (c, p) -> ("badpath", int_of_z c, p) in
      let (is, ic) = match check_path_dirs rs src dst zpen sd ad route with
        | Some c -> ("ok", int_of_z c) | None -> ("invalid", -1) in
      Printf.printf "%s %d %s %d |" os oc is ic;
      List.iter (fun (x, y) -> Printf.printf " %d %d" (int_of_z x) (int_of_z y)) op;
      print_newline ()
    end
  done with End_of_file -> ())

let () =
  match Sys.argv.(1) with
  | "bends" -> bends_mode (int_of_string Sys.argv.(2))
  | _ -> routes_mode ()
