(* C05 gen driver: the same sweep as harness/c05_bends.cpp `bends`, through the extracted generated code.
   Coordinates are in quarter units: point = (bx + s*dx)/4 with base (bx,by) and scale s. *)
open C05_gen

let rec pos_of_int n = if n = 1 then XH else if n land 1 = 0 then XO (pos_of_int (n lsr 1)) else XI (pos_of_int (n lsr 1))
let z_of_int n = if n = 0 then Z0 else if n > 0 then Zpos (pos_of_int n) else Zneg (pos_of_int (-n))
let rec int_of_pos = function XH -> 1 | XO p -> 2 * int_of_pos p | XI p -> 2 * int_of_pos p + 1
let int_of_z = function Z0 -> 0 | Zpos p -> int_of_pos p | Zneg p -> - (int_of_pos p)
let q4 n = { qnum = z_of_int n; qden = XO (XO XH) }
let pt4 x y = { px = q4 x; py = q4 y }

let () =
  let r = int_of_string Sys.argv.(1) in
  List.iter (fun (bx, by, s) ->
    for dx = -r to r do for dy = -r to r do
      List.iter (fun cd -> List.iter (fun dd ->
        let curr = pt4 bx by and dest = pt4 (bx + s * dx) (by + s * dy) in
        let v = int_of_z (bends curr (z_of_int cd) dest (z_of_int dd)) in
        let a = bends_asserts_ok curr (z_of_int cd) dest (z_of_int dd) in
        Printf.printf "%d %d %d %d %d %d %d %d %d\n" bx by s dx dy cd dd v (if a then 1 else 0))
        [1;2;4;8]) [1;2;4;8]
    done done) [(0, 0, 4); (6, -9, 1); (-20, 12, 8)]
