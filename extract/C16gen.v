(* Extraction for C16: the predicates regenerated from geometry.cpp (Gen.Geometry) and from linesegment.h (Gen.LineSeg);
   lineIntersections_model is the hand-written composition of Rectangle::lineIntersections, instantiated in the driver
   with the generated LineSegment_Intersect. *)
Require Extraction.
Require Import ExtrOcamlBasic.
From Adapt Require Import Num.Qaux Gen.Geometry Geom.LineSegTypes Geom.LineSegSpec Gen.LineSeg.
Extraction "c16_gen.ml"
  vecDir pointOnLine colinear inBetween segmentIntersect segmentShapeIntersect inValidRegion cornerSide
  segmentIntersectPoint rayIntersectPoint manhattanDist inPoly inPolyGen projection
  LineSegment_Intersect lineIntersections_model ri0.
