(* Extraction for C16: the predicates regenerated from geometry.cpp (Gen.Geometry). *)
Require Extraction.
Require Import ExtrOcamlBasic.
From Adapt Require Import Num.Qaux Gen.Geometry.
Extraction "c16_gen.ml"
  vecDir pointOnLine colinear inBetween segmentIntersect segmentShapeIntersect inValidRegion cornerSide
  segmentIntersectPoint rayIntersectPoint manhattanDist inPoly inPolyGen projection.
