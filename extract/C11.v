(* Extraction for C11: the pin model and the verified route checkers (independent of Gen). *)
Require Extraction.
Require Import ExtrOcamlBasic.
From Adapt Require Import Num.Qaux Avoid.PinsModel.
Extraction "c11_model.ml" init step step_ok candidates pin_pos pin_directions default_exclusive
  end_honoured end_at_some_pin visits_in_order exclusive_ok pin_position poly_bbox Qred.
