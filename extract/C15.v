(* Extraction for C15: the router lifecycle / queued-action protocol model with the checkpoint-vertex layer and the connection-pin layer. *)
Require Extraction.
Require Import ExtrOcamlBasic.
From Adapt Require Import Avoid.LifecycleModel Avoid.LifecyclePinModel.
Extraction "c15_model.ml" init step legal heap active aconns queue bad freed alive
  xinit xstep xlegal core vheap cpv vfreed vbad live_cp
  pinit pstep plegal xs pheap pown pfreed pbad pin_count live_pins.
