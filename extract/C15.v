(* Extraction for C15: the router lifecycle / queued-action protocol model with the checkpoint-vertex layer. *)
Require Extraction.
Require Import ExtrOcamlBasic.
From Adapt Require Import Avoid.LifecycleModel.
Extraction "c15_model.ml" init step legal heap active aconns queue bad freed alive
  xinit xstep xlegal core vheap cpv vfreed vbad live_cp.
