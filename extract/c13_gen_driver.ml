(* C13 gen driver: stdin lines "dim left pn gn u1 u2 v1 v2 w1 w2" (as harness/c13_topo.cpp tri); prints
   msa slackAtInitial slackAtFinal slack(u2,v1,w2) asserts_ok   with numbers as num/den *)
open C13_gen
let rec pos_of_int n = if n = 1 then XH else if n land 1 = 0 then XO (pos_of_int (n lsr 1)) else XI (pos_of_int (n lsr 1))
let z_of_int n = if n = 0 then Z0 else if n > 0 then Zpos (pos_of_int n) else Zneg (pos_of_int (-n))
(* numbers stay Coq Z: print in decimal by repeated division by 10^9 done on the Coq side would need Z.div; we only
   need rationals whose numerator/denominator fit 62 bits here (inputs are n/64, n/8), so convert through int *)
let rec int_of_pos = function XH -> 1 | XO p -> 2 * int_of_pos p | XI p -> 2 * int_of_pos p + 1
let int_of_z = function Z0 -> 0 | Zpos p -> int_of_pos p | Zneg p -> - (int_of_pos p)
let q n d = { qnum = z_of_int n; qden = pos_of_int d }
let pq x = let x = qred x in Printf.sprintf "%d/%d" (int_of_z x.qnum) (int_of_pos x.qden)
let () =
  try while true do
    let line = input_line stdin in
    match List.map int_of_string (List.filter (fun s -> s <> "") (String.split_on_char ' ' line)) with
    | [_dim; left; pn; gn; u1; u2; v1; v2; w1; w2] ->
      let t = { tc_p = q pn 8; tc_g = q gn 32768; tc_leftOf = (left <> 0);
                tc_u1 = q u1 32768; tc_u2 = q u2 32768; tc_v1 = q v1 32768; tc_v2 = q v2 32768; tc_w1 = q w1 32768; tc_w2 = q w2 32768 } in
      Printf.printf "%s %s %s %s %d\n" (pq (maxSafeAlpha t)) (pq (slackAtInitial t)) (pq (slackAtFinal t))
        (pq (slack t t.tc_u2 t.tc_v1 t.tc_w2)) (if maxSafeAlpha_asserts_ok t then 1 else 0)
    | _ -> ()
  done with End_of_file -> ()
