(* C11 driver: command interpreter around the extracted pin model (Avoid/PinsModel.v).  Reads commands from the
   file argv.(1), prints one answer line per query.  Numbers cross as "num/den" (exact); Z and Q stay Coq datatypes.
   Commands:
     NEW | PIN shape class xoff yoff inside dirs prop excl | CEND shape class | SHAPE idx n x y ... | START
     OP ASSIGN e p | OP FREE e | OP MOVE s dx dy | OP RESIZE s n x y ... | OP DEL s | OP RETARGET e s c
     Q                                   -> OK b / PIN i .. / ACT e p / CAND e ps / END e shape class / ENDQ
     DIRS xoff yoff dirs                 -> DIRS d defexcl
     HON orth qx qy q1x q1y n (x y dirs)* -> HON b atpin
     VIS n (x y)* m (x y)*               -> VIS b
     EXCL n (excl nusers)*               -> EXCL b
     POS minx miny maxx maxy xoff yoff inside prop -> POS x y *)
open C11_model

let rec pos_of_int n = if n = 1 then XH else if n land 1 = 0 then XO (pos_of_int (n lsr 1)) else XI (pos_of_int (n lsr 1))
let z_of_int n = if n = 0 then Z0 else if n > 0 then Zpos (pos_of_int n) else Zneg (pos_of_int (-n))
let rec int_of_pos = function XH -> 1 | XO p -> 2 * int_of_pos p | XI p -> 2 * int_of_pos p + 1
let int_of_z = function Z0 -> 0 | Zpos p -> int_of_pos p | Zneg p -> - (int_of_pos p)
let rec nat_of_int n = if n <= 0 then O else S (nat_of_int (n - 1))
let rec int_of_nat = function O -> 0 | S n -> 1 + int_of_nat n
let q_of_string s =
  match String.index_opt s '/' with
  | None -> { qnum = z_of_int (int_of_string s); qden = XH }
  | Some k -> qred { qnum = z_of_int (int_of_string (String.sub s 0 k));
                     qden = pos_of_int (int_of_string (String.sub s (k + 1) (String.length s - k - 1))) }
let float_of_q q = let q = qred q in float_of_int (int_of_z q.qnum) /. float_of_int (int_of_pos q.qden)
let bstr b = if b then "1" else "0"

let () =
  let ic = open_in Sys.argv.(1) in
  let pins = ref [] and ends = ref [] and shapes = Hashtbl.create 16 in
  let st = ref (init [] [] (fun _ -> None)) and ok = ref true in
  let npins = ref 0 and nends = ref 0 in
  (try
    while true do
      let line = input_line ic in
      let w = Array.of_list (List.filter (fun s -> s <> "") (String.split_on_char ' ' line)) in
      if Array.length w > 0 then begin
        let q i = q_of_string w.(i) and n i = int_of_string w.(i) in
        let pts from cnt = List.init cnt (fun k -> { px = q (from + 2 * k); py = q (from + 2 * k + 1) }) in
        match w.(0) with
        | "NEW" -> pins := []; ends := []; Hashtbl.reset shapes; ok := true
        | "PIN" ->
            let pr = { p_shape = nat_of_int (n 1); p_class = z_of_int (n 2); p_xoff = q 3; p_yoff = q 4; p_inside = q 5;
                       p_dirs = z_of_int (n 6); p_prop = (n 7 <> 0); p_excl = (n 8 <> 0) } in
            (* excl < 0: the constructor's default (non-exclusive iff directions() = ConnDirAll) *)
            pins := (if n 8 < 0 then { pr with p_excl = default_exclusive pr } else pr) :: !pins
        | "CEND" -> ends := { e_shape = nat_of_int (n 1); e_class = z_of_int (n 2) } :: !ends
        | "SHAPE" -> Hashtbl.replace shapes (n 1) (pts 3 (n 2))
        | "START" ->
            let tbl = Hashtbl.copy shapes in
            let ps = List.rev !pins and es = List.rev !ends in
            npins := List.length ps; nends := List.length es;
            st := init ps es (fun s -> Hashtbl.find_opt tbl (int_of_nat s))
        | "OP" ->
            let o = (match w.(1) with
              | "ASSIGN" -> Assign (nat_of_int (n 2), nat_of_int (n 3))
              | "FREE" -> Free (nat_of_int (n 2))
              | "MOVE" -> MoveShape (nat_of_int (n 2), q 3, q 4)
              | "RESIZE" -> Resize (nat_of_int (n 2), pts 4 (n 3))
              | "DEL" -> DeleteShape (nat_of_int (n 2))
              | "RETARGET" -> Retarget (nat_of_int (n 2), nat_of_int (n 3), z_of_int (n 4))
              | _ -> failwith "bad op") in
            if not (step_ok !st o) then begin ok := false; Printf.printf "REFUSED %s\n" line end;
            st := step !st o
        | "Q" ->
            Printf.printf "OK %s\n" (bstr !ok);
            for i = 0 to !npins - 1 do
              let pr = pin_of !st (nat_of_int i) in
              (match pin_pos !st (nat_of_int i) with
               | None -> Printf.printf "PIN %d dead\n" i
               | Some p ->
                   Printf.printf "PIN %d %.17g %.17g %d %s users" i (float_of_q p.px) (float_of_q p.py)
                     (int_of_z (pin_directions pr)) (bstr pr.p_excl);
                   List.iter (fun u -> Printf.printf " %d" u)
                     (List.sort compare (List.map int_of_nat (!st.users (nat_of_int i))));
                   print_newline ())
            done;
            for e = 0 to !nends - 1 do
              (match !st.active (nat_of_int e) with
               | None -> Printf.printf "ACT %d -1\n" e
               | Some p -> Printf.printf "ACT %d %d\n" e (int_of_nat p));
              Printf.printf "CAND %d" e;
              List.iter (fun p -> Printf.printf " %d" (int_of_nat p)) (candidates !st (nat_of_int e));
              print_newline ();
              (match List.nth_opt !st.st_ends e with
               | Some r -> Printf.printf "END %d %d %d\n" e (int_of_nat r.e_shape) (int_of_z r.e_class)
               | None -> ())
            done;
            print_string "ENDQ\n"
        | "DIRS" ->
            let pr = { pin0 with p_xoff = q 1; p_yoff = q 2; p_dirs = z_of_int (n 3) } in
            Printf.printf "DIRS %d %s\n" (int_of_z (pin_directions pr)) (bstr (default_exclusive pr))
        | "HON" ->
            let orth = n 1 <> 0 in
            let a = { px = q 2; py = q 3 } and b = { px = q 4; py = q 5 } in
            let cnt = n 6 in
            let cands = List.init cnt (fun k -> ({ px = q (7 + 3 * k); py = q (8 + 3 * k) }, z_of_int (n (9 + 3 * k)))) in
            Printf.printf "HON %s %s\n" (bstr (end_honoured orth a b cands)) (bstr (end_at_some_pin a cands))
        | "VIS" ->
            let cnt = n 1 in
            let route = pts 2 cnt in
            let m = n (2 + 2 * cnt) in
            let cps = pts (3 + 2 * cnt) m in
            Printf.printf "VIS %s\n" (bstr (visits_in_order route cps))
        | "EXCL" ->
            let cnt = n 1 in
            let ex = List.init cnt (fun k -> n (2 + 2 * k) <> 0) and nu = List.init cnt (fun k -> nat_of_int (n (3 + 2 * k))) in
            Printf.printf "EXCL %s\n" (bstr (exclusive_ok ex nu))
        | "POS" ->
            let b = { bminx = q 1; bminy = q 2; bmaxx = q 3; bmaxy = q 4 } in
            let p = pin_position b (q 5) (q 6) (q 7) (n 8 <> 0) in
            Printf.printf "POS %.17g %.17g\n" (float_of_q p.px) (float_of_q p.py)
        | s -> failwith ("unknown command " ^ s)
      end
    done
  with End_of_file -> ());
  close_in ic
