(* C07 driver.  argv.(1) = gen | check.  One case per stdin line, same integer format as harness/c07_cc.cpp
   (every real parameter is an integer k meaning k/16).
   gen:   prints for dim X then dim Y the model's  OK <naux> (des weight fixed)* F <k> id* C <m> (l r gap eq)*  | ERR idx|cons
   check: the line carries, after the cc list, "| tolnum tolden | den cx0 cy0 ... " (centres as integers over den);
          prints for every cc "<holdsX><holdsY>" using the extracted verified checker cc_holdsb.
   trace: line "rk xAxis yAxis iters" (0/1 0/1 0/1 n): prints the projections (solves) of the model's run_trace in program order,
          one letter per WProj (x / y), and the model's last_write to X and to Y (P = a projection output of that dimension).
   cursor: the sub-constraint cursor protocol of makeFeasible() (Cola/SubCursorModel.v).  Line = the case (cc list) followed by
          one "| w_0 ... w_{ncc-1}" group per makeFeasible() call: w_j has one character per sub-constraint of object j, the decision
          the implementation was observed to take (1 / 0 = markCurrSubConstraintAsActive(true / false), x = never marked; "-" when
          the object has no sub-constraints).  The objects are `constructed` once and threaded through the calls (mf_call with the
          rewind, the oracle = the observed decisions); prints per call and per object  kind:n:cursor:flags:trace  (kind N / C / S,
          trace = cc_trace in the harness's event syntax), calls separated by " | ".
   Z and Q stay the Coq datatypes. *)
open C07_model

let rec pos_of_int n = if n = 1 then XH else if n land 1 = 0 then XO (pos_of_int (n lsr 1)) else XI (pos_of_int (n lsr 1))
let z_of_int n = if n = 0 then Z0 else if n > 0 then Zpos (pos_of_int n) else Zneg (pos_of_int (-n))
let rec int_of_pos = function XH -> 1 | XO p -> 2 * int_of_pos p | XI p -> 2 * int_of_pos p + 1
let int_of_z = function Z0 -> 0 | Zpos p -> int_of_pos p | Zneg p -> - (int_of_pos p)
let q_of n d = { qnum = z_of_int n; qden = pos_of_int d }
let q16 n = q_of n 16
let rec nat_of_int n = if n <= 0 then O else S (nat_of_int (n - 1))
let rec int_of_nat = function O -> 0 | S k -> 1 + int_of_nat k
let dim_of n = if n = 0 then DX else DY
let rec gcd a b = if b = 0 then abs a else gcd b (a mod b)
let str_q q = let n = int_of_z q.qnum and d = int_of_pos q.qden in let g = max 1 (gcd n d) in Printf.sprintf "%d/%d" (n / g) (d / g)

type toks = { t : int array; mutable p : int }
let next tk = let v = tk.t.(tk.p) in tk.p <- tk.p + 1; v
let rec rep k f = if k <= 0 then [] else let x = f () in x :: rep (k - 1) f

let parse_cc tk cx cy =
  match next tk with
  | 1 -> let d = next tk in let l = next tk in let r = next tk in let g = next tk in let e = next tk in
         CSep (dim_of d, nat_of_int l, nat_of_int r, q16 g, e <> 0)
  | 2 -> let d = next tk in let l = next tk in let r = next tk in let g = next tk in let e = next tk in
         CSepA (dim_of d, nat_of_int l, nat_of_int r, q16 g, e <> 0)
  | 3 -> let d = next tk in let pos = next tk in let fx = next tk in let k = next tk in
         let sh = rep k (fun () -> let s = next tk in let o = next tk in (nat_of_int s, q16 o)) in
         CAlign (dim_of d, q16 pos, fx <> 0, sh)
  | 4 -> let d = next tk in let pos = next tk in let k = next tk in
         let sh = rep k (fun () -> let s = next tk in let o = next tk in (nat_of_int s, q16 o)) in
         CBoundary (dim_of d, q16 pos, sh)
  | 5 -> let d = next tk in let sep = next tk in let k = next tk in
         let prs = rep k (fun () -> let a = next tk in let b = next tk in (nat_of_int a, nat_of_int b)) in
         CDistrib (dim_of d, q16 sep, prs)
  | 6 -> let d = next tk in let sep = next tk in let e = next tk in let k = next tk in
         let prs = rep k (fun () -> let a = next tk in let b = next tk in (nat_of_int a, nat_of_int b)) in
         CMultiSep (dim_of d, q16 sep, e <> 0, prs)
  | 7 -> let fp = next tk in let k = next tk in
         let ids = rep k (fun () -> nat_of_int (next tk)) in
         CFixedRel (fp <> 0, ids, cx, cy)
  | 8 -> let xlo = next tk in let xhi = next tk in let ylo = next tk in let yhi = next tk in let w = next tk in let k = next tk in
         let sh = rep k (fun () -> let s = next tk in let hx = next tk in let hy = next tk in (nat_of_int s, (q16 hx, q16 hy))) in
         CPage (q16 xlo, q16 xhi, q16 ylo, q16 yhi, q16 w, sh)
  | _ -> failwith "bad cc code"

let parse_case tk =
  let n = next tk in
  let rects = rep n (fun () -> let x = next tk in let xx = next tk in let y = next tk in let yy = next tk in (x, xx, y, yy)) in
  (* centre = min + (max - min)/2, exact: (x + X)/32 *)
  let cx = List.map (fun (x, xx, _, _) -> q_of (x + xx) 32) rects in
  let cy = List.map (fun (_, _, y, yy) -> q_of (y + yy) 32) rects in
  let ncc = next tk in
  let ccs = rep ncc (fun () -> parse_cc tk cx cy) in
  (n, ccs)

let print_gen d n ccs =
  match gen_system d (nat_of_int n) ccs with
  | GErr InvalidVariableIndex -> print_string "ERR idx\n"
  | GErr InvalidConstraint -> print_string "ERR cons\n"
  | GOk s ->
    let b = Buffer.create 256 in
    Buffer.add_string b (Printf.sprintf "OK %d" (List.length s.so_aux));
    List.iter (fun a -> Buffer.add_string b (Printf.sprintf " %s %s %d" (str_q a.av_des) (str_q a.av_weight) (if a.av_fixed then 1 else 0))) s.so_aux;
    Buffer.add_string b (Printf.sprintf " F %d" (List.length s.so_fixed));
    List.iter (fun i -> Buffer.add_string b (Printf.sprintf " %d" (int_of_nat i))) s.so_fixed;
    Buffer.add_string b (Printf.sprintf " C %d" (List.length s.so_seps));
    List.iter (fun c -> Buffer.add_string b (Printf.sprintf " %d %d %s %d" (int_of_nat c.sl) (int_of_nat c.sr) (str_q c.sgap) (if c.seqy then 1 else 0))) s.so_seps;
    Buffer.add_char b '\n'; print_string (Buffer.contents b)

let trace_line line =
  let t = Array.of_list (List.map int_of_string (List.filter (fun x -> x <> "") (String.split_on_char ' ' (String.trim line)))) in
  let tr = run_trace (t.(0) <> 0) (t.(1) <> 0) (t.(2) <> 0) (nat_of_int t.(3)) in
  let b = Buffer.create 256 in
  List.iter (fun w -> match w with WProj DX -> Buffer.add_char b 'x' | WProj DY -> Buffer.add_char b 'y' | _ -> ()) tr;
  if Buffer.length b = 0 then Buffer.add_char b '-';
  let lw d = match last_write d tr with Some (WProj d') when d' = d -> "P" | Some _ -> "other" | None -> "none" in
  Printf.printf "%s %s %s\n" (Buffer.contents b) (lw DX) (lw DY)

let cursor_line line =
  let parts = String.split_on_char '|' line in
  let ints s = Array.of_list (List.map int_of_string (List.filter (fun x -> x <> "") (String.split_on_char ' ' (String.trim s)))) in
  let tk = { t = ints (List.hd parts); p = 0 } in
  let (_, ccs) = parse_case tk in
  let calls = List.map (fun s -> Array.of_list (List.filter (fun x -> x <> "") (String.split_on_char ' ' (String.trim s)))) (List.tl parts) in
  let fuel = nat_of_int (2 + List.fold_left (fun m c -> max m (int_of_nat (cc_nsubs c))) 0 ccs) in
  let st = ref (constructed ccs) in
  let b = Buffer.create 256 in
  let ev_str e = match e with
    | EInactive _ -> "I" | ERemaining (_, r) -> if r then "R1" else "R0" | EOffer (_, k) -> Printf.sprintf "G%d" (int_of_nat k)
    | ETry (_, _, _, _) -> "T" | EMark (_, k, s) -> Printf.sprintf "M%d:%d" (int_of_nat k) (if s then 1 else 0) in
  List.iteri (fun ci w ->
    if ci > 0 then Buffer.add_string b " | ";
    let dec c k =
      let c = int_of_nat c and k = int_of_nat k in
      if c < Array.length w && k < String.length w.(c) then (match w.(c).[k] with '1' -> Some true | '0' -> Some false | _ -> None) else None in
    match mf_call (oracle_of dec) true fuel !st [] with
    | ROutOfFuel -> Buffer.add_string b "FUEL"
    | RAssert -> Buffer.add_string b "ASSERT"
    | ROk (st', a) ->
      st := st';
      List.iteri (fun j s ->
        if j > 0 then Buffer.add_char b ' ';
        let fl = String.concat "" (List.map (fun x -> if x then "1" else "0") s.cflags) in
        let tr = String.concat "," (List.map ev_str (cc_trace (nat_of_int j) a.a_log)) in
        Buffer.add_string b (Printf.sprintf "%s:%d:%d:%s:%s" (match s.ck with KNormal -> "N" | KCombine -> "C" | KSkip -> "S")
                               (int_of_nat s.cn) (int_of_nat s.ccur) (if fl = "" then "-" else fl) (if tr = "" then "-" else tr))) st') calls;
  Buffer.add_char b '\n'; print_string (Buffer.contents b)

let () =
  let mode = if Array.length Sys.argv > 1 then Sys.argv.(1) else "gen" in
  try
    while true do
      let line = input_line stdin in
      if String.length line > 0 && mode = "trace" then trace_line line
      else if String.length line > 0 && mode = "cursor" then cursor_line line
      else if String.length line > 0 then begin
        let parts = String.split_on_char '|' line in
        let ints s = Array.of_list (List.map int_of_string (List.filter (fun x -> x <> "") (String.split_on_char ' ' (String.trim s)))) in
        let tk = { t = ints (List.nth parts 0); p = 0 } in
        let (n, ccs) = parse_case tk in
        if mode = "gen" then begin
          print_gen DX n ccs; print_gen DY n ccs
        end else begin
          let tl = ints (List.nth parts 1) in
          let tol = q_of tl.(0) tl.(1) in
          let cs = ints (List.nth parts 2) in
          let den = cs.(0) in
          let xs = List.init n (fun i -> q_of cs.(1 + 2 * i) den) and ys = List.init n (fun i -> q_of cs.(2 + 2 * i) den) in
          let b = Buffer.create 64 in
          List.iter (fun c ->
            Buffer.add_char b (if cc_holdsb tol DX ccs (lv xs) c then '1' else '0');
            Buffer.add_char b (if cc_holdsb tol DY ccs (lv ys) c then '1' else '0');
            Buffer.add_char b ' ') ccs;
          Buffer.add_char b '\n'; print_string (Buffer.contents b)
        end
      end
    done
  with End_of_file -> ()
