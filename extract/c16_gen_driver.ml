(* C16 driver: enumerates the same grids as harness/c16_geom.cpp and prints the results of the extracted
   functions.  argv: <G> <GP> <which>  with which = gen | spec.  Z and Q stay the Coq datatypes. *)
open C16_gen

let rec pos_of_int n = if n = 1 then XH else if n land 1 = 0 then XO (pos_of_int (n lsr 1)) else XI (pos_of_int (n lsr 1))
let z_of_int n = if n = 0 then Z0 else if n > 0 then Zpos (pos_of_int n) else Zneg (pos_of_int (-n))
let rec int_of_pos = function XH -> 1 | XO p -> 2 * int_of_pos p | XI p -> 2 * int_of_pos p + 1
let int_of_z = function Z0 -> 0 | Zpos p -> int_of_pos p | Zneg p -> - (int_of_pos p)
let q_of_int n = { qnum = z_of_int n; qden = XH }
let pt_of x y = { px = q_of_int x; py = q_of_int y }
let float_of_q q = float_of_int (int_of_z q.qnum) /. float_of_int (int_of_pos q.qden)
let q0 = q_of_int 0

let buf = Buffer.create (1 lsl 20)
let flush_section name =
  let s = Buffer.contents buf in
  Printf.printf "## %s %d\n" name (String.length s);
  let n = String.length s in
  let i = ref 0 in
  while !i < n do
    let l = min 100 (n - !i) in
    print_string (String.sub s !i l); print_char '\n';
    i := !i + l
  done;
  Buffer.clear buf

let sgnc v = let i = int_of_z v in if i < 0 then '-' else if i > 0 then '+' else '0'
let bc b = if b then '1' else '0'

(* ---- random-stream mode (argv[1] = "rand"): see harness/c16_geom.cpp rand_mode for the line format *)
let rec float_of_pos = function XH -> 1.0 | XO p -> 2.0 *. float_of_pos p | XI p -> 2.0 *. float_of_pos p +. 1.0
let float_of_z = function Z0 -> 0.0 | Zpos p -> float_of_pos p | Zneg p -> -. (float_of_pos p)
let float_of_bigq q = float_of_z q.qnum /. float_of_pos q.qden
let read_tuples f =
  (try while true do
    let line = input_line stdin in
    match List.map int_of_string (List.filter (fun s -> s <> "") (String.split_on_char ' ' (String.trim line))) with
    | [ax; ay; bx; by_; cx; cy; dx; dy; qx; qy] ->
        f (pt_of ax ay) (pt_of bx by_) (pt_of cx cy) (pt_of dx dy) (pt_of qx qy)
    | _ -> ()
  done with End_of_file -> ())

(* ---- libvpsc LineSegment::Intersect / Rectangle::lineIntersections (same conventions as harness/c16_geom.cpp) *)
let m77pt = pt_of (-77) (-77)
let seg_of a b = { lbegin = a; lend = b }
let ls_intersect a b c d =
  let (code, p) = lineSegment_Intersect (seg_of a b) (seg_of c d) m77pt in
  let r = int_of_z code in
  (Char.chr (48 + r + (if r <> 3 && p <> m77pt then 4 else 0)), r, p)
let ri_char r =
  Char.chr (65 + (if r.ri_intersects then 1 else 0) + (if r.ri_top then 2 else 0) + (if r.ri_bottom then 4 else 0)
            + (if r.ri_left then 8 else 0) + (if r.ri_right then 16 else 0))
let line_intersections x0 x1 y0 y1 l = lineIntersections_model lineSegment_Intersect x0 x1 y0 y1 l ri0

let rand_mode () =
  let m77 = q_of_int (-77) in
  read_tuples (fun a b c d q ->
    let o = Buffer.create 32 in
    let add ch = Buffer.add_char o ch in
    let vd = vecDir a b c q0 in
    add (sgnc vd);
    add (bc (pointOnLine a b c q0));
    add (bc (colinear a b c q0));
    add (if int_of_z vd = 0 then bc (inBetween a b c) else '.');
    add (bc (segmentIntersect a b c d));
    List.iter (fun seen -> let (r, s) = segmentShapeIntersect a b c d seen in
      add (Char.chr (48 + (if r then 2 else 0) + (if s then 1 else 0)))) [false; true];
    List.iter (fun ig -> add (bc (inValidRegion ig a b c d))) [false; true];
    add (sgnc (cornerSide a b c d));
    let ((sc, sx), sy) = segmentIntersectPoint a b c d m77 m77 in
    let ((rc, rx), ry) = rayIntersectPoint a b c d m77 m77 in
    add (Char.chr (48 + int_of_z sc));
    add (Char.chr (48 + int_of_z rc));
    let poly = [a; b; c; d] in
    List.iter (fun cb -> List.iter (fun p -> add (bc (inPoly poly p cb))) [a; q; d]) [false; true];
    List.iter (fun p -> add (bc (inPolyGen poly p))) [a; q; d];
    let (l1, r1, p1) = ls_intersect a b c d in
    let (l2, _, _) = ls_intersect c d a b in
    add l1; add l2;
    print_string (Buffer.contents o);
    if int_of_z sc = 1 then Printf.printf " %.17g %.17g" (float_of_bigq sx) (float_of_bigq sy) else print_string " - -";
    if int_of_z rc = 1 then Printf.printf " %.17g %.17g" (float_of_bigq rx) (float_of_bigq ry) else print_string " - -";
    Printf.printf " %.17g" (float_of_bigq (manhattanDist a b));
    if r1 = 3 then Printf.printf " %.17g %.17g\n" (float_of_bigq p1.px) (float_of_bigq p1.py) else print_string " - -\n")

let lineseg_sections g pts n it4 add =
    it4 (fun a b c d -> let (ch, _, _) = ls_intersect a b c d in add ch);
    flush_section "LineSegment_Intersect";
    print_string "## LineSegment_Intersect_xy 0\n";
    for i = 0 to n-1 do for j = 0 to n-1 do for k = 0 to n-1 do for l = 0 to n-1 do
      let (_, r, p) = ls_intersect pts.(i) pts.(j) pts.(k) pts.(l) in
      if r = 3 then Printf.printf "%d %d %d %d %.17g %.17g\n" i j k l (float_of_bigq p.px) (float_of_bigq p.py)
    done done done done;
    let gr = if Array.length Sys.argv > 3 then int_of_string Sys.argv.(3) else if g <= 4 then 4 else 5 in
    let lp = Array.init ((gr + 2) * (gr + 2)) (fun i -> pt_of (i / (gr + 2) - 1) (i mod (gr + 2) - 1)) in
    let nl = Array.length lp in
    let xy = Buffer.create (1 lsl 20) in
    let ridx = ref 0 in
    for x0 = 0 to gr-1 do for x1 = x0 to gr-1 do for y0 = 0 to gr-1 do for y1 = y0 to gr-1 do
      let qx0 = q_of_int x0 and qx1 = q_of_int x1 and qy0 = q_of_int y0 and qy1 = q_of_int y1 in
      for i = 0 to nl-1 do for j = 0 to nl-1 do
        let r = line_intersections qx0 qx1 qy0 qy1 (seg_of lp.(i) lp.(j)) in
        add (ri_char r);
        let side fl nm p = if fl then Buffer.add_string xy
          (Printf.sprintf "%d %d %d %s %.17g %.17g\n" !ridx i j nm (float_of_bigq p.px) (float_of_bigq p.py)) in
        side r.ri_top "T" r.ri_topP; side r.ri_bottom "B" r.ri_bottomP;
        side r.ri_left "L" r.ri_leftP; side r.ri_right "R" r.ri_rightP
      done done;
      incr ridx
    done done done done;
    flush_section "lineIntersections";
    print_string "## lineIntersections_xy 0\n";
    print_string (Buffer.contents xy)

let grid_mode () =
  let g = int_of_string Sys.argv.(1) and gp = int_of_string Sys.argv.(2) in
  let pts = Array.init (g * g) (fun i -> pt_of (i / g) (i mod g)) in
  let n = Array.length pts in
  let it3 f = for i = 0 to n-1 do for j = 0 to n-1 do for k = 0 to n-1 do f pts.(i) pts.(j) pts.(k) done done done in
  let it4 f = for i = 0 to n-1 do for j = 0 to n-1 do for k = 0 to n-1 do for l = 0 to n-1 do
     f pts.(i) pts.(j) pts.(k) pts.(l) done done done done in
  let add c = Buffer.add_char buf c in

    it3 (fun a b c -> add (sgnc (vecDir a b c q0))); flush_section "vecDir";
    it3 (fun a b c -> add (bc (pointOnLine a b c q0))); flush_section "pointOnLine";
    it3 (fun a b c -> add (bc (colinear a b c q0))); flush_section "colinear";
    it3 (fun a b c -> if int_of_z (vecDir a b c q0) = 0 then add (bc (inBetween a b c)) else add '.');
    flush_section "inBetween";
    it4 (fun a b c d -> add (bc (segmentIntersect a b c d))); flush_section "segmentIntersect";
    List.iter (fun seen ->
      it4 (fun a b c d -> let (r, s) = segmentShapeIntersect a b c d seen in
            add (Char.chr (48 + (if r then 2 else 0) + (if s then 1 else 0))))) [false; true];
    flush_section "segmentShapeIntersect";
    List.iter (fun ig -> it4 (fun a b c d -> add (bc (inValidRegion ig a b c d)))) [false; true];
    flush_section "inValidRegion";
    it4 (fun a b c d -> add (sgnc (cornerSide a b c d))); flush_section "cornerSide";
    let m77 = q_of_int (-77) in
    it4 (fun a b c d -> let ((r, _), _) = segmentIntersectPoint a b c d m77 m77 in add (Char.chr (48 + int_of_z r)));
    flush_section "segmentIntersectPoint_code";
    it4 (fun a b c d -> let ((r, _), _) = rayIntersectPoint a b c d m77 m77 in add (Char.chr (48 + int_of_z r)));
    flush_section "rayIntersectPoint_code";
    print_string "## segmentIntersectPoint_xy 0\n";
    for i = 0 to n-1 do for j = 0 to n-1 do for k = 0 to n-1 do for l = 0 to n-1 do
      let ((r, x), y) = segmentIntersectPoint pts.(i) pts.(j) pts.(k) pts.(l) m77 m77 in
      if int_of_z r = 1 then Printf.printf "%d %d %d %d %.17g %.17g\n" i j k l (float_of_q x) (float_of_q y)
    done done done done;
    print_string "## manhattanDist 0\n";
    for i = 0 to n-1 do for j = 0 to n-1 do
      Printf.printf "%.17g\n" (float_of_q (manhattanDist pts.(i) pts.(j))) done done;
    print_string "## projection_xy 0\n";
    for i = 0 to n-1 do for j = 0 to n-1 do for k = 0 to n-1 do
      if i <> k then begin
        let p = projection pts.(i) pts.(j) pts.(k) in
        Printf.printf "%d %d %d %.17g %.17g\n" i j k (float_of_bigq p.px) (float_of_bigq p.py) end
    done done done;
    let pp = Array.init (gp * gp) (fun i -> pt_of (i / gp) (i mod gp)) in
    let m = Array.length pp in
    List.iter (fun cb ->
      for a = 0 to m-1 do for b = 0 to m-1 do for c = 0 to m-1 do
        let poly = [pp.(a); pp.(b); pp.(c)] in
        for q = 0 to m-1 do add (bc (inPoly poly pp.(q) cb)) done
      done done done) [false; true];
    flush_section "inPoly3";
    for a = 0 to m-1 do for b = 0 to m-1 do for c = 0 to m-1 do
      let poly = [pp.(a); pp.(b); pp.(c)] in
      for q = 0 to m-1 do add (bc (inPolyGen poly pp.(q))) done
    done done done;
    flush_section "inPolyGen3";
    for a = 0 to m-1 do for b = 0 to m-1 do for c = 0 to m-1 do for d = 0 to m-1 do
      let poly = [pp.(a); pp.(b); pp.(c); pp.(d)] in
      for q = 0 to m-1 do add (bc (inPoly poly pp.(q) true)) done
    done done done done;
    flush_section "inPoly4";
    for a = 0 to m-1 do for b = 0 to m-1 do for c = 0 to m-1 do for d = 0 to m-1 do
      let poly = [pp.(a); pp.(b); pp.(c); pp.(d)] in
      for q = 0 to m-1 do add (bc (inPolyGen poly pp.(q))) done
    done done done done;
    flush_section "inPolyGen4";
    lineseg_sections g pts n it4 add

let () = if Array.length Sys.argv > 1 && Sys.argv.(1) = "rand" then rand_mode () else grid_mode ()
