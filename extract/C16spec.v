(* Extraction for C16: the spec deciders (independent of the generated code). *)
Require Extraction.
Require Import ExtrOcamlBasic.
From Adapt Require Import Num.Qaux Geom.GeomSpec Geom.GeomSpecDec.
Extraction "c16_spec.ml" spec_vecDir spec_segmentIntersect spec_pointOnLine spec_inPoly.
