(* Extraction for C16: the spec deciders (independent of the generated code). *)
Require Extraction.
Require Import ExtrOcamlBasic.
From Adapt Require Import Num.Qaux Geom.GeomSpec Geom.GeomSpecDec Geom.LineSegTypes Geom.LineSegSpec.
Extraction "c16_spec.ml" spec_vecDir spec_segmentIntersect spec_pointOnLine spec_inPoly
  spec_segmentIntersectPoint spec_rayIntersectPoint
  spec_colinear spec_inBetween spec_cornerSide spec_inValidRegion spec_segmentShapeIntersect spec_manhattanDist spec_projection
  spec_inPolyGen spec_triangle_region rect_poly rect_orders rect_contains cross
  spec_LineSegment_Intersect spec_lineIntersections ri0.
