(* Extraction for C10: the region model (generator, loop steps, write-back), the verified region checker, the verified
   scene checker, the VPSC model as solver, and rational helpers for the driver. *)
Require Extraction.
Require Import ExtrOcamlBasic.
From Adapt Require Import Num.Qaux Vpsc.VpscSpec Vpsc.VpscModel Avoid.NudgeModel Avoid.NudgeVpsc Avoid.NudgeScene Avoid.NudgeRelModel.
Extraction "c10_model.ml"
  gen gen_pre gen_pot create_var seg_var scan nudge_step unify_step loop nudge_region written loop_fuel
  nudge_region_ok con_ok gap_ok var_ok seg_written_ok vpsc_run vpsc_solver
  overlaps_with should_align_with can_align_with rel_model seg_wf seg_groups group_skipped cp_limit_ok
  scene_ok ends_kept cps_kept no_new_segments still_orth still_clear fixed_kept pair_ok common_end simplify
  route_members pass_members mem_matches members_covered members_only
  Qplus Qminus Qmult Qdiv Qopp Qred Qle_bool Qeq_bool Qcompare Qabs'.
