(* Extraction for C14: the verified oracle for doHOLA outputs (definitions only: HolaCheckModel.v) and the
   padding value of HolaPadding.v. *)
Require Extraction.
Require Import ExtrOcamlBasic.
From Adapt Require Import Num.Qaux Num.SignedZero Dialect.SepPairModel Dialect.HolaPadding Dialect.HolaCheckModel.
Extraction "c14_model.ml" hola_ok same_nodes_b same_edges_b sizes_kept_b no_overlap_b routes_ok_b seps_ok_b
  len_ok_b par_ok_b ends_ok_b thru_ok_b sep_ok_b overlapb pad_of node_of_centre iel padding_per_side sizes_of Qred.
