(* Extraction for C07: the compound-constraint generator model and the verified checker
   (independent of the proofs, so it still builds when a proof is broken). *)
Require Extraction.
Require Import ExtrOcamlBasic.
From Adapt Require Import Num.Qaux Cola.CompoundCsModel Cola.SubCursorModel.
Extraction "c07_model.ml" gen_system cc_holdsb lv last_write run_trace runOnce_trace
  mf_call constructed cc_trace oracle_of cc_kind cc_nsubs.
