(* C19 driver: from the extracted Coq model (C19_model)
     model <file>            prints the cc / core / tree lines of harness/c19_peel.cpp for the same graphs
     check <file> <output>   runs the verified checkers peel_okb / conncomps_okb on the harness output
   nat stays the Coq datatype. *)
open C19_model

let rec nat_of_int n = if n <= 0 then O else S (nat_of_int (n - 1))
let rec int_of_nat = function O -> 0 | S n -> 1 + int_of_nat n
let split_ws s = List.filter (fun x -> x <> "") (String.split_on_char ' ' s)
let ints l = List.map int_of_nat l
let join l = String.concat "," (List.map string_of_int l)
let joinE es =
  let es = List.map (fun (a, b) -> let a = int_of_nat a and b = int_of_nat b in if a <= b then (a, b) else (b, a)) es in
  String.concat "," (List.map (fun (a, b) -> Printf.sprintf "%d-%d" a b) (List.sort compare es))

(* graphs of the input file *)
let read_graphs file =
  let ic = open_in file in
  let gs = ref [] and cur = ref None in
  let flush () = match !cur with Some (n, p, es) -> gs := (n, p, List.rev es) :: !gs | None -> () in
  (try while true do
      match split_ws (input_line ic) with
      | ["G"; n; p] -> flush (); cur := Some (int_of_string n, p <> "0", [])
      | ["e"; a; b] -> (match !cur with Some (n, p, es) -> cur := Some (n, p, (int_of_string a, int_of_string b) :: es) | None -> ())
      | _ -> ()
    done with End_of_file -> ());
  flush (); close_in ic; List.rev !gs

let mk_graph n es =
  { g_nodes = List.init n nat_of_int; g_edges = List.map (fun (a, b) -> (nat_of_int a, nat_of_int b)) es }

let mode_model file =
  List.iteri (fun k (n, p, es) ->
      Printf.printf "## %d\n" k;
      let g = mk_graph n es in
      (match get_conncomps g with
       | None -> print_endline "cc OUTOFFUEL"
       | Some cs ->
         let cs = List.map (fun c -> List.sort compare (ints c)) cs in
         let cs = List.sort (fun a b -> compare (List.hd a) (List.hd b)) cs in
         Printf.printf "cc %s\n" (String.concat "|" (List.map join cs)));
      if p then
        match peel g with
        | OutOfFuel -> print_endline "peel OUTOFFUEL"
        | AssertFailed -> print_endline "peel ASSERT stems.size()==2"
        | Ok (core, trees) ->
          Printf.printf "core %s ; %s\n" (join (List.sort compare (ints core.g_nodes))) (joinE core.g_edges);
          let tl = List.map (fun t -> (int_of_nat t.t_root,
                                       Printf.sprintf "tree %d ; %s ; %s" (int_of_nat t.t_root)
                                         (join (List.sort compare (ints t.t_nodes))) (joinE t.t_edges))) trees in
          List.iter (fun (_, s) -> print_endline s) (List.sort compare tl))
    (read_graphs file)

(* parsing of the harness output *)
let parse_nodes s = if s = "" then [] else List.map (fun x -> nat_of_int (int_of_string x)) (String.split_on_char ',' s)
let parse_edges s =
  if s = "" then [] else
    List.map (fun x -> match String.split_on_char '-' x with
        | [a; b] -> (nat_of_int (int_of_string a), nat_of_int (int_of_string b)) | _ -> failwith "edge") (String.split_on_char ',' s)
let fields line =           (* "core a,b ; x-y" -> ["a,b"; "x-y"] (fields may be empty) *)
  List.map String.trim (String.split_on_char ';' line)

let mode_check file outfile =
  let graphs = Array.of_list (read_graphs file) in
  let ic = open_in outfile in
  let cur = ref (-1) and cc = ref None and core = ref None and trees = ref [] and exc = ref false in
  let finish () =
    if !cur >= 0 then begin
      let (n, p, es) = graphs.(!cur) in
      let g = mk_graph n es in
      let r1 = match !cc with
        | Some cs -> if conncomps_okb g cs then "cc-ok" else "CC-BAD"
        | None -> "cc-missing" in
      let r2 =
        if not p then "nopeel" else
          match !core with
          | Some c -> if peel_okb g c (List.rev !trees) then "peel-ok" else "PEEL-BAD"
          | None -> "peel-missing" in
      Printf.printf "%d %s %s simple=%d connected=%d%s\n" !cur r1 r2 (if simple_graphb g then 1 else 0)
        (if connectedb g.g_nodes g.g_edges then 1 else 0) (if !exc then " EXC" else "")
    end;
    cc := None; core := None; trees := []; exc := false in
  (try while true do
      let line = input_line ic in
      if String.length line >= 3 && String.sub line 0 3 = "## " then begin
        finish (); cur := int_of_string (String.sub line 3 (String.length line - 3)) end
      else if String.length line >= 3 && String.sub line 0 3 = "cc " then
        cc := Some (List.map parse_nodes (String.split_on_char '|' (String.sub line 3 (String.length line - 3))))
      else if String.length line >= 5 && String.sub line 0 5 = "core " then
        (match fields (String.sub line 5 (String.length line - 5)) with
         | [ns; es] -> core := Some { g_nodes = parse_nodes ns; g_edges = parse_edges es } | _ -> ())
      else if String.length line >= 5 && String.sub line 0 5 = "tree " then
        (match fields (String.sub line 5 (String.length line - 5)) with
         | [r; ns; es] -> trees := { t_root = nat_of_int (int_of_string r); t_nodes = parse_nodes ns; t_edges = parse_edges es } :: !trees
         | _ -> ())
      else if String.length line >= 3 && String.sub line 0 3 = "EXC" then exc := true
    done with End_of_file -> ());
  finish (); close_in ic

let () =
  match Array.to_list Sys.argv with
  | [_; "model"; f] -> mode_model f
  | [_; "check"; f; o] -> mode_check f o
  | _ -> prerr_endline "usage"; exit 2
