(* C19 driver: from the extracted Coq model (C19_model)
     model <file>            prints the cc / core / tree lines of harness/c19_peel.cpp for the same graphs
     check <file> <output>   runs the verified checkers peel_okb / conncomps_okb on the harness output
     tree <file>             runs the verified checker tree_layout_ok on node boxes after Tree::symmetricLayout:
                             input  "T <k>" / "N id cx cy w h" ([-]HEX/HEX exact rationals) / "end"
                             output "<k> ok" or "<k> BAD i,j i,j ..." (the overlapping pairs)
     plan <file>             runs the verified checker planarise_ok on the output of OrthoPlanariser::planarise:
                             input  "P <k>" / "O id x y" original node / "F a b" original edge / "N id x y" node of the
                             planarised graph / "E a b" its edges / "end";
                             output "<k> ok" or "<k> BAD nodup=b present=b nocross=b chains=b | X i,j ... | C a-b ..."
                             (X: indices of result edges whose open segments meet; C: original edges without a chain)
   nat, Z, Q stay the Coq datatypes. *)
open C19_model

let rec nat_of_int n = if n <= 0 then O else S (nat_of_int (n - 1))
let rec int_of_nat = function O -> 0 | S n -> 1 + int_of_nat n
let split_ws s = List.filter (fun x -> x <> "") (String.split_on_char ' ' s)
let ints l = List.map int_of_nat l
let join l = String.concat "," (List.map string_of_int l)
let joinE es =
  let es = List.map (fun (a, b) -> let a = int_of_nat a and b = int_of_nat b in if a <= b then (a, b) else (b, a)) es in
  String.concat "," (List.map (fun (a, b) -> Printf.sprintf "%d-%d" a b) (List.sort compare es))

(* graphs of the input file *)
let read_graphs file =
  let ic = open_in file in
  let gs = ref [] and cur = ref None in
  let flush () = match !cur with Some (n, p, es) -> gs := (n, p, List.rev es) :: !gs | None -> () in
  (try while true do
      match split_ws (input_line ic) with
      | ["G"; n; p] -> flush (); cur := Some (int_of_string n, p <> "0", [])
      | ["e"; a; b] -> (match !cur with Some (n, p, es) -> cur := Some (n, p, (int_of_string a, int_of_string b) :: es) | None -> ())
      | _ -> ()
    done with End_of_file -> ());
  flush (); close_in ic; List.rev !gs

let mk_graph n es =
  { g_nodes = List.init n nat_of_int; g_edges = List.map (fun (a, b) -> (nat_of_int a, nat_of_int b)) es }

let mode_model file =
  List.iteri (fun k (n, p, es) ->
      Printf.printf "## %d\n" k;
      let g = mk_graph n es in
      (match get_conncomps g with
       | None -> print_endline "cc OUTOFFUEL"
       | Some cs ->
         let cs = List.map (fun c -> List.sort compare (ints c)) cs in
         let cs = List.sort (fun a b -> compare (List.hd a) (List.hd b)) cs in
         Printf.printf "cc %s\n" (String.concat "|" (List.map join cs)));
      if p then
        match peel g with
        | OutOfFuel -> print_endline "peel OUTOFFUEL"
        | AssertFailed -> print_endline "peel ASSERT stems.size()==2"
        | Ok (core, trees) ->
          Printf.printf "core %s ; %s\n" (join (List.sort compare (ints core.g_nodes))) (joinE core.g_edges);
          let tl = List.map (fun t -> (int_of_nat t.t_root,
                                       Printf.sprintf "tree %d ; %s ; %s" (int_of_nat t.t_root)
                                         (join (List.sort compare (ints t.t_nodes))) (joinE t.t_edges))) trees in
          List.iter (fun (_, s) -> print_endline s) (List.sort compare tl))
    (read_graphs file)

(* parsing of the harness output *)
let parse_nodes s = if s = "" then [] else List.map (fun x -> nat_of_int (int_of_string x)) (String.split_on_char ',' s)
let parse_edges s =
  if s = "" then [] else
    List.map (fun x -> match String.split_on_char '-' x with
        | [a; b] -> (nat_of_int (int_of_string a), nat_of_int (int_of_string b)) | _ -> failwith "edge") (String.split_on_char ',' s)
let fields line =           (* "core a,b ; x-y" -> ["a,b"; "x-y"] (fields may be empty) *)
  List.map String.trim (String.split_on_char ';' line)

let mode_check file outfile =
  let graphs = Array.of_list (read_graphs file) in
  let ic = open_in outfile in
  let cur = ref (-1) and cc = ref None and core = ref None and trees = ref [] and exc = ref false in
  let finish () =
    if !cur >= 0 then begin
      let (n, p, es) = graphs.(!cur) in
      let g = mk_graph n es in
      let r1 = match !cc with
        | Some cs -> if conncomps_okb g cs then "cc-ok" else "CC-BAD"
        | None -> "cc-missing" in
      let r2 =
        if not p then "nopeel" else
          match !core with
          | Some c -> if peel_okb g c (List.rev !trees) then "peel-ok" else "PEEL-BAD"
          | None -> "peel-missing" in
      Printf.printf "%d %s %s simple=%d connected=%d%s\n" !cur r1 r2 (if simple_graphb g then 1 else 0)
        (if connectedb g.g_nodes g.g_edges then 1 else 0) (if !exc then " EXC" else "")
    end;
    cc := None; core := None; trees := []; exc := false in
  (try while true do
      let line = input_line ic in
      if String.length line >= 3 && String.sub line 0 3 = "## " then begin
        finish (); cur := int_of_string (String.sub line 3 (String.length line - 3)) end
      else if String.length line >= 3 && String.sub line 0 3 = "cc " then
        cc := Some (List.map parse_nodes (String.split_on_char '|' (String.sub line 3 (String.length line - 3))))
      else if String.length line >= 5 && String.sub line 0 5 = "core " then
        (match fields (String.sub line 5 (String.length line - 5)) with
         | [ns; es] -> core := Some { g_nodes = parse_nodes ns; g_edges = parse_edges es } | _ -> ())
      else if String.length line >= 5 && String.sub line 0 5 = "tree " then
        (match fields (String.sub line 5 (String.length line - 5)) with
         | [r; ns; es] -> trees := { t_root = nat_of_int (int_of_string r); t_nodes = parse_nodes ns; t_edges = parse_edges es } :: !trees
         | _ -> ())
      else if String.length line >= 3 && String.sub line 0 3 = "EXC" then exc := true
    done with End_of_file -> ());
  finish (); close_in ic

(* ---- exact rationals: [-]HEX/HEX *)
let hexval c = match c with
  | '0'..'9' -> Char.code c - 48 | 'a'..'f' -> Char.code c - 87 | 'A'..'F' -> Char.code c - 55
  | _ -> failwith ("bad hex digit " ^ String.make 1 c)
let pos_of_hex (s : string) : positive option =
  let acc = ref None in
  String.iter (fun c ->
    let v = hexval c in
    for b = 3 downto 0 do
      let bit = (v lsr b) land 1 = 1 in
      acc := (match !acc with
              | None -> if bit then Some XH else None
              | Some p -> Some (if bit then XI p else XO p))
    done) s;
  !acc
let q_of_string (s : string) : q =
  let neg = String.length s > 0 && s.[0] = '-' in
  let s = if neg then String.sub s 1 (String.length s - 1) else s in
  let (a, b) = match String.index_opt s '/' with
    | Some i -> (String.sub s 0 i, String.sub s (i + 1) (String.length s - i - 1))
    | None -> (s, "1") in
  let den = match pos_of_hex b with Some p -> p | None -> failwith "zero denominator" in
  let num = match pos_of_hex a with None -> Z0 | Some p -> if neg then Zneg p else Zpos p in
  qred { qnum = num; qden = den }
let rec pos_of_int n = if n = 1 then XH else if n land 1 = 0 then XO (pos_of_int (n lsr 1)) else XI (pos_of_int (n lsr 1))
let z_of_int n = if n = 0 then Z0 else if n > 0 then Zpos (pos_of_int n) else Zneg (pos_of_int (-n))
let rec int_of_pos = function XH -> 1 | XO p -> 2 * int_of_pos p | XI p -> 2 * int_of_pos p + 1
let int_of_z = function Z0 -> 0 | Zpos p -> int_of_pos p | Zneg p -> - (int_of_pos p)

let mode_tree file =
  let ic = open_in file in
  let cur = ref "" and bs = ref [] in
  (try while true do
      match split_ws (input_line ic) with
      | ["T"; k] -> cur := k; bs := []
      | ["N"; id; cx; cy; w; h] ->
        bs := box_of_centre (z_of_int (int_of_string id)) (q_of_string cx) (q_of_string cy) (q_of_string w) (q_of_string h) :: !bs
      | ["end"] ->
        let l = List.rev !bs in
        if tree_layout_ok l then Printf.printf "%s ok\n" !cur
        else Printf.printf "%s BAD %s\n" !cur
            (String.concat " " (List.map (fun (i, j) -> Printf.sprintf "%d,%d" (int_of_z i) (int_of_z j)) (overlapping_pairs l)))
      | _ -> ()
    done with End_of_file -> ());
  close_in ic

let mode_plan file =
  let ic = open_in file in
  let cur = ref "" and orig = ref [] and oe = ref [] and res = ref [] and re = ref [] in
  let b2 b = if b then "1" else "0" in
  let n s = nat_of_int (int_of_string s) in
  (try while true do
      match split_ws (input_line ic) with
      | ["P"; k] -> cur := k; orig := []; oe := []; res := []; re := []
      | ["O"; id; x; y] -> orig := { pn_id = n id; pn_pos = { px = q_of_string x; py = q_of_string y } } :: !orig
      | ["N"; id; x; y] -> res := { pn_id = n id; pn_pos = { px = q_of_string x; py = q_of_string y } } :: !res
      | ["F"; a; b] -> oe := (n a, n b) :: !oe
      | ["E"; a; b] -> re := (n a, n b) :: !re
      | ["end"] ->
        let orig = List.rev !orig and oe = List.rev !oe and res = List.rev !res and re = List.rev !re in
        if planarise_ok orig oe res re then Printf.printf "%s ok\n" !cur
        else begin
          Printf.printf "%s BAD nodup=%s present=%s nocross=%s chains=%s |" !cur
            (b2 (nodupb (List.map (fun x -> x.pn_id) res))) (b2 (List.for_all (present_b res) orig))
            (b2 (nocross_b res re)) (b2 (chains_b orig res oe re));
          List.iter (fun (i, j) -> Printf.printf " X %d,%d" (int_of_nat i) (int_of_nat j)) (meeting_pairs res re);
          List.iter (fun (a, b) -> Printf.printf " C %d-%d" (int_of_nat a) (int_of_nat b)) (broken_chains orig res oe re);
          print_newline ()
        end
      | _ -> ()
    done with End_of_file -> ());
  close_in ic

let () =
  match Array.to_list Sys.argv with
  | [_; "plan"; f] -> mode_plan f
  | [_; "tree"; f] -> mode_tree f
  | [_; "model"; f] -> mode_model f
  | [_; "check"; f; o] -> mode_check f o
  | _ -> prerr_endline "usage"; exit 2
