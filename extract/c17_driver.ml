(* C17 driver: reads the same records as harness/c17_sp.cpp from stdin and prints what the extracted models
   compute.  Z/Q/nat stay the Coq datatypes; numbers are printed as reduced num/den, the sentinel as "M".
   argv: <litmax> <modelmax> <djmax>
     n <= litmax   : also the literal element-wise Floyd-Warshall loops (FWCL, FWFL)
     n <= modelmax : the row-organised Floyd-Warshall models (FWC, FWF)
     n <= djmax    : the Dijkstra model from every source (JO)
     always        : the Bellman-Ford oracle (BF) *)
open C17_model

let rec pos_of_int n = if n = 1 then XH else if n land 1 = 0 then XO (pos_of_int (n lsr 1)) else XI (pos_of_int (n lsr 1))
let z_of_int n = if n = 0 then Z0 else if n > 0 then Zpos (pos_of_int n) else Zneg (pos_of_int (-n))
let rec int_of_pos = function XH -> 1 | XO p -> 2 * int_of_pos p | XI p -> 2 * int_of_pos p + 1
let int_of_z = function Z0 -> 0 | Zpos p -> int_of_pos p | Zneg p -> - (int_of_pos p)
let rec nat_of_int n = if n <= 0 then O else S (nat_of_int (n - 1))
let rec int_of_nat = function O -> 0 | S m -> 1 + int_of_nat m
let rec gcd a b = if b = 0 then abs a else gcd b (a mod b)
let q_of num den =
  let g = gcd num den in
  let num, den = if den < 0 then (-num / g, -den / g) else (num / g, den / g) in
  { qnum = z_of_int num; qden = pos_of_int den }

(* arbitrary-size decimal printing (path lengths over 2^-50-grained weights exceed 63 bits as num/den) *)
let dbl ds c =
  let rec go ds carry = match ds with
    | [] -> if carry > 0 then [carry] else []
    | d :: r -> let v = 2 * d + carry in (v mod 1_000_000_000) :: go r (v / 1_000_000_000) in
  go ds c
let rec digits_of_pos = function XH -> [1] | XO p -> dbl (digits_of_pos p) 0 | XI p -> dbl (digits_of_pos p) 1
let string_of_pos p =
  match List.rev (digits_of_pos p) with
  | [] -> "0"
  | d :: r -> String.concat "" (string_of_int d :: List.map (Printf.sprintf "%09d") r)
let string_of_z = function Z0 -> "0" | Zpos p -> string_of_pos p | Zneg p -> "-" ^ string_of_pos p

let buf = Buffer.create (1 lsl 16)
let add_oq (o : oQ) =
  match o with
  | None -> Buffer.add_string buf " M"
  | Some x -> let r = qred x in
      Buffer.add_char buf ' ';
      Buffer.add_string buf (string_of_z r.qnum);
      Buffer.add_char buf '/';
      Buffer.add_string buf (string_of_pos r.qden)
let print_matrix tag (d : oQ list list) =
  Buffer.clear buf; Buffer.add_string buf tag;
  List.iter (fun row -> List.iter add_oq row) d;
  print_endline (Buffer.contents buf)

let read_edges m =
  let ends = ref [] and ws = ref [] in
  for _ = 1 to m do
    Scanf.scanf " %d %d %d %d" (fun u v num den ->
      ends := (nat_of_int u, nat_of_int v) :: !ends; ws := q_of num den :: !ws)
  done;
  (List.rev !ends, List.rev !ws)

(* ---- pairing heap: same abstract ops as the C++ harness; E = int (mode 0) or int*int (mode 1) ---- *)
let heap_run_gen (type e) (lt : e -> e -> bool) (make : int -> int -> e) (key : e -> int) (pr : Buffer.t -> e -> unit)
    id mode nops =
  let hp = [| heap_empty; heap_empty |] in
  let where = ref [||] in            (* id -> heap index, -1 deleted *)
  let nnodes = ref 0 in
  let push w = where := Array.append !where [| w |]; incr nnodes in
  let rec dump b (t : e node) =
    match t with
    | Nil -> ()
    | Node (_, x, l, _) ->
      pr b x;
      (match l with
       | Nil -> ()
       | _ -> Buffer.add_char b '[';
         let rec sib first (c : e node) = match c with
           | Nil -> ()
           | Node (_, _, _, s) -> if not first then Buffer.add_char b ' '; dump b c; sib false s in
         sib true l; Buffer.add_char b ']') in
  Printf.printf "H %s %d\n" id mode;
  for _ = 1 to nops do
    let b = Buffer.create 256 in
    let op = Scanf.scanf " %s" (fun s -> s) in
    (match op with
     | "I" ->
       let (a, k) = Scanf.scanf " %d %d" (fun a k -> (a, k)) in
       let nid = !nnodes in
       hp.(a) <- heap_insert lt (nat_of_int nid) (make k nid) hp.(a);
       push a; Buffer.add_string b (Printf.sprintf "I %d" nid)
     | "F" ->
       let a = Scanf.scanf " %d" (fun a -> a) in
       (match find_min hp.(a) with
        | Some x -> Buffer.add_string b "F "; pr b x
        | None -> Buffer.add_string b "F U")
     | "D" | "X" ->
       let a = Scanf.scanf " %d" (fun a -> a) in
       let rid = (match hp.(a).root with Node (i, _, _, _) -> int_of_nat i | Nil -> -1) in
       if op = "D" then
         (match delete_min lt hp.(a) with
          | Some h' -> hp.(a) <- h'; !where.(rid) <- -1; Buffer.add_string b "D"
          | None -> Buffer.add_string b "D U")
       else
         (match heap_extract_min lt hp.(a) with
          | Some (x, h') -> hp.(a) <- h'; !where.(rid) <- -1; Buffer.add_string b "X "; pr b x
          | None -> Buffer.add_string b "X U")
     | "K" ->
       let (a, r, c) = Scanf.scanf " %d %d %d" (fun a r c -> (a, r, c)) in
       let live = List.filter (fun i -> !where.(i) = a) (List.init !nnodes (fun i -> i)) in
       if live = [] then Buffer.add_string b "K -"
       else begin
         let nid = List.nth live (r mod List.length live) in
         let cur = List.assoc nid (List.map (fun (i, x) -> (int_of_nat i, x)) (elems hp.(a).root)) in
         let nk = key cur - c in
         hp.(a) <- decrease_key lt (nat_of_int nid) (make nk nid) hp.(a);
         Buffer.add_string b (Printf.sprintf "K %d %d" nid nk)
       end
     | "M" ->
       let (a, c) = Scanf.scanf " %d %d" (fun a c -> (a, c)) in
       hp.(a) <- heap_merge lt hp.(a) hp.(c);
       hp.(c) <- heap_empty;
       Array.iteri (fun i w -> if w = c then !where.(i) <- a) !where;
       Buffer.add_string b "M"
     | _ -> failwith "bad heap op");
    Array.iter (fun h ->
      Buffer.add_string b (Printf.sprintf " | %d " (int_of_nat h.counter));
      (match h.root with Nil -> Buffer.add_char b '-' | t -> dump b t)) hp;
    print_endline (Buffer.contents b)
  done

let heap_run id mode nops =
  if mode = 0 then
    heap_run_gen (fun (a : int) b -> a < b) (fun k _ -> k) (fun k -> k)
      (fun b k -> Buffer.add_string b (string_of_int k)) id mode nops
  else
    heap_run_gen (fun ((a, _) : int * int) (c, _) -> a < c) (fun k i -> (k, i)) fst
      (fun b (k, i) -> Buffer.add_string b (Printf.sprintf "%d.%d" k i)) id mode nops

let () =
  let litmax = int_of_string Sys.argv.(1) and modelmax = int_of_string Sys.argv.(2)
  and djmax = int_of_string Sys.argv.(3) in
  let continue = ref true in
  while !continue do
    match (try Some (Scanf.scanf " %s %s" (fun k id -> (k, id))) with End_of_file -> None | Scanf.Scan_failure _ -> None) with
    | None | Some ("", _) -> continue := false
    | Some (kind, id) ->
      if kind = "S" || kind = "L" then begin
        let (n, m, weighted) = Scanf.scanf " %d %d %d" (fun a b c -> (a, b, c)) in
        let (inum, iden) = if kind = "L" then Scanf.scanf " %d %d" (fun a b -> (a, b)) else (1, 1) in
        let (ends, ws) = read_edges m in
        let es = mk_edges ends (if weighted = 1 then ws else []) in
        let nn = nat_of_int n in
        if kind = "S" then begin
          Printf.printf "S %s %d\n" id n;
          if n <= modelmax then begin
            print_matrix "FWC" (fw_current nn es);
            print_matrix "FWF" (fw_fixed nn es)
          end;
          if n <= litmax then begin
            print_matrix "FWCL" (fw_current_lit nn es);
            print_matrix "FWFL" (fw_fixed_lit nn es)
          end;
          if n <= djmax then begin
            match johnsons nn es with
            | Some j -> print_matrix "JO" j
            | None -> print_endline "JO OUTOFFUEL"
          end;
          let rows = bf_all nn es in
          if List.for_all (fun r -> r <> None) rows then
            print_matrix "BF" (List.map (function Some r -> r | None -> []) rows)
          else print_endline "BF NOTCLOSED"
        end else begin
          Printf.printf "L %s %d\n" id n;
          match compute_path_lengths nn es (q_of inum iden) with
          | None -> print_endline "LD OUTOFFUEL"
          | Some (d, g) ->
            print_matrix "LD" d;
            Buffer.clear buf; Buffer.add_string buf "LG";
            List.iter (fun row -> List.iter (fun x ->
              match x with
              | None -> Buffer.add_string buf " -"
              | Some k -> Buffer.add_char buf ' '; Buffer.add_string buf (string_of_int (int_of_nat k))) row) g;
            print_endline (Buffer.contents buf)
        end
      end else if kind = "H" then begin
        let (mode, nops) = Scanf.scanf " %d %d" (fun a b -> (a, b)) in
        heap_run id mode nops
      end else continue := false
  done
