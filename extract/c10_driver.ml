(* C10 driver.  Reads (stdin) hook-H1 region records and scene records, numbers as [-]HEX/HEX rationals, and prints
   for every region one line with
     - gen:   does the extracted generator (NudgeModel.gen / gen_pot / create_var) reproduce the dumped vs, cs, gapcs,
              potential constraints and per-segment variable exactly;
     - trace: the extracted loop steps (scan, nudge_step, unify_step) replayed on the dumped solver results of every
              iteration, compared with the dumped satisfied / ranges / sepDist / rewritten constraints, and the whole
              nudge_region run with that scripted solver compared with the dumped END record;
     - chk:   the verified region checker nudge_region_ok on the dumped final data;
     - vpsc:  nudge_region with the VPSC model of C01 as the solver, compared with the END record to 1e-9;
     - rel:   the extracted relations overlaps_with / should_align_with / can_align_with (NudgeRelModel) recomputed from
              the dumped segment records for every ordered pair (curr, prev) and compared with the REL record (exact);
              without hook H1b's SEGX records the pairs that depend on sBend/zBend or on checkpoint positions are
              skipped (rel=partial);
   for every pass (hook H1b: ALLSEG / AROUTE / ASEG records) one line "G ..." with
     - grp:   the regions the extracted seg_groups forms from the whole segment list vs the regions the code dumped;
     - mem:   completeness of the pass's segment list (seeded change C10-6): the extracted route_members recomputed from every
              AROUTE record (every orthogonal connector, fixed routes included) vs the ASEG records - members_covered (every
              positive-length route segment lying in the shift dimension is in the list, with its indexes / position / extent)
              and members_only (nothing else is); together with grp= every route segment is in a dumped or skipped region;
     - cpl:   the checkpoint-limit oracle cp_limit_ok for every shiftable middle segment and every checkpoint (CPS records
              written by the check) lying on one of its two adjoining route segments;
   and for every scene one line with the verdicts of the verified scene checker components.
   Z, Q, nat stay the Coq datatypes. *)
open C10_model

let rec nat_of_int n = if n <= 0 then O else S (nat_of_int (n - 1))
let rec int_of_nat = function O -> 0 | S k -> 1 + int_of_nat k

let hexval c = match c with
  | '0'..'9' -> Char.code c - 48 | 'a'..'f' -> Char.code c - 87 | 'A'..'F' -> Char.code c - 55
  | _ -> failwith ("bad hex digit " ^ String.make 1 c)
let pos_of_hex (s : string) : positive option =
  let acc = ref None in
  String.iter (fun c ->
    let v = hexval c in
    for b = 3 downto 0 do
      let bit = (v lsr b) land 1 = 1 in
      acc := (match !acc with
              | None -> if bit then Some XH else None
              | Some p -> Some (if bit then XI p else XO p))
    done) s;
  !acc
let q_of_string (s : string) : q =
  let neg = String.length s > 0 && s.[0] = '-' in
  let s = if neg then String.sub s 1 (String.length s - 1) else s in
  let (a, b) = match String.index_opt s '/' with
    | Some i -> (String.sub s 0 i, String.sub s (i + 1) (String.length s - i - 1))
    | None -> (s, "1") in
  let den = match pos_of_hex b with Some p -> p | None -> failwith "zero denominator" in
  let num = match pos_of_hex a with None -> Z0 | Some p -> if neg then Zneg p else Zpos p in
  qred { qnum = num; qden = den }
let rec float_of_pos = function XH -> 1. | XO p -> 2. *. float_of_pos p | XI p -> 2. *. float_of_pos p +. 1.
let float_of_q (x : q) : float =
  let x = qred x in
  let n = match x.qnum with Z0 -> 0. | Zpos p -> float_of_pos p | Zneg p -> -. float_of_pos p in
  n /. float_of_pos x.qden
let z_of_int (n : int) : z =
  let rec pos k = if k = 1 then XH else if k land 1 = 1 then XI (pos (k lsr 1)) else XO (pos (k lsr 1)) in
  if n = 0 then Z0 else if n > 0 then Zpos (pos n) else Zneg (pos (- n))
let int_of_z (x : z) : int = int_of_float (float_of_q { qnum = x; qden = XH })
let q_of_int n = { qnum = z_of_int n; qden = XH }
let qeq a b = qeq_bool a b
let qlt a b = (match qcompare a b with Lt -> true | _ -> false)
let qle a b = (match qcompare a b with Gt -> false | _ -> true)
let qclose a b = abs_float (float_of_q a -. float_of_q b) <= 1e-9 *. (max 1. (abs_float (float_of_q a)))
let b_of s = s <> "0"
let tol6 = { qnum = Zpos XH; qden = (match pos_of_hex "f4240" with Some p -> p | None -> XH) }   (* 1e-6 *)

(* ------------------------------------------------------------------ parsed region *)
type iter = { mutable i_sep : q; mutable i_x : q list; mutable i_unsat : bool list; mutable i_sat : bool option;
              mutable i_rg : (int * int) list option; mutable i_step : (q * bool * bool) option;
              mutable i_cons : con list option; mutable i_rg2 : (int * int) list option }
type dreg = { d_dim : int; d_unify : bool; d_base : q; d_nfs : bool; d_nsp : bool; d_n : int; d_fspp : q; d_nc : bool option;
              mutable d_segx : (int * (bool * bool * int list * (q * q) list)) list;
              mutable d_segs : seg list; mutable d_segvar : (int * nvar) list;
              mutable d_rel : (int * int * rel) list;
              mutable d_vars : nvar list option; mutable d_cons : con list option; mutable d_gapcs : int list option;
              mutable d_pot : (int * int) list option; mutable d_iters : iter list;
              mutable d_end : (bool * q * q list) option }

let rec take n l = if n <= 0 then [] else match l with [] -> [] | h :: t -> h :: take (n - 1) t
let rec drop n l = if n <= 0 then l else match l with [] -> [] | _ :: t -> drop (n - 1) t

let parse_cons (t : string list) : con list =
  let n = int_of_string (List.hd t) in
  let rec go k l = if k = 0 then [] else match l with
    | a :: b :: g :: e :: r ->
        { cl = nat_of_int (int_of_string a); cr = nat_of_int (int_of_string b); gap = q_of_string g; ceq = b_of e } :: go (k - 1) r
    | _ -> failwith "CONS" in
  go n (List.tl t)
let parse_pairs (t : string list) : (int * int) list =
  let n = int_of_string (List.hd t) in
  let rec go k l = if k = 0 then [] else match l with
    | a :: b :: r -> (int_of_string a, int_of_string b) :: go (k - 1) r
    | _ -> failwith "pairs" in
  go n (List.tl t)

let region_of (d : dreg) : region =
  let n = d.d_n in
  let relrow i = List.init i (fun j ->
      match List.find_opt (fun (a, b, _) -> a = i && b = j) d.d_rel with
      | Some (_, _, r) -> r | None -> { r_ov = false; r_sa = false; r_ca = false; r_sh = false }) in
  { runify = d.d_unify; rbase = d.d_base; rnfs = d.d_nfs; rnsp = d.d_nsp; rsegs = d.d_segs;
    rrel = List.init n relrow }

let npairs l = List.map (fun (a, b) -> (nat_of_int a, nat_of_int b)) l
let ipairs l = List.map (fun (a, b) -> (int_of_nat a, int_of_nat b)) l

let con_same (a : con) (b : con) = a.cl = b.cl && a.cr = b.cr && a.ceq = b.ceq && qeq a.gap b.gap
let con_close (a : con) (b : con) = a.cl = b.cl && a.cr = b.cr && a.ceq = b.ceq && qclose a.gap b.gap
let rec list_all2 f a b = match a, b with
  | [], [] -> true | x :: s, y :: t -> f x y && list_all2 f s t | _ -> false
let nv_same (a : nvar) (b : nvar) = int_of_z a.vid = int_of_z b.vid && qeq a.vdes b.vdes && qeq a.vwt b.vwt
let nv_close (a : nvar) (b : nvar) = int_of_z a.vid = int_of_z b.vid && qclose a.vdes b.vdes && qeq a.vwt b.vwt

let str_pairs l = String.concat "," (List.map (fun (a, b) -> Printf.sprintf "%d:%d" a b) l)

(* ------------------------------------------------------------------ one region *)
let do_region (idx : int) (d : dreg) =
  let r = region_of d in
  let notes = Buffer.create 64 in
  let note s = if Buffer.length notes < 600 then (Buffer.add_string notes s; Buffer.add_char notes ';') in
  (* --- generator correspondence *)
  let g = gen r in
  let pot = gen_pot r in
  let approx = ref false in
  let gen_ok =
    (match gen_pre r with Some t -> note (Printf.sprintf "gen_pre=assert%d" (int_of_nat t)); false | None -> true) &&
    (match d.d_vars with
     | Some vs -> if list_all2 nv_same g.gvs vs then true
                  else if list_all2 nv_close g.gvs vs then (approx := true; true)
                  else (note (Printf.sprintf "vars model %d dump %d" (List.length g.gvs) (List.length vs)); false)
     | None -> note "no VARS"; false) &&
    (match d.d_cons with
     | Some cs -> if list_all2 con_same g.gcs cs then true
                  else if list_all2 con_close g.gcs cs then (approx := true; true)
                  else (note (Printf.sprintf "cons model %d dump %d" (List.length g.gcs) (List.length cs)); false)
     | None -> note "no CONS"; false) &&
    (match d.d_gapcs with
     | Some gp -> if List.map int_of_nat g.ggap = gp then true else (note "gapcs"; false)
     | None -> false) &&
    (match d.d_pot with
     | Some p -> if ipairs pot = p then true else (note "pot"; false)
     | None -> false) &&
    (let ok = ref true in
     List.iteri (fun i (vi, nv) ->
         let mv = int_of_nat (seg_var g (nat_of_int i)) in
         let s = List.nth d.d_segs i in
         let cv = create_var d.d_nfs d.d_unify s in
         if mv <> vi || not (nv_close cv nv) then (ok := false; note (Printf.sprintf "seg %d var" i))) d.d_segvar;
     !ok) in
  (* --- the relations recomputed by the model *)
  let has_x = d.d_segx <> [] in
  let rel_skipped = ref 0 in
  let rel_ok = ref true in
  (match d.d_nc with
   | None -> rel_ok := false; note "no nc option"
   | Some nc ->
       let segs = Array.of_list d.d_segs in
       if has_x then Array.iteri (fun i sg -> if not (seg_wf sg) then (rel_ok := false; note (Printf.sprintf "seg %d not wf" i))) segs;
       List.iter (fun (i, j, (dr : rel)) ->
           if i < Array.length segs && j < Array.length segs then begin
             let s = segs.(i) and t = segs.(j) in
             let m = rel_model nc d.d_fspp dr.r_sh s t in
             (* which components are determined by H1's SEG record alone *)
             let touching = not (qlt s.slo t.shi && qlt t.slo s.shi) && (qeq s.slo t.shi || qeq t.slo s.shi) in
             let ov_det = has_x || not (touching && s.szigzag && t.szigzag) in
             let sa_det = has_x || (ov_det && not (s.scp <> t.scp)) in
             if not ov_det then incr rel_skipped;
             if not sa_det then incr rel_skipped;
             let bad = (ov_det && m.r_ov <> dr.r_ov) || (sa_det && m.r_sa <> dr.r_sa) || m.r_ca <> dr.r_ca in
             if bad then begin
               rel_ok := false;
               note (Printf.sprintf "rel %d %d model %b/%b/%b code %b/%b/%b" i j m.r_ov m.r_sa m.r_ca dr.r_ov dr.r_sa dr.r_ca)
             end
           end) d.d_rel);
  (* --- loop trace with the dumped solver results *)
  let iters = Array.of_list d.d_iters in
  let scripted (k : nat) (_ : nvar list) (_ : con list) (fl : bool list) : q list * bool list =
    let k = int_of_nat k in
    if k < Array.length iters then (iters.(k).i_x, iters.(k).i_unsat) else ([], fl) in
  let trace_ok = ref true in
  let model_assert = ref "-" in
  let st = ref { lsep = d.d_base; lcs = g.gcs; lrg = []; lpot = pot; ljust = false;
                 lfl = List.map (fun _ -> false) g.gcs } in
  let stop = ref false in
  Array.iteri (fun k it ->
      if not !stop then begin
        (* the constraint list / flags the real solver saw in this iteration *)
        if not (qclose !st.lsep it.i_sep) then (trace_ok := false; note (Printf.sprintf "it%d sep" k));
        if List.length it.i_x <> List.length g.gvs then (trace_ok := false; stop := true; note (Printf.sprintf "it%d |x|" k))
        else
        match scan g.gvs it.i_x O g.gvs true !st.lrg with
        | NAssert t -> model_assert := Printf.sprintf "scan:%d@%d" (int_of_nat t) k; stop := true;
            if it.i_sat <> None then (trace_ok := false; note "model asserts in scan, code did not")
        | NFuel -> stop := true
        | NOk (sat, rg) ->
            (match it.i_sat, it.i_rg with
             | Some s, Some rgd ->
                 if s <> sat then (trace_ok := false; note (Printf.sprintf "it%d scan sat model %b code %b" k sat s));
                 if ipairs rg <> rgd then (trace_ok := false;
                                           note (Printf.sprintf "it%d ranges model %s code %s" k (str_pairs (ipairs rg)) (str_pairs rgd)))
             | _ -> trace_ok := false; note (Printf.sprintf "it%d code stopped in scan, model did not assert" k); stop := true);
            if not !stop then begin
              let st1 = { !st with lrg = rg; lfl = it.i_unsat } in
              let r2 = if d.d_unify then unify_step it.i_x sat st1 else nudge_step d.d_base g.gvs sat st1 in
              match r2 with
              | NAssert t -> model_assert := Printf.sprintf "step:%d@%d" (int_of_nat t) k; stop := true;
                  if it.i_step <> None then (trace_ok := false; note "model asserts in step, code did not")
              | NFuel -> stop := true
              | NOk (sat', st') ->
                  (match it.i_step, it.i_cons, it.i_rg2 with
                   | Some (sep, s, just), Some cs, Some rg2 ->
                       if not (qclose sep st'.lsep) then (trace_ok := false; note (Printf.sprintf "it%d sep_after" k));
                       if s <> sat' then (trace_ok := false; note (Printf.sprintf "it%d sat_after" k));
                       if just <> st'.ljust then (trace_ok := false; note (Printf.sprintf "it%d justAdded" k));
                       if not (list_all2 con_close st'.lcs cs) then (trace_ok := false; note (Printf.sprintf "it%d cons_after" k));
                       if ipairs st'.lrg <> rg2 then (trace_ok := false; note (Printf.sprintf "it%d ranges_after" k))
                   | _ -> trace_ok := false; note (Printf.sprintf "it%d code stopped in step, model did not assert" k); stop := true);
                  st := st'
            end
      end) iters;
  (* whole-region run of the model with the scripted solver vs END *)
  let fuel = nat_of_int (Array.length iters + 2) in
  let whole = nudge_region scripted fuel r in
  let pos_close a b = list_all2 qclose a b in
  (match whole, d.d_end with
   | NOk o, Some (sat, sep, pos) ->
       if o.o_sat <> sat then (trace_ok := false; note "end sat");
       if not (qclose o.o_sep sep) then (trace_ok := false; note "end sep");
       if int_of_nat o.o_solves <> Array.length iters then (trace_ok := false; note "end #solves");
       if not (pos_close o.o_pos pos) then (trace_ok := false; note "end pos")
   | NAssert t, None -> if !model_assert = "-" then model_assert := Printf.sprintf "region:%d" (int_of_nat t)
   | NAssert t, Some _ -> trace_ok := false; note (Printf.sprintf "model assert %d but code finished" (int_of_nat t))
   | NOk _, None -> trace_ok := false; note "code did not finish the region, model did"
   | NFuel, _ -> if d.d_end <> None then (trace_ok := false; note "model out of fuel"));
  (* --- verified region checker on the dumped final data *)
  (* when the generator correspondence fails the checker still runs, on the DUMPED variables / segment-variable map
     (the search step: the oracle against the implementation on the diverging input) *)
  let g = if gen_ok then g else
      match d.d_vars, d.d_cons with
      | Some vs, Some cs ->
          note "chk on dumped vs/cs";
          { gvs = vs; gcs = cs; ggap = []; gfree = [];
            gprev = List.mapi (fun i ((vi, _), s) -> ((nat_of_int i, nat_of_int vi), s.sfixed)) (List.combine d.d_segvar d.d_segs) }
      | _ -> g in
  let chk = match d.d_end with
    | Some (sat, sep, pos) when (gen_ok || d.d_vars <> None) && Array.length iters > 0 ->
        let last = iters.(Array.length iters - 1) in
        let cs = match last.i_cons with Some c -> c | None -> [] in
        if nudge_region_ok tol6 r g sat sep cs last.i_x pos then "1" else begin
          (* diagnosis with the component deciders of the checker (classification only) *)
          let idxs f l = String.concat "," (List.filter_map (fun x -> x) (List.mapi (fun i x -> if f i x then None else Some (string_of_int i)) l)) in
          let flagged = List.filter_map (fun x -> x) (List.mapi (fun i b -> if b then Some (string_of_int i) else None) last.i_unsat) in
          note (Printf.sprintf "why cons[%s] flagged[%s] gaps[%s] vars[%s] written[%s]"
                  (idxs (fun _ c -> con_ok tol6 last.i_x c) cs) (String.concat "," flagged)
                  (idxs (fun _ c -> gap_ok d.d_base sep c) cs)
                  (if sat then idxs (fun i v -> var_ok v (List.nth last.i_x i)) g.gvs else "")
                  (if sat && List.length pos = List.length d.d_segs then
                     idxs (fun i s -> seg_written_ok d.d_unify tol6 s (List.nth last.i_x (int_of_nat (seg_var g (nat_of_int i)))) (List.nth pos i)) d.d_segs
                   else "-"));
          "0" end
    | _ -> "na" in
  (* --- the VPSC model as solver *)
  let vp =
    if not gen_ok || d.d_end = None then "na" else begin
      let tie = ref false in
      let vfuel = nat_of_int 2000 in
      let solver (_ : nat) (vs : nvar list) (cs : con list) (fl : bool list) : q list * bool list =
        match vpsc_run vfuel vs cs fl with
        | Some ((xs, fl'), t) -> if t then tie := true; (xs, fl')
        | None -> tie := true; ([], fl) in
      match nudge_region solver (loop_fuel r) r, d.d_end with
      | NOk o, Some (sat, sep, pos) ->
          let same = o.o_sat = sat && qclose o.o_sep sep && int_of_nat o.o_solves = Array.length iters && pos_close o.o_pos pos in
          if same then "ok" else if !tie then "tie" else begin
            note (Printf.sprintf "vpsc: sat %b/%b solves %d/%d sep %g/%g" o.o_sat sat (int_of_nat o.o_solves) (Array.length iters)
                    (float_of_q o.o_sep) (float_of_q sep));
            "DIFF" end
      | NAssert t, _ -> Printf.sprintf "assert%d" (int_of_nat t)
      | NFuel, _ -> "fuel"
      | _ -> "na"
    end in
  Printf.printf "R %d gen=%s trace=%s chk=%s vpsc=%s assert=%s iters=%d rel=%s notes=%s\n" idx
    (if gen_ok then (if !approx then "approx" else "ok") else "DIFF") (if !trace_ok then "ok" else "DIFF") chk vp
    !model_assert (Array.length iters) (if not !rel_ok then "DIFF" else if !rel_skipped > 0 then "partial" else "ok")
    (Buffer.contents notes)

(* ------------------------------------------------------------------ one pass (hook H1b) *)
type dpass = { p_dim : int; p_unify : bool; p_nc : bool; p_fspp : q; p_nfs : bool option ref;
               mutable p_routes : (int * (q * q) array) list;
               mutable p_segs : (seg * int list) list;           (* ASEG records in list order, with their indexes *)
               mutable p_regions : (int * int) list list;        (* (conn, index) sets of the dumped regions *)
               mutable p_complete : bool }

let keyset (l : (int * int) list) = List.sort_uniq compare l

let do_pass (idx : int) (p : dpass) (cps : (int * (q * q) list) list) =
  let notes = Buffer.create 64 in
  let note s = if Buffer.length notes < 600 then (Buffer.add_string notes s; Buffer.add_char notes ';') in
  let segs = List.rev p.p_segs in
  let indexed = List.mapi (fun i (s, _) -> (nat_of_int i, s)) segs in
  let idx_of = Array.of_list (List.map snd segs) in
  (* --- region collection *)
  let grp =
    match seg_groups p.p_nc p.p_fspp indexed with
    | None -> note "model out of fuel"; "DIFF"
    | Some gs ->
        let nfs = (match !(p.p_nfs) with Some b -> b | None -> false) in
        let keys g = keyset (List.concat (List.map (fun (i, s) -> let c = int_of_z s.sconn in
                                                      List.map (fun k -> (c, k)) idx_of.(int_of_nat i)) g)) in
        (* linesort merges segments that shouldAlignWith each other when final segments are nudged: the merged region may
           shrink to one immovable segment and be skipped *)
        let may_vanish g = group_skipped p.p_unify g ||
                           (nfs && not p.p_unify &&
                            List.exists (fun (_, a) -> List.exists (fun (_, b) -> a != b && should_align_with p.p_nc p.p_fspp a b) g) g) in
        let rec walk gs rs k =
          match gs, rs with
          | [], [] -> true
          | [], _ :: _ -> note (Printf.sprintf "code formed %d more region(s) than the model" (List.length rs)); false
          | g :: gt, r :: rt when keys g = keyset r -> walk gt rt (k + 1)
          | g :: gt, _ when may_vanish g -> walk gt rs (k + 1)
          | g :: _, r :: _ ->
              note (Printf.sprintf "group %d: model {%s} code {%s}" k
                      (String.concat " " (List.map (fun (c, i) -> Printf.sprintf "%d.%d" c i) (keys g)))
                      (String.concat " " (List.map (fun (c, i) -> Printf.sprintf "%d.%d" c i) (keyset r))));
              false
          | g :: _, [] ->
              if p.p_complete then
                (note (Printf.sprintf "group %d: model {%s} not formed by the code" k
                         (String.concat " " (List.map (fun (c, i) -> Printf.sprintf "%d.%d" c i) (keys g)))); false)
              else true in
        if walk gs (List.rev p.p_regions) 0 then "ok" else "DIFF" in
  (* --- completeness of the segment list: every route segment of every connector in this dimension is a member *)
  let mem =
    let dimb = (p.p_dim = 1) in
    let routes = List.rev_map (fun (c, arr) -> (z_of_int c, List.map (fun (x, y) -> { px = x; py = y }) (Array.to_list arr))) p.p_routes in
    let msegs = List.map (fun (s, idxs) -> (s, List.map nat_of_int idxs)) segs in
    let cov = members_covered dimb routes msegs and only = members_only dimb routes msegs in
    if cov && only then "ok" else begin
      let exp = pass_members dimb routes in
      List.iter (fun (c, m) ->
          if not (List.exists (fun x -> mem_matches c m x) msegs) then
            note (Printf.sprintf "route segment %d.%d-%d at %g [%g,%g] is in no region (not in the segment list)" (int_of_z c)
                    (int_of_nat m.m_lowi) (int_of_nat m.m_highi) (float_of_q m.m_pos) (float_of_q m.m_lo) (float_of_q m.m_hi))) exp;
      List.iter (fun ((s : seg), idxs) ->
          if not (List.exists (fun (c, m) -> mem_matches c m (s, idxs)) exp) then
            note (Printf.sprintf "listed segment of %d at %g [%g,%g] is no route segment" (int_of_z s.sconn)
                    (float_of_q s.spos) (float_of_q s.slo) (float_of_q s.shi))) msegs;
      "DIFF" end in
  (* --- checkpoint limits of shiftable middle segments *)
  let cpl_bad = ref [] in
  let coord (pt : q * q) dim = if dim = 0 then fst pt else snd pt in
  let alt = 1 - p.p_dim in
  List.iteri (fun k (s, idxs) ->
      if not s.sfixed && not s.sfinal then
        match idxs, List.assoc_opt (int_of_z s.sconn) p.p_routes, List.assoc_opt (int_of_z s.sconn) cps with
        | [a; b], Some route, Some cpl when abs (a - b) = 1 ->
            let i0 = min a b and i1 = max a b in
            let adj near far =                      (* the adjoining route segment from vertex `near` (on s) to `far` *)
              if far >= 0 && far < Array.length route then begin
                let pn = route.(near) and pf = route.(far) in
                if qeq (coord pn alt) (coord pf alt) then
                  List.iter (fun cp ->
                      let c = coord cp p.p_dim in
                      let lo = if qlt (coord pn p.p_dim) (coord pf p.p_dim) then coord pn p.p_dim else coord pf p.p_dim in
                      let hi = if qlt (coord pn p.p_dim) (coord pf p.p_dim) then coord pf p.p_dim else coord pn p.p_dim in
                      if qeq (coord cp alt) (coord pn alt) && qle lo c && qle c hi then
                        if not (cp_limit_ok s.spos s.smin s.smax c) then
                          cpl_bad := Printf.sprintf "%d:%d:%s:%g,%g" k (int_of_z s.sconn)
                              (if qeq c s.spos then "corner" else "inner") (float_of_q (fst cp)) (float_of_q (snd cp)) :: !cpl_bad) cpl
              end in
            adj i0 (i0 - 1); adj i1 (i1 + 1)
        | _ -> ()) segs;
  Printf.printf "G %d dim=%d unify=%d grp=%s mem=%s cpl=[%s] notes=%s\n" idx p.p_dim (if p.p_unify then 1 else 0) grp mem
    (String.concat "," (List.rev !cpl_bad)) (Buffer.contents notes)

(* ------------------------------------------------------------------ scenes *)
let parse_pts (t : string list) : pt list * string list =
  let n = int_of_string (List.hd t) in
  let rec go k l acc = if k = 0 then (List.rev acc, l) else match l with
    | x :: y :: r -> go (k - 1) r ({ px = q_of_string x; py = q_of_string y } :: acc)
    | _ -> failwith "pts" in
  go n (List.tl t) []

let do_scene (idx : int) (tol : q) (dist : q) (boxes : box list) (cs : sconn0 list) =
  let ids f = String.concat "," (List.filter_map (fun c -> if f c then None else Some (string_of_int (int_of_z c.c_id))) cs) in
  let bad_pairs = ref [] in
  let rec pairs = function
    | [] -> ()
    | a :: t -> List.iter (fun b -> if not (pair_ok tol dist boxes cs a b) then
                              bad_pairs := Printf.sprintf "%d/%d" (int_of_z a.c_id) (int_of_z b.c_id) :: !bad_pairs) t; pairs t in
  pairs cs;
  Printf.printf "S %d ok=%d ends=[%s] cps=[%s] nseg=[%s] orth=[%s] clear=[%s] fixed=[%s] pairs=[%s]\n" idx
    (if scene_ok tol dist boxes cs then 1 else 0)
    (ids ends_kept) (ids cps_kept) (ids no_new_segments) (ids still_orth) (ids (still_clear boxes)) (ids fixed_kept)
    (String.concat "," (List.rev !bad_pairs))

(* ------------------------------------------------------------------ main loop *)
let () =
  let cur : dreg option ref = ref None in
  let ridx = ref 0 in
  let sidx = ref 0 in
  let sc_tol = ref tol6 in
  let sc_dist = ref tol6 in
  let sc_boxes = ref [] in
  let sc_conns = ref [] in
  let curp : dpass option ref = ref None in
  let pidx = ref 0 in
  let cps : (int * (q * q) list) list ref = ref [] in
  let flush_region () = match !cur with
    | Some d -> d.d_segs <- List.rev d.d_segs; d.d_segvar <- List.rev d.d_segvar; d.d_iters <- List.rev d.d_iters;
        (* merge hook H1b's SEGX fields into the segment records *)
        if d.d_segx <> [] then
          d.d_segs <- List.mapi (fun i (s : seg) ->
              match List.assoc_opt i d.d_segx with
              | Some (sb, zb, _, cpl) ->
                  { s with ssbend = sb; szbend = zb; scpa = List.map (fun (x, y) -> if d.d_dim = 0 then y else x) cpl }
              | None -> s) d.d_segs;
        (match !curp with
         | Some p when d.d_segx <> [] ->
             p.p_nfs := Some d.d_nfs;
             p.p_regions <- (List.concat (List.mapi (fun i (s : seg) ->
                 match List.assoc_opt i d.d_segx with
                 | Some (_, _, idxs, _) -> List.map (fun k -> (int_of_z s.sconn, k)) idxs
                 | None -> []) d.d_segs)) :: p.p_regions
         | _ -> ());
        (try do_region !ridx d with e -> Printf.printf "R %d ERROR %s\n" !ridx (Printexc.to_string e));
        incr ridx; cur := None
    | None -> () in
  let flush_pass complete = match !curp with
    | Some p -> p.p_complete <- complete;
        (try do_pass !pidx p !cps with e -> Printf.printf "G %d ERROR %s\n" !pidx (Printexc.to_string e));
        incr pidx; curp := None
    | None -> () in
  let parse_x (t : string list) =      (* sBend zBend nidx idx.. ncp x y .. *)
    match t with
    | sb :: zb :: n :: rest ->
        let n = int_of_string n in
        let idxs = List.map int_of_string (take n rest) in
        (match drop n rest with
         | m :: r2 ->
             let m = int_of_string m in
             let rec go k l = if k = 0 then [] else match l with
               | x :: y :: r -> (q_of_string x, q_of_string y) :: go (k - 1) r | _ -> failwith "SEGX cps" in
             (b_of sb, b_of zb, idxs, go m r2)
         | [] -> (b_of sb, b_of zb, idxs, []))
    | _ -> failwith "SEGX" in
  (try
     while true do
       let line = input_line stdin in
       let t = List.filter (fun s -> s <> "") (String.split_on_char ' ' line) in
       match t with
       | [] -> ()
       | "CPS" :: conn :: rest ->
           let (pl, _) = parse_pts rest in
           cps := (int_of_string conn, List.map (fun (p : pt) -> (p.px, p.py)) pl) :: !cps
       | "ALLSEG" :: dim :: u :: _n :: nc :: fspp :: more ->
           flush_region (); flush_pass true;
           curp := Some { p_dim = int_of_string dim; p_unify = b_of u; p_nc = b_of nc; p_fspp = q_of_string fspp;
                          p_nfs = ref (match more with o :: _ -> Some (b_of o) | [] -> None);
                          p_routes = []; p_segs = []; p_regions = []; p_complete = true }
       | "AROUTE" :: conn :: rest ->
           (match !curp with Some p ->
              let (pl, _) = parse_pts rest in
              p.p_routes <- (int_of_string conn, Array.of_list (List.map (fun (q : pt) -> (q.px, q.py)) pl)) :: p.p_routes
            | None -> ())
       | "ASEG" :: _k :: conn :: pos :: fx :: fin :: eis :: cp :: single :: zz :: mn :: mx :: lo :: hi :: rest ->
           (match !curp with Some p ->
              let (sb, zb, idxs, cpl) = parse_x rest in
              p.p_segs <- ({ sconn = z_of_int (int_of_string conn); spos = q_of_string pos; sfixed = b_of fx; sfinal = b_of fin;
                             sendsInShape = b_of eis; scp = b_of cp; ssingle = b_of single; szigzag = b_of zz;
                             smin = q_of_string mn; smax = q_of_string mx; slo = q_of_string lo; shi = q_of_string hi;
                             ssbend = sb; szbend = zb;
                             scpa = List.map (fun (x, y) -> if p.p_dim = 0 then y else x) cpl }, idxs) :: p.p_segs
            | None -> ())
       | "SEGX" :: k :: rest ->
           (match !cur with Some d -> d.d_segx <- (int_of_string k, parse_x rest) :: d.d_segx | None -> ())
       | "REGION" :: dim :: u :: base :: nfs :: nsp :: n :: fspp :: more ->
           flush_region ();
           cur := Some { d_dim = int_of_string dim; d_unify = b_of u; d_base = q_of_string base; d_nfs = b_of nfs; d_nsp = b_of nsp;
                         d_n = int_of_string n; d_fspp = q_of_string fspp;
                         d_nc = (match more with nc :: _ -> Some (b_of nc) | [] -> None); d_segx = [];
                         d_segs = []; d_segvar = []; d_rel = []; d_vars = None; d_cons = None; d_gapcs = None; d_pot = None;
                         d_iters = []; d_end = None }
       | "SEG" :: _k :: conn :: pos :: fx :: fin :: eis :: cp :: single :: zz :: mn :: mx :: var :: des :: wt :: id :: lo :: hi :: _ ->
           (match !cur with Some d ->
              d.d_segs <- { sconn = z_of_int (int_of_string conn); spos = q_of_string pos; sfixed = b_of fx; sfinal = b_of fin;
                            sendsInShape = b_of eis; scp = b_of cp; ssingle = b_of single; szigzag = b_of zz;
                            smin = q_of_string mn; smax = q_of_string mx; slo = q_of_string lo; shi = q_of_string hi;
                            ssbend = false; szbend = false; scpa = [] } :: d.d_segs;
              d.d_segvar <- (int_of_string var, { vid = z_of_int (int_of_string id); vdes = q_of_string des; vwt = q_of_string wt }) :: d.d_segvar
            | None -> ())
       | "REL" :: i :: j :: ov :: sa :: ca :: sh :: _ ->
           (match !cur with Some d ->
              d.d_rel <- (int_of_string i, int_of_string j, { r_ov = b_of ov; r_sa = b_of sa; r_ca = b_of ca; r_sh = b_of sh }) :: d.d_rel
            | None -> ())
       | "VARS" :: n :: rest ->
           (match !cur with Some d ->
              let rec go k l = if k = 0 then [] else match l with
                | id :: des :: wt :: r -> { vid = z_of_int (int_of_string id); vdes = q_of_string des; vwt = q_of_string wt } :: go (k - 1) r
                | _ -> failwith "VARS" in
              d.d_vars <- Some (go (int_of_string n) rest)
            | None -> ())
       | "CONS" :: rest ->
           (match !cur with Some d ->
              let cs = parse_cons rest in
              (match d.d_iters with
               | [] -> d.d_cons <- Some cs
               | it :: _ -> it.i_cons <- Some cs)
            | None -> ())
       | "GAPCS" :: _n :: rest -> (match !cur with Some d -> d.d_gapcs <- Some (List.map int_of_string rest) | None -> ())
       | "POT" :: rest -> (match !cur with Some d -> d.d_pot <- Some (parse_pairs rest) | None -> ())
       | "SOLVE" :: sep :: n :: rest ->
           (match !cur with Some d ->
              d.d_iters <- { i_sep = q_of_string sep; i_x = List.map q_of_string (take (int_of_string n) rest); i_unsat = [];
                             i_sat = None; i_rg = None; i_step = None; i_cons = None; i_rg2 = None } :: d.d_iters
            | None -> ())
       | "UNSAT" :: _n :: rest -> (match !cur with Some { d_iters = it :: _; _ } -> it.i_unsat <- List.map b_of rest | _ -> ())
       | "SCAN" :: s :: _ -> (match !cur with Some { d_iters = it :: _; _ } -> it.i_sat <- Some (b_of s) | _ -> ())
       | "RANGES" :: rest ->
           (match !cur with Some { d_iters = it :: _; _ } ->
              if it.i_rg = None then it.i_rg <- Some (parse_pairs rest) else it.i_rg2 <- Some (parse_pairs rest)
            | _ -> ())
       | "STEP" :: sep :: s :: j :: _ ->
           (match !cur with Some { d_iters = it :: _; _ } -> it.i_step <- Some (q_of_string sep, b_of s, b_of j) | _ -> ())
       | "END" :: s :: sep :: n :: rest ->
           (match !cur with Some d -> d.d_end <- Some (b_of s, q_of_string sep, List.map q_of_string (take (int_of_string n) rest)) | None -> ());
           flush_region ()
       | "ENDREGIONS" :: c :: _ -> flush_region (); flush_pass (c <> "0"); cps := []
       | "ENDREGIONS" :: _ -> flush_region (); flush_pass true; cps := []
       | "SCENE" :: tol :: dist :: _ -> flush_region (); sc_tol := q_of_string tol; sc_dist := q_of_string dist; sc_boxes := []; sc_conns := []
       | "BOX" :: id :: x0 :: y0 :: x1 :: y1 :: _ ->
           sc_boxes := { b_id = z_of_int (int_of_string id); bx0 = q_of_string x0; by0 = q_of_string y0; bx1 = q_of_string x1; by1 = q_of_string y1 } :: !sc_boxes
       | "CONN" :: id :: rest ->
           let (raw, r1) = parse_pts rest in
           let (disp, r2) = parse_pts r1 in
           let (cps, r3) = parse_pts r2 in
           let natt = int_of_string (List.hd r3) in
           let att = List.map (fun s -> z_of_int (int_of_string s)) (take natt (List.tl r3)) in
           let fx = (match drop natt (List.tl r3) with "FX" :: _ -> true | _ -> false) in
           sc_conns := { c_id = z_of_int (int_of_string id); c_raw = raw; c_disp = disp; c_cps = cps; c_att = att; c_fixed = fx } :: !sc_conns
       | "ENDSCENE" :: _ ->
           (try do_scene !sidx !sc_tol !sc_dist (List.rev !sc_boxes) (List.rev !sc_conns)
            with e -> Printf.printf "S %d ERROR %s\n" !sidx (Printexc.to_string e));
           incr sidx
       | _ -> ()
     done
   with End_of_file -> ());
  flush_region ()
