(* C12 driver: runs the extracted verified checker is_tree_with_leaves (Graph/Trees.v) on graphs given one per line.
     TREE m u1 v1 ... um vm k t1 ... tk      -> TREE ok connected acyclic leaves_ok nleaves l1 ...
     OPS  (model self-test, used for the evidence samples)
       OPS m edges k T nops (C j1 j2 | M j1 j2 | S j j' nb b* | K mc cands)*  -> OPS ok_all tree_after
   Replay of a hook-H2 op log on the extracted segment-level model (Avoid/HyperSegModel.v); one answer line per command:
     SEG m edges k T        state := (g, T)            -> SEG tree_with_leaves connected acyclic leaves_ok
     SETT k T               T := ...                   -> SETT
     OP C a b | OP S a b n | OP F s t u | OP FD s t u | OP B a b
                            g := sop_graph g op when defined (also when the guard fails, to keep following the log),
                            T := sop_leaves T op       -> OP defined guard tree_after
     ADJ n k n1 .. nk       neighbours of n (multiset) -> ADJ equal k' m1 .. mk'
     SAME a b               same component of g        -> SAME 0|1
     END m edges            compare g with the logged graph as multisets of unordered pairs
                                                       -> END equal tree_with_leaves tree k T...
     SMOOTH j J             connector-level reading    -> SMOOTH m u1 v1 ... *)
open C12_model

let rec nat_of_int n = if n <= 0 then O else S (nat_of_int (n - 1))
let rec int_of_nat = function O -> 0 | S n -> 1 + int_of_nat n
let bstr b = if b then "1" else "0"

let norm (a, b) = let a = int_of_nat a and b = int_of_nat b in if a <= b then (a, b) else (b, a)
let sorted_edges g = List.sort compare (List.map norm g)
let cur_g = ref [] and cur_t = ref []

let () =
  let ic = open_in Sys.argv.(1) in
  (try
    while true do
      let line = input_line ic in
      let w = Array.of_list (List.filter (fun s -> s <> "") (String.split_on_char ' ' line)) in
      if Array.length w > 0 then begin
        let n i = int_of_string w.(i) in
        let pos = ref 1 in
        let next () = let v = n !pos in incr pos; v in
        let read_edges () = let m = next () in List.init m (fun _ -> let u = next () in let v = next () in (nat_of_int u, nat_of_int v)) in
        let read_list () = let k = next () in List.init k (fun _ -> nat_of_int (next ())) in
        match w.(0) with
        | "TREE" ->
            let g = read_edges () in
            let t = read_list () in
            let ls = List.sort compare (List.map int_of_nat (leaves g)) in
            Printf.printf "TREE %s %s %s %s %d" (bstr (is_tree_with_leaves g t)) (bstr (connectedb g)) (bstr (acyclicb g))
              (bstr (leavesb g t)) (List.length ls);
            List.iter (fun x -> Printf.printf " %d" x) ls;
            print_newline ()
        | "OPS" ->
            let g = read_edges () in
            let t = read_list () in
            let nops = next () in
            let ops = List.init nops (fun _ ->
              let k = w.(!pos) in incr pos;
              match k with
              | "C" -> let a = next () in let b = next () in ContractEdge (nat_of_int a, nat_of_int b)
              | "M" -> let a = next () in let b = next () in MergeJunctions (nat_of_int a, nat_of_int b)
              | "S" -> let a = next () in let b = next () in let bs = read_list () in SplitJunction (nat_of_int a, nat_of_int b, bs)
              | _ -> ReplaceByMTST (read_edges ())) in
            let ok = ref true and cur = ref g in
            List.iter (fun o -> if not (hop_ok t !cur o) then ok := false; cur := run_hops t !cur [o]) ops;
            Printf.printf "OPS %s %s\n" (bstr !ok) (bstr (is_tree_with_leaves !cur t))
        | "SEG" ->
            let g = read_edges () in
            let t = read_list () in
            cur_g := g; cur_t := t;
            Printf.printf "SEG %s %s %s %s\n" (bstr (is_tree_with_leaves g t)) (bstr (connectedb g)) (bstr (acyclicb g)) (bstr (leavesb g t))
        | "SETT" -> cur_t := read_list (); print_string "SETT\n"
        | "OP" ->
            let k = w.(!pos) in incr pos;
            let a = nat_of_int (next ()) in let b = nat_of_int (next ()) in
            let o = (match k with
              | "C" -> SContract (a, b)
              | "S" -> let n = nat_of_int (next ()) in SSubdivide (a, b, n)
              | "F" -> let u = nat_of_int (next ()) in SFold (a, b, u)
              | "FD" -> let u = nat_of_int (next ()) in SFoldDrop (a, b, u)
              | "B" -> SBridge (a, b)
              | s -> failwith ("unknown op " ^ s)) in
            let safe = sop_safe !cur_g o in
            (match sop_graph !cur_g o with
             | None -> Printf.printf "OP 0 %s %s\n" (bstr safe) (bstr (is_treeb !cur_g))
             | Some g' ->
                 (* with the guard: exactly apply_sop; without: the graph step alone, so that the replay can go on *)
                 (match apply_sop (!cur_g, !cur_t) o with
                  | Some (g2, t2) -> cur_g := g2; cur_t := t2
                  | None -> cur_t := sop_leaves !cur_t o; cur_g := g');
                 Printf.printf "OP 1 %s %s\n" (bstr safe) (bstr (is_treeb !cur_g)))
        | "ADJ" ->
            let x = next () in
            let want = List.sort compare (List.map int_of_nat (read_list ())) in
            let have = List.sort compare (List.concat (List.map (fun (a, b) ->
              let a = int_of_nat a and b = int_of_nat b in
              (if a = x then [b] else []) @ (if b = x then [a] else [])) !cur_g)) in
            Printf.printf "ADJ %s %d" (bstr (want = have)) (List.length have);
            List.iter (fun y -> Printf.printf " %d" y) have; print_newline ()
        | "SAME" ->
            let a = nat_of_int (next ()) in let b = nat_of_int (next ()) in
            Printf.printf "SAME %s\n" (bstr (uf_same (comp_uf !cur_g) a b))
        | "END" ->
            let g = read_edges () in
            Printf.printf "END %s %s %s %d" (bstr (sorted_edges g = sorted_edges !cur_g)) (bstr (is_tree_with_leaves !cur_g !cur_t))
              (bstr (is_treeb !cur_g)) (List.length !cur_t);
            List.iter (fun y -> Printf.printf " %d" (int_of_nat y)) !cur_t; print_newline ()
        | "SMOOTH" ->
            let j = read_list () in
            let s = smooth j !cur_g in
            Printf.printf "SMOOTH %d" (List.length s);
            List.iter (fun (a, b) -> Printf.printf " %d %d" (int_of_nat a) (int_of_nat b)) s; print_newline ()
        | s -> failwith ("unknown command " ^ s)
      end
    done
  with End_of_file -> ());
  close_in ic
