(* C12 driver: runs the extracted verified checker is_tree_with_leaves (Graph/Trees.v) on graphs given one per line.
     TREE m u1 v1 ... um vm k t1 ... tk      -> TREE ok connected acyclic leaves_ok nleaves l1 ...
     OPS  (model self-test, used for the evidence samples)
       OPS m edges k T nops (C j1 j2 | M j1 j2 | S j j' nb b* | K mc cands)*  -> OPS ok_all tree_after *)
open C12_model

let rec nat_of_int n = if n <= 0 then O else S (nat_of_int (n - 1))
let rec int_of_nat = function O -> 0 | S n -> 1 + int_of_nat n
let bstr b = if b then "1" else "0"

let () =
  let ic = open_in Sys.argv.(1) in
  (try
    while true do
      let line = input_line ic in
      let w = Array.of_list (List.filter (fun s -> s <> "") (String.split_on_char ' ' line)) in
      if Array.length w > 0 then begin
        let n i = int_of_string w.(i) in
        let pos = ref 1 in
        let next () = let v = n !pos in incr pos; v in
        let read_edges () = let m = next () in List.init m (fun _ -> let u = next () in let v = next () in (nat_of_int u, nat_of_int v)) in
        let read_list () = let k = next () in List.init k (fun _ -> nat_of_int (next ())) in
        match w.(0) with
        | "TREE" ->
            let g = read_edges () in
            let t = read_list () in
            let ls = List.sort compare (List.map int_of_nat (leaves g)) in
            Printf.printf "TREE %s %s %s %s %d" (bstr (is_tree_with_leaves g t)) (bstr (connectedb g)) (bstr (acyclicb g))
              (bstr (leavesb g t)) (List.length ls);
            List.iter (fun x -> Printf.printf " %d" x) ls;
            print_newline ()
        | "OPS" ->
            let g = read_edges () in
            let t = read_list () in
            let nops = next () in
            let ops = List.init nops (fun _ ->
              let k = w.(!pos) in incr pos;
              match k with
              | "C" -> let a = next () in let b = next () in ContractEdge (nat_of_int a, nat_of_int b)
              | "M" -> let a = next () in let b = next () in MergeJunctions (nat_of_int a, nat_of_int b)
              | "S" -> let a = next () in let b = next () in let bs = read_list () in SplitJunction (nat_of_int a, nat_of_int b, bs)
              | _ -> ReplaceByMTST (read_edges ())) in
            let ok = ref true and cur = ref g in
            List.iter (fun o -> if not (hop_ok t !cur o) then ok := false; cur := run_hops t !cur [o]) ops;
            Printf.printf "OPS %s %s\n" (bstr !ok) (bstr (is_tree_with_leaves !cur t))
        | s -> failwith ("unknown command " ^ s)
      end
    done
  with End_of_file -> ());
  close_in ic
