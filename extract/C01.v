(* Extraction for C01/C02: the IncSolver model, the verified checkers (sat_or_flagged, detect, kkt_ok, kkt_gap)
   and the rational operations the (unverified) oracle helpers in the driver use. *)
Require Extraction.
Require Import ExtrOcamlBasic.
From Adapt Require Import Num.Qaux Vpsc.VpscSpec Vpsc.KKT Vpsc.Feas Vpsc.VpscModel Vpsc.VpscInv Vpsc.VpscInvB Vpsc.VpscKktB Vpsc.VpscModelW Vpsc.StaticModel Vpsc.StaticInvB Vpsc.StaticRefB.
Extraction "c01_model.ml"
  kkt_ok kkt_gap sat_or_flagged detect obj place_of
  init step step_chk step_w step_w_chk all_invb_w stats_posb all_invb inv_mask bookb actb forestb trichotomyb statsb stats_liveb stats_adb blistb final_positions blk_of act_of uns_of tie scons svars act_invb
  stationarityb kkt_stateb fresh_count exit_gap exit_min_lam
  static_init static_satisfy_t static_solve_t base stie merge_pass merge_pass_chk is_dag refine_chk
  Qplus Qminus Qmult Qdiv Qopp Qred Qle_bool Qeq_bool Qcompare.
