(* Extraction for C18: the hand model of SepPair / SepMatrix and the verified checkers. *)
Require Extraction.
Require Import ExtrOcamlBasic.
From Adapt Require Import Num.Qaux Num.SignedZero Dialect.SepPairModel Dialect.SepSubsetModel.
Extraction "c18_model.ml" sp_default addSep transform isVAlign isHAlign isVerticalCardinal isHorizontalCardinal
  getCardinalDir holdsb tf_place generateSeparationConstraint vc_holdsb
  m_addSep m_addFixedRelativeSep m_getCardinalDir m_areAligned m_transform sep_equivb coincideb
  m_addFixedRelativeSepPos m_setCardinalOP m_hAlign m_vAlign m_alignByEquatedCoord m_free m_clear m_setSepPair
  m_transformClosedSubset m_transformOpenSubset m_removeNode m_removeNodes m_corresponding m_roundGapsUpward m_holdsb
  sm_transformClosedSubset sm_transformOpenSubset sm_transformOpenSubset_hoisted sm_spec_closed sm_spec_open
  ascb keys_ascb rows_ascb upperb.
