(* C14 driver: reads drawings (before/after doHOLA, exact rationals) and prints the verdict of the extracted,
   verified checker hola_ok together with the verdicts of its six conjuncts and, for diagnosis only, which edges /
   constraints / node pairs fail.  Numbers: [-]HEX/HEX rationals (exact images of the dumped doubles).
   Input, one or more cases:
     case <name>
     tols <size> <ovl> <par> <end> <thru> <sep>
     scalar <q>
     B N id cx cy w h | B E s t | A N id cx cy w h | A E s t k x1 y1 .. | A X extra
     A S s t xgt ygt xst yst sx |gx| sy |gy|         (enum codes as in constraints.h: gt 0 CENTRE 1 BDRY; st 0 NONE 1 EQ 2 INEQ)
     end
   Output per case: one line
     <name> ok=<b> nodes=<b> edges=<b> sizes=<b> overlap=<b> routes=<b> seps=<b> pad=<float> iel=<float> | E <i>:<lpet flags> ... | S <i> ... | O <id>,<id> ...  *)
open C14_model

let hexval c = match c with
  | '0'..'9' -> Char.code c - 48 | 'a'..'f' -> Char.code c - 87 | 'A'..'F' -> Char.code c - 55
  | _ -> failwith ("bad hex digit " ^ String.make 1 c)
let pos_of_hex (s : string) : positive option =
  let acc = ref None in
  String.iter (fun c ->
    let v = hexval c in
    for b = 3 downto 0 do
      let bit = (v lsr b) land 1 = 1 in
      acc := (match !acc with
              | None -> if bit then Some XH else None
              | Some p -> Some (if bit then XI p else XO p))
    done) s;
  !acc
let q_of_string (s : string) : q =
  let neg = String.length s > 0 && s.[0] = '-' in
  let s = if neg then String.sub s 1 (String.length s - 1) else s in
  let (a, b) = match String.index_opt s '/' with
    | Some i -> (String.sub s 0 i, String.sub s (i + 1) (String.length s - i - 1))
    | None -> (s, "1") in
  let den = match pos_of_hex b with Some p -> p | None -> failwith "zero denominator" in
  let num = match pos_of_hex a with None -> Z0 | Some p -> if neg then Zneg p else Zpos p in
  qred { qnum = num; qden = den }
let rec float_of_pos = function XH -> 1. | XO p -> 2. *. float_of_pos p | XI p -> 2. *. float_of_pos p +. 1.
let float_of_q (x : q) : float =
  let x = qred x in
  let n = match x.qnum with Z0 -> 0. | Zpos p -> float_of_pos p | Zneg p -> -. float_of_pos p in
  n /. float_of_pos x.qden
let rec pos_of_int n = if n = 1 then XH else if n land 1 = 0 then XO (pos_of_int (n lsr 1)) else XI (pos_of_int (n lsr 1))
let z_of_int n = if n = 0 then Z0 else if n > 0 then Zpos (pos_of_int n) else Zneg (pos_of_int (-n))
let rec int_of_pos = function XH -> 1 | XO p -> 2 * int_of_pos p | XI p -> 2 * int_of_pos p + 1
let int_of_z = function Z0 -> 0 | Zpos p -> int_of_pos p | Zneg p -> - (int_of_pos p)
let zs s = z_of_int (int_of_string s)
let split_ws s = List.filter (fun t -> t <> "") (String.split_on_char ' ' (String.trim s))
let b2 b = if b then "1" else "0"

let gts = [| CENTRE; BDRY |]
let sts = [| NONE; EQ; INEQ |]

let rec pts_of = function
  | x :: y :: r -> { px = q_of_string x; py = q_of_string y } :: pts_of r
  | _ -> []

let () =
  let name = ref "" and tl = ref None and scalar = ref (q_of_string "1/4") in
  let bn = ref [] and be = ref [] and an = ref [] and ae = ref [] and asep = ref [] and ax = ref (q_of_string "0") in
  let reset () = bn := []; be := []; an := []; ae := []; asep := []; ax := q_of_string "0" in
  let finish () =
    let t = match !tl with Some t -> t | None -> failwith "no tols" in
    let b = { dnodes = List.rev !bn; dedges = List.rev !be; dseps = []; dextra = q_of_string "0" } in
    let a = { dnodes = List.rev !an; dedges = List.rev !ae; dseps = List.rev !asep; dextra = !ax } in
    let pad = pad_of t !scalar b in
    let c1 = same_nodes_b b a and c2 = same_edges_b b a and c3 = sizes_kept_b t.t_size b a
    and c4 = no_overlap_b t.t_ovl a and c5 = routes_ok_b t pad a and c6 = seps_ok_b t.t_sep a in
    let ok = hola_ok t !scalar b a in
    if ok <> (c1 && c2 && c3 && c4 && c5 && c6) then failwith "driver inconsistency: hola_ok differs from its conjuncts";
    let buf = Buffer.create 256 in
    Buffer.add_string buf (Printf.sprintf "%s ok=%s nodes=%s edges=%s sizes=%s overlap=%s routes=%s seps=%s pad=%.17g iel=%.17g"
      !name (b2 ok) (b2 c1) (b2 c2) (b2 c3) (b2 c4) (b2 c5) (b2 c6) (float_of_q pad) (float_of_q (iel (sizes_of b))));
    if not c5 then begin
      Buffer.add_string buf " | E";
      List.iteri (fun i e ->
        let l = len_ok_b e and p = par_ok_b t.t_par e and en = ends_ok_b pad a e and th = thru_ok_b t.t_thru a e in
        if not (l && p && en && th) then
          Buffer.add_string buf (Printf.sprintf " %d:%s%s%s%s" i (if l then "" else "l") (if p then "" else "p")
                                   (if en then "" else "e") (if th then "" else "t"))) a.dedges
    end;
    if not c6 then begin
      Buffer.add_string buf " | S";
      List.iteri (fun i s -> if not (sep_ok_b t.t_sep a s) then Buffer.add_string buf (Printf.sprintf " %d" i)) a.dseps
    end;
    if not c4 then begin
      Buffer.add_string buf " | O";
      List.iter (fun n1 -> List.iter (fun n2 ->
        if int_of_z n1.nid < int_of_z n2.nid && overlapb t.t_ovl n1 n2 then
          Buffer.add_string buf (Printf.sprintf " %d,%d" (int_of_z n1.nid) (int_of_z n2.nid))) a.dnodes) a.dnodes
    end;
    print_endline (Buffer.contents buf);
    reset () in
  (try
    while true do
      let line = input_line stdin in
      match split_ws line with
      | ["case"; n] -> name := n; reset ()
      | ["tols"; a; b; c; d; e; f] ->
          tl := Some { t_size = q_of_string a; t_ovl = q_of_string b; t_par = q_of_string c; t_end = q_of_string d;
                       t_thru = q_of_string e; t_sep = q_of_string f }
      | ["scalar"; s] -> scalar := q_of_string s
      | ["B"; "N"; id; cx; cy; w; h] ->
          bn := node_of_centre (zs id) (q_of_string cx) (q_of_string cy) (q_of_string w) (q_of_string h) :: !bn
      | ["A"; "N"; id; cx; cy; w; h] ->
          an := node_of_centre (zs id) (q_of_string cx) (q_of_string cy) (q_of_string w) (q_of_string h) :: !an
      | ["B"; "E"; s; t] -> be := { esrc = zs s; etgt = zs t; eroute = [] } :: !be
      | "A" :: "E" :: s :: t :: _ :: rest -> ae := { esrc = zs s; etgt = zs t; eroute = pts_of rest } :: !ae
      | ["A"; "X"; e] -> ax := q_of_string e
      | ["A"; "S"; s; t; xgt; ygt; xst; yst; sx; gx; sy; gy] ->
          let sp = { xgt = gts.(int_of_string xgt); ygt = gts.(int_of_string ygt); xst = sts.(int_of_string xst);
                     yst = sts.(int_of_string yst);
                     xgap = { sneg = (sx = "1"); smag = q_of_string gx }; ygap = { sneg = (sy = "1"); smag = q_of_string gy } } in
          asep := { ssrc = zs s; stgt = zs t; spair = sp } :: !asep
      | ["end"] -> finish ()
      | [] -> ()
      | _ -> failwith ("bad line: " ^ line)
    done
  with End_of_file -> ())
