(* Extraction for C13: TriConstraint::slack / maxSafeAlpha regenerated from topology_constraints.cpp (Gen.Tri). *)
Require Extraction.
Require Import ExtrOcamlBasic.
From Adapt Require Import Num.Qaux Topology.TriModel Gen.Tri.
Extraction "c13_gen.ml" maxSafeAlpha maxSafeAlpha_asserts_ok slackAtInitial slackAtFinal slack Qred.
