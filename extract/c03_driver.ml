(* Driver for the extracted C03/C04 model (checker route_ok, classifier degenerate_chord, reference router).
   One query per input line, one answer per output line.  Numbers cross the boundary as binary strings
   "[-]bits/bits" (exact rationals; Python: bin()).  Z and Q stay the Coq datatypes.
     CHK nshapes {k x y ..} sx sy dx dy n {x y}      -> "ok" | "bad seg:shape:degen ..."   (route_ok + offenders)
     CLR nshapes {k x y ..} n {x y}                  -> "ok" | "bad seg:shape:degen ..."   (segs_clear over ALL shapes, no exemption)
     DEG k x y .. ax ay bx by                        -> "1" | "0"                          (degenerate_chord)
     CVX k x y ..                                    -> "1" | "0"                          (convex_ccw)
     PLAIN nshapes {k x y ..} sx sy dx dy            -> "route cost n x y .." | "nopath" | "fail"
     TAUT pen nshapes {k x y ..} sx sy dx dy         -> same  (pen in pico units, decimal)
     TAUTVO pen nshapes {k x y ..} sx sy dx dy       -> same  (route_taut_vertex_only: one label per VERTEX - the scene selector of
                                                        C04's family "corner reachable both ways round its obstacle", not an oracle)
     TAUTSEL npens {pen} nshapes {k x y ..} sx sy dx dy -> per penalty "costP costV" (taut_select: route_taut's search and the vertex-only search over
                                                        shared tables; "-" = no route)
     COST pen n {x y}                                -> "len turns"   (polyline_len, polyline_turns; pico units)
     VBP ax ay bx by cx cy dx dy ex ey               -> "1" | "0"   (spec_validateBendPoint)
     BLK k x y .. ax ay bx by                        -> "blocked touches crossed through degen"   (spec_shapeBlocks over poly_edges = the per-shape loop of
                                                        firstBlocker / newBlockingShape, Avoid/BlockingGen.v; number of end-point touches; some edge properly
                                                        crossed; through_interior; degenerate_chord)
   Costs are printed as decimal integers in units of 1e-12; route points as decimal num/den. *)
open C03_model

let rec pos_of_bits s i acc =   (* s.[i..] most significant first, acc = value so far (a positive) *)
  if i >= String.length s then acc
  else pos_of_bits s (i + 1) (if s.[i] = '1' then XI acc else XO acc)
let z_of_bits s =
  let neg = String.length s > 0 && s.[0] = '-' in
  let s = if neg then String.sub s 1 (String.length s - 1) else s in
  (* skip leading zeros *)
  let n = String.length s in
  let i = ref 0 in
  while !i < n && s.[!i] = '0' do incr i done;
  if !i >= n then Z0
  else let p = pos_of_bits s (!i + 1) XH in if neg then Zneg p else Zpos p
let q_of_tok t =
  match String.index_opt t '/' with
  | None -> { qnum = z_of_bits t; qden = XH }
  | Some k ->
    let a = String.sub t 0 k and b = String.sub t (k + 1) (String.length t - k - 1) in
    (match z_of_bits b with Zpos p -> { qnum = z_of_bits a; qden = p } | _ -> failwith "bad denominator")

let rec pos_of_int n = if n = 1 then XH else if n land 1 = 0 then XO (pos_of_int (n lsr 1)) else XI (pos_of_int (n lsr 1))
let z_of_int n = if n = 0 then Z0 else if n > 0 then Zpos (pos_of_int n) else Zneg (pos_of_int (-n))
let rec nat_of_int n = if n <= 0 then O else S (nat_of_int (n - 1))
let rec int_of_nat = function O -> 0 | S m -> 1 + int_of_nat m

(* arbitrary precision decimal printing of a Coq Z: repeated division by 10^9 on a little-endian bit list is
   overkill here; costs and coordinates fit OCaml's 63-bit ints except for route coordinates with huge
   denominators, which are printed in binary instead (prefix 'b') *)
let rec bits_of_pos = function XH -> "1" | XO p -> bits_of_pos p ^ "0" | XI p -> bits_of_pos p ^ "1"
let bits_of_z = function Z0 -> "0" | Zpos p -> bits_of_pos p | Zneg p -> "-" ^ bits_of_pos p
let rec int_of_pos = function XH -> 1 | XO p -> 2 * int_of_pos p | XI p -> 2 * int_of_pos p + 1
let int_of_z = function Z0 -> 0 | Zpos p -> int_of_pos p | Zneg p -> - (int_of_pos p)
let str_q q = bits_of_z q.qnum ^ "/" ^ bits_of_pos q.qden

let toks = ref [||]
let pos = ref 0
let next () = let t = !toks.(!pos) in incr pos; t
let next_int () = int_of_string (next ())
let next_q () = q_of_tok (next ())
let next_pt () = let x = next_q () in let y = next_q () in { px = x; py = y }
let next_poly () = let k = next_int () in List.init k (fun _ -> next_pt ())
let next_shapes () = let n = next_int () in List.init n (fun _ -> next_poly ())

let print_route = function
  | Route (pts, c) ->
    Printf.printf "route %d %d" (int_of_z c) (List.length pts);
    List.iter (fun p -> Printf.printf " %s %s" (str_q p.px) (str_q p.py)) pts;
    print_newline ()
  | NoPath -> print_endline "nopath"
  | SearchFail -> print_endline "fail"

let () =
  try
    while true do
      let line = input_line stdin in
      toks := Array.of_list (List.filter (fun s -> s <> "") (String.split_on_char ' ' line));
      pos := 0;
      if Array.length !toks > 0 then begin
        (match next () with
         | "CHK" ->
           let shapes = next_shapes () in
           let s = next_pt () in let d = next_pt () in
           let r = next_poly () in
           if route_ok shapes s d r then print_endline "ok"
           else begin
             (* offenders is computed against the connector's obstacles = shapes not strictly containing s or d *)
             let obst = List.filter (fun p -> not (inside_strict p s || inside_strict p d)) shapes in
             let idx = List.mapi (fun i p -> (i, p)) shapes in
             let keep = List.filter (fun (_, p) -> List.memq p obst) idx in
             let off = offenders (List.map snd keep) r in
             print_string "bad";
             List.iter (fun ((i, j), dg) ->
                 let (orig, _) = List.nth keep (int_of_nat j) in
                 Printf.printf " %d:%d:%d" (int_of_nat i) orig (if dg then 1 else 0)) off;
             print_newline ()
           end
         | "CLR" ->
           let shapes = next_shapes () in
           let r = next_poly () in
           if segs_clear shapes r then print_endline "ok"
           else begin
             print_string "bad";
             List.iter (fun ((i, j), dg) -> Printf.printf " %d:%d:%d" (int_of_nat i) (int_of_nat j) (if dg then 1 else 0)) (offenders shapes r);
             print_newline ()
           end
         | "DEG" ->
           let p = next_poly () in let a = next_pt () in let b = next_pt () in
           print_endline (if degenerate_chord p a b then "1" else "0")
         | "BLK" ->
           let p = next_poly () in let a = next_pt () in let b = next_pt () in
           let es = poly_edges p in
           let bi x = if x then 1 else 0 in
           Printf.printf "%d %d %d %d %d\n" (bi (spec_shapeBlocks a b es)) (int_of_nat (spec_touchCount a b es))
             (bi (List.exists (spec_crossesEdge a b) es)) (bi (through_interior p a b)) (bi (degenerate_chord p a b))
         | "CVX" ->
           let p = next_poly () in print_endline (if convex_ccw p then "1" else "0")
         | "PLAIN" ->
           let shapes = next_shapes () in
           let s = next_pt () in let d = next_pt () in
           print_route (route_plain shapes s d)
         | "TAUT" ->
           let pen = z_of_int (next_int ()) in
           let shapes = next_shapes () in
           let s = next_pt () in let d = next_pt () in
           print_route (route_taut pen shapes s d)
         | "TAUTVO" ->
           let pen = z_of_int (next_int ()) in
           let shapes = next_shapes () in
           let s = next_pt () in let d = next_pt () in
           print_route (route_taut_vertex_only pen shapes s d)
         | "TAUTSEL" ->
           let np = next_int () in
           let pens = List.init np (fun _ -> z_of_int (next_int ())) in
           let shapes = next_shapes () in
           let s = next_pt () in let d = next_pt () in
           let str = function Some c -> string_of_int (int_of_z c) | None -> "-" in
           print_endline (String.concat " " (List.map (fun (a, b) -> str a ^ " " ^ str b) (taut_select pens shapes s d)))
         | "COST" ->
           let pen = z_of_int (next_int ()) in
           let r = next_poly () in
           Printf.printf "%d %d\n" (int_of_z (polyline_len r)) (int_of_z (polyline_turns pen r))
         | "VBP" ->
           let a = next_pt () in let b = next_pt () in let c = next_pt () in
           let d = next_pt () in let e = next_pt () in
           print_endline (if spec_validateBendPoint a b c d e then "1" else "0")
         | "VBPGRID" ->
           (* same enumeration as harness/c04_vbp.cpp; '.' where the C++ precondition (asserted) does not hold *)
           let g = next_int () in
           let q_of_int n = { qnum = z_of_int n; qden = XH } in
           let pts = Array.init (g * g) (fun i -> { px = q_of_int (i / g); py = q_of_int (i mod g) }) in
           let n = Array.length pts in
           let buf = Buffer.create (1 lsl 16) in
           let cr o a b = (* sign of the cross product with small ints *)
             let f q = int_of_z q.qnum in
             compare ((f a.px - f o.px) * (f b.py - f o.py) - (f a.py - f o.py) * (f b.px - f o.px)) 0 in
           for a = 0 to n-1 do for b = 0 to n-1 do for c = 0 to n-1 do for d = 0 to n-1 do for e = 0 to n-1 do
             let pa = pts.(a) and pb = pts.(b) and pc = pts.(c) and pd = pts.(d) and pe = pts.(e) in
             let pre = a = b || b = c || cr pa pb pc = 0 || cr pd pb pe > 0 in
             Buffer.add_char buf (if not pre then '.' else if spec_validateBendPoint pa pb pc pd pe then '1' else '0')
           done done done done done;
           print_endline (Buffer.contents buf)
         | t -> print_endline ("? " ^ t));
        flush stdout
      end
    done
  with End_of_file -> ()
