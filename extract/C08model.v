(* Extraction for C08: non-overlap / containment generator models and the checkers (independent of the proofs). *)
Require Extraction.
Require Import ExtrOcamlBasic.
From Adapt Require Import Num.Qaux Cola.CompoundCsModel Cola.NonOverlapModel Cola.ContainmentModel Cola.VarLayoutModel Cola.NonOverlapExemptModel.
Extraction "c08_model.ml" run_ops gen_nonoverlap exempt_pairs gen_containment Sepb sep2b boxes_sepb
  setup_layout setup_layout_flat stored_layout containments setup_user_system gen_system tag_at
  gen_fixed_rect fixed_rect_constraints inside_rectb members_inside_rectb
  add_exempt_groups add_exempt_groups_noclear shape_pair_is_exempt set_avoid set_avoid_noclear opts0 after_calls obliged_pairs.
