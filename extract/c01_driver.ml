(* C01/C02 driver.  Reads instances (+ the real solver's results) and prints
     - the extracted IncSolver model's results for the same op history               (lines "m ...")
     - the verified checkers' verdicts on the REAL results: sat_or_flagged ("s"), detect ("d"),
       kkt_ok-certified optimum ("k"), kkt_gap bound ("g").
   The helpers forest_solve / enumerate below are NOT verified and need not be: every optimum they propose is
   accepted only if the extracted, proved checker kkt_ok says true (then it is THE optimum by kkt_ok_sound).
   Numbers: [-]HEX/HEX rationals.  Z, Q, nat stay the Coq datatypes. *)
open C01_model

let rec nat_of_int n = if n <= 0 then O else S (nat_of_int (n - 1))
let rec int_of_nat = function O -> 0 | S k -> 1 + int_of_nat k

(* ---- big numbers as Coq positives, via hex strings *)
let hexval c = match c with
  | '0'..'9' -> Char.code c - 48 | 'a'..'f' -> Char.code c - 87 | 'A'..'F' -> Char.code c - 55
  | _ -> failwith ("bad hex digit " ^ String.make 1 c)
let pos_of_hex (s : string) : positive option =
  let acc = ref None in
  String.iter (fun c ->
    let v = hexval c in
    for b = 3 downto 0 do
      let bit = (v lsr b) land 1 = 1 in
      acc := (match !acc with
              | None -> if bit then Some XH else None
              | Some p -> Some (if bit then XI p else XO p))
    done) s;
  !acc
let q_of_string (s : string) : q =
  let neg = String.length s > 0 && s.[0] = '-' in
  let s = if neg then String.sub s 1 (String.length s - 1) else s in
  let (a, b) = match String.index_opt s '/' with
    | Some i -> (String.sub s 0 i, String.sub s (i + 1) (String.length s - i - 1))
    | None -> (s, "1") in
  let den = match pos_of_hex b with Some p -> p | None -> failwith "zero denominator" in
  let num = match pos_of_hex a with None -> Z0 | Some p -> if neg then Zneg p else Zpos p in
  qred { qnum = num; qden = den }
let hex_of_pos (p : positive) : string =
  let rec bits p acc = match p with XH -> true :: acc | XO r -> bits r (false :: acc) | XI r -> bits r (true :: acc) in
  let bl = bits p [] in   (* MSB first *)
  let n = List.length bl in
  let pad = (4 - n mod 4) mod 4 in
  let bl = List.init pad (fun _ -> false) @ bl in
  let buf = Buffer.create 16 in
  let rec go = function
    | a :: b :: c :: d :: t ->
        let v = (if a then 8 else 0) + (if b then 4 else 0) + (if c then 2 else 0) + (if d then 1 else 0) in
        Buffer.add_char buf "0123456789abcdef".[v]; go t
    | _ -> () in
  go bl; Buffer.contents buf
let string_of_q (x : q) : string =
  let x = qred x in
  (match x.qnum with Z0 -> "0" | Zpos p -> hex_of_pos p | Zneg p -> "-" ^ hex_of_pos p) ^ "/" ^ hex_of_pos x.qden
let rec float_of_pos = function XH -> 1. | XO p -> 2. *. float_of_pos p | XI p -> 2. *. float_of_pos p +. 1.
let float_of_q (x : q) : float =
  let x = qred x in
  let n = match x.qnum with Z0 -> 0. | Zpos p -> float_of_pos p | Zneg p -> -. float_of_pos p in
  n /. float_of_pos x.qden

let q0 = { qnum = Z0; qden = XH }
let q1 = { qnum = Zpos XH; qden = XH }
let q2 = { qnum = Zpos (XO XH); qden = XH }
let ( +/ ) a b = qred (qplus a b)
let ( -/ ) a b = qred (qminus a b)
let ( */ ) a b = qred (qmult a b)
let ( // ) a b = qred (qdiv a b)
let qeq a b = qeq_bool a b
let qlt a b = not (qle_bool b a)

(* ---- unverified helper: optimum and multipliers supported on a given active forest *)
let forest_solve (vs : var array) (cs : con array) (act : bool array) : (q array * q array) option =
  let n = Array.length vs and m = Array.length cs in
  let l j = int_of_nat cs.(j).cl and r j = int_of_nat cs.(j).cr in
  let adj = Array.make n [] in
  let bad = ref false in
  let nact = ref 0 in
  for j = 0 to m - 1 do
    if act.(j) then begin
      incr nact;
      if l j = r j || l j >= n || r j >= n then bad := true
      else begin adj.(l j) <- (j, r j, true) :: adj.(l j); adj.(r j) <- (j, l j, false) :: adj.(r j) end
    end
  done;
  if !bad then None else begin
    let root = Array.make n (-1) and off = Array.make n q0 in
    let ncomp = ref 0 in
    for i = 0 to n - 1 do
      if root.(i) < 0 then begin
        incr ncomp;
        root.(i) <- i;
        let stack = ref [i] in
        while !stack <> [] do
          let v = List.hd !stack in
          stack := List.tl !stack;
          List.iter (fun (j, w, out) ->
            let o' = if out then off.(v) +/ cs.(j).gap else off.(v) -/ cs.(j).gap in
            if root.(w) < 0 then begin root.(w) <- i; off.(w) <- o'; stack := w :: !stack end
            else if not (qeq off.(w) o') then bad := true) adj.(v)
        done
      end
    done;
    if !bad || !nact <> n - !ncomp then None else begin
      (* block optimum: P = sum (w/s^2)(s d - o) / sum (w/s^2) *)
      let num = Array.make n q0 and den = Array.make n q0 in
      for i = 0 to n - 1 do
        let v = vs.(i) in
        let ws = v.wt // (v.scl */ v.scl) in
        let k = root.(i) in
        num.(k) <- num.(k) +/ (ws */ ((v.scl */ v.des) -/ off.(i)));
        den.(k) <- den.(k) +/ ws
      done;
      let x = Array.init n (fun i -> ((num.(root.(i)) // den.(root.(i))) +/ off.(i)) // vs.(i).scl) in
      (* leaf elimination for the multipliers: out_i - in_i = t_i := -2 w_i (x_i - d_i) / s_i *)
      let t = Array.init n (fun i -> qopp ((q2 */ vs.(i).wt */ (x.(i) -/ vs.(i).des)) // vs.(i).scl)) in
      let lam = Array.make m q0 in
      let resolved = Array.make m false in
      let deg = Array.map List.length adj in
      let queue = ref [] in
      for i = 0 to n - 1 do if deg.(i) = 1 then queue := i :: !queue done;
      while !queue <> [] do
        let i = List.hd !queue in
        queue := List.tl !queue;
        if deg.(i) = 1 then begin
          match List.find_opt (fun (j, _, _) -> not resolved.(j)) adj.(i) with
          | None -> ()
          | Some (j, w, out) ->
              if out then begin lam.(j) <- t.(i); t.(w) <- t.(w) +/ lam.(j) end
              else begin lam.(j) <- qopp t.(i); t.(w) <- t.(w) -/ lam.(j) end;
              resolved.(j) <- true;
              deg.(i) <- 0; deg.(w) <- deg.(w) - 1;
              if deg.(w) = 1 then queue := w :: !queue
        end
      done;
      Some (x, lam)
    end
  end

let certify vs cs act =
  match forest_solve vs cs act with
  | None -> None
  | Some (x, lam) ->
      if kkt_ok (Array.to_list vs) (Array.to_list cs) (Array.to_list x) (Array.to_list lam) then Some (x, lam) else None

(* exact oracle for tiny instances: enumerate candidate active forests, keep the one kkt_ok accepts *)
let enumerate vs cs =
  let m = Array.length cs in
  if m > 12 then None else begin
    let res = ref None in
    let mask = ref 0 in
    while !res = None && !mask < (1 lsl m) do
      let act = Array.init m (fun j -> (!mask lsr j) land 1 = 1) in
      (match certify vs cs act with Some (x, _) -> res := Some x | None -> ());
      incr mask
    done;
    !res
  end

(* ---- instance reading *)
type opk = OS | OF | OA of con | OD of int * q | OW of int * q | OR of int list | OP of int
type real = { r_op : int; r_status : string; r_x : q array; r_act : bool array; r_uns : bool array }
type inst = { id : int; kind : char; vs : var array; cs : con array; ops : opk array; reals : real list; queries : int list }

let split_ws s = List.filter (fun t -> t <> "") (String.split_on_char ' ' (String.trim s))
let bools_of s = if s = "-" then [||] else Array.init (String.length s) (fun i -> s.[i] = '1')

let read_instances ic : inst list =
  let out = ref [] in
  let cur = ref None in
  let kind = ref 'I' in
  let vs = ref [] and cs = ref [] and ops = ref [] and reals = ref [] and queries = ref [] in
  (try
    while true do
      let line = input_line ic in
      match split_ws line with
      | "N" :: id :: rest -> cur := Some (int_of_string id);
          kind := (match rest with [_; _; _; k] when String.length k > 0 -> k.[0] | _ -> 'I'); vs := []; cs := []; ops := []; reals := []; queries := []
      | ["v"; d; w; s] -> vs := { des = q_of_string d; wt = q_of_string w; scl = q_of_string s } :: !vs
      | ["c"; l; r; g; e] ->
          cs := { cl = nat_of_int (int_of_string l); cr = nat_of_int (int_of_string r); gap = q_of_string g; ceq = (e = "1") } :: !cs
      | ["o"; "S"] -> ops := OS :: !ops
      | ["o"; "F"] -> ops := OF :: !ops
      | ["o"; "A"; l; r; g; e] ->
          ops := OA { cl = nat_of_int (int_of_string l); cr = nat_of_int (int_of_string r); gap = q_of_string g; ceq = (e = "1") } :: !ops
      | ["o"; "D"; i; d] -> ops := OD (int_of_string i, q_of_string d) :: !ops
      | ["o"; "W"; i; w] -> ops := OW (int_of_string i, q_of_string w) :: !ops
      | "o" :: "R" :: _ :: ids -> ops := OR (List.map int_of_string ids) :: !ops
      | ["o"; "P"; j] -> ops := OP (int_of_string j) :: !ops
      | ["q"; k] -> queries := int_of_string k :: !queries     (* feasibility query: the real solver threw at op k *)
      | "r" :: k :: status :: rest ->
          let n = List.length !vs in
          let xs = Array.of_list (List.map q_of_string (List.filteri (fun i _ -> i < n) rest)) in
          let tail = List.filteri (fun i _ -> i >= n) rest in
          (match tail with
           | [a; u] -> reals := { r_op = int_of_string k; r_status = status; r_x = xs; r_act = bools_of a; r_uns = bools_of u } :: !reals
           | _ -> failwith "bad r line")
      | ["E"] ->
          (match !cur with
           | Some id -> out := { id; kind = !kind; vs = Array.of_list (List.rev !vs); cs = Array.of_list (List.rev !cs);
                                 ops = Array.of_list (List.rev !ops); reals = List.rev !reals; queries = List.rev !queries } :: !out
           | None -> ());
          cur := None
      | [] -> ()
      | _ -> failwith ("bad line: " ^ line)
    done
  with End_of_file -> ());
  List.rev !out

let fuel = nat_of_int 20000
let tol6 = q_of_string "1/f4240"            (* 1e-6 *)

let bstr a = if Array.length a = 0 then "-" else String.init (Array.length a) (fun i -> if a.(i) then '1' else '0')
let print_qs a = Array.iter (fun x -> print_char ' '; print_string (string_of_q x)) a

let () =
  let ic = open_in Sys.argv.(1) in
  let always_enum = Array.exists (fun a -> a = "enum") Sys.argv in
  let do_kkt = Array.exists (fun a -> a = "kkt") Sys.argv in
  let insts = read_instances ic in
  close_in ic;
  List.iter (fun inst ->
    Printf.printf "I %d\n" inst.id;
    let n = Array.length inst.vs in
    (* --- model run; remember the constraint set and model state at every S/F op *)
    let s = ref (init (Array.to_list inst.vs) (Array.to_list inst.cs)) in
    let alive = ref true in
    let weights_changed = ref false in
    let cs_at = Hashtbl.create 8 and vs_at = Hashtbl.create 8 and mact_at = Hashtbl.create 8 in
    let cur_cs = ref (Array.to_list inst.cs) and cur_vs = ref (Array.copy inst.vs) in
    (* object reuse (ops R / P): objs = every constraint object in creation order; the model has no object identity:
       R starts a FRESH model state over the current variables and the listed constraints, P is an addConstraint *)
    let objs = ref (Array.to_list inst.cs) in
    Array.iteri (fun k o ->
      (match o with
       | OA c -> cur_cs := !cur_cs @ [c]; objs := !objs @ [c]
       | OP j -> cur_cs := !cur_cs @ [List.nth !objs j]
       | OR ids -> cur_cs := List.map (fun j -> List.nth !objs j) ids
       | OD (i, d) -> let v = !cur_vs.(i) in let a = Array.copy !cur_vs in a.(i) <- { v with des = d }; cur_vs := a
       | OW (i, w) -> let v = !cur_vs.(i) in let a = Array.copy !cur_vs in a.(i) <- { v with wt = w }; cur_vs := a
       | _ -> ());
      (match o with
       | OS | OF -> Hashtbl.replace cs_at k (Array.of_list !cur_cs); Hashtbl.replace vs_at k !cur_vs
       | _ -> ());
      (match o with
       | OR _ when !alive ->
           s := init (Array.to_list !cur_vs) !cur_cs;
           weights_changed := false;
           Printf.printf "i %d %d 1 %d\n" k (if all_invb !s then 1 else 0) (if all_invb !s then 0 else int_of_nat (inv_mask !s))
       | _ -> ());
      if !alive && (match o with OR _ -> false | _ -> true) then begin
        let op = match o with OS -> Base Solve | OF -> Base Satisfy | OA c -> Base (AddConstraint c)
                              | OD (i, d) -> Base (SetDesired (nat_of_int i, d)) | OW (i, w) -> SetWeight (nat_of_int i, w)
                              | OP j -> Base (AddConstraint (List.nth !objs j)) | OR _ -> Base Satisfy (* not reached *) in
        (match o with OW _ -> weights_changed := true | _ -> ());
        (* the model run, with the proved invariants (VpscInvB.all_invb: book, act_inv, forest, trichotomy, block
           statistics) evaluated on EVERY state visited while executing this op; line "i k ok nstates mask".
           From the first weight change on (op W, VpscModelW.v) the statistics part is weakened to its weight-independent
           content (all_invb_w: A2 > 0, scale > 0, posn = (AD-AB)/A2): sums accumulated before the change are stale in
           deleted blocks. *)
        (* the evaluation is quadratic in n per state: instances with more than 40 variables (the V-run set, n up to 300)
           are run with plain `step` and print no "i" line *)
        let check_inv = n <= 40 in
        let inv_p = if !weights_changed then all_invb_w else all_invb in
        let (r, (inv_ok, nst)) = if check_inv then step_w_chk inv_p fuel !s op else (step_w fuel !s op, (true, O)) in
        let mask = if inv_ok then 0 else begin
          let bit p v = if fst (snd (step_w_chk p fuel !s op)) then 0 else v in
          bit bookb 1 + bit actb 2 + bit forestb 4 + bit trichotomyb 8 +
          (if !weights_changed then bit stats_posb 16 else bit statsb 16 + bit stats_liveb 32) end in
        if check_inv then Printf.printf "i %d %d %d %d\n" k (if inv_ok then 1 else 0) (int_of_nat nst) mask;
        if check_inv && inst.id mod 16 = 0 then begin
          (* step_chk must compute what step computes (sampled: it doubles the cost) *)
          let same = (match r, step_w fuel !s op with
            | Ok a, Ok b -> final_positions a = final_positions b && a.cact = b.cact && a.cuns = b.cuns && a.vblk = b.vblk && a.inactive = b.inactive
            | ThrowUnsat a, ThrowUnsat b -> a = b
            | OutOfFuel, OutOfFuel -> true
            | _ -> false) in
          if not same then Printf.printf "i %d 0 0 64\n" k
        end;
        (* C02 stationarity (VpscKktB.stationarityb, proved in VpscStationary.v): on EVERY state visited while executing a
           solve/satisfy op, the multipliers recomputed by the model's own findMinLM walk satisfy the stationarity
           equation of KKT.v at every variable whose block statistics are up to date; line
           "q k ok nstates fresh_vars_at_return gap_bound_at_return min_recomputed_multiplier_at_return" *)
        (match o with
         | OS | OF when check_inv && do_kkt ->
             let (_, (st_ok, nst2)) = step_w_chk kkt_stateb fuel !s op in
             let qs = function Some q -> Printf.sprintf "%.6e" (float_of_q q) | None -> "none" in
             (match r with
              | Ok s' -> Printf.printf "q %d %d %d %d %s %s\n" k (if st_ok then 1 else 0) (int_of_nat nst2)
                           (int_of_nat (fresh_count s')) (qs (exit_gap s')) (qs (exit_min_lam s'))
              | _ -> Printf.printf "q %d %d %d 0 none none\n" k (if st_ok then 1 else 0) (int_of_nat nst2))
         | _ -> ());
        match r with
        | Ok s' ->
            s := s';
            (match o with
             | OS | OF ->
                 let m = List.length (scons s') in
                 let pos = Array.of_list (final_positions s') in
                 let act = Array.init m (fun j -> act_of s' (nat_of_int j)) in
                 let uns = Array.init m (fun j -> uns_of s' (nat_of_int j)) in
                 Hashtbl.replace mact_at k (act, uns);
                 Printf.printf "m %d ok T%d W%d P" k (if tie s' then 1 else 0) (if act_invb s' then 1 else 0);
                 print_qs pos;
                 print_string " B";
                 let label = Hashtbl.create 8 in
                 for i = 0 to n - 1 do
                   let b = int_of_nat (blk_of s' (nat_of_int i)) in
                   if not (Hashtbl.mem label b) then Hashtbl.replace label b i;
                   Printf.printf " %d" (Hashtbl.find label b)
                 done;
                 Printf.printf " A %s U %s\n" (bstr act) (bstr uns)
             | _ -> ())
        | ThrowUnsat c -> alive := false; Printf.printf "m %d throw_unsat %d\n" k (int_of_nat c)
        | OutOfFuel -> alive := false; Printf.printf "m %d out_of_fuel\n" k
      end) inst.ops;
    (* --- the static Solver model (Vpsc/StaticModel.v) on static instances: line "t k status ..." *)
    if inst.kind = 'S' then begin
      let rec first_sf k = if k >= Array.length inst.ops then None else
        (match inst.ops.(k) with OS -> Some (k, true) | OF -> Some (k, false) | _ -> first_sf (k + 1)) in
      match first_sf 0 with
      | None -> ()
      | Some (k, is_solve) ->
          let s0 = static_init (Array.to_list inst.vs) (Array.to_list inst.cs) in
          (* the invariants of Vpsc/StaticInvB.v on every state of the merge pass: line "j k dag mask nstates allsat same" *)
          if n <= 40 then begin
            let dag = is_dag (base s0) in
            let (((rc, mask), cnt), allsat) = merge_pass_chk s0 in
            let same = (match rc, merge_pass s0 with
              | Ok a, Ok b -> final_positions (base a) = final_positions (base b) && (base a).cact = (base b).cact && (base a).vblk = (base b).vblk
              | ThrowUnsat a, ThrowUnsat b -> a = b
              | OutOfFuel, OutOfFuel -> true
              | _ -> false) in
            Printf.printf "j %d %d %d %d %d %d\n" k (if dag then 1 else 0) (int_of_nat mask) (int_of_nat cnt)
              (if allsat then 1 else 0) (if same then 1 else 0)
          end;
          (* the invariants of Vpsc/StaticRefB.v on every split of refine(): line "r k dag sat_ok ref_ok mask nsplits allsat same" *)
          if n <= 40 && is_solve then begin
            let dag = is_dag (base s0) in
            let (((((sat_ok, ref_ok), mask), ns), allsat), same) = refine_chk s0 in
            Printf.printf "r %d %d %d %d %d %d %d %d\n" k (if dag then 1 else 0) (if sat_ok then 1 else 0) (if ref_ok then 1 else 0)
              (int_of_nat mask) (int_of_nat ns) (if allsat then 1 else 0) (if same then 1 else 0)
          end;
          let (r, tie_at_end) = if is_solve then static_solve_t s0 else static_satisfy_t s0 in
          (match r with
           | Ok s' ->
               let b = base s' in
               let m = List.length (scons b) in
               let pos = Array.of_list (final_positions b) in
               let act = Array.init m (fun j -> act_of b (nat_of_int j)) in
               Printf.printf "t %d ok T%d W%d P" k (if tie_at_end then 1 else 0) (if act_invb b then 1 else 0);
               print_qs pos;
               print_string " B";
               let label = Hashtbl.create 8 in
               for i = 0 to n - 1 do
                 let bb = int_of_nat (blk_of b (nat_of_int i)) in
                 if not (Hashtbl.mem label bb) then Hashtbl.replace label bb i;
                 Printf.printf " %d" (Hashtbl.find label bb)
               done;
               Printf.printf " A %s\n" (bstr act)
           | ThrowUnsat c -> Printf.printf "t %d throw_unsat %d T%d\n" k (int_of_nat c) (if tie_at_end then 1 else 0)
           | OutOfFuel -> Printf.printf "t %d out_of_fuel\n" k)
    end;
    (* --- verified checkers on the real results *)
    List.iter (fun r ->
      let k = r.r_op in
      let cs = Hashtbl.find cs_at k and vs = Hashtbl.find vs_at k in
      let vsl = Array.to_list vs and csl = Array.to_list cs in
      let m = Array.length cs in
      if r.r_status = "ok" && Array.length r.r_uns = m && Array.length r.r_x = n then begin
        let xs = Array.to_list r.r_x in
        Printf.printf "s %d %d\n" k (if sat_or_flagged vsl csl xs (Array.to_list r.r_uns) tol6 then 1 else 0);
        (match detect (nat_of_int n) csl with
         | Potentials _ -> Printf.printf "d %d P\n" k
         | PosCycle w -> Printf.printf "d %d C %d\n" k (List.length w)
         | Unknown -> Printf.printf "d %d U\n" k);
        let is_solve = (match inst.ops.(k) with OS -> true | _ -> false) in
        let any_flag = Array.exists (fun b -> b) r.r_uns in
        if is_solve && not any_flag then begin
          let src = Buffer.create 4 in
          let best = ref None in
          let lam_r = ref None in
          (match forest_solve vs cs r.r_act with Some (_, lam) -> lam_r := Some lam | None -> ());
          (match certify vs cs r.r_act with Some (x, _) -> Buffer.add_char src 'R'; best := Some x | None -> ());
          (match Hashtbl.find_opt mact_at k with
           | Some (mact, muns) when not (Array.exists (fun b -> b) muns) && Array.length mact = m ->
               (match certify vs cs mact with
                | Some (x, _) -> Buffer.add_char src 'M'; if !best = None then best := Some x
                | None -> ())
           | _ -> ());
          if (always_enum || !best = None) && n <= 5 && m <= 12 then
            (match enumerate vs cs with
             | Some x ->
                 Buffer.add_char src 'E';
                 (match !best with
                  | Some b when not (Array.for_all2 qeq b x) -> Buffer.add_char src '!'   (* impossible by kkt_unique *)
                  | _ -> ());
                 if !best = None then best := Some x
             | None -> ());
          (match !best with
           | Some x -> Printf.printf "k %d %s" k (Buffer.contents src); print_qs x; print_newline ()
           | None -> Printf.printf "k %d none\n" k);
          (match !lam_r with
           | Some lam ->
               (match kkt_gap vsl csl xs (Array.to_list lam) with
                | Some b -> Printf.printf "g %d %.6e\n" k (float_of_q b)
                | None -> Printf.printf "g %d none\n" k)
           | None -> Printf.printf "g %d noforest\n" k)
        end
      end) inst.reals;
    (* feasibility of the system in force at an op where the real solver threw (static Solver: a throw is its report) *)
    List.iter (fun k ->
      match Hashtbl.find_opt cs_at k with
      | Some cs ->
          (match detect (nat_of_int n) (Array.to_list cs) with
           | Potentials _ -> Printf.printf "d %d P\n" k
           | PosCycle w -> Printf.printf "d %d C %d\n" k (List.length w)
           | Unknown -> Printf.printf "d %d U\n" k)
      | None -> ()) inst.queries;
    flush stdout) insts
