(* C18 driver: prints, from the extracted Coq model (C18_model), the same text as harness/c18_sep.cpp.
   argv: enum | d4 | ops <file> <refresh 0|1> | gen <file> | equiv <file> | tglfcheck <harness-output> | sub <file or ->
   Numbers cross as integers scaled by 4; Z/Q/nat stay the Coq datatypes. *)
open C18_model

let rec pos_of_int n = if n = 1 then XH else if n land 1 = 0 then XO (pos_of_int (n lsr 1)) else XI (pos_of_int (n lsr 1))
let z_of_int n = if n = 0 then Z0 else if n > 0 then Zpos (pos_of_int n) else Zneg (pos_of_int (-n))
let rec int_of_pos = function XH -> 1 | XO p -> 2 * int_of_pos p | XI p -> 2 * int_of_pos p + 1
let int_of_z = function Z0 -> 0 | Zpos p -> int_of_pos p | Zneg p -> - (int_of_pos p)
let rec nat_of_int n = if n <= 0 then O else S (nat_of_int (n - 1))
let rec int_of_nat = function O -> 0 | S n -> 1 + int_of_nat n
(* n/4 *)
let q_of_q4 n = { qnum = z_of_int n; qden = XO (XO XH) }
let q4_of_q q =
  let n = int_of_z q.qnum * 4 and d = int_of_pos q.qden in
  if n mod d <> 0 then failwith "value is not a multiple of 1/4" else n / d

let gts = [| CENTRE; BDRY |]
let sts = [| NONE; EQ; INEQ |]
let dirs = [| EAST; SOUTH; WEST; NORTH; RIGHT; DOWN; LEFT; UP |]
let tfs = [| ROTATE90CW; ROTATE90ACW; ROTATE180; FLIPV; FLIPH; FLIPMD; FLIPOD |]
(* -2, -0.0, +0.0, 2 *)
let gaps = [| { sneg = true; smag = q_of_q4 8 }; { sneg = true; smag = q_of_q4 0 };
              { sneg = false; smag = q_of_q4 0 }; { sneg = false; smag = q_of_q4 8 } |]

let gt_i = function CENTRE -> 0 | BDRY -> 1
let st_i = function NONE -> 0 | EQ -> 1 | INEQ -> 2
let gapstr g = Printf.sprintf "%c%d" (if g.sneg then '-' else '+') (q4_of_q g.smag)
let parsegap s =
  let m = int_of_string (String.sub s 1 (String.length s - 1)) in
  { sneg = (s.[0] = '-'); smag = q_of_q4 m }
let pairstr sp = Printf.sprintf "%d %d %d %d %s %s" (gt_i sp.xgt) (gt_i sp.ygt) (st_i sp.xst) (st_i sp.yst)
    (gapstr sp.xgap) (gapstr sp.ygap)
let cardc = function CEAST -> 'E' | CSOUTH -> 'S' | CWEST -> 'W' | CNORTH -> 'N'
let bi b = if b then 1 else 0

let for_states f =
  for a = 0 to 1 do for b = 0 to 1 do for c = 0 to 2 do for d = 0 to 2 do for i = 0 to 3 do for j = 0 to 3 do
    f { xgt = gts.(a); ygt = gts.(b); xst = sts.(c); yst = sts.(d); xgap = gaps.(i); ygap = gaps.(j) }
  done done done done done done

let mode_enum () =
  print_string "## transform1\n";
  for_states (fun s -> Array.iter (fun t -> print_endline (pairstr (transform t s))) tfs);
  print_string "## transform2\n";
  for_states (fun s -> Array.iter (fun t -> Array.iter (fun u -> print_endline (pairstr (transform u (transform t s)))) tfs) tfs);
  print_string "## addsep\n";
  for_states (fun s -> Array.iter (fun g -> Array.iter (fun d -> Array.iter (fun t -> Array.iter (fun k ->
      print_endline (pairstr (addSep g d t k s))) gaps) sts) dirs) gts);
  print_string "## cardinal\n";
  for_states (fun s ->
      let v = isVerticalCardinal s and h = isHorizontalCardinal s in
      let c = match getCardinalDir s with Some d -> cardc d | None -> 'x' in
      Printf.printf "%d %d %d %d %d %c %d %d\n" (bi v) (bi h) (bi (isVAlign s)) (bi (isHAlign s)) (bi (v || h)) c
        (bi (s.xst <> NONE)) (bi (s.yst <> NONE)))

(* the composition table of the model (proved to be D4 in SepPair.v): index 0 = identity, 1..7 = transforms;
   entry (a,b) = the single element equal to "first b, then a", found on the model by comparing actions on all states *)
let mode_d4 () =
  let app i s = if i = 0 then s else transform tfs.(i - 1) s in
  let states = ref [] in for_states (fun s -> states := s :: !states);
  for a = 0 to 7 do for b = 0 to 7 do
    let c = ref (-1) in
    for k = 0 to 7 do
      if !c < 0 && List.for_all (fun s -> pairstr (app a (app b s)) = pairstr (app k s)) !states then c := k
    done;
    Printf.printf "%d %d %d\n" a b !c
  done done

let split_ws s = List.filter (fun x -> x <> "") (String.split_on_char ' ' s)

let dump_body m =
  let es = List.sort (fun a b -> compare (int_of_nat a.en_lo, int_of_nat a.en_hi) (int_of_nat b.en_lo, int_of_nat b.en_hi)) m in
  String.concat "" (List.map (fun e -> Printf.sprintf " | %d %d %s" (int_of_nat e.en_lo) (int_of_nat e.en_hi) (pairstr e.en_sp)) es)
let dump m extra = "D" ^ dump_body m ^ Printf.sprintf " | e %d" (q4_of_q extra)

(* node sizes of mode ops, scaled by 4: the same table as harness/c18_sep.cpp *)
let ops_w = [| 8; 16; 24 |] and ops_h = [| 24; 16; 8 |]
let mask_ids mask = List.filter_map (fun i -> if mask land (1 lsl i) <> 0 then Some (nat_of_int i) else None) [0; 1; 2]

let mode_ops file refresh =
  let ic = open_in file in
  let m = ref [] and extra = ref (q_of_q4 0) in
  let px = Array.make 3 0 and py = Array.make 3 0 in
  let pos n = let i = int_of_nat n in if i < 3 then (q_of_q4 px.(i), q_of_q4 py.(i)) else (q_of_q4 0, q_of_q4 0) in
  let size n = let i = int_of_nat n in if i < 3 then (q_of_q4 ops_w.(i), q_of_q4 ops_h.(i)) else (q_of_q4 0, q_of_q4 0) in
  let ni s = nat_of_int (int_of_string s) in
  let upd tag = function Some m' -> m := m' | None -> print_endline (tag ^ "!") in
  (try while true do
      let line = input_line ic in
      match split_ws line with
      | ["N"] -> m := []; extra := q_of_q4 0; Array.fill px 0 3 0; Array.fill py 0 3 0
      | ["X"; e] -> extra := q_of_q4 (int_of_string e)
      | ["M"; i; x; y] -> px.(int_of_string i) <- int_of_string x; py.(int_of_string i) <- int_of_string y
      | ["A"; i; j; gt; sd; st; g] ->
        upd "A" (m_addSep refresh (ni i) (ni j) gts.(int_of_string gt) dirs.(int_of_string sd) sts.(int_of_string st) (parsegap g) !m)
      | ["F"; i; j; dx; dy] -> upd "F" (m_addFixedRelativeSep refresh (ni i) (ni j) (parsegap dx) (parsegap dy) !m)
      | ["P"; i; j] -> upd "P" (m_addFixedRelativeSepPos refresh (ni i) (ni j) pos !m)
      | ["O"; i; j; c] -> upd "O" (m_setCardinalOP refresh (ni i) (ni j) [| CEAST; CSOUTH; CWEST; CNORTH |].(int_of_string c) !m)
      | ["h"; i; j] -> upd "h" (m_hAlign refresh (ni i) (ni j) !m)
      | ["v"; i; j] -> upd "v" (m_vAlign refresh (ni i) (ni j) !m)
      | ["E"; i; j; d] -> upd "E" (m_alignByEquatedCoord refresh (ni i) (ni j) (d = "1") !m)
      | ["R"; i; j] -> m := m_free (ni i) (ni j) !m
      | ["Z"] -> m := m_clear !m
      | ["S"; i; j; xgt; ygt; xst; yst; xg; yg] ->
        let sp = { xgt = gts.(int_of_string xgt); ygt = gts.(int_of_string ygt); xst = sts.(int_of_string xst);
                   yst = sts.(int_of_string yst); xgap = parsegap xg; ygap = parsegap yg } in
        upd "S" (m_setSepPair (ni i) (ni j) sp !m)
      | ["C"; i; j] ->
        let (m', r) = m_getCardinalDir (ni i) (ni j) !m in
        m := m';
        Printf.printf "C %c\n" (match r with None -> 'n' | Some None -> 'x' | Some (Some d) -> cardc d)
      | ["H"; i; j] ->
        let (m', r) = m_areAligned true (ni i) (ni j) !m in
        m := m'; Printf.printf "H %d\n" (bi r)
      | ["V"; i; j] ->
        let (m', r) = m_areAligned false (ni i) (ni j) !m in
        m := m'; Printf.printf "V %d\n" (bi r)
      | ["T"; t] -> m := m_transform tfs.(int_of_string t) !m
      | ["TC"; t; mask] -> m := m_transformClosedSubset tfs.(int_of_string t) (mask_ids (int_of_string mask)) !m
      | ["TO"; t; mask] -> m := m_transformOpenSubset tfs.(int_of_string t) (mask_ids (int_of_string mask)) !m
      | ["RN"; i] -> m := m_removeNode (ni i) !m
      | ["RM"; mask] -> m := m_removeNodes (mask_ids (int_of_string mask)) !m
      | ["U"] -> let (e', m') = m_roundGapsUpward (!extra, !m) in extra := e'; m := m'
      | ["K"; mask] -> print_endline ("K" ^ dump_body (m_corresponding (mask_ids (int_of_string mask)) !m))
      | ["Q"] ->
        let rs = List.sort compare (List.map (fun ((lo, hi), ok) -> (int_of_nat lo, int_of_nat hi, bi ok)) (m_holdsb !extra pos size !m)) in
        print_endline ("Q" ^ String.concat "" (List.map (fun (a, b, c) -> Printf.sprintf " | %d %d %d" a b c) rs))
      | ["D"] -> print_endline (dump !m !extra)
      | _ -> ()
    done with End_of_file -> ());
  close_in ic

(* equiv <file>: lines "e1 e2 | pair1 | pair2" (pairs as printed by D): the verified checker sep_equivb *)
let mode_equiv file =
  let ic = open_in file in
  let parse_pair l = match l with
    | [xgt; ygt; xst; yst; xg; yg] ->
      { xgt = gts.(int_of_string xgt); ygt = gts.(int_of_string ygt); xst = sts.(int_of_string xst);
        yst = sts.(int_of_string yst); xgap = parsegap xg; ygap = parsegap yg }
    | _ -> failwith "pair" in
  (try while true do
      let line = input_line ic in
      match String.split_on_char '|' line with
      | [es; p1; p2] ->
        (match split_ws es with
         | [e1; e2] ->
           Printf.printf "%d\n" (bi (sep_equivb (q_of_q4 (int_of_string e1)) (parse_pair (split_ws p1))
                                                  (q_of_q4 (int_of_string e2)) (parse_pair (split_ws p2))))
         | _ -> print_endline "?")
      | _ -> print_endline "?"
    done with End_of_file -> ());
  close_in ic

let mode_gen file =
  let ic = open_in file in
  (try while true do
      let line = input_line ic in
      match split_ws line with
      | xgt :: ygt :: xst :: yst :: xg :: yg :: e :: rest when List.length rest = 9 ->
        let v = Array.of_list (List.map int_of_string rest) in
        let sp = { xgt = gts.(int_of_string xgt); ygt = gts.(int_of_string ygt); xst = sts.(int_of_string xst);
                   yst = sts.(int_of_string yst); xgap = parsegap xg; ygap = parsegap yg } in
        let extra = q_of_q4 (int_of_string e) in
        let p = { p_sx = q_of_q4 v.(0); p_sy = q_of_q4 v.(1); p_tx = q_of_q4 v.(2); p_ty = q_of_q4 v.(3);
                  p_sw = q_of_q4 v.(4); p_sh = q_of_q4 v.(5); p_tw = q_of_q4 v.(6); p_th = q_of_q4 v.(7) } in
        let tf = v.(8) in
        let sp' = if tf = 0 then sp else transform tfs.(tf - 1) sp in
        let p' = if tf = 0 then p else tf_place tfs.(tf - 1) p in
        let one ydim c =
          match generateSeparationConstraint ydim extra p' sp' with
          | None -> Printf.sprintf "%c:none" c
          | Some vc ->
            let cs = if ydim then p'.p_sy else p'.p_sx and ct = if ydim then p'.p_ty else p'.p_tx in
            let w = function Src -> 0 | Tgt -> 1 in
            Printf.sprintf "%c:%d %d %d %d %d" c (w vc.vc_left) (w vc.vc_right) (q4_of_q vc.vc_gap) (bi vc.vc_eq) (bi (vc_holdsb vc cs ct)) in
        (* after the bar: transformed pair; then the verified oracle: holdsb of the ORIGINAL pair and placement, and of the transformed *)
        Printf.printf "%s %s | %s | %d %d\n" (one false 'X') (one true 'Y') (pairstr sp') (bi (holdsb extra p sp)) (bi (holdsb extra p' sp'))
      | _ -> ()
    done with End_of_file -> ());
  close_in ic

(* reads the harness output of mode tglf and applies the verified pair-equivalence checker per case *)
let mode_tglfcheck file =
  let ic = open_in file in
  let a = Hashtbl.create 16 and b = Hashtbl.create 16 in
  let ea = ref 0 and eb = ref 0 and cur = ref (-1) and threw = ref false in
  let parse_pair = function
    | [xgt; ygt; xst; yst; xg; yg] ->
      { xgt = gts.(int_of_string xgt); ygt = gts.(int_of_string ygt); xst = sts.(int_of_string xst);
        yst = sts.(int_of_string yst); xgap = parsegap xg; ygap = parsegap yg }
    | _ -> failwith "pair" in
  let finish () =
    if !cur >= 0 then begin
      if !threw then begin
        let co = Hashtbl.fold (fun _ sp acc -> acc || coincideb sp) a false in
        Printf.printf "case %d threw coincide=%d\n" !cur (bi co) end
      else begin
        let keys = Hashtbl.create 16 in
        Hashtbl.iter (fun k _ -> Hashtbl.replace keys k ()) a; Hashtbl.iter (fun k _ -> Hashtbl.replace keys k ()) b;
        let bad = ref [] in
        Hashtbl.iter (fun k () ->
            let pa = (try Hashtbl.find a k with Not_found -> sp_default) and pb = (try Hashtbl.find b k with Not_found -> sp_default) in
            if not (sep_equivb (q_of_q4 !ea) pa (q_of_q4 !eb) pb) then bad := k :: !bad) keys;
        match List.sort compare !bad with
        | [] -> Printf.printf "case %d pairs-equivalent %d\n" !cur (Hashtbl.length keys)
        | l -> Printf.printf "case %d PAIRDIFF %s\n" !cur (String.concat ";" (List.map (fun (x, y) -> Printf.sprintf "%d-%d" x y) l))
      end
    end;
    Hashtbl.reset a; Hashtbl.reset b; ea := 0; eb := 0; threw := false in
  (try while true do
      let line = input_line ic in
      match split_ws line with
      | ["##"; "case"; n] -> finish (); cur := int_of_string n
      | "WRITE-THROWS" :: _ -> threw := true
      | tag :: "pair" :: lo :: hi :: rest ->
        Hashtbl.replace (if tag = "A" then a else b) (int_of_string lo, int_of_string hi) (parse_pair rest)
      | [tag; "extra"; e] -> if tag = "A" then ea := int_of_string e else eb := int_of_string e
      | _ -> ()
    done with End_of_file -> ());
  finish ();
  close_in ic

(* sub <file>: the cases of harness mode sub ("<rows> | <ops>", see harness/c18_sep.cpp modeSub).  Per case one line
     M <dump> # S <dump> # H <dump> # W k r u s
   M = the loop model (SepSubsetModel.transformOpenSubset / transformClosedSubset, statement by statement after the code),
   S = the declarative specification (spec_open: at least one node in the set, spec_closed: both), H = the loop model with the
   set iterator of the second pass hoisted (seeded change C18-5), W = the well-formedness deciders of the theorems
   (keys_ascb rows_ascb upperb on the input matrix, ascb on every id set). *)
let mode_sub file =
  let ic = if file = "-" then stdin else open_in file in
  let trim = String.trim in
  let parse_pair = function
    | [xgt; ygt; xst; yst; xg; yg] ->
      { xgt = gts.(int_of_string xgt); ygt = gts.(int_of_string ygt); xst = sts.(int_of_string xst);
        yst = sts.(int_of_string yst); xgap = parsegap xg; ygap = parsegap yg }
    | _ -> failwith "pair" in
  let dump m =
    "D" ^ String.concat "" (List.concat_map (fun (i, row) ->
        List.map (fun (j, sp) -> Printf.sprintf " | %d %d %s" (int_of_nat i) (int_of_nat j) (pairstr sp)) row) m)
    ^ " | r" ^ String.concat "" (List.map (fun (i, _) -> " " ^ string_of_int (int_of_nat i)) m) in
  (try while true do
      let line = input_line ic in
      match String.split_on_char '|' line with
      | [rows; ops] ->
        let m0 = List.filter_map (fun row ->
            match String.index_opt row ':' with
            | None -> None
            | Some c ->
              let i = nat_of_int (int_of_string (trim (String.sub row 0 c))) in
              let cells = String.split_on_char ',' (String.sub row (c + 1) (String.length row - c - 1)) in
              Some (i, List.filter_map (fun cell -> match split_ws cell with
                  | j :: rest when List.length rest = 6 -> Some (nat_of_int (int_of_string j), parse_pair rest)
                  | _ -> None) cells)) (String.split_on_char ';' rows) in
        let ops = List.filter_map (fun op -> match split_ws op with
            | o :: t :: ids -> Some (o, tfs.(int_of_string t), List.map (fun x -> nat_of_int (int_of_string x)) ids)
            | _ -> None) (String.split_on_char ';' ops) in
        let run openf closedf =
          List.fold_left (fun m (o, t, ids) ->
              match o with
              | "O" -> openf t ids m
              | "C" -> closedf t ids m
              | "T" -> sm_spec_open t (List.map fst m) m          (* every first id in the set: the plain transform *)
              | _ -> m) m0 ops in
        let wf_sets = List.for_all (fun (_, _, ids) -> ascb ids) ops in
        Printf.printf "M %s # S %s # H %s # W %d %d %d %d\n"
          (dump (run sm_transformOpenSubset sm_transformClosedSubset))
          (dump (run sm_spec_open sm_spec_closed))
          (dump (run sm_transformOpenSubset_hoisted sm_transformClosedSubset))
          (bi (keys_ascb m0)) (bi (rows_ascb m0)) (bi (upperb m0)) (bi wf_sets)
      | _ -> ()
    done with End_of_file -> ());
  if file <> "-" then close_in ic

let () =
  match Array.to_list Sys.argv with
  | [_; "enum"] -> mode_enum ()
  | [_; "d4"] -> mode_d4 ()
  | [_; "ops"; f; r] -> mode_ops f (r = "1")
  | [_; "gen"; f] -> mode_gen f
  | [_; "equiv"; f] -> mode_equiv f
  | [_; "tglfcheck"; f] -> mode_tglfcheck f
  | [_; "sub"; f] -> mode_sub f
  | _ -> prerr_endline "usage"; exit 2
