(* C09/C20 driver: runs the extracted scan-line / removeoverlaps models and the verified checkers on the commands
   read from stdin (same commands as harness/c09_rect.cpp plus E), one result line per command.
   argv.(1) = path of the C++ harness (used as the real vpsc::Solver through its S command).
   nat, Z, positive, Q stay the Coq datatypes; rationals are printed as [-]hexnum/hexden. *)
open C09_model

let rec pos_of_int n = if n = 1 then XH else if n land 1 = 0 then XO (pos_of_int (n lsr 1)) else XI (pos_of_int (n lsr 1))
let z_of_int n = if n = 0 then Z0 else if n > 0 then Zpos (pos_of_int n) else Zneg (pos_of_int (-n))
let rec nat_of_int n = if n <= 0 then O else S (nat_of_int (n - 1))
let rec int_of_nat = function O -> 0 | S m -> 1 + int_of_nat m
let q_of_frac n d = { qnum = z_of_int n; qden = pos_of_int d }

(* positive -> hex string *)
let hex_of_pos p =
  let rec bits p acc = match p with XH -> 1 :: acc | XO q -> bits q (0 :: acc) | XI q -> bits q (1 :: acc) in
  (* bits: most significant first after the recursion above builds reversed; fix: collect lsb first *)
  let rec lsb p = match p with XH -> [1] | XO q -> 0 :: lsb q | XI q -> 1 :: lsb q in
  ignore bits;
  let l = Array.of_list (lsb p) in
  let n = Array.length l in
  let nd = (n + 3) / 4 in
  let b = Buffer.create nd in
  for d = nd - 1 downto 0 do
    let v = ref 0 in
    for k = 3 downto 0 do
      let i = 4 * d + k in
      v := !v * 2 + (if i < n then l.(i) else 0)
    done;
    Buffer.add_char b "0123456789abcdef".[!v]
  done;
  Buffer.contents b
let str_of_q q =
  (match q.qnum with Z0 -> "0" | Zpos p -> hex_of_pos p | Zneg p -> "-" ^ hex_of_pos p) ^ "/" ^ hex_of_pos q.qden

(* float <-> Q *)
let rec float_of_pos p = match p with XH -> 1.0 | XO q -> 2.0 *. float_of_pos q | XI q -> 2.0 *. float_of_pos q +. 1.0
let rec nbits p = match p with XH -> 1 | XO q | XI q -> 1 + nbits q
let rec drop_bits p k = if k <= 0 then p else match p with XH -> XH | XO q | XI q -> drop_bits q (k - 1)
(* accurate to about an ulp: keep the top 60 bits of numerator and denominator *)
let float_of_q q =
  let conv p = let nb = nbits p in
    if nb <= 60 then (float_of_pos p, 0) else (float_of_pos (drop_bits p (nb - 60)), nb - 60) in
  let (d, ed) = conv q.qden in
  match q.qnum with
  | Z0 -> 0.0
  | Zpos p -> let (n, en) = conv p in ldexp (n /. d) (en - ed)
  | Zneg p -> let (n, en) = conv p in -. (ldexp (n /. d) (en - ed))
let rec pow2 k = if k = 0 then XH else XO (pow2 (k - 1))
let q_of_float f =
  if f = 0.0 then { qnum = Z0; qden = XH } else
  let (m, e) = frexp f in
  let mi = ref (Int64.to_int (Int64.of_float (ldexp (abs_float m) 53))) and ex = ref (e - 53) in
  while !mi land 1 = 0 && !ex < 0 do mi := !mi lsr 1; incr ex done;
  let num = if !ex > 0 then (let rec sh p k = if k = 0 then p else sh (XO p) (k - 1) in sh (pos_of_int !mi) !ex) else pos_of_int !mi in
  let den = if !ex < 0 then pow2 (- !ex) else XH in
  { qnum = (if f < 0.0 then Zneg num else Zpos num); qden = den }

(* the real solver as a co-process *)
let solver = ref None
let get_solver () = match !solver with
  | Some s -> s
  | None -> let s = Unix.open_process Sys.argv.(1) in solver := Some s; s
let solve_real desired ws cs =
  let (ic, oc) = get_solver () in
  let b = Buffer.create 256 in
  Buffer.add_string b (Printf.sprintf "S %d %d" (List.length desired) (List.length cs));
  List.iter2 (fun d w -> Buffer.add_string b (Printf.sprintf " %h %h" (float_of_q d) (float_of_q w))) desired ws;
  List.iter (fun c -> Buffer.add_string b (Printf.sprintf " %d %d %h" (int_of_nat c.cl) (int_of_nat c.cr) (float_of_q c.cgap))) cs;
  Buffer.add_char b '\n';
  output_string oc (Buffer.contents b); flush oc;
  let line = input_line ic in
  match String.split_on_char ' ' (String.trim line) with
  | "P" :: xs -> List.map (fun s -> q_of_float (float_of_string s)) xs
  | _ -> failwith ("solver: " ^ line)

let tokens = ref []
let next () = match !tokens with t :: r -> tokens := r; t | [] -> failwith "short line"
let nint () = int_of_string (next ())
let read_rects n scale =
  List.init n (fun _ -> let a = nint () in let b = nint () in let c = nint () in let d = nint () in
    { rminX = q_of_frac a scale; rmaxX = q_of_frac b scale; rminY = q_of_frac c scale; rmaxY = q_of_frac d scale })

let mklt variant n addrs =
  let arr = Array.of_list addrs in
  let addr u = let i = int_of_nat u in if i < Array.length arr then nat_of_int arr.(i) else u in
  if variant = 0 then cmp_node_pos_addr addr
  else cmp_node_pos_id (List.init n (fun i -> z_of_int i)) addr

(* untrusted rank computation for the verified topo_check: Kahn's algorithm; None if cyclic *)
let kahn n cs =
  let indeg = Array.make n 0 and adj = Array.make n [] in
  List.iter (fun (l, r) -> if l < n && r < n then (indeg.(r) <- indeg.(r) + 1; adj.(l) <- r :: adj.(l))) cs;
  let rank = Array.make n 0 and q = Queue.create () and cnt = ref 0 in
  for i = 0 to n - 1 do if indeg.(i) = 0 then Queue.add i q done;
  while not (Queue.is_empty q) do
    let u = Queue.pop q in rank.(u) <- !cnt; incr cnt;
    List.iter (fun v -> indeg.(v) <- indeg.(v) - 1; if indeg.(v) = 0 then Queue.add v q) adj.(u)
  done;
  if !cnt = n then Some (Array.to_list rank) else None

let checks mode xb yb rs cs =
  let n = List.length rs in
  let ent = if mode = 2 then "-" else if (if mode = 0 then entail_checkY xb yb rs cs else entail_checkX xb yb rs cs) then "1" else "0" in
  let topo = match kahn n (List.map (fun c -> (int_of_nat c.cl, int_of_nat c.cr)) cs) with
    | None -> "0"
    | Some rk -> if topo_check (List.map nat_of_int rk) cs then "1" else "0" in
  (ent, topo)

let () =
  try while true do
    let line = input_line stdin in
    tokens := List.filter (fun s -> s <> "") (String.split_on_char ' ' (String.trim line));
    (match !tokens with
     | [] -> ()
     | _ ->
       let tag = next () in
       if tag = "G" then begin
         let mode = nint () in let scale = nint () in let xb = q_of_frac (nint ()) scale in let yb = q_of_frac (nint ()) scale in
         let variant = nint () in let n = nint () in
         let rs = read_rects n scale in
         let addrs = List.map int_of_string !tokens in
         let lt = mklt variant n addrs in
         let res = if mode = 0 then generateYConstraints lt xb yb rs else generateXConstraints lt xb yb rs (mode = 2) in
         match res with
         | None -> print_string "C fuel\n"
         | Some cs ->
           let (ent, topo) = checks mode xb yb rs cs in
           Printf.printf "C %d" (List.length cs);
           List.iter (fun c -> Printf.printf " %d %d %s" (int_of_nat c.cl) (int_of_nat c.cr) (str_of_q c.cgap)) cs;
           Printf.printf " | %s %s\n" ent topo
       end else if tag = "E" then begin
         let mode = nint () in let scale = nint () in let xb = q_of_frac (nint ()) scale in let yb = q_of_frac (nint ()) scale in
         let n = nint () in
         let rs = read_rects n scale in
         let m = nint () in
         let cs = List.init m (fun _ -> let l = nint () in let r = nint () in let g = float_of_string (next ()) in
                                { cl = nat_of_int l; cr = nat_of_int r; cgap = q_of_float g }) in
         let (ent, topo) = checks mode xb yb rs cs in
         Printf.printf "E %s %s\n" ent topo
       end else if tag = "R" then begin
         let third = nint () in let scale = nint () in let xb = q_of_frac (nint ()) scale in let yb = q_of_frac (nint ()) scale in
         let variant = nint () in let nf = nint () in
         let fixed = List.init nf (fun _ -> nat_of_int (nint ())) in
         let n = nint () in
         let rs = read_rects n scale in
         let addrs = List.map int_of_string !tokens in
         let lt = mklt variant n addrs in
         match (try removeoverlaps lt solve_real xb yb rs fixed (third <> 0) with Failure s -> (prerr_endline s; None)) with
         | None -> print_string "R fail\n"
         | Some r ->
           Printf.printf "R %s %s" (str_of_q r.ro_xBorder) (str_of_q r.ro_yBorder);
           List.iter (fun q -> Printf.printf " %s %s %s %s" (str_of_q q.rminX) (str_of_q q.rmaxX) (str_of_q q.rminY) (str_of_q q.rmaxY)) r.ro_rects;
           print_newline ()
       end else if tag = "M" then begin
         let scale = nint () in let xb = q_of_frac (nint ()) scale in let yb = q_of_frac (nint ()) scale in
         let rs = read_rects 2 scale in
         let u = List.nth rs 0 and v = List.nth rs 1 in
         let p = q_of_frac (nint ()) scale in
         let mx = moveCentreX xb u p and my = moveCentreY yb u p in
         let vals = [getMinX xb u; getMaxX xb u; getMinY yb u; getMaxY yb u; getCentreX xb u; getCentreY yb u;
                     width xb u; height yb u; overlapX xb u v; overlapY yb u v;
                     mx.rminX; mx.rmaxX; mx.rminY; mx.rmaxY; my.rminX; my.rmaxX; my.rminY; my.rmaxY] in
         print_string "M"; List.iter (fun q -> Printf.printf " %s" (str_of_q q)) vals; print_newline ()
       end else if tag = "P" then begin
         let seed = nint () in let k = nint () in
         print_string "P"; List.iter (fun q -> Printf.printf " %s" (str_of_q q)) (stream (nat_of_int k) (z_of_int seed)); print_newline ()
       end else Printf.printf "? %s\n" line);
    flush stdout
  done with End_of_file -> ()
