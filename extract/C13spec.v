(* Extraction for C13: hand specification, step-rule decider and the verified layout checker (independent of Gen). *)
Require Extraction.
Require Import ExtrOcamlBasic.
From Adapt Require Import Num.Qaux Topology.TriModel Topology.TriSpec Topology.TopoCheck.
Extraction "c13_spec.ml" spec_msa spec_si spec_sf spec_slack msa_ok_dec check_path_layout all_apart rects_apart Qred.
