(* Extraction for C19: the peel / connected-components model and the checkers run on real outputs. *)
Require Extraction.
Require Import ExtrOcamlBasic.
From Adapt Require Import Num.Qaux Dialect.PeelModel Dialect.TreeLayoutModel Dialect.PlanariseCheckModel.
Extraction "c19_model.ml" peel get_conncomps peel_okb conncomps_okb simple_graphb connectedb sort_nat
  tree_layout_ok overlapping_pairs box_of_centre Qred
  planarise_ok present_b nocross_b chains_b meeting_pairs broken_chains.
