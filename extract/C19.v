(* Extraction for C19: the peel / connected-components model and the checkers run on real outputs. *)
Require Extraction.
Require Import ExtrOcamlBasic.
From Adapt Require Import Dialect.PeelModel.
Extraction "c19_model.ml" peel get_conncomps peel_okb conncomps_okb simple_graphb connectedb sort_nat.
