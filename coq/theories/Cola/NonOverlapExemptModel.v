(* C08 - model of NonOverlapConstraintExemptions (cola/libcola/cc_nonoverlapconstraints.cpp:39-76, shapepair.cpp) and of the two
   members of ConstrainedFDLayout that setAvoidNodeOverlaps() writes (colafd.cpp:194-199).  No proofs here.
   The class is a std::set<ShapePair>; a ShapePair stores the smaller id first (ShapePair ctor = npair) and is ordered
   lexicographically (ShapePair::operator<).  The set is modelled by its iteration order: a strictly increasing list.
   Node ids are nat; the C++ ShapePair stores them in `unsigned short`, so the model is that of ids < 65536 (the tie only uses such). *)
From Adapt Require Import Num.Qaux Cola.CompoundCsModel Cola.NonOverlapModel.

Definition exst := list (nat * nat).                        (* m_exempt_pairs in iteration order *)

(* ShapePair::operator< shapepair.cpp:38-45 *)
Definition pair_ltb (p q : nat * nat) : bool :=
  if negb (Nat.eqb (fst p) (fst q)) then Nat.ltb (fst p) (fst q) else Nat.ltb (snd p) (snd q).
Definition pair_eqb (p q : nat * nat) : bool := Nat.eqb (fst p) (fst q) && Nat.eqb (snd p) (snd q).

(* std::set<ShapePair>::insert *)
Fixpoint pset_insert (p : nat * nat) (s : exst) : exst :=
  match s with
  | [] => [p]
  | q :: t => if pair_ltb p q then p :: s else if pair_eqb p q then s else q :: pset_insert p t
  end.

(* the loops of addExemptGroupOfNodes :47-68: per group sort + unique, then insert ShapePair(ids[i], ids[j]) for i < j *)
Definition insert_groups (st : exst) (groups : list (list nat)) : exst :=
  fold_left (fun s p => pset_insert (npair (fst p) (snd p)) s) (exempt_pairs groups) st.

(* NonOverlapConstraintExemptions::addExemptGroupOfNodes :43-69: m_exempt_pairs.clear() first *)
Definition add_exempt_groups (st : exst) (groups : list (list nat)) : exst := insert_groups [] groups.
(* the same function without the clear() - NOT the library; the subject of the refutation *)
Definition add_exempt_groups_noclear (st : exst) (groups : list (list nat)) : exst := insert_groups st groups.

(* NonOverlapConstraintExemptions::shapePairIsExempt :71-75 applied to ShapePair(a, b): m_exempt_pairs.count(..) == 1.
   (ShapePair(a, a) fails COLA_ASSERT(ind1 != ind2); the model answers false there.) *)
Definition shape_pair_is_exempt (st : exst) (a b : nat) : bool := pmem (npair a b) st.

(* ConstrainedFDLayout: m_generateNonOverlapConstraints and *m_nonoverlap_exemptions; ctor colafd.cpp:112-115 *)
Record fdopts := mkOpts { o_avoid : bool; o_ex : exst }.
Definition opts0 : fdopts := mkOpts false [].
(* ConstrainedFDLayout::setAvoidNodeOverlaps colafd.cpp:194-199 *)
Definition set_avoid (o : fdopts) (avoid : bool) (groups : list (list nat)) : fdopts :=
  mkOpts avoid (add_exempt_groups (o_ex o) groups).
Definition set_avoid_noclear (o : fdopts) (avoid : bool) (groups : list (list nat)) : fdopts :=
  mkOpts avoid (add_exempt_groups_noclear (o_ex o) groups).

(* a client's sequence of setAvoidNodeOverlaps calls on one layout object *)
Definition call := (bool * list (list nat))%type.
Definition after_calls (calls : list call) : fdopts := fold_left (fun o c => set_avoid o (fst c) (snd c)) calls opts0.
Definition after_calls_noclear (calls : list call) : fdopts :=
  fold_left (fun o c => set_avoid_noclear o (fst c) (snd c)) calls opts0.
(* the exemption object alone, driven directly *)
Definition ex_after (calls : list (list (list nat))) : exst := fold_left add_exempt_groups calls [].
Definition ex_after_noclear (calls : list (list (list nat))) : exst := fold_left add_exempt_groups_noclear calls [].

(* the pair obligation of a layout whose options are o: node pairs i < j < n that must not overlap *)
Definition obliged_pairs (o : fdopts) (n : nat) : list (nat * nat) :=
  if o_avoid o then filter (fun p => negb (shape_pair_is_exempt (o_ex o) (fst p) (snd p))) (all_pairs (seq 0 n)) else [].
