(* C07 - model of the sub-constraint cursor protocol that ConstrainedFDLayout::makeFeasible() drives on every
   CompoundConstraint object (cola/libcola/compound_constraints.cpp 1537-1556, colafd.cpp 660-853).
   No proofs in this file (DESIGN 3.3): it is extracted and compared with what the compiled library does to
   observer subclasses of the real constraint classes (harness/c07_cc.cpp mode `seq`, checks/c07.py family 'reuse').

   C++ state modelled, per compound constraint object (it SURVIVES a makeFeasible() call: the objects belong to the
   client and are handed to every layout object built for the same diagram):
     _subConstraintInfo.size()                    cn      (fixed at construction / addShape time)
     _subConstraintInfo[k]->satisfied             cflags  (length cn)
     _currSubConstraintIndex                      ccur
     shouldCombineSubConstraints() / the class    ck      KNormal: BoundaryConstraint, AlignmentConstraint, SeparationConstraint,
                                                            MultiSeparationConstraint, DistributionConstraint (base-class cursor, one
                                                            alternative per sub-constraint);
                                                          KCombine: FixedRelativeConstraint (_combineSubConstraints = true, :1068);
                                                          KSkip: PageBoundaryConstraints / OrthogonalEdgeConstraint
                                                            (getCurrSubConstraintAlternatives jumps the cursor to the end and returns
                                                            nothing, :1323-1331 / :639-647)
     size of getCurrSubConstraintAlternatives()    calts   per sub-constraint (1 for every user type above)

   Methods (compound_constraints.cpp):
     markAllSubConstraintsAsInactive :1537-1544   mark_all_inactive  (the flag `rewind` = the statement `_currSubConstraintIndex = 0;`)
     subConstraintsRemaining         :1531-1534   remaining
     markCurrSubConstraintAsActive   :1547-1552   mark_curr
   makeFeasible's main loop (colafd.cpp): 660-668 pop the next compound constraint (priority order; here: list order, the
   theorems do not depend on the order), 687 markAllSubConstraintsAsInactive, 690-727 the "combined" branch, 730-853 the
   search branch: while remaining: take the alternatives (733), `continue` when there are none (736-739), try them in order
   (742-833: add to the valid set, solve, on failure discard the solver, restore, drop the constraint, next alternative),
   852 markCurrSubConstraintAsActive(satisfiable).
   The solver's accept / reject decision is NOT modelled: it is the Section variable `accept` (an oracle that may depend on the
   whole log of events so far, so every sequence of decisions is some oracle); trusted base of the check. *)
From Coq Require Import List Arith Bool PeanoNat.
From Adapt Require Import Num.Qaux Cola.CompoundCsModel.
Import ListNotations.
Local Open Scope nat_scope.

Inductive cckind := KNormal | KCombine | KSkip.

Record ccst := mkCcst { ck : cckind; cn : nat; calts : list nat; ccur : nat; cflags : list bool }.

(* what an observer of one constraint object sees (c = position of the object in the list), plus ETry = one solve *)
Inductive ev :=
| EInactive (c : nat)                         (* markAllSubConstraintsAsInactive() *)
| ERemaining (c : nat) (b : bool)             (* subConstraintsRemaining() returned b *)
| EOffer (c k : nat)                          (* getCurrSubConstraintAlternatives() called with the cursor at k *)
| ETry (c k a : nat) (ok : bool)              (* alternative a of sub-constraint k added to the valid set and solved: ok? *)
| EMark (c k : nat) (sat : bool).             (* markCurrSubConstraintAsActive(sat) called with the cursor at k *)

(* per call: the event log (newest first), the valid constraint set valid[2] as (object, sub-constraint, alternative),
   and the sub-constraints given up (marked satisfied = false: makeFeasible's only record of "unsatisfiable") *)
Record acc := mkAcc { a_log : list ev; a_valid : list (nat * nat * nat); a_rej : list (nat * nat) }.

Inductive res (A : Type) := ROk (a : A) | ROutOfFuel | RAssert.
Arguments ROk {A} _.
Arguments ROutOfFuel {A}.
Arguments RAssert {A}.

Definition oracle := list ev -> nat -> nat -> nat -> bool.

Fixpoint upd {A : Type} (k : nat) (x : A) (l : list A) : list A :=
  match l, k with
  | [], _ => []
  | _ :: t, 0 => x :: t
  | h :: t, S k' => h :: upd k' x t
  end.

Definition mark_all_inactive (rewind : bool) (s : ccst) : ccst :=
  mkCcst (ck s) (cn s) (calts s) (if rewind then 0 else ccur s) (repeat false (cn s)).
Definition remaining (s : ccst) : bool := ccur s <? cn s.
Definition mark_curr (sat : bool) (s : ccst) : ccst :=
  mkCcst (ck s) (cn s) (calts s) (S (ccur s)) (upd (ccur s) sat (cflags s)).
Definition jump_to_end (s : ccst) : ccst := mkCcst (ck s) (cn s) (calts s) (cn s) (cflags s).

Section Search.
Variable accept : oracle.

(* colafd.cpp:742-833: alternatives a, a+1, ... (nalts of them) in order until one is accepted *)
Fixpoint try_alts (c k a nalts : nat) (log : list ev) : option nat * list ev :=
  match nalts with
  | 0 => (None, log)
  | S m => let ok := accept log c k a in
           let log' := ETry c k a ok :: log in
           if ok then (Some a, log') else try_alts c k (S a) m log'
  end.

(* the two while loops over one compound constraint (colafd.cpp:697-716 and 730-853); fuel = loop iterations *)
Fixpoint cc_loop (fuel c : nat) (s : ccst) (A : acc) : res (ccst * acc) :=
  match fuel with
  | 0 => ROutOfFuel
  | S f =>
    let rem := remaining s in
    let log1 := ERemaining c rem :: a_log A in
    if rem then
      let k := ccur s in
      let log2 := EOffer c k :: log1 in
      match ck s with
      | KSkip => cc_loop f c (jump_to_end s) (mkAcc log2 (a_valid A) (a_rej A))
      | KCombine =>
          if nth k (calts s) 0 =? 1                       (* COLA_ASSERT(alternatives.size() == 1) :703 *)
          then cc_loop f c (mark_curr true s) (mkAcc (EMark c k true :: log2) ((c, k, 0) :: a_valid A) (a_rej A))
          else RAssert
      | KNormal =>
          let nal := nth k (calts s) 0 in
          if nal =? 0 then cc_loop f c s (mkAcc log2 (a_valid A) (a_rej A))   (* `continue` without advancing :736-739 *)
          else
            let '(r, log3) := try_alts c k 0 nal log2 in
            match r with
            | Some a => cc_loop f c (mark_curr true s) (mkAcc (EMark c k true :: log3) ((c, k, a) :: a_valid A) (a_rej A))
            | None => cc_loop f c (mark_curr false s) (mkAcc (EMark c k false :: log3) (a_valid A) ((c, k) :: a_rej A))
            end
      end
    else ROk (s, mkAcc log1 (a_valid A) (a_rej A))
  end.

(* the main loop over the compound constraints, object at list position i has number c + i *)
Fixpoint mf_from (rewind : bool) (fuel c : nat) (ccs : list ccst) (A : acc) : res (list ccst * acc) :=
  match ccs with
  | [] => ROk ([], A)
  | s :: rest =>
      match cc_loop fuel c (mark_all_inactive rewind s) (mkAcc (EInactive c :: a_log A) (a_valid A) (a_rej A)) with
      | ROk (s1, A1) =>
          match mf_from rewind fuel (S c) rest A1 with
          | ROk (rest', A2) => ROk (s1 :: rest', A2)
          | ROutOfFuel => ROutOfFuel
          | RAssert => RAssert
          end
      | ROutOfFuel => ROutOfFuel
      | RAssert => RAssert
      end
  end.

(* one makeFeasible() call on the objects `ccs` (in whatever state earlier calls left them); log0 = the events of earlier
   calls; the valid set and the given-up list are local to the call (valid[2] is a local of makeFeasible) *)
Definition mf_call (rewind : bool) (fuel : nat) (ccs : list ccst) (log0 : list ev) : res (list ccst * acc) :=
  mf_from rewind fuel 0 ccs (mkAcc log0 [] []).

End Search.

(* a history: one oracle per call (the rectangles may have been moved between the calls - whatever the solver decides is an oracle) *)
Fixpoint mf_history (rewind : bool) (fuel : nat) (oracles : list oracle) (ccs : list ccst) (log : list ev) : res (list ccst * list ev) :=
  match oracles with
  | [] => ROk (ccs, log)
  | o :: rest =>
      match mf_call o rewind fuel ccs log with
      | ROk (ccs', A) => mf_history rewind fuel rest ccs' (a_log A)
      | ROutOfFuel => ROutOfFuel
      | RAssert => RAssert
      end
  end.

(* ------------------------------------------------------------------ counting, for the statements and the driver *)
Definition is_offer (c k : nat) (e : ev) : bool :=
  match e with EOffer c' k' => (c' =? c) && (k' =? k) | _ => false end.
Definition offer_count (c k : nat) (log : list ev) : nat := length (filter (is_offer c k) log).
Definition valid_count (c k : nat) (v : list (nat * nat * nat)) : nat :=
  length (filter (fun t => (fst (fst t) =? c) && (snd (fst t) =? k)) v).
Definition rej_count (c k : nat) (r : list (nat * nat)) : nat :=
  length (filter (fun t => (fst t =? c) && (snd t =? k)) r).

Definition ev_cc (e : ev) : nat :=
  match e with EInactive c => c | ERemaining c _ => c | EOffer c _ => c | ETry c _ _ _ => c | EMark c _ _ => c end.
(* what an observer subclass of object c can log: everything but the solves, oldest first *)
Definition observable (e : ev) : bool := match e with ETry _ _ _ _ => false | _ => true end.
Definition cc_trace (c : nat) (log : list ev) : list ev :=
  filter (fun e => (ev_cc e =? c) && observable e) (rev log).

(* ------------------------------------------------------------------ the objects the public API constructs *)
Definition cc_kind (c : cc) : cckind :=
  match c with
  | CFixedRel _ _ _ _ => KCombine
  | CPage _ _ _ _ _ _ => KSkip
  | _ => KNormal
  end.
(* _subConstraintInfo.size(): SeparationConstraint ctor :450/:464, addShape :83/:224/:1267, addAlignmentPair :763/:898,
   FixedRelativeConstraint ctor :1077-1097 (two RelativeOffsets per further distinct id) *)
Definition cc_nsubs (c : cc) : nat :=
  match c with
  | CSep _ _ _ _ _ => 1
  | CSepA _ _ _ _ _ => 1
  | CAlign _ _ _ sh => length sh
  | CBoundary _ _ sh => length sh
  | CDistrib _ _ prs => length prs
  | CMultiSep _ _ _ prs => length prs
  | CFixedRel _ ids _ _ => 2 * (length (sort_uniq ids) - 1)
  | CPage _ _ _ _ _ sh => length sh
  end.
Definition constructed1 (c : cc) : ccst :=
  mkCcst (cc_kind c) (cc_nsubs c) (repeat 1 (cc_nsubs c)) 0 (repeat false (cc_nsubs c)).
Definition constructed (ccs : list cc) : list ccst := map constructed1 ccs.

(* oracle built from observed decisions: dec c k = Some b when the implementation marked sub-constraint k of object c
   with b in this call; alternatives other than the first are never accepted (user types have one alternative) *)
Definition oracle_of (dec : nat -> nat -> option bool) : oracle :=
  fun _ c k a => match a, dec c k with 0, Some b => b | 0, None => true | _, _ => false end.
