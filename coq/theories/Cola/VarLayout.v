(* C08 - proofs about the variable index layout model (Cola/VarLayoutModel.v): the cluster variable numbers stored by
   recGenerateClusterVariablesAndConstraints are valid indices into the variable list setupVarsAndConstraints builds before
   every projection, whatever user compound constraints are present and in whichever dimension: the stored layout is a
   prefix of the run-time layout, every stored min-side id points at that cluster's min-side variable and id+1 at its
   max-side variable. *)
From Adapt Require Import Num.Qaux Cola.CompoundCsModel Cola.NonOverlapModel Cola.ContainmentModel Cola.VarLayoutModel.

(* nested induction principle for ctree *)
Section CtreeInd.
  Variable P : ctree -> Prop.
  Hypothesis H : forall id p m ns kids, Forall P kids -> P (CT id p m ns kids).
  Fixpoint ctree_ind2 (t : ctree) : P t :=
    match t with
    | CT id p m ns kids =>
        H id p m ns kids
          ((fix go (l : list ctree) : Forall P l :=
              match l with
              | [] => Forall_nil P
              | x :: r => Forall_cons x (ctree_ind2 x) (go r)
              end) kids)
    end.
End CtreeInd.

(* clusters in the order their variables are created *)
Fixpoint postorder (t : ctree) : list nat :=
  match t with CT id _ _ _ kids => flat_map postorder kids ++ [id] end.
Definition pair2 (c : nat) : list vtag := [TMin c; TMax c].

Lemma flat_map_flat_map {A B C} (f : A -> list B) (g : B -> list C) (l : list A) :
  flat_map g (flat_map f l) = flat_map (fun a => flat_map g (f a)) l.
Proof.
  induction l as [|a l IH]; cbn [flat_map]; [reflexivity|].
  rewrite flat_map_app, IH. reflexivity.
Qed.

Lemma flat_map_ext_Forall {A B} (f g : A -> list B) (l : list A) :
  Forall (fun a => f a = g a) l -> flat_map f l = flat_map g l.
Proof.
  induction 1 as [|a l Ha _ IH]; cbn [flat_map]; [reflexivity|]. rewrite Ha, IH. reflexivity.
Qed.

Lemma cvars_postorder t : cvars t = flat_map pair2 (postorder t).
Proof.
  induction t as [id p m ns kids IH] using ctree_ind2.
  cbn [cvars postorder]. rewrite flat_map_app. cbn [flat_map pair2 app].
  rewrite flat_map_flat_map. f_equal. apply flat_map_ext_Forall. exact IH.
Qed.

Lemma stored_vars_postorder root : stored_vars root = flat_map pair2 (flat_map postorder (ct_kids root)).
Proof.
  unfold stored_vars. rewrite flat_map_flat_map. apply flat_map_ext_Forall.
  apply Forall_forall. intros t _. apply cvars_postorder.
Qed.

(* the run-time layout extends the stored one: by the root's own pair, then the user constraints' variables *)
Theorem setup_extends_stored_thm d n root ccs :
  setup_layout d n root ccs =
  stored_layout n root ++ [TMin (ct_id root); TMax (ct_id root)] ++ cc_tags d ccs.
Proof.
  unfold setup_layout, stored_layout, stored_vars. destruct root as [id p m ns kids].
  cbn [cvars ct_kids ct_id]. rewrite <- !app_assoc. reflexivity.
Qed.

Theorem stored_ids_agree_thm d n root ccs k t :
  nth_error (stored_layout n root) k = Some t -> nth_error (setup_layout d n root ccs) k = Some t.
Proof.
  intros Hk. rewrite setup_extends_stored_thm.
  rewrite nth_error_app1; [exact Hk|]. apply nth_error_Some. rewrite Hk. discriminate.
Qed.

Lemma vtag_eqb_eq a b : vtag_eqb a b = true -> a = b.
Proof.
  destruct a, b; cbn [vtag_eqb]; try discriminate; intros Hab.
  - apply Nat.eqb_eq in Hab. subst. reflexivity.
  - apply Nat.eqb_eq in Hab. subst. reflexivity.
  - apply Nat.eqb_eq in Hab. subst. reflexivity.
  - apply andb_true_iff in Hab. destruct Hab as [H1 H2].
    apply Nat.eqb_eq in H1. apply Nat.eqb_eq in H2. subst. reflexivity.
Qed.

Lemma index_of_nth t l k : index_of t l = Some k -> nth_error l k = Some t.
Proof.
  revert k. induction l as [|x r IH]; intros k; cbn [index_of]; [discriminate|].
  destruct (vtag_eqb t x) eqn:E.
  - intros Hk. injection Hk as <-. apply vtag_eqb_eq in E. subst. reflexivity.
  - destruct (index_of t r) as [j|]; cbn [option_map]; [|discriminate].
    intros Hk. injection Hk as <-. cbn [nth_error]. apply IH. reflexivity.
Qed.

Lemma vtag_eqb_refl a : vtag_eqb a a = true.
Proof. destruct a; cbn [vtag_eqb]; rewrite ?Nat.eqb_refl; reflexivity. Qed.

Lemma index_of_None_not_In t l : index_of t l = None -> ~ In t l.
Proof.
  induction l as [|x r IH]; cbn [index_of In]; [tauto|].
  destruct (vtag_eqb t x) eqn:Ex; [discriminate|].
  destruct (index_of t r); cbn [option_map]; [discriminate|].
  intros _ [<-|Hin]; [rewrite vtag_eqb_refl in Ex; discriminate|exact (IH eq_refl Hin)].
Qed.

(* in a list of (min, max) pairs, a min-side variable is immediately followed by the max-side variable of the same cluster *)
Lemma pairs_min_then_max ids k c :
  nth_error (flat_map pair2 ids) k = Some (TMin c) -> nth_error (flat_map pair2 ids) (S k) = Some (TMax c).
Proof.
  revert k. induction ids as [|a ids IH]; intros k; cbn [flat_map pair2 app].
  - destruct k; discriminate.
  - destruct k as [|[|k]]; cbn [nth_error].
    + intros Hk. injection Hk as ->. reflexivity.
    + discriminate.
    + intros Hk. apply (IH k). exact Hk.
Qed.

Lemma node_tags_not_min n k c : nth_error (node_tags n) k <> Some (TMin c).
Proof.
  unfold node_tags. rewrite nth_error_map. destruct (nth_error (seq 0 n) k); cbn [option_map]; discriminate.
Qed.

Lemma node_tags_length n : length (node_tags n) = n.
Proof. unfold node_tags. rewrite map_length, seq_length. reflexivity. Qed.

Lemma stored_min_then_max n root k c :
  nth_error (stored_layout n root) k = Some (TMin c) -> nth_error (stored_layout n root) (S k) = Some (TMax c).
Proof.
  unfold stored_layout. intros Hk.
  destruct (Nat.lt_ge_cases k n) as [Hlt|Hge].
  - rewrite nth_error_app1 in Hk by (rewrite node_tags_length; exact Hlt).
    exfalso. exact (node_tags_not_min n k c Hk).
  - rewrite nth_error_app2 in Hk by (rewrite node_tags_length; exact Hge).
    rewrite nth_error_app2 by (rewrite node_tags_length; apply Nat.le_le_succ_r; exact Hge).
    rewrite node_tags_length in *. rewrite Nat.sub_succ_l by exact Hge.
    rewrite stored_vars_postorder in *. apply pairs_min_then_max. exact Hk.
Qed.

(* the statement the containment constraints rely on: the id recorded for cluster c, used as an index into the run-time
   variable list of any dimension with any user constraints, is c's min-side variable, and id+1 its max-side variable *)
Theorem stored_id_points_at_cluster_thm d n root ccs c :
  In (TMin c) (stored_layout n root) ->
  tag_at (setup_layout d n root ccs) (stored_id n root c) = Some (TMin c) /\
  tag_at (setup_layout d n root ccs) (S (stored_id n root c)) = Some (TMax c).
Proof.
  intros Hin. unfold stored_id, tag_at.
  destruct (index_of (TMin c) (stored_layout n root)) as [k|] eqn:E.
  - apply index_of_nth in E. split.
    + apply stored_ids_agree_thm. exact E.
    + apply stored_ids_agree_thm. apply stored_min_then_max. exact E.
  - exfalso. exact (index_of_None_not_In _ _ E Hin).
Qed.

(* ------------------------------------------------------------------ non-vacuity and sensitivity *)
Definition b0 : box := mkBox 0 0 0 0.
(* root(9) with clusters 0 {nodes 0,1; child cluster 2 {node 4}} and 1 {nodes 2,3}; 7 rectangles; a y-alignment on 5,6 *)
Definition ex_root : ctree :=
  CT 9 b0 b0 [5; 6]%nat [CT 0 b0 b0 [0; 1]%nat [CT 2 b0 b0 [4%nat] []]; CT 1 b0 b0 [2; 3]%nat []].
Definition ex_ccs : list cc := [CAlign DY 0 false [(5%nat, 0%Q); (6%nat, 0%Q)]; CAlign DX 0 false [(5%nat, 0%Q)]].

Example stored_layout_ex :
  stored_layout 7 ex_root =
  [TNode 0; TNode 1; TNode 2; TNode 3; TNode 4; TNode 5; TNode 6; TMin 2; TMax 2; TMin 0; TMax 0; TMin 1; TMax 1].
Proof. reflexivity. Qed.
Example setup_layout_ex :
  setup_layout DY 7 ex_root ex_ccs = stored_layout 7 ex_root ++ [TMin 9; TMax 9; TCc 0 0].
Proof. reflexivity. Qed.
Example stored_id_ex : stored_id 7 ex_root 0 = 9%nat /\ In (TMin 0) (stored_layout 7 ex_root).
Proof. split; [reflexivity|]. cbn. tauto. Qed.

(* the order matters: were the user constraints' variables created BEFORE the cluster variables, the id stored for cluster 2
   would point at the alignment's guide variable *)
Definition swapped_layout (d : dim) (n : nat) (root : ctree) (ccs : list cc) : list vtag :=
  node_tags n ++ cc_tags d ccs ++ cvars root.
Example swapped_order_breaks_ids :
  tag_at (swapped_layout DY 7 ex_root ex_ccs) (stored_id 7 ex_root 2) = Some (TCc 0 0).
Proof. reflexivity. Qed.

(* ------------------------------------------------------------------ fixed-rectangle clusters *)
Lemma node_tag_at n i : (i < n)%nat -> nth_error (node_tags n) i = Some (TNode i).
Proof.
  intros Hi. unfold node_tags. rewrite nth_error_map.
  rewrite (nth_error_nth' (seq 0 n) 0%nat) by (rewrite seq_length; exact Hi).
  rewrite seq_nth by exact Hi. reflexivity.
Qed.

Lemma setup_node_tag d n root ccs i : (i < n)%nat -> tag_at (setup_layout d n root ccs) i = Some (TNode i).
Proof.
  intros Hi. unfold tag_at, setup_layout. rewrite nth_error_app1 by (rewrite node_tags_length; exact Hi).
  apply node_tag_at. exact Hi.
Qed.

(* the equalities generated for a fixed-rectangle cluster c on rectangle ri bind, in the run-time variable list of any
   dimension with any user constraints, c's own min-side variable to rectangle ri's variable and that to c's own max-side
   variable: the constraint list is exactly [Cmin + half == N ri; N ri + half == Cmax] by creator tag *)
Theorem fixed_rect_constraints_bind_thm d n root ccs fixed rects c cs :
  In (c, cs) (fixed_rect_constraints d n root fixed rects) ->
  In (TMin c) (stored_layout n root) ->
  exists ri half, In (c, ri) fixed /\ half == rlen d (nth ri rects rect0) / 2 /\
    cs = [mkSep (stored_id n root c) ri half true; mkSep ri (S (stored_id n root c)) half true] /\
    tag_at (setup_layout d n root ccs) (stored_id n root c) = Some (TMin c) /\
    tag_at (setup_layout d n root ccs) (S (stored_id n root c)) = Some (TMax c) /\
    ((ri < n)%nat -> tag_at (setup_layout d n root ccs) ri = Some (TNode ri)).
Proof.
  intros Hin Hc. unfold fixed_rect_constraints in Hin. apply in_map_iff in Hin.
  destruct Hin as ([c' ri] & E & Hf). cbn [fst snd] in E. injection E as -> <-.
  exists ri, (Qred (rlen d (nth ri rects rect0) / 2)).
  destruct (stored_id_points_at_cluster_thm d n root ccs c Hc) as [T1 T2].
  split; [exact Hf|]. split; [apply Qred_correct|]. split; [reflexivity|]. split; [exact T1|]. split; [exact T2|].
  apply setup_node_tag.
Qed.

(* non-vacuity: cluster 2 of ex_root fixed to rectangle 6 *)
Example fixed_rect_constraints_ex :
  fixed_rect_constraints DX 7 ex_root [(2%nat, 6%nat)] (repeat (mkRect 0 10 0 20) 7) =
  [(2%nat, [mkSep 7 6 5 true; mkSep 6 8 5 true])] /\ In (TMin 2) (stored_layout 7 ex_root).
Proof. split; [reflexivity|]. cbn. tauto. Qed.
