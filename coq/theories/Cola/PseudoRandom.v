(* PseudoRandom is a function of its seed: explicit recurrence, irrelevance of the 32-bit wrap-around, range. *)
From Adapt Require Import Num.Qaux Cola.PseudoRandomModel.
Local Open Scope Z_scope.

Lemma mod_mod2 x m : 0 < m -> (x mod (2 * m)) mod m = x mod m.
Proof.
  intro H. rewrite (Z.mul_comm 2 m). rewrite Z.rem_mul_r by lia.
  rewrite (Z.mul_comm m). rewrite Z.mod_add by lia. apply Z.mod_mod. lia.
Qed.
Lemma lcg_wrap_irrelevant seed : lcg_next_c seed = lcg_next seed.
Proof.
  unfold lcg_next_c, lcg_next, pr_m.
  change 4294967296 with (2 * 2147483648). apply mod_mod2. lia.
Qed.

Fixpoint iter_next (n : nat) (seed : Z) : Z :=
  match n with O => seed | S n' => iter_next n' (lcg_next seed) end.

(* the k-th number of the stream is ((the seed advanced k+1 times) >> 16) / 32767: same seed => same stream *)
Theorem stream_recurrence : forall k seed n, (n < k)%nat ->
  nth n (stream k seed) 0%Q = (inject_Z (Z.shiftr (iter_next (S n) seed) 16) / inject_Z pr_range)%Q.
Proof.
  induction k as [|k IH]; intros seed n Hn; [lia|].
  cbn [stream getNext]. destruct n as [|n].
  - cbn [nth iter_next]. now rewrite lcg_wrap_irrelevant.
  - cbn [nth]. rewrite IH by lia. cbn [iter_next]. now rewrite lcg_wrap_irrelevant.
Qed.

Theorem stream_deterministic k s1 s2 : s1 = s2 -> stream k s1 = stream k s2.
Proof. now intros ->. Qed.

Lemma lcg_next_range seed : 0 <= lcg_next seed < pr_m.
Proof. unfold lcg_next, pr_m. apply Z.mod_pos_bound. lia. Qed.

Theorem getNext_range seed : (0 <= snd (getNext seed) <= 1)%Q.
Proof.
  unfold getNext. cbn [snd]. rewrite lcg_wrap_irrelevant.
  pose proof (lcg_next_range seed) as [L U]. unfold pr_m in U.
  set (s := lcg_next seed) in *.
  assert (H0 : 0 <= Z.shiftr s 16) by (apply Z.shiftr_nonneg; lia).
  assert (H1 : Z.shiftr s 16 <= 32767).
  { rewrite Z.shiftr_div_pow2 by lia. change (2 ^ 16) with 65536.
    assert (s / 65536 < 32768); [|lia].
    apply Z.div_lt_upper_bound; [lia|]. change (65536 * 32768) with 2147483648. exact U. }
  unfold pr_range. split.
  - apply Qle_shift_div_l; [reflexivity|]. rewrite Qmult_0_l. change 0%Q with (inject_Z 0).
    rewrite <- Zle_Qle. exact H0.
  - apply Qle_shift_div_r; [reflexivity|]. rewrite Qmult_1_l. rewrite <- Zle_Qle. exact H1.
Qed.

Example stream_example : stream 3 1 = [(41 # 32767)%Q; (18467 # 32767)%Q; (6334 # 32767)%Q].
Proof. vm_compute. reflexivity. Qed.
