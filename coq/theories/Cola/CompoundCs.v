(* C07 - proofs about the compound-constraint translation model (Cola/CompoundCsModel.v).
   For each compound type T: T_sound_complete - the rectangle centres satisfy the declarative meaning iff the
   auxiliary variables can be given values that satisfy every generated separation constraint (exactly, over Q);
   C07_projection_establishes - satisfaction of the generated constraints to within eps (what C01 gives for a
   projection) implies every compound constraint's meaning to within 3*eps;
   driver_last_step_is_projection - control-flow model of ConstrainedFDLayout::run. *)
From Adapt Require Import Num.Qaux Cola.CompoundCsModel.
Local Open Scope Q_scope.

(* ------------------------------------------------------------------ small facts *)
Lemma lv_app_l xs aux i : (i < length xs)%nat -> lv (xs ++ aux) i = lv xs i.
Proof. intro H. unfold lv. apply app_nth1. exact H. Qed.
Lemma lv_app_r xs aux k : lv (xs ++ aux) (length xs + k)%nat = lv aux k.
Proof. unfold lv. rewrite app_nth2 by lia. f_equal. lia. Qed.
Lemma lv_repeat a m k : (k < m)%nat -> lv (repeat a m) k = a.
Proof.
  unfold lv. revert k. induction m; intros k H; [lia|]. destruct k; cbn; auto. apply IHm. lia.
Qed.
Lemma dim_eqb_eq a b : dim_eqb a b = true <-> a = b.
Proof. destruct a, b; cbn; split; congruence. Qed.
Lemma dim_eqb_refl a : dim_eqb a a = true.
Proof. destruct a; reflexivity. Qed.

Lemma sat_sat_eps0 v c : sat v c -> sat_eps 0 v c.
Proof. unfold sat, sat_eps. destruct (seqy c); intro H; split; intros; try discriminate; lra. Qed.
Lemma sat_eps0_sat v c : sat_eps 0 v c -> sat v c.
Proof. unfold sat, sat_eps. destruct (seqy c); intros [H1 H2]; [specialize (H2 eq_refl)|]; lra. Qed.
Lemma sat_eps_mono e e' v c : e <= e' -> sat_eps e v c -> sat_eps e' v c.
Proof. unfold sat_eps. intros He [H1 H2]. split; [lra|]. intro E. specialize (H2 E). lra. Qed.

Lemma sat_epsb_spec eps v c : sat_epsb eps v c = true <-> sat_eps eps v c.
Proof.
  unfold sat_epsb, sat_eps. rewrite andb_true_iff, Qleb_spec. destruct (seqy c).
  - rewrite Qleb_spec. intuition.
  - intuition discriminate.
Qed.

(* ------------------------------------------------------------------ SeparationConstraint *)
Theorem Sep_sound_complete xs l r g e :
  (exists aux, length aux = 0%nat /\ Forall (sat (lv (xs ++ aux))) (gen_sep l r g e))
  <-> sep_holds 0 (lv xs) l r g e.
Proof.
  unfold gen_sep, sep_holds. split.
  - intros (aux & Hl & H). destruct aux; [|discriminate]. rewrite app_nil_r in H.
    inversion H as [|c cs H1 _]; subst. unfold sat in H1; cbn in H1. destruct e; split; intros; try discriminate; lra.
  - intros [H1 H2]. exists []. split; auto. rewrite app_nil_r. constructor; [|constructor].
    unfold sat; cbn. destruct e; [specialize (H2 eq_refl)|]; lra.
Qed.

(* ------------------------------------------------------------------ AlignmentConstraint *)
Lemma gen_align_sat v vid sh :
  Forall (sat v) (gen_align vid sh) <-> forall s o, In (s, o) sh -> v vid + o == v s.
Proof.
  unfold gen_align. rewrite Forall_forall. split.
  - intros H s o Hin. specialize (H (mkSep vid s o true)). apply H. apply in_map_iff. exists (s, o). auto.
  - intros H c Hc. apply in_map_iff in Hc. destruct Hc as ([s o] & <- & Hin). unfold sat; cbn. auto.
Qed.

Definition guide_of (v : val) (sh : offs) : Q :=
  match sh with [] => 0 | (s, o) :: _ => v s - o end.

Lemma align_holds_guide v sh : align_holds 0 v sh -> forall s o, In (s, o) sh -> guide_of v sh + o == v s.
Proof.
  intros H s o Hin. destruct sh as [|[s0 o0] t]; [destruct Hin|]. cbn.
  destruct (H s0 o0 s o (or_introl eq_refl) Hin) as [H1 H2]. specialize (H2 eq_refl). lra.
Qed.

Theorem Align_sound_complete xs m k sh :
  (k < m)%nat -> (forall s o, In (s, o) sh -> (s < length xs)%nat) ->
  (exists aux, length aux = m /\ Forall (sat (lv (xs ++ aux))) (gen_align (length xs + k)%nat sh))
  <-> align_holds 0 (lv xs) sh.
Proof.
  intros Hk Hidx. split.
  - intros (aux & Hl & H). rewrite gen_align_sat in H. intros s o s' o' Hi Hi'.
    pose proof (H s o Hi) as E. pose proof (H s' o' Hi') as E'.
    rewrite lv_app_r in E, E'. rewrite lv_app_l in E by eauto. rewrite lv_app_l in E' by eauto.
    split; intros; lra.
  - intro H. exists (repeat (guide_of (lv xs) sh) m). split; [apply repeat_length|].
    rewrite gen_align_sat. intros s o Hin. rewrite lv_app_r, lv_repeat by exact Hk.
    rewrite lv_app_l by eauto. apply align_holds_guide; auto.
Qed.

(* ------------------------------------------------------------------ BoundaryConstraint *)
Lemma gen_boundary_sat v vid sh :
  Forall (sat v) (gen_boundary vid sh) <->
  forall s o, In (s, o) sh -> (o < 0 -> v s - o <= v vid) /\ (0 <= o -> v vid + o <= v s).
Proof.
  unfold gen_boundary. rewrite Forall_forall. split.
  - intros H s o Hin.
    assert (Hs : sat v (if Qltb o 0 then mkSep s vid (- o) false else mkSep vid s o false)).
    { apply H. apply in_map_iff. exists (s, o). auto. }
    destruct (Qltb o 0) eqn:E; qb2p; unfold sat in Hs; cbn in Hs; split; intros; lra.
  - intros H c Hc. apply in_map_iff in Hc. destruct Hc as ([s o] & <- & Hin). cbn.
    destruct (H s o Hin) as [H1 H2].
    destruct (Qltb o 0) eqn:E; qb2p; unfold sat; cbn; [specialize (H1 E)|specialize (H2 E)]; lra.
Qed.

(* a finite family of lower bounds L and upper bounds U with every l <= every u has a separating value *)
Lemma list_has_lower (U : list Q) : exists b, forall u, In u U -> b <= u.
Proof.
  induction U as [|u t [b Hb]]; [exists 0; intros ? []|].
  destruct (Qlt_le_dec u b).
  - exists u. intros x [<-|Hx]; [lra|]. specialize (Hb x Hx). lra.
  - exists b. intros x [<-|Hx]; auto.
Qed.
Lemma list_has_max (L : list Q) : L <> [] -> exists b, In b L /\ forall l, In l L -> l <= b.
Proof.
  induction L as [|l t IH]; [congruence|]. intros _. destruct t as [|l' t'].
  - exists l. split; [left; auto|]. intros x [<-|[]]. lra.
  - destruct IH as (b & Hin & Hb); [congruence|].
    destruct (Qlt_le_dec b l).
    + exists l. split; [left; auto|]. intros x [<-|Hx]; [lra|]. specialize (Hb x Hx). lra.
    + exists b. split; [right; auto|]. intros x [<-|Hx]; auto.
Qed.
Lemma separating_value (L U : list Q) :
  (forall l u, In l L -> In u U -> l <= u) ->
  exists b, (forall l, In l L -> l <= b) /\ (forall u, In u U -> b <= u).
Proof.
  intro H. destruct L as [|l0 t].
  - destruct (list_has_lower U) as [b Hb]. exists b. split; auto. intros ? [].
  - destruct (list_has_max (l0 :: t)) as (b & Hin & Hb); [congruence|].
    exists b. split; auto.
Qed.

Theorem Boundary_sound_complete xs m k sh :
  (k < m)%nat -> (forall s o, In (s, o) sh -> (s < length xs)%nat) ->
  (exists aux, length aux = m /\ Forall (sat (lv (xs ++ aux))) (gen_boundary (length xs + k)%nat sh))
  <-> boundary_holds 0 (lv xs) sh.
Proof.
  intros Hk Hidx. split.
  - intros (aux & Hl & H). rewrite gen_boundary_sat in H. intros s o s' o' Hi Hi' Ho Ho'.
    destruct (H s o Hi) as [E _]. destruct (H s' o' Hi') as [_ E'].
    specialize (E Ho). specialize (E' Ho').
    rewrite lv_app_r in E, E'. rewrite lv_app_l in E by eauto. rewrite lv_app_l in E' by eauto. lra.
  - intro H.
    set (L := map (fun so => lv xs (fst so) - snd so) (filter (fun so => Qltb (snd so) 0) sh)).
    set (U := map (fun so => lv xs (fst so) - snd so) (filter (fun so => negb (Qltb (snd so) 0)) sh)).
    destruct (separating_value L U) as (b & HL & HU).
    { intros l u Hl Hu. unfold L in Hl. unfold U in Hu. apply in_map_iff in Hl, Hu.
      destruct Hl as ([s o] & <- & Hf). destruct Hu as ([s' o'] & <- & Hf').
      apply filter_In in Hf, Hf'. destruct Hf as [Hi E]. destruct Hf' as [Hi' E']. cbn in *.
      apply negb_true_iff in E'. qb2p. specialize (H s o s' o' Hi Hi' E E'). lra. }
    exists (repeat b m). split; [apply repeat_length|].
    rewrite gen_boundary_sat. intros s o Hin. rewrite lv_app_r, lv_repeat by exact Hk.
    rewrite lv_app_l by eauto. split; intro Ho.
    + apply HL. unfold L. apply in_map_iff. exists (s, o). split; auto. apply filter_In. split; auto.
      cbn. apply Qltb_spec. exact Ho.
    + assert (b <= lv xs s - o); [|lra]. apply HU. unfold U. apply in_map_iff. exists (s, o). split; auto.
      apply filter_In. split; auto. cbn. apply negb_true_iff. apply Qltb_false. exact Ho.
Qed.

(* ------------------------------------------------------------------ systems of alignments + pair constraints
   (MultiSeparationConstraint, DistributionConstraint, SeparationConstraint between two alignments).
   als: the alignment constraints, alignment k has the guideline variable n + k. *)
Fixpoint gen_aligns_from (n k : nat) (als : list offs) : list sepc :=
  match als with
  | [] => []
  | sh :: t => gen_align (n + k)%nat sh ++ gen_aligns_from n (S k) t
  end.

Lemma gen_aligns_from_sat v n als : forall k0,
  Forall (sat v) (gen_aligns_from n k0 als) <->
  forall k, (k < length als)%nat -> forall s o, In (s, o) (nth k als []) -> v (n + (k0 + k))%nat + o == v s.
Proof.
  induction als as [|sh t IH]; intro k0; cbn [gen_aligns_from].
  - split; [intros _ k Hk; cbn in Hk; lia|constructor].
  - rewrite Forall_app, gen_align_sat, IH. split.
    + intros [H1 H2] k Hk s o Hin. destruct k; cbn in Hin.
      * rewrite Nat.add_0_r. auto.
      * replace (k0 + S k)%nat with (S k0 + k)%nat by lia. apply H2; auto. cbn in Hk. lia.
    + intro H. split.
      * intros s o Hin. specialize (H 0%nat (Nat.lt_0_succ _) s o Hin). rewrite Nat.add_0_r in H. exact H.
      * intros k Hk s o Hin. replace (S k0 + k)%nat with (k0 + S k)%nat by lia. apply (H (S k)); auto. cbn. lia.
Qed.

Lemma gen_pairs_sat v prs sep e :
  Forall (sat v) (gen_pairs prs sep e) <->
  forall a b, In (a, b) prs -> if e then v a + sep == v b else v a + sep <= v b.
Proof.
  unfold gen_pairs. rewrite Forall_forall. split.
  - intros H a b Hin. specialize (H (mkSep a b sep e)). apply H. apply in_map_iff. exists (a, b). auto.
  - intros H c Hc. apply in_map_iff in Hc. destruct Hc as ([a b] & <- & Hin). unfold sat; cbn. exact (H a b Hin).
Qed.

Definition shift_pairs (n : nat) (prs : list (nat * nat)) : list (nat * nat) :=
  map (fun ab => ((n + fst ab)%nat, (n + snd ab)%nat)) prs.

Theorem MultiSep_sound_complete xs als prs sep e :
  (forall k s o, In (s, o) (nth k als []) -> (s < length xs)%nat) ->
  (forall k, (k < length als)%nat -> nth k als [] <> []) ->
  (forall a b, In (a, b) prs -> (a < length als)%nat /\ (b < length als)%nat) ->
  (exists aux, length aux = length als /\
     Forall (sat (lv (xs ++ aux))) (gen_aligns_from (length xs) 0 als ++ gen_pairs (shift_pairs (length xs) prs) sep e))
  <-> (forall k, (k < length als)%nat -> align_holds 0 (lv xs) (nth k als [])) /\
      multisep_holds 0 (lv xs) (fun k => nth k als []) prs sep e.
Proof.
  intros Hidx Hne Hprs. split.
  - intros (aux & Hl & H). rewrite Forall_app, gen_aligns_from_sat, gen_pairs_sat in H. destruct H as [HA HP].
    assert (G : forall k s o, (k < length als)%nat -> In (s, o) (nth k als []) -> lv aux k + o == lv xs s).
    { intros k s o Hk Hin. specialize (HA k Hk s o Hin). cbn in HA. rewrite lv_app_r in HA.
      rewrite lv_app_l in HA by eauto. exact HA. }
    split.
    + intros k Hk s o s' o' Hi Hi'. pose proof (G k s o Hk Hi). pose proof (G k s' o' Hk Hi'). split; intros; lra.
    + intros a b Hab s o s' o' Hi Hi'. destruct (Hprs a b Hab) as [Ha Hb].
      pose proof (G a s o Ha Hi) as Ea. pose proof (G b s' o' Hb Hi') as Eb.
      assert (Hin : In ((length xs + a)%nat, (length xs + b)%nat) (shift_pairs (length xs) prs)).
      { unfold shift_pairs. apply in_map_iff. exists (a, b). auto. }
      specialize (HP _ _ Hin). rewrite !lv_app_r in HP. destruct e; split; intros; try discriminate; lra.
  - intros [HA HM]. exists (map (guide_of (lv xs)) als). split; [apply map_length|].
    assert (G : forall k, lv (map (guide_of (lv xs)) als) k = guide_of (lv xs) (nth k als [])).
    { intro k. unfold lv. change 0 with (guide_of (lv xs) []). apply map_nth. }
    rewrite Forall_app, gen_aligns_from_sat, gen_pairs_sat. split.
    + intros k Hk s o Hin. cbn. rewrite lv_app_r, G. rewrite lv_app_l by eauto.
      apply align_holds_guide; auto.
    + intros a' b' Hin. unfold shift_pairs in Hin. apply in_map_iff in Hin. destruct Hin as ([a b] & E & Hab).
      inversion E; subst; clear E. cbn. rewrite !lv_app_r, !G. destruct (Hprs a b Hab) as [Ha Hb].
      specialize (HM a b Hab). cbn in HM.
      pose proof (Hne a Ha) as Na. pose proof (Hne b Hb) as Nb.
      destruct (nth a als []) as [|[s o] ta] eqn:Ea; [congruence|].
      destruct (nth b als []) as [|[s' o'] tb] eqn:Eb; [congruence|].
      cbn. destruct (HM s o s' o' (or_introl eq_refl) (or_introl eq_refl)) as [H1 H2].
      destruct e; [specialize (H2 eq_refl)|]; lra.
Qed.

Theorem Distribution_sound_complete xs als prs sep :
  (forall k s o, In (s, o) (nth k als []) -> (s < length xs)%nat) ->
  (forall k, (k < length als)%nat -> nth k als [] <> []) ->
  (forall a b, In (a, b) prs -> (a < length als)%nat /\ (b < length als)%nat) ->
  (exists aux, length aux = length als /\
     Forall (sat (lv (xs ++ aux))) (gen_aligns_from (length xs) 0 als ++ gen_pairs (shift_pairs (length xs) prs) sep true))
  <-> (forall k, (k < length als)%nat -> align_holds 0 (lv xs) (nth k als [])) /\
      distribution_holds 0 (lv xs) (fun k => nth k als []) prs sep.
Proof. apply MultiSep_sound_complete. Qed.

Theorem SepAlign_sound_complete xs als a b g e :
  (forall k s o, In (s, o) (nth k als []) -> (s < length xs)%nat) ->
  (forall k, (k < length als)%nat -> nth k als [] <> []) ->
  (a < length als)%nat -> (b < length als)%nat ->
  (exists aux, length aux = length als /\
     Forall (sat (lv (xs ++ aux))) (gen_aligns_from (length xs) 0 als ++ gen_sep (length xs + a)%nat (length xs + b)%nat g e))
  <-> (forall k, (k < length als)%nat -> align_holds 0 (lv xs) (nth k als [])) /\
      pair_rel 0 e (lv xs) (nth a als []) (nth b als []) g.
Proof.
  intros Hidx Hne Ha Hb.
  pose proof (MultiSep_sound_complete xs als [(a, b)] g e Hidx Hne) as M.
  cbn in M. unfold gen_sep. rewrite M.
  - unfold multisep_holds. split; intros [H1 H2]; split; auto.
    + apply H2. left; auto.
    + intros a' b' [E|[]]. inversion E; subst. exact H2.
  - intros a' b' [E|[]]. inversion E; subst. auto.
Qed.

(* ------------------------------------------------------------------ FixedRelativeConstraint *)
Lemma ins_uniq_In x y l : In y (ins_uniq x l) <-> y = x \/ In y l.
Proof.
  induction l as [|z t IH]; cbn [ins_uniq In].
  - intuition.
  - destruct (Nat.ltb x z) eqn:E1; cbn [In]; [intuition|].
    destruct (Nat.eqb x z) eqn:E2; cbn [In].
    + apply Nat.eqb_eq in E2. subst. intuition.
    + rewrite IH. intuition.
Qed.
Lemma sort_uniq_In y l : In y (sort_uniq l) <-> In y l.
Proof.
  induction l as [|x t IH]; cbn; [tauto|]. rewrite ins_uniq_In, IH. intuition.
Qed.

Lemma gen_fixedrel_sat v ids c0 f rest : sort_uniq ids = f :: rest ->
  (Forall (sat v) (gen_fixedrel ids c0) <-> forall t, In t rest -> v f + (nth t c0 0 - nth f c0 0) == v t).
Proof.
  intro E. unfold gen_fixedrel, fixedrel_offsets. rewrite E, map_map, Forall_forall. split.
  - intros H t Ht.
    assert (S1 : sat v (mkSep f t (Qred (nth t c0 0 - nth f c0 0)) true)).
    { apply H. apply in_map_iff. exists t. auto. }
    unfold sat in S1; cbn [sl sr sgap seqy] in S1. pose proof (Qred_correct (nth t c0 0 - nth f c0 0)). lra.
  - intros H c Hc. apply in_map_iff in Hc. destruct Hc as (t & <- & Ht). unfold sat; cbn [sl sr sgap seqy fst snd].
    pose proof (Qred_correct (nth t c0 0 - nth f c0 0)). specialize (H t Ht). lra.
Qed.

Theorem FixedRel_sound_complete xs ids c0 :
  (exists aux, length aux = 0%nat /\ Forall (sat (lv (xs ++ aux))) (gen_fixedrel ids c0))
  <-> fixedrel_holds 0 (lv xs) ids c0.
Proof.
  destruct (sort_uniq ids) as [|f rest] eqn:E.
  - assert (Hn : forall i, ~ In i ids). { intros i Hi. apply sort_uniq_In in Hi. rewrite E in Hi. destruct Hi. }
    split.
    + intros _ i j Hi. destruct (Hn i Hi).
    + intros _. exists []. split; auto. unfold gen_fixedrel, fixedrel_offsets. rewrite E. constructor.
  - assert (Hf : forall i, In i ids <-> i = f \/ In i rest).
    { intro i. rewrite <- sort_uniq_In, E. cbn. intuition. }
    split.
    + intros (aux & Hl & H). destruct aux; [|discriminate]. rewrite app_nil_r in H.
      rewrite (gen_fixedrel_sat _ _ _ _ _ E) in H. intros i j Hi Hj.
      apply Hf in Hi, Hj.
      assert (Ei : lv xs f + (nth i c0 0 - nth f c0 0) == lv xs i). { destruct Hi as [->|Hi]; [lra|auto]. }
      assert (Ej : lv xs f + (nth j c0 0 - nth f c0 0) == lv xs j). { destruct Hj as [->|Hj]; [lra|auto]. }
      split; lra.
    + intro H. exists []. split; auto. rewrite app_nil_r. rewrite (gen_fixedrel_sat _ _ _ _ _ E).
      intros t Ht. destruct (H f t) as [H1 H2]; [apply Hf; auto|apply Hf; auto|]. lra.
Qed.

(* ------------------------------------------------------------------ PageBoundaryConstraints (soft: the two
   boundary variables are free, so on the rectangles alone the constraint is always satisfiable; for given boundary
   values it says that every rectangle lies inside the page) *)
Lemma gen_page_sat v l r sh :
  Forall (sat v) (gen_page (Some l) (Some r) sh) <-> page_holds 0 v (v l) (v r) sh.
Proof.
  unfold gen_page, page_holds. rewrite Forall_forall. split.
  - intros H s h Hin. split.
    + assert (S1 : sat v (mkSep l s h false)).
      { apply H. apply in_flat_map. exists (s, h). split; auto. cbn. auto. }
      unfold sat in S1; cbn in S1. lra.
    + assert (S1 : sat v (mkSep s r h false)).
      { apply H. apply in_flat_map. exists (s, h). split; auto. cbn. auto. }
      unfold sat in S1; cbn in S1. lra.
  - intros H c Hc. apply in_flat_map in Hc. destruct Hc as ([s h] & Hin & Hc). cbn in Hc.
    destruct (H s h Hin) as [H1 H2].
    destruct Hc as [<-|[<-|[]]]; unfold sat; cbn; lra.
Qed.

Theorem PageBoundary_sound_complete xs m k sh :
  (S k < m)%nat -> (forall s h, In (s, h) sh -> (s < length xs)%nat) ->
  (exists aux, length aux = m /\
      Forall (sat (lv (xs ++ aux))) (gen_page (Some (length xs + k)%nat) (Some (length xs + S k)%nat) sh))
  /\ (forall aux, length aux = m ->
      (Forall (sat (lv (xs ++ aux))) (gen_page (Some (length xs + k)%nat) (Some (length xs + S k)%nat) sh)
       <-> page_holds 0 (lv xs) (lv aux k) (lv aux (S k)) sh)).
Proof.
  intros Hk Hidx.
  assert (P2 : forall aux, length aux = m ->
      (Forall (sat (lv (xs ++ aux))) (gen_page (Some (length xs + k)%nat) (Some (length xs + S k)%nat) sh)
       <-> page_holds 0 (lv xs) (lv aux k) (lv aux (S k)) sh)).
  { intros aux Hl. rewrite gen_page_sat, !lv_app_r. unfold page_holds.
    split; intros H s h Hin; specialize (H s h Hin); [rewrite lv_app_l in H by eauto|rewrite lv_app_l by eauto]; exact H. }
  split; [|exact P2].
  destruct (list_has_lower (map (fun sh1 => lv xs (fst sh1) - snd sh1) sh)) as [L HL].
  destruct (list_has_lower (map (fun sh1 => - (lv xs (fst sh1) + snd sh1)) sh)) as [R HR].
  (* aux: L at position k, -R everywhere else *)
  exists (repeat L (S k) ++ repeat (- R) (m - S k)). split.
  { rewrite app_length, !repeat_length. lia. }
  apply P2. { rewrite app_length, !repeat_length. lia. }
  assert (E1 : lv (repeat L (S k) ++ repeat (- R) (m - S k)) k = L).
  { unfold lv. rewrite app_nth1 by (rewrite repeat_length; lia). apply (lv_repeat L (S k) k). lia. }
  assert (E2 : lv (repeat L (S k) ++ repeat (- R) (m - S k)) (S k) = - R).
  { unfold lv. rewrite app_nth2 by (rewrite repeat_length; lia). rewrite repeat_length.
    replace (S k - S k)%nat with 0%nat by lia. apply (lv_repeat (- R) (m - S k) 0). lia. }
  rewrite E1, E2. intros s h Hin. split.
  - assert (L <= lv xs s - h); [|lra]. apply HL. apply in_map_iff. exists (s, h). auto.
  - assert (R <= - (lv xs s + h)); [|lra]. apply HR. apply in_map_iff. exists (s, h). auto.
Qed.

(* ------------------------------------------------------------------ the verified checker *)
Lemma forall_pairs_spec {A B} (f : A -> B -> bool) la lb :
  forall_pairs f la lb = true <-> forall a b, In a la -> In b lb -> f a b = true.
Proof.
  unfold forall_pairs. rewrite forallb_forall. split.
  - intros H a b Ha Hb. specialize (H a Ha). rewrite forallb_forall in H. auto.
  - intros H a Ha. rewrite forallb_forall. auto.
Qed.

Lemma pair_relb_spec tol e v A B g : pair_relb tol e v A B g = true <-> pair_rel tol e v A B g.
Proof.
  unfold pair_relb, pair_rel. rewrite forall_pairs_spec. split.
  - intros H s o s' o' Hi Hi'. specialize (H (s, o) (s', o') Hi Hi'). cbn in H.
    apply andb_true_iff in H. destruct H as [H1 H2]. qb2p. split; auto. intros ->. qb2p. exact H2.
  - intros H [s o] [s' o'] Hi Hi'. cbn. destruct (H s o s' o' Hi Hi') as [H1 H2].
    apply andb_true_iff. split; [apply Qleb_spec; exact H1|]. destruct e; auto. apply Qleb_spec. auto.
Qed.

Lemma boundary_holdsb_spec tol v sh : boundary_holdsb tol v sh = true <-> boundary_holds tol v sh.
Proof.
  unfold boundary_holdsb, boundary_holds. rewrite forall_pairs_spec. split.
  - intros H s o s' o' Hi Hi' Ho Ho'. specialize (H (s, o) (s', o') Hi Hi'). cbn in H.
    assert (E1 : Qltb o 0 = true) by (apply Qltb_spec; exact Ho).
    assert (E2 : Qltb o' 0 = false) by (apply Qltb_false; exact Ho').
    rewrite E1, E2 in H. cbn in H. qb2p. exact H.
  - intros H [s o] [s' o'] Hi Hi'. cbn.
    destruct (Qltb o 0) eqn:E1; cbn; auto. destruct (Qltb o' 0) eqn:E2; cbn; auto. qb2p.
    apply Qleb_spec. eauto.
Qed.

Lemma fixedrel_holdsb_spec tol v ids c0 : fixedrel_holdsb tol v ids c0 = true <-> fixedrel_holds tol v ids c0.
Proof.
  unfold fixedrel_holdsb, fixedrel_holds. rewrite forall_pairs_spec. split.
  - intros H i j Hi Hj. specialize (H i j Hi Hj). apply andb_true_iff in H. destruct H. qb2p. split; auto.
  - intros H i j Hi Hj. destruct (H i j Hi Hj). apply andb_true_iff. split; apply Qleb_spec; auto.
Qed.

Lemma forallb_pairs_spec tol e v (als : nat -> offs) prs sep :
  forallb (fun ab => pair_relb tol e v (als (fst ab)) (als (snd ab)) sep) prs = true
  <-> multisep_holds tol v als prs sep e.
Proof.
  unfold multisep_holds. rewrite forallb_forall. split.
  - intros H a b Hin. apply pair_relb_spec. exact (H (a, b) Hin).
  - intros H [a b] Hin. apply pair_relb_spec. cbn. auto.
Qed.

Theorem cc_holdsb_correct tol d ccs v c : cc_holdsb tol d ccs v c = true <-> cc_meaning tol d ccs v c.
Proof.
  destruct c; cbn [cc_holdsb cc_meaning].
  - destruct (dim_eqb d d0) eqn:E.
    + apply dim_eqb_eq in E. subst. unfold sep_holds. rewrite andb_true_iff, Qleb_spec. split.
      * intros [H1 H2] _. split; auto. intros ->. qb2p. exact H2.
      * intro H. destruct (H eq_refl) as [H1 H2]. split; auto. destruct e; auto. apply Qleb_spec. auto.
    + split; auto. intros _ ->. rewrite dim_eqb_refl in E. discriminate.
  - destruct (dim_eqb d d0) eqn:E.
    + apply dim_eqb_eq in E. subst. rewrite pair_relb_spec. tauto.
    + split; auto. intros _ ->. rewrite dim_eqb_refl in E. discriminate.
  - destruct (dim_eqb d d0) eqn:E.
    + apply dim_eqb_eq in E. subst. rewrite pair_relb_spec. unfold align_holds. tauto.
    + split; auto. intros _ ->. rewrite dim_eqb_refl in E. discriminate.
  - destruct (dim_eqb d d0) eqn:E.
    + apply dim_eqb_eq in E. subst. rewrite boundary_holdsb_spec. tauto.
    + split; auto. intros _ ->. rewrite dim_eqb_refl in E. discriminate.
  - destruct (dim_eqb d d0) eqn:E.
    + apply dim_eqb_eq in E. subst. unfold distribution_holds.
      rewrite (forallb_pairs_spec tol true v (shapes_of ccs d0)). tauto.
    + split; auto. intros _ ->. rewrite dim_eqb_refl in E. discriminate.
  - destruct (dim_eqb d d0) eqn:E.
    + apply dim_eqb_eq in E. subst. rewrite (forallb_pairs_spec tol e v (shapes_of ccs d0)). tauto.
    + split; auto. intros _ ->. rewrite dim_eqb_refl in E. discriminate.
  - apply fixedrel_holdsb_spec.
  - tauto.
Qed.

(* ------------------------------------------------------------------ composition with a projection (C01)
   If a projection returns positions v (rectangle centres followed by the auxiliary variables) that satisfy every
   generated separation constraint to within eps - which is what property C01 states for IncSolver::solve() when no
   constraint is flagged unsatisfiable - then every compound constraint holds, on the rectangle centres alone, to
   within k*eps with k the length of the chain of generated constraints that links two rectangles:
   k = 1 separation, 2 alignment / boundary / fixed-relative (two constraints through the auxiliary variable or the
   first shape), 3 separation between alignments, multi-separation, distribution (alignment, gap, alignment). *)

Lemma pair_rel_mono tol tol' e v A B g : tol <= tol' -> pair_rel tol e v A B g -> pair_rel tol' e v A B g.
Proof.
  intros Ht H s o s' o' Hi Hi'. destruct (H s o s' o' Hi Hi') as [H1 H2]. split; [lra|]. intro E. specialize (H2 E). lra.
Qed.

Lemma gen_align_eps eps v vid sh :
  Forall (sat_eps eps v) (gen_align vid sh) ->
  forall s o, In (s, o) sh -> v vid + o <= v s + eps /\ v s <= v vid + o + eps.
Proof.
  unfold gen_align. rewrite Forall_forall. intros H s o Hin.
  assert (S1 : sat_eps eps v (mkSep vid s o true)). { apply H. apply in_map_iff. exists (s, o). auto. }
  destruct S1 as [H1 H2]. cbn in *. split; auto.
Qed.

Lemma gen_boundary_eps eps v vid sh :
  Forall (sat_eps eps v) (gen_boundary vid sh) -> boundary_holds (2 * eps) v sh.
Proof.
  unfold gen_boundary. rewrite Forall_forall. intros H s o s' o' Hi Hi' Ho Ho'.
  assert (S1 : sat_eps eps v (mkSep s vid (- o) false)).
  { assert (E : Qltb o 0 = true) by (apply Qltb_spec; exact Ho).
    replace (mkSep s vid (- o) false) with ((fun so => if Qltb (snd so) 0 then mkSep (fst so) vid (- snd so) false
                 else mkSep vid (fst so) (snd so) false) (s, o)) by (cbn; rewrite E; reflexivity).
    apply H. apply in_map_iff. exists (s, o). auto. }
  assert (S2 : sat_eps eps v (mkSep vid s' o' false)).
  { assert (E : Qltb o' 0 = false) by (apply Qltb_false; exact Ho').
    replace (mkSep vid s' o' false) with ((fun so => if Qltb (snd so) 0 then mkSep (fst so) vid (- snd so) false
                 else mkSep vid (fst so) (snd so) false) (s', o')) by (cbn; rewrite E; reflexivity).
    apply H. apply in_map_iff. exists (s', o'). auto. }
  destruct S1 as [S1 _]. destruct S2 as [S2 _]. cbn in *. lra.
Qed.

Lemma gen_fixedrel_eps eps v ids c0 :
  0 <= eps -> Forall (sat_eps eps v) (gen_fixedrel ids c0) -> fixedrel_holds (2 * eps) v ids c0.
Proof.
  intros He H. destruct (sort_uniq ids) as [|f rest] eqn:E.
  - intros i j Hi. apply sort_uniq_In in Hi. rewrite E in Hi. destruct Hi.
  - assert (Hf : forall i, In i ids -> i = f \/ In i rest).
    { intros i Hi. apply sort_uniq_In in Hi. rewrite E in Hi. cbn in Hi. intuition. }
    assert (G : forall t, In t rest ->
              v f + (nth t c0 0 - nth f c0 0) <= v t + eps /\ v t <= v f + (nth t c0 0 - nth f c0 0) + eps).
    { intros t Ht. unfold gen_fixedrel, fixedrel_offsets in H. rewrite E, map_map, Forall_forall in H.
      assert (S1 : sat_eps eps v (mkSep f t (Qred (nth t c0 0 - nth f c0 0)) true)).
      { apply H. apply in_map_iff. exists t. auto. }
      destruct S1 as [S1 S2]. cbn [sl sr sgap seqy] in *. specialize (S2 eq_refl).
      pose proof (Qred_correct (nth t c0 0 - nth f c0 0)). lra. }
    intros i j Hi Hj. apply Hf in Hi, Hj.
    assert (Gi : v f + (nth i c0 0 - nth f c0 0) <= v i + eps /\ v i <= v f + (nth i c0 0 - nth f c0 0) + eps).
    { destruct Hi as [->|Hi]; [lra|auto]. }
    assert (Gj : v f + (nth j c0 0 - nth f c0 0) <= v j + eps /\ v j <= v f + (nth j c0 0 - nth f c0 0) + eps).
    { destruct Hj as [->|Hj]; [lra|auto]. }
    split; lra.
Qed.

Lemma gen_seps_from_incl d nv ccs vids : forall rest i SS,
  gen_seps_from d nv ccs vids i rest = GOk SS ->
  forall j c, nth_error rest j = Some c ->
  exists s, cc_seps d nv ccs vids (i + j) c = GOk s /\ incl s SS.
Proof.
  induction rest as [|a rest IH]; intros i SS H j c Hj.
  - destruct j; discriminate.
  - cbn [gen_seps_from] in H.
    destruct (cc_seps d nv ccs vids i a) as [s1|] eqn:E1; [|discriminate].
    destruct (gen_seps_from d nv ccs vids (S i) rest) as [s2|] eqn:E2; [|discriminate].
    inversion H; subst; clear H. destruct j.
    + cbn in Hj. inversion Hj; subst. exists s1. rewrite Nat.add_0_r. split; auto. apply incl_appl, incl_refl.
    + cbn in Hj. destruct (IH (S i) _ E2 j c Hj) as (s & Hs & Hi). exists s.
      replace (i + S j)%nat with (S i + j)%nat by lia. split; auto. apply incl_appr; auto.
Qed.

Lemma Forall_incl {A} (P : A -> Prop) s SS : incl s SS -> Forall P SS -> Forall P s.
Proof. rewrite !Forall_forall. intros Hi H x Hx. auto. Qed.

Section Projection.
  Variable eps : Q.
  Hypothesis eps_nonneg : 0 <= eps.
  Variables (d : dim) (nv : nat) (ccs : list cc) (vids : list (option nat)) (SS : list sepc) (v : val).
  Hypothesis HS : gen_seps_from d nv ccs vids 0 ccs = GOk SS.
  (* the hypothesis "sat within eps": the conclusion of C01 for the projection's output *)
  Hypothesis Hsat : Forall (sat_eps eps v) SS.

  Lemma cc_at j c : nth_error ccs j = Some c ->
    exists s, cc_seps d nv ccs vids j c = GOk s /\ Forall (sat_eps eps v) s.
  Proof.
    intro Hj. destruct (gen_seps_from_incl d nv ccs vids ccs 0 SS HS j c Hj) as (s & Hs & Hi).
    exists s. split; auto. eapply Forall_incl; eauto.
  Qed.

  (* the guideline variable of alignment a is within eps of the guideline position of each of its shapes *)
  Lemma align_vid_close a va : align_vid d ccs vids a = Some va ->
    forall s o, In (s, o) (shapes_of ccs d a) -> v va + o <= v s + eps /\ v s <= v va + o + eps.
  Proof.
    unfold align_vid, shapes_of. destruct (nth_error ccs a) as [c|] eqn:E; [|discriminate].
    destruct c; try discriminate. destruct (dim_eqb d d0) eqn:Ed; [|discriminate].
    intros Hv s o Hin. destruct (cc_at a _ E) as (s1 & Hs1 & Hf).
    cbn [cc_seps] in Hs1. rewrite Ed, Hv in Hs1.
    destruct (all_lt nv (map fst sh)); [|discriminate]. inversion Hs1; subst.
    eapply gen_align_eps; eauto.
  Qed.

  Lemma resolve_pairs_In prs r : resolve_pairs d ccs vids prs = Some r ->
    forall a b, In (a, b) prs ->
    exists va vb, align_vid d ccs vids a = Some va /\ align_vid d ccs vids b = Some vb /\ In (va, vb) r.
  Proof.
    revert r. induction prs as [|[a0 b0] t IH]; intros r H a b Hin; [destruct Hin|].
    cbn [resolve_pairs] in H.
    destruct (align_vid d ccs vids a0) as [va|] eqn:Ea; [|discriminate].
    destruct (align_vid d ccs vids b0) as [vb|] eqn:Eb; [|discriminate].
    destruct (resolve_pairs d ccs vids t) as [r'|] eqn:Er; [|discriminate].
    inversion H; subst; clear H. destruct Hin as [E|Hin].
    - inversion E; subst. exists va, vb. repeat split; auto. left; auto.
    - destruct (IH r' eq_refl a b Hin) as (va' & vb' & H1 & H2 & H3). exists va', vb'. repeat split; auto. right; auto.
  Qed.

  Lemma pair_close a b va vb g e :
    align_vid d ccs vids a = Some va -> align_vid d ccs vids b = Some vb ->
    sat_eps eps v (mkSep va vb g e) ->
    pair_rel (3 * eps) e v (shapes_of ccs d a) (shapes_of ccs d b) g.
  Proof.
    intros Ha Hb [S1 S2] s o s' o' Hi Hi'. cbn in S1, S2.
    destruct (align_vid_close a va Ha s o Hi). destruct (align_vid_close b vb Hb s' o' Hi').
    split; [lra|]. intro E. specialize (S2 E). lra.
  Qed.

  Lemma pairs_close prs r sep e :
    resolve_pairs d ccs vids prs = Some r -> Forall (sat_eps eps v) (gen_pairs r sep e) ->
    multisep_holds (3 * eps) v (shapes_of ccs d) prs sep e.
  Proof.
    intros Hr Hf a b Hab. destruct (resolve_pairs_In prs r Hr a b Hab) as (va & vb & Ha & Hb & Hin).
    apply (pair_close a b va vb); auto.
    rewrite Forall_forall in Hf. apply Hf. unfold gen_pairs. apply in_map_iff. exists (va, vb). auto.
  Qed.

  Theorem projection_establishes_at j c : nth_error ccs j = Some c -> cc_meaning (3 * eps) d ccs v c.
  Proof.
    intro Hj. destruct (cc_at j c Hj) as (s & Hs & Hf).
    destruct c; cbn [cc_meaning cc_seps] in *.
    - (* separation *) intros <-. rewrite dim_eqb_refl in Hs.
      destruct (Nat.ltb l nv && Nat.ltb r nv); [|discriminate]. inversion Hs; subst.
      inversion Hf as [|c cs [H1 H2] _]; subst. cbn in H1, H2. split; [lra|]. intro E. specialize (H2 E). lra.
    - (* separation between two alignments *) intros <-. rewrite dim_eqb_refl in Hs.
      destruct (align_vid d ccs vids la) as [va|] eqn:Ea; [|discriminate].
      destruct (align_vid d ccs vids ra) as [vb|] eqn:Eb; [|discriminate].
      inversion Hs; subst. inversion Hf; subst. eapply pair_close; eauto.
    - (* alignment *) intros <-. rewrite dim_eqb_refl in Hs.
      destruct (nth j vids None) as [vid|]; [|discriminate].
      destruct (all_lt nv (map fst sh)); [|discriminate]. inversion Hs; subst.
      intros s o s' o' Hi Hi'.
      destruct (gen_align_eps eps v vid sh Hf s o Hi). destruct (gen_align_eps eps v vid sh Hf s' o' Hi').
      split; intros; lra.
    - (* boundary *) intros <-. rewrite dim_eqb_refl in Hs.
      destruct (nth j vids None) as [vid|]; [|discriminate].
      destruct (all_lt nv (map fst sh)); [|discriminate]. inversion Hs; subst.
      intros s o s' o' Hi Hi' Ho Ho'. pose proof (gen_boundary_eps eps v vid sh Hf s o s' o' Hi Hi' Ho Ho'). lra.
    - (* distribution *) intros <-. rewrite dim_eqb_refl in Hs.
      destruct (resolve_pairs d ccs vids prs) as [r|] eqn:Er; [|discriminate]. inversion Hs; subst.
      unfold distribution_holds. eapply pairs_close; eauto.
    - (* multi-separation *) intros <-. rewrite dim_eqb_refl in Hs.
      destruct (resolve_pairs d ccs vids prs) as [r|] eqn:Er; [|discriminate]. inversion Hs; subst.
      eapply pairs_close; eauto.
    - (* fixed relative *)
      destruct (all_lt nv (sort_uniq ids)); [|discriminate]. inversion Hs; subst.
      pose proof (gen_fixedrel_eps eps v ids _ eps_nonneg Hf) as G.
      intros i j' Hi Hj'. destruct (G i j' Hi Hj'). split; lra.
    - exact I.
  Qed.
End Projection.

Lemma gen_system_inv d n ccs out : gen_system d n ccs = GOk out ->
  exists aux vids, gen_vars d n ccs = (aux, vids) /\ so_aux out = aux /\
     gen_seps_from d (n + length aux) ccs vids 0 ccs = GOk (so_seps out).
Proof.
  unfold gen_system. destruct (gen_vars d n ccs) as [aux vids].
  destruct (gen_seps_from d (n + length aux) ccs vids 0 ccs) as [s|] eqn:E; [|discriminate].
  intro H. inversion H; subst. exists aux, vids. cbn. auto.
Qed.

Theorem C07_projection_establishes_thm eps d n ccs out v :
  0 <= eps ->
  gen_system d n ccs = GOk out ->
  Forall (sat_eps eps v) (so_seps out) ->
  forall c, In c ccs -> cc_meaning (3 * eps) d ccs v c.
Proof.
  intros He Hg Hf c Hin. destruct (gen_system_inv d n ccs out Hg) as (aux & vids & _ & _ & HS).
  destruct (In_nth_error _ _ Hin) as [j Hj].
  eapply projection_establishes_at; eauto.
Qed.

(* exact version (eps = 0): soundness of the whole system's translation *)
Corollary system_sound d n ccs out v :
  gen_system d n ccs = GOk out -> Forall (sat v) (so_seps out) ->
  forall c, In c ccs -> cc_meaning 0 d ccs v c.
Proof.
  intros Hg Hf c Hin.
  assert (H : cc_meaning (3 * 0) d ccs v c).
  { eapply C07_projection_establishes_thm; eauto; [lra|]. eapply Forall_impl; [|exact Hf]. apply sat_sat_eps0. }
  assert (E : forall tol tol', tol == tol' -> cc_meaning tol d ccs v c -> cc_meaning tol' d ccs v c).
  { intros tol tol' Et. destruct c; cbn [cc_meaning]; auto.
    - intros M Hd. destruct (M Hd) as [M1 M2]. split; [lra|]. intro E. specialize (M2 E). lra.
    - intros M Hd. eapply pair_rel_mono; [|exact (M Hd)]. lra.
    - intros M Hd. eapply pair_rel_mono; [|exact (M Hd)]. lra.
    - intros M Hd s o s' o' Hi Hi' Ho Ho'. specialize (M Hd s o s' o' Hi Hi' Ho Ho'). lra.
    - intros M Hd a b Hab. eapply pair_rel_mono; [|exact (M Hd a b Hab)]. lra.
    - intros M Hd a b Hab. eapply pair_rel_mono; [|exact (M Hd a b Hab)]. lra.
    - intros M i j Hi Hj. destruct (M i j Hi Hj). split; lra. }
  apply (E (3 * 0)); [lra|exact H].
Qed.

(* ------------------------------------------------------------------ the driver *)
Lemma last_write_acc d t : forall acc,
  fold_left (fun acc w => if writes d w then Some w else acc) t acc =
  match last_write d t with Some w => Some w | None => acc end.
Proof.
  unfold last_write. induction t as [|w t IH]; intro acc; cbn [fold_left].
  - reflexivity.
  - destruct (writes d w).
    + rewrite (IH (Some w)). destruct (fold_left _ t None); reflexivity.
    + rewrite (IH acc). reflexivity.
Qed.
Lemma last_write_app d t1 t2 :
  last_write d (t1 ++ t2) = match last_write d t2 with Some w => Some w | None => last_write d t1 end.
Proof.
  unfold last_write at 1. rewrite fold_left_app. rewrite last_write_acc. reflexivity.
Qed.

Lemma iteration_ends rk xa ya : exists pre, iteration rk xa ya = pre ++ setPosition.
Proof. unfold iteration. eexists. reflexivity. Qed.

(* In ConstrainedFDLayout::run with at least one iteration, the last write to X is the output of the projection of
   the final setPosition's moveTo(HORIZONTAL) and the last write to Y that of its moveTo(VERTICAL); nothing writes
   X after that projection (in particular the Y projection does not). *)
Theorem driver_last_step_is_projection_thm rk xa ya iters :
  (1 <= iters)%nat ->
  last_write DX (run_trace rk xa ya iters) = Some (WProj DX) /\
  last_write DY (run_trace rk xa ya iters) = Some (WProj DY).
Proof.
  intro H. destruct iters as [|k]; [lia|]. cbn [run_trace].
  destruct (iteration_ends rk xa ya) as [pre E]. rewrite E, app_assoc.
  split; rewrite last_write_app; reflexivity.
Qed.

(* runOnce has no final setPosition: the last write to X is not a projection output (for xAxis = true) *)
Theorem runOnce_last_step_not_projection rk ya :
  last_write DX (runOnce_trace rk true ya) = Some (if ya then WDisplace else WBlend DX).
Proof. destruct rk, ya; reflexivity. Qed.

(* semantics: a projection step replaces the coordinate array of its dimension by a vector satisfying that dimension's
   feasibility predicate; every other write is arbitrary (forces, step size, random displacement are not modelled).
   feasX / feasY are predicates on the coordinate array of one dimension only: the generated user constraints of
   dimension X do not read Y (gen_system takes no positions at all), so the Y projection cannot break them.
   Non-overlap constraints, which do read the other axis, are excluded here and treated in C08. *)
Section DriverSemantics.
  Variables feasX feasY : list Q -> Prop.
  Definition st := (list Q * list Q)%type.
  Inductive step : wr -> st -> st -> Prop :=
  | SProjX X Y X' : feasX X' -> step (WProj DX) (X, Y) (X', Y)
  | SProjY X Y Y' : feasY Y' -> step (WProj DY) (X, Y) (X, Y')
  | SDisplace X Y X' Y' : step WDisplace (X, Y) (X', Y')
  | SDescentX X Y X' : step (WDescent DX) (X, Y) (X', Y)
  | SDescentY X Y Y' : step (WDescent DY) (X, Y) (X, Y')
  | SBlendX X Y X' : step (WBlend DX) (X, Y) (X', Y)
  | SBlendY X Y Y' : step (WBlend DY) (X, Y) (X, Y').
  Inductive steps : list wr -> st -> st -> Prop :=
  | StNil s : steps [] s s
  | StCons w t s1 s2 s3 : step w s1 s2 -> steps t s2 s3 -> steps (w :: t) s1 s3.

  Lemma steps_app t1 : forall t2 s1 s3, steps (t1 ++ t2) s1 s3 -> exists s2, steps t1 s1 s2 /\ steps t2 s2 s3.
  Proof.
    induction t1 as [|w t IH]; intros t2 s1 s3 H; cbn in H.
    - exists s1. split; [constructor|exact H].
    - inversion H; subst. destruct (IH _ _ _ H5) as (s & Ha & Hb). exists s. split; auto. econstructor; eauto.
  Qed.

  Theorem run_final_feasible rk xa ya iters s s' :
    (1 <= iters)%nat -> steps (run_trace rk xa ya iters) s s' -> feasX (fst s') /\ feasY (snd s').
  Proof.
    intros H Hs. destruct iters as [|k]; [lia|]. cbn [run_trace] in Hs.
    destruct (iteration_ends rk xa ya) as [pre E]. rewrite E, app_assoc in Hs.
    apply steps_app in Hs. destruct Hs as (s2 & _ & Hs). unfold setPosition, moveTo in Hs. cbn in Hs.
    inversion Hs; subst. inversion H5; subst. inversion H7; subst.
    inversion H2; subst. inversion H3; subst. cbn. auto.
  Qed.
End DriverSemantics.

(* feasibility of one coordinate array for the user constraints of dimension d, to within eps: auxiliary values exist
   with which every generated constraint holds to eps.  Mentions the coordinates of dimension d only. *)
Definition feas (eps : Q) (d : dim) (ccs : list cc) (coords : list Q) : Prop :=
  exists out aux, gen_system d (length coords) ccs = GOk out /\ Forall (sat_eps eps (lv (coords ++ aux))) (so_seps out).

Theorem run_establishes_constraints eps ccs rk xa ya iters s s' :
  0 <= eps -> (1 <= iters)%nat ->
  steps (feas eps DX ccs) (feas eps DY ccs) (run_trace rk xa ya iters) s s' ->
  (exists aux, forall c, In c ccs -> cc_meaning (3 * eps) DX ccs (lv (fst s' ++ aux)) c) /\
  (exists aux, forall c, In c ccs -> cc_meaning (3 * eps) DY ccs (lv (snd s' ++ aux)) c).
Proof.
  intros He Hi Hs. destruct (run_final_feasible _ _ rk xa ya iters s s' Hi Hs) as [(ox & ax & Hgx & Hfx) (oy & ay & Hgy & Hfy)].
  split; [exists ax|exists ay]; intros c Hc; eapply C07_projection_establishes_thm; eauto.
Qed.

(* ------------------------------------------------------------------ non-vacuity: each theorem's hypotheses and both
   sides of each equivalence are inhabited on concrete non-trivial data *)
Example Sep_nonvacuous :
  exists aux, length aux = 0%nat /\ Forall (sat (lv ([0; 5] ++ aux))) (gen_sep 0 1 3 false).
Proof. apply Sep_sound_complete. unfold sep_holds, lv; cbn. split; intros; try discriminate; lra. Qed.

Example Align_nonvacuous :
  align_holds 0 (lv [1; 3]) [(0%nat, 0); (1%nat, 2)] /\
  exists aux, length aux = 1%nat /\ Forall (sat (lv ([1; 3] ++ aux))) (gen_align (length [1; 3] + 0) [(0%nat, 0); (1%nat, 2)]).
Proof.
  assert (H : align_holds 0 (lv [1; 3]) [(0%nat, 0); (1%nat, 2)]).
  { apply pair_relb_spec. vm_compute. reflexivity. }
  split; [exact H|]. apply Align_sound_complete; auto.
  intros s o [E|[E|[]]]; inversion E; subst; cbn; lia.
Qed.
Example Align_violated : ~ align_holds 0 (lv [1; 4]) [(0%nat, 0); (1%nat, 2)].
Proof. intro H. apply pair_relb_spec in H. vm_compute in H. discriminate. Qed.

Example Boundary_nonvacuous :
  boundary_holds 0 (lv [0; 10]) [(0%nat, -(2)); (1%nat, 3)] /\
  exists aux, length aux = 1%nat /\
     Forall (sat (lv ([0; 10] ++ aux))) (gen_boundary (length [0; 10] + 0) [(0%nat, -(2)); (1%nat, 3)]).
Proof.
  assert (H : boundary_holds 0 (lv [0; 10]) [(0%nat, -(2)); (1%nat, 3)]).
  { apply boundary_holdsb_spec. vm_compute. reflexivity. }
  split; [exact H|]. apply Boundary_sound_complete; auto.
  intros s o [E|[E|[]]]; inversion E; subst; cbn; lia.
Qed.
Example Boundary_violated : ~ boundary_holds 0 (lv [9; 10]) [(0%nat, -(2)); (1%nat, 3)].
Proof. intro H. apply boundary_holdsb_spec in H. vm_compute in H. discriminate. Qed.

Definition ex_als : list offs := [[(0%nat, 0); (1%nat, 1)]; [(2%nat, 0)]].
Example MultiSep_nonvacuous :
  exists aux, length aux = length ex_als /\
     Forall (sat (lv ([0; 1; 7] ++ aux)))
        (gen_aligns_from (length [0; 1; 7]) 0 ex_als ++ gen_pairs (shift_pairs (length [0; 1; 7]) [(0%nat, 1%nat)]) 5 false).
Proof.
  apply MultiSep_sound_complete.
  - intros k s o. destruct k as [|[|k]]; cbn; [| |destruct k; intros []].
    + intros [E|[E|[]]]; inversion E; subst; lia.
    + intros [E|[]]; inversion E; subst; lia.
  - intros k Hk. destruct k as [|[|k]]; cbn in *; [discriminate|discriminate|lia].
  - intros a b [E|[]]. inversion E; subst. cbn. lia.
  - split.
    + intros k Hk. apply pair_relb_spec. destruct k as [|[|k]]; [vm_compute; reflexivity|vm_compute; reflexivity|cbn in Hk; lia].
    + apply (forallb_pairs_spec 0 false (lv [0; 1; 7]) (fun k => nth k ex_als []) [(0%nat, 1%nat)] 5).
      vm_compute. reflexivity.
Qed.

Example FixedRel_nonvacuous :
  exists aux, length aux = 0%nat /\ Forall (sat (lv ([5; 8; 1] ++ aux))) (gen_fixedrel [1%nat; 0%nat; 1%nat] [0; 3; 9]).
Proof. apply FixedRel_sound_complete. apply fixedrel_holdsb_spec. vm_compute. reflexivity. Qed.
Example FixedRel_violated : ~ fixedrel_holds 0 (lv [5; 9]) [0%nat; 1%nat] [0; 3].
Proof. intro H. apply fixedrel_holdsb_spec in H. vm_compute in H. discriminate. Qed.

(* a system with every type, generated without error, and a valuation satisfying it to eps = 1/1000 but not exactly *)
Definition ex_ccs : list cc :=
  [ CAlign DX 0 false [(0%nat, 0); (1%nat, 2)];
    CAlign DX 0 true [(2%nat, 0)];
    CSepA DX 0 1 4 false;
    CSep DX 0 3 1 true;
    CBoundary DX 0 [(0%nat, -(1 # 2)); (3%nat, 1 # 2)];
    CMultiSep DX 3 false [(0%nat, 1%nat)];
    CDistrib DY 3 [];
    CFixedRel false [0%nat; 1%nat] [0; 2; 9; 9] [0; 0; 0; 0];
    CPage 0 100 0 100 1 [(0%nat, (1, 1))] ].
Definition ex_v : val := lv [0; 2 + (1 # 2000); 6; 1;   0; 6; 1 # 2; -(5); 50].
Example projection_nonvacuous :
  exists out, gen_system DX 4 ex_ccs = GOk out /\
    forallb (sat_epsb (1 # 1000) ex_v) (so_seps out) = true /\
    forallb (sat_epsb 0 ex_v) (so_seps out) = false /\
    length (so_seps out) = 11%nat.
Proof. eexists. split; [vm_compute; reflexivity|]. vm_compute. auto. Qed.

Example projection_example_conclusion : forall c, In c ex_ccs -> cc_meaning (3 * (1 # 1000)) DX ex_ccs ex_v c.
Proof.
  destruct projection_nonvacuous as (out & Hg & Hs & _).
  apply (C07_projection_establishes_thm (1 # 1000) DX 4 ex_ccs out ex_v); [lra|exact Hg|].
  apply Forall_forall. intros c Hc. rewrite forallb_forall in Hs. apply sat_epsb_spec. auto.
Qed.

Example driver_trace_example :
  run_trace false true true 1 =
  [WProj DX; WProj DY; WDisplace; WDescent DX; WProj DX; WBlend DX; WDisplace; WDescent DY; WProj DY; WBlend DY; WProj DX; WProj DY].
Proof. reflexivity. Qed.

Example driver_semantics_nonvacuous :
  steps (fun X => X = [1]) (fun Y => Y = [2]) (run_trace false true false 1) ([0], [0]) ([1], [2]).
Proof.
  cbn.
  apply StCons with (s2 := ([1], [0])); [constructor; reflexivity|].
  repeat (apply StCons with (s2 := ([1], [2])); [constructor; try reflexivity|]).
  constructor.
Qed.

(* ------------------------------------------------------------------ single-axis runs (run(true,false), run(false,true),
   run(false,false)): which projections happen, and which happen last, for each flag combination *)
Lemma projs_app t1 t2 : projs (t1 ++ t2) = projs t1 ++ projs t2.
Proof. unfold projs. apply flat_map_app. Qed.

(* one iteration: every descent evaluation projects both axes and then solves once per laid-out axis; a projection of both
   axes closes the iteration - for every flag combination *)
Lemma iteration_projs_eq rk xa ya : projs (iteration rk xa ya) = iteration_projs rk xa ya.
Proof. destruct rk, xa, ya; reflexivity. Qed.

Theorem run_projs_thm rk xa ya iters :
  projs (run_trace rk xa ya iters) = rep_tr iters (iteration_projs rk xa ya).
Proof.
  induction iters as [|k IH]; [reflexivity|]. cbn [run_trace]. rewrite projs_app, IH, iteration_projs_eq.
  clear IH. induction k as [|k IH]; cbn [rep_tr]; [rewrite app_nil_r; reflexivity|].
  rewrite <- app_assoc, IH. reflexivity.
Qed.

(* whatever the flags, the trace of run() ENDS with the projection of X followed by the projection of Y: the constraints
   of the axis that is not laid out are projected last as well *)
Theorem single_axis_run_ends_with_both_projections_thm rk xa ya iters :
  (1 <= iters)%nat -> exists pre, run_trace rk xa ya iters = pre ++ [WProj DX; WProj DY].
Proof.
  intro H. destruct iters as [|k]; [lia|]. cbn [run_trace].
  destruct (iteration_ends rk xa ya) as [pre E]. rewrite E, app_assoc. eexists. reflexivity.
Qed.

(* in run(true,false) the array Y is written only by projections onto the Y constraints and by the random displacement
   of coincident nodes (computeForces writes X[v] and Y[v] whatever the dimension); symmetric for run(false,true) *)
Definition only_proj_or_displace (d : dim) (w : wr) : bool :=
  negb (writes d w) || match w with WProj _ | WDisplace => true | _ => false end.
Theorem single_axis_other_axis_writes_thm rk iters :
  forallb (only_proj_or_displace DY) (run_trace rk true false iters) = true /\
  forallb (only_proj_or_displace DX) (run_trace rk false true iters) = true /\
  forallb (fun w => match w with WProj _ => true | _ => false end) (run_trace rk false false iters) = true.
Proof.
  induction iters as [|k (IH1 & IH2 & IH3)]; [repeat split|]. cbn [run_trace]. rewrite !forallb_app, IH1, IH2, IH3.
  destruct rk; repeat split.
Qed.

(* the VARIANT that moves only the axes being laid out loses the property for single-axis runs: no projection of the other
   axis at all, its last write (if any) is the random displacement *)
Theorem axes_only_variant_refuted_thm rk iters :
  (1 <= iters)%nat ->
  projs (run_trace_axes rk true false iters) = rep_tr iters (rep_tr (if rk then 9%nat else 3%nat) [DX]) /\
  last_write DY (run_trace_axes rk true false iters) = Some WDisplace /\
  last_write DX (run_trace_axes rk false true iters) = Some WDisplace /\
  run_trace_axes rk true true iters = run_trace rk true true iters.
Proof.
  intro H. destruct iters as [|k]; [lia|]. clear H. repeat split.
  - induction k as [|k IH]; [destruct rk; reflexivity|].
    change (run_trace_axes rk true false (S (S k))) with (run_trace_axes rk true false (S k) ++ iteration_axes rk true false).
    rewrite projs_app, IH. clear IH.
    assert (E : projs (iteration_axes rk true false) = rep_tr (if rk then 9%nat else 3%nat) [DX]) by (destruct rk; reflexivity).
    rewrite E. generalize (rep_tr (if rk then 9%nat else 3%nat) [DX]). intro l.
    clear E. induction (S k) as [|m IH]; cbn [rep_tr]; [rewrite app_nil_r; reflexivity|].
    rewrite <- app_assoc, IH. reflexivity.
  - cbn [run_trace_axes]. rewrite last_write_app. destruct rk; reflexivity.
  - cbn [run_trace_axes]. rewrite last_write_app. destruct rk; reflexivity.
  - induction (S k) as [|m IH]; [reflexivity|]. cbn [run_trace_axes run_trace]. rewrite IH. destruct rk; reflexivity.
Qed.

(* semantically: under the variant a single-axis run can end with the other axis infeasible (whenever the start is),
   while the code's trace cannot (run_final_feasible holds for all flags) *)
Theorem axes_only_variant_can_end_infeasible_thm (feasX feasY : list Q -> Prop) X0 Y0 rk iters :
  feasX X0 -> ~ feasY Y0 ->
  exists s', steps feasX feasY (run_trace_axes rk true false iters) (X0, Y0) s' /\ ~ feasY (snd s').
Proof.
  intros HX HY. exists (X0, Y0). split; [|exact HY].
  assert (St : forall t, forallb (fun w => match w with WProj DY | WDescent DY | WBlend DY => false | _ => true end) t = true ->
                         steps feasX feasY t (X0, Y0) (X0, Y0)).
  { induction t as [|w t IH]; intro F; [constructor|]. cbn [forallb] in F. apply andb_true_iff in F. destruct F as [Fw Ft].
    apply StCons with (s2 := (X0, Y0)); [|auto].
    destruct w as [[|]| |[|]|[|]]; try discriminate; constructor; assumption. }
  apply St. induction iters as [|k IH]; [reflexivity|]. cbn [run_trace_axes]. rewrite forallb_app, IH. destruct rk; reflexivity.
Qed.

Example single_axis_trace_example :
  projs (run_trace true true false 1) = [DX; DY; DX; DX; DY; DX; DX; DY; DX; DX; DY; DX; DX; DY] /\
  projs (run_trace_axes true true false 1) = [DX; DX; DX; DX; DX; DX; DX; DX; DX].
Proof. split; reflexivity. Qed.
Example axes_only_variant_nonvacuous :
  exists s', steps (fun X => X = [1]) (fun Y => Y = [2]) (run_trace_axes false true false 1) ([1], [0]) s' /\ snd s' <> [2].
Proof.
  destruct (axes_only_variant_can_end_infeasible_thm (fun X => X = [1]) (fun Y => Y = [2]) [1] [0] false 1) as (s' & H1 & H2);
    [reflexivity|discriminate|]. exists s'. auto.
Qed.
