(* C08 - proofs about the exemption set (model: NonOverlapExemptModel.v): after ANY sequence of setAvoidNodeOverlaps /
   addExemptGroupOfNodes calls the pairs that are exempt are exactly those of the LAST call; the variant without
   m_exempt_pairs.clear() is refuted. *)
From Coq Require Import Lia Sorted.
From Adapt Require Import Num.Qaux Cola.CompoundCsModel Cola.CompoundCs Cola.NonOverlapModel Cola.NonOverlap Cola.NonOverlapExemptModel.

(* ------------------------------------------------------------------ sort + unique gives a strictly increasing list *)
Lemma ins_uniq_sorted x l : StronglySorted lt l -> StronglySorted lt (ins_uniq x l).
Proof.
  induction l as [|y t IH]; cbn [ins_uniq]; intro H.
  - constructor; [constructor|constructor].
  - inversion H as [|? ? Ht Hy]; subst.
    destruct (Nat.ltb x y) eqn:E1.
    + apply Nat.ltb_lt in E1. constructor; [exact H|]. constructor; [exact E1|].
      rewrite Forall_forall in *. intros z Hz. specialize (Hy z Hz). lia.
    + destruct (Nat.eqb x y) eqn:E2; [exact H|].
      apply Nat.ltb_ge in E1. apply Nat.eqb_neq in E2.
      constructor; [apply IH; exact Ht|].
      rewrite Forall_forall in *. intros z Hz. apply ins_uniq_In in Hz. destruct Hz as [->|Hz]; [lia|auto].
Qed.
Lemma sort_uniq_sorted l : StronglySorted lt (sort_uniq l).
Proof. induction l as [|x t IH]; cbn; [constructor|apply ins_uniq_sorted; exact IH]. Qed.

Lemma all_pairs_In_sorted l : StronglySorted lt l ->
  forall x y, In (x, y) (all_pairs l) <-> (x < y)%nat /\ In x l /\ In y l.
Proof.
  induction l as [|z t IH]; intros Hs x y; cbn [all_pairs In].
  - tauto.
  - inversion Hs as [|? ? Ht Hz]; subst. rewrite Forall_forall in Hz.
    rewrite in_app_iff, in_map_iff, (IH Ht). split.
    + intros [(w & E & Hw)|(H1 & H2 & H3)].
      * inversion E; subst. split; [auto|]. split; auto.
      * split; [exact H1|]. split; auto.
    + intros (Hlt & [Ex|Hx] & [Ey|Hy]).
      * subst. lia.
      * subst. left. exists y. auto.
      * subst. specialize (Hz x Hx). lia.
      * right. auto.
Qed.

(* the pairs one call wants to insert: both ids in one group, smaller first *)
Lemma exempt_pairs_In groups x y :
  In (x, y) (exempt_pairs groups) <-> (x < y)%nat /\ exists g, In g groups /\ In x g /\ In y g.
Proof.
  unfold exempt_pairs. rewrite in_flat_map. split.
  - intros (g & Hg & H). apply (all_pairs_In_sorted _ (sort_uniq_sorted g)) in H. destruct H as (Hlt & Hx & Hy).
    apply (proj1 (sort_uniq_In _ _)) in Hx. apply (proj1 (sort_uniq_In _ _)) in Hy. split; [exact Hlt|]. exists g. repeat split; assumption.
  - intros (Hlt & g & Hg & Hx & Hy). exists g. split; [exact Hg|].
    apply (all_pairs_In_sorted _ (sort_uniq_sorted g)). rewrite !sort_uniq_In. repeat split; assumption.
Qed.

(* ------------------------------------------------------------------ the set *)
Lemma pair_eqb_eq p q : pair_eqb p q = true <-> p = q.
Proof.
  destruct p as [a b], q as [c d]. unfold pair_eqb. cbn. rewrite andb_true_iff, !Nat.eqb_eq. split.
  - intros [-> ->]. reflexivity.
  - intro E. inversion E. auto.
Qed.
Lemma pset_insert_In p q s : In q (pset_insert p s) <-> q = p \/ In q s.
Proof.
  induction s as [|r t IH]; cbn [pset_insert In].
  - intuition.
  - destruct (pair_ltb p r); cbn [In]; [intuition|].
    destruct (pair_eqb p r) eqn:E; cbn [In].
    + apply pair_eqb_eq in E. subst. intuition.
    + rewrite IH. intuition.
Qed.
Lemma fold_insert_In (f : nat * nat -> nat * nat) l : forall st q,
  In q (fold_left (fun s p => pset_insert (f p) s) l st) <-> In q st \/ exists p, In p l /\ q = f p.
Proof.
  induction l as [|x t IH]; intros st q; cbn [fold_left In].
  - split; [auto|]. intros [H|(p & [] & _)]. exact H.
  - rewrite IH, pset_insert_In. split.
    + intros [[->|H]|(p & Hp & ->)]; [right; exists x; auto|left; exact H|right; exists p; auto].
    + intros [H|(p & [->|Hp] & ->)]; [left; right; exact H|left; left; reflexivity|right; exists p; auto].
Qed.
Lemma npair_lt x y : (x < y)%nat -> npair x y = (x, y).
Proof. intro H. unfold npair. rewrite Nat.min_l, Nat.max_r by lia. reflexivity. Qed.

Lemma insert_groups_In st groups x y :
  In (x, y) (insert_groups st groups) <->
  In (x, y) st \/ ((x < y)%nat /\ exists g, In g groups /\ In x g /\ In y g).
Proof.
  unfold insert_groups. rewrite fold_insert_In. split.
  - intros [H|([a b] & Hp & E)]; [left; exact H|]. right.
    pose proof (proj1 (exempt_pairs_In groups a b) Hp) as (Hlt & Hg). cbn [fst snd] in E. rewrite (npair_lt _ _ Hlt) in E.
    inversion E; subst. auto.
  - intros [H|(Hlt & Hg)]; [left; exact H|]. right. exists (x, y). split.
    + apply exempt_pairs_In. auto.
    + cbn [fst snd]. rewrite (npair_lt _ _ Hlt). reflexivity.
Qed.

Lemma pmem_In p l : pmem p l = true <-> In p l.
Proof.
  unfold pmem. rewrite existsb_exists. split.
  - intros (q & Hq & E). apply (proj1 (pair_eqb_eq p q)) in E. subst. exact Hq.
  - intro H. exists p. split; [exact H|]. apply pair_eqb_eq. reflexivity.
Qed.

(* what "declared exempt by this list of groups" means: distinct nodes with a common group *)
Definition declared_exempt (groups : list (list nat)) (a b : nat) : Prop :=
  a <> b /\ exists g, In g groups /\ In a g /\ In b g.
Lemma declared_exempt_sym groups a b : declared_exempt groups a b <-> declared_exempt groups b a.
Proof. unfold declared_exempt. split; intros (Hn & g & Hg & H1 & H2); (split; [auto|exists g; auto]). Qed.

Lemma npair_cases a b : a <> b ->
  (npair a b = (a, b) /\ (a < b)%nat) \/ (npair a b = (b, a) /\ (b < a)%nat).
Proof.
  intro H. unfold npair. destruct (Nat.lt_ge_cases a b).
  - left. rewrite Nat.min_l, Nat.max_r by lia. auto.
  - right. rewrite Nat.min_r, Nat.max_l by lia. split; [reflexivity|lia].
Qed.

(* one call on any earlier state: exactly the pairs of this call *)
Theorem add_exempt_groups_exact st groups a b :
  shape_pair_is_exempt (add_exempt_groups st groups) a b = true <-> declared_exempt groups a b.
Proof.
  unfold shape_pair_is_exempt, add_exempt_groups, declared_exempt. rewrite pmem_In.
  destruct (Nat.eq_dec a b) as [->|Hne].
  - split.
    + unfold npair. rewrite Nat.min_id, Nat.max_id. intro H. apply insert_groups_In in H.
      destruct H as [[]|(Hlt & _)]. lia.
    + intros (Hn & _). congruence.
  - destruct (npair_cases a b Hne) as [(E & Hlt)|(E & Hlt)]; rewrite E, insert_groups_In; split.
    + intros [[]|(_ & g & Hg & H1 & H2)]. split; [exact Hne|exists g; auto].
    + intros (_ & g & Hg & H1 & H2). right. split; [exact Hlt|exists g; auto].
    + intros [[]|(_ & g & Hg & H1 & H2)]. split; [exact Hne|exists g; auto].
    + intros (_ & g & Hg & H1 & H2). right. split; [exact Hlt|exists g; auto].
Qed.

Lemma fold_left_last {A B} (f : A -> B -> A) l x a : fold_left f (l ++ [x]) a = f (fold_left f l a) x.
Proof. rewrite fold_left_app. reflexivity. Qed.

(* THE THEOREM: after any sequence of addExemptGroupOfNodes calls, shapePairIsExempt(a, b) <=> a <> b and some group of the
   LAST call contains both *)
Theorem exempt_after_calls_thm calls last a b :
  shape_pair_is_exempt (ex_after (calls ++ [last])) a b = true <-> declared_exempt last a b.
Proof. unfold ex_after. rewrite fold_left_last. apply add_exempt_groups_exact. Qed.

Theorem exempt_after_no_call a b : shape_pair_is_exempt (ex_after []) a b = false.
Proof. reflexivity. Qed.

Theorem exempt_after_calls_sym calls a b :
  shape_pair_is_exempt (ex_after calls) a b = shape_pair_is_exempt (ex_after calls) b a.
Proof. unfold shape_pair_is_exempt, npair. rewrite (Nat.min_comm a b), (Nat.max_comm a b). reflexivity. Qed.

(* the layout object: flag and exemptions are those of the last setAvoidNodeOverlaps call *)
Theorem options_after_calls_thm calls avoid groups :
  o_avoid (after_calls (calls ++ [(avoid, groups)])) = avoid /\
  forall a b, shape_pair_is_exempt (o_ex (after_calls (calls ++ [(avoid, groups)]))) a b = true <-> declared_exempt groups a b.
Proof.
  unfold after_calls. rewrite fold_left_last. cbn [fst snd set_avoid o_avoid o_ex]. split; [reflexivity|].
  intros a b. apply add_exempt_groups_exact.
Qed.

(* the pair obligation computed from the model = all i < j < n not declared exempt by the last call (none when the last call
   switched overlap avoidance off) *)
Lemma all_pairs_seq_In n i j : In (i, j) (all_pairs (seq 0 n)) <-> (i < j < n)%nat.
Proof.
  assert (Hs : forall k m, StronglySorted lt (seq k m)).
  { intros k m. revert k. induction m as [|m IH]; intro k; cbn; constructor; [apply IH|].
    rewrite Forall_forall. intros z Hz. apply in_seq in Hz. lia. }
  rewrite (all_pairs_In_sorted _ (Hs 0%nat n)), !in_seq. lia.
Qed.
Theorem obliged_pairs_thm calls avoid groups n i j :
  In (i, j) (obliged_pairs (after_calls (calls ++ [(avoid, groups)])) n) <->
  avoid = true /\ (i < j < n)%nat /\ ~ declared_exempt groups i j.
Proof.
  destruct (options_after_calls_thm calls avoid groups) as (Hf & He).
  unfold obliged_pairs. rewrite Hf. destruct avoid.
  - rewrite filter_In, all_pairs_seq_In, negb_true_iff. cbn [fst snd]. split.
    + intros (Hr & Hx). split; [reflexivity|]. split; [exact Hr|]. intro Hd. apply He in Hd. congruence.
    + intros (_ & Hr & Hx). split; [exact Hr|].
      destruct (shape_pair_is_exempt _ i j) eqn:E; [|reflexivity]. apply He in E. contradiction.
  - cbn [In]. split; [tauto|]. intros (H & _). discriminate.
Qed.

(* which pairs addShape lists when the exemption object is in the state reached by the calls: the exemption test is that of
   the last call *)
Theorem add_shape_uses_last_call calls last offs prs id hw hh g ex i j :
  In (i, j) (snd (add_shape (ex_after (calls ++ [last])) (offs, prs) id hw hh g ex)) <->
  In (i, j) prs \/
  exists o, In o offs /\ (i, j) = npair (s_id o) id /\ s_group o = g /\ id <> s_id o /\
            mem (s_id o) ex = false /\ ~ declared_exempt last (s_id o) id.
Proof.
  rewrite add_shape_pairs. split; (intros [H|(o & Ho & E & E1 & E2 & E3 & E4)]; [left; exact H|right; exists o]);
    repeat (split; [assumption|]).
  - intro Hd. apply (exempt_after_calls_thm calls) in Hd. unfold shape_pair_is_exempt in Hd. congruence.
  - destruct (pmem (npair (s_id o) id) (ex_after (calls ++ [last]))) eqn:E5; [|reflexivity].
    exfalso. apply E4. apply (exempt_after_calls_thm calls). exact E5.
Qed.

(* ------------------------------------------------------------------ the variant without clear() is refuted *)
Theorem exempt_after_calls_noclear_refuted :
  exists calls last a b,
    shape_pair_is_exempt (ex_after_noclear (calls ++ [last])) a b = true /\ ~ declared_exempt last a b.
Proof.
  exists [[[0; 1]]]%nat, [[2; 3]]%nat, 0%nat, 1%nat. split; [vm_compute; reflexivity|].
  intros (_ & g & [<-|[]] & [H|[H|[]]] & _); discriminate.
Qed.
(* ... and so is the layout-level statement: a pair that the last call does not exempt is missing from the obligations the
   no-clear object answers for (the pair list NonOverlapConstraints would be built from) *)
Theorem obliged_pairs_noclear_refuted :
  exists calls avoid groups n i j,
    avoid = true /\ (i < j < n)%nat /\ ~ declared_exempt groups i j /\
    ~ In (i, j) (obliged_pairs (after_calls_noclear (calls ++ [(avoid, groups)])) n).
Proof.
  exists [(true, [[0; 1]])]%nat, true, [[2; 3]]%nat, 5%nat, 0%nat, 1%nat.
  split; [reflexivity|]. split; [lia|]. split.
  - intros (_ & g & [<-|[]] & [H|[H|[]]] & _); discriminate.
  - vm_compute. intuition discriminate.
Qed.

(* the set stays strictly increasing in ShapePair order (what getExemptPairs() iterates over) *)
Definition pair_lt (p q : nat * nat) : Prop := pair_ltb p q = true.
Lemma pair_ltb_trans p q r : pair_ltb p q = true -> pair_ltb q r = true -> pair_ltb p r = true.
Proof.
  destruct p as [a b], q as [c d], r as [e f]. unfold pair_ltb. cbn [fst snd].
  destruct (Nat.eqb a c) eqn:E1, (Nat.eqb c e) eqn:E2, (Nat.eqb a e) eqn:E3; cbn [negb];
    rewrite ?Nat.eqb_eq, ?Nat.eqb_neq, ?Nat.ltb_lt in *; lia.
Qed.
Lemma pset_insert_sorted p s : StronglySorted pair_lt s -> StronglySorted pair_lt (pset_insert p s).
Proof.
  induction s as [|q t IH]; cbn [pset_insert]; intro H.
  - constructor; constructor.
  - inversion H as [|? ? Ht Hq]; subst.
    destruct (pair_ltb p q) eqn:E1.
    + constructor; [exact H|]. constructor; [exact E1|].
      rewrite Forall_forall in *. intros z Hz. exact (pair_ltb_trans _ _ _ E1 (Hq z Hz)).
    + destruct (pair_eqb p q) eqn:E2; [exact H|].
      constructor; [apply IH; exact Ht|].
      rewrite Forall_forall in *. intros z Hz. apply pset_insert_In in Hz. destruct Hz as [->|Hz]; [|auto].
      destruct p as [a b], q as [c d]. unfold pair_lt, pair_ltb, pair_eqb in *. cbn [fst snd] in *.
      destruct (Nat.eqb a c) eqn:E3; destruct (Nat.eqb c a) eqn:E4; cbn [negb andb] in *;
        rewrite ?Nat.eqb_eq, ?Nat.eqb_neq, ?Nat.ltb_lt, ?Nat.ltb_ge in *; try lia.
Qed.
Theorem ex_after_sorted calls : StronglySorted pair_lt (ex_after calls) /\ forall x y, In (x, y) (ex_after calls) -> (x < y)%nat.
Proof.
  assert (Hi : forall groups st, StronglySorted pair_lt st -> StronglySorted pair_lt (insert_groups st groups)).
  { intros groups. unfold insert_groups. induction (exempt_pairs groups) as [|p l IH]; intros st Hs; cbn [fold_left]; [exact Hs|].
    apply IH. apply pset_insert_sorted. exact Hs. }
  destruct (rev calls) as [|last rc] eqn:E.
  - apply (f_equal (@rev _)) in E. rewrite rev_involutive in E. subst. cbn. split; [constructor|intros ? ? []].
  - apply (f_equal (@rev _)) in E. rewrite rev_involutive in E. cbn [rev] in E. subst.
    unfold ex_after. rewrite fold_left_last. split.
    + apply Hi. constructor.
    + intros x y H. apply insert_groups_In in H. destruct H as [[]|(Hlt & _)]. exact Hlt.
Qed.

(* ------------------------------------------------------------------ non-vacuity *)
Example ex_calls_demo :
  shape_pair_is_exempt (ex_after [[[0; 1]]; [[2; 3]]]%nat) 0 1 = false /\
  shape_pair_is_exempt (ex_after [[[0; 1]]; [[2; 3]]]%nat) 3 2 = true /\
  ex_after [[[0; 1]]; [[3; 1; 3; 2]; [5; 1]]]%nat = [(1, 2); (1, 3); (1, 5); (2, 3)]%nat /\
  obliged_pairs (after_calls [(true, [[0; 1]]); (false, []); (true, [[2; 1]])]%nat) 3 = [(0, 1); (0, 2)]%nat /\
  obliged_pairs (after_calls [(true, [[0; 1]]); (false, [[0; 1]])]%nat) 3 = [].
Proof. vm_compute. repeat split. Qed.
Example ex_declared : declared_exempt [[2; 3]]%nat 3 2 /\ ~ declared_exempt [[2; 3]]%nat 0 1.
Proof.
  split.
  - split; [discriminate|]. exists [2; 3]%nat. cbn. auto.
  - intros (_ & g & [<-|[]] & [H|[H|[]]] & _); discriminate.
Qed.
