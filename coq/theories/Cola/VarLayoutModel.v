(* C08 - model of the solver-variable index layout of one dimension, as ConstrainedFDLayout builds it
     (a) when it numbers the cluster boundary variables and creates the ClusterContainmentConstraints that STORE these
         numbers: generateNonOverlapAndClusterCompoundConstraints / recGenerateClusterVariablesAndConstraints
         (cola/libcola/colafd.cpp:416-466, :535-588; called at the start of run() :324 and makeFeasible() :627), and
     (b) before every projection of run(): setupVarsAndConstraints (colafd.cpp:957-986) with Cluster::createVars
         (cola/libcola/cluster.cpp:647-683) and generateVariables of the user compound constraints.
   The stored numbers of (a) are used to index the variable list of (b) (cc_clustercontainmentconstraints.cpp:155-190), so
   containment is only meaningful if both layouts agree on every cluster variable.  No proofs in this file; it is extracted
   and compared with the compiled code on every run (harness/c08_no.cpp mode `vars`, checks/c08.py). *)
From Adapt Require Import Num.Qaux Cola.CompoundCsModel Cola.NonOverlapModel Cola.ContainmentModel.
Local Open Scope Q_scope.

(* a cluster: id (position in the client's list; the root has its own id), padding(), margin(), child nodes, child clusters
   in the order of Cluster::clusters *)
Inductive ctree := CT (id : nat) (pad margin : box) (nodes : list nat) (kids : list ctree).
Definition ct_id (t : ctree) : nat := match t with CT id _ _ _ _ => id end.
Definition ct_pad (t : ctree) : box := match t with CT _ p _ _ _ => p end.
Definition ct_margin (t : ctree) : box := match t with CT _ _ m _ _ => m end.
Definition ct_nodes (t : ctree) : list nat := match t with CT _ _ _ ns _ => ns end.
Definition ct_kids (t : ctree) : list ctree := match t with CT _ _ _ _ ks => ks end.

(* who created a solver variable *)
Inductive vtag :=
| TNode (i : nat)              (* rectangle i *)
| TMin (c : nat)               (* min-side boundary of cluster c *)
| TMax (c : nat)               (* max-side boundary of cluster c *)
| TCc (j k : nat).             (* k-th variable created by generateVariables of user compound constraint j *)

Definition vtag_eqb (a b : vtag) : bool :=
  match a, b with
  | TNode i, TNode j => Nat.eqb i j
  | TMin i, TMin j => Nat.eqb i j
  | TMax i, TMax j => Nat.eqb i j
  | TCc i k, TCc j l => Nat.eqb i j && Nat.eqb k l
  | _, _ => false
  end.

(* Cluster::createVars cluster.cpp:647-683: children first, then the cluster's own pair (min, max) *)
Fixpoint cvars (t : ctree) : list vtag :=
  match t with CT id _ _ _ kids => flat_map cvars kids ++ [TMin id; TMax id] end.

(* (a) recGenerateClusterVariablesAndConstraints with noc = nullptr, from the root: children first, a pair for every
   cluster except the RootCluster (:429) *)
Definition stored_vars (root : ctree) : list vtag := flat_map cvars (ct_kids root).
Definition node_tags (n : nat) : list vtag := map TNode (seq 0 n).
Definition stored_layout (n : nat) (root : ctree) : list vtag := node_tags n ++ stored_vars root.

(* variables of the user compound constraints in dimension d, in list order (for_each GenerateVariables) *)
Fixpoint cc_tags_from (d : dim) (j : nat) (ccs : list cc) : list vtag :=
  match ccs with
  | [] => []
  | c :: t => map (TCc j) (seq 0 (length (fst (cc_vars d 0 c)))) ++ cc_tags_from d (S j) t
  end.
Definition cc_tags (d : dim) (ccs : list cc) : list vtag := cc_tags_from d 0 ccs.

(* (b) setupVarsAndConstraints :957-986: rectangles, then createVars on the whole hierarchy (the root's own pair last),
   then the user compound constraints *)
Definition setup_layout (d : dim) (n : nat) (root : ctree) (ccs : list cc) : list vtag :=
  node_tags n ++ cvars root ++ cc_tags d ccs.
(* without a (non-flat) hierarchy *)
Definition setup_layout_flat (d : dim) (n : nat) (ccs : list cc) : list vtag := node_tags n ++ cc_tags d ccs.

Fixpoint index_of (t : vtag) (l : list vtag) : option nat :=
  match l with
  | [] => None
  | x :: r => if vtag_eqb t x then Some O else option_map S (index_of t r)
  end.

(* cluster->clusterVarId as recorded by (a); 0 never occurs for a cluster that has variables (n >= 0 nodes come first, and
   the harness compares the tags, not this default) *)
Definition stored_id (n : nat) (root : ctree) (c : nat) : nat :=
  match index_of (TMin c) (stored_layout n root) with Some k => k | None => O end.

(* the ClusterContainmentConstraints of every non-root cluster in the order they are created (children first), each with the
   separation constraints it generates in dimension d from the STORED ids *)
Fixpoint containments_of (d : dim) (sid : nat -> nat) (rects : list rect) (t : ctree) : list (nat * list sepc) :=
  match t with
  | CT id pad _ nodes kids =>
      flat_map (containments_of d sid rects) kids ++
      [(id, gen_containment d (sid id) pad nodes rects (map (fun k => (sid (ct_id k), ct_margin k)) kids))]
  end.
Definition containments (d : dim) (n : nat) (root : ctree) (rects : list rect) : list (nat * list sepc) :=
  flat_map (containments_of d (stored_id n root) rects) (ct_kids root).

(* the user constraints of dimension d as setupVarsAndConstraints generates them when a hierarchy is present: the
   auxiliary variables start after the cluster variables *)
Definition setup_user_system (d : dim) (n : nat) (root : ctree) (ccs : list cc) : genres (list sepc) :=
  let first := (n + length (cvars root))%nat in
  let '(aux, vids) := gen_vars d first ccs in
  gen_seps_from d (first + length aux) ccs vids 0 ccs.

(* the tag of variable index k in the run-time layout *)
Definition tag_at (l : list vtag) (k : nat) : option vtag := nth_error l k.

(* fixed-rectangle clusters (RectangularCluster(rectIndex)): their boundary variables are created and numbered exactly like those
   of any other cluster (colafd.cpp:429-452, Cluster::createVars), so `ctree` needs no flag; `fixed` lists them as
   (cluster id, rectangle index).  recGenerateClusterVariablesAndConstraints calls generateFixedRectangleConstraints right
   after numbering the cluster (colafd.cpp:454-459): the idle SeparationConstraints store clusterVarId like the containment
   constraints do.  Per fixed cluster: the separation constraints of dimension d generated from the STORED id. *)
Definition fixed_rect_constraints (d : dim) (n : nat) (root : ctree) (fixed : list (nat * nat)) (rects : list rect)
  : list (nat * list sepc) :=
  map (fun cr => (fst cr, gen_fixed_rect d (stored_id n root (fst cr)) (snd cr) rects)) fixed.
