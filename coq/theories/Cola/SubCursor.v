(* C07 - proofs about the sub-constraint cursor protocol of makeFeasible() (model: Cola/SubCursorModel.v).

   Main result (mf_call_accounts_thm): whatever state earlier calls left the constraint objects in (any cursor, any
   flags: every history of completed or aborted calls), and whatever the solver decides (any oracle), ONE call of
   makeFeasible() with the rewinding markAllSubConstraintsAsInactive offers every sub-constraint of every (non-skipping)
   compound constraint exactly once, and each ends either in the valid constraint set or in the given-up list, with the
   `satisfied` flag saying which.  Without the rewind the statement is false (mf_call_norewind_refuted_thm): the second
   call on the same objects offers nothing. *)
From Coq Require Import List Arith Bool PeanoNat Lia.
From Adapt Require Import Num.Qaux Cola.CompoundCsModel Cola.SubCursorModel.
Import ListNotations.
Local Open Scope nat_scope.

(* static well-formedness of a constraint object: one alternative count per sub-constraint; search-branch objects offer at
   least one alternative per sub-constraint (otherwise colafd.cpp:736-739 `continue`s for ever), combined ones exactly one *)
Definition wf_cc (s : ccst) : Prop :=
  length (calts s) = cn s /\
  match ck s with
  | KNormal => Forall (fun a => 1 <= a) (calts s)
  | KCombine => Forall (fun a => a = 1) (calts s)
  | KSkip => True
  end.

(* ------------------------------------------------------------------ counting lemmas *)
Lemma offer_count_app c k l1 l2 : offer_count c k (l1 ++ l2) = offer_count c k l1 + offer_count c k l2.
Proof. unfold offer_count. now rewrite filter_app, app_length. Qed.
Lemma valid_count_app c k l1 l2 : valid_count c k (l1 ++ l2) = valid_count c k l1 + valid_count c k l2.
Proof. unfold valid_count. now rewrite filter_app, app_length. Qed.
Lemma rej_count_app c k l1 l2 : rej_count c k (l1 ++ l2) = rej_count c k l1 + rej_count c k l2.
Proof. unfold rej_count. now rewrite filter_app, app_length. Qed.

Lemma offer_count_cons c k e l :
  offer_count c k (e :: l) = (if is_offer c k e then 1 else 0) + offer_count c k l.
Proof. unfold offer_count. cbn [filter]. destruct (is_offer c k e); reflexivity. Qed.

Lemma is_offer_true c k c' k' : is_offer c k (EOffer c' k') = true <-> (c' = c /\ k' = k).
Proof. cbn. rewrite andb_true_iff, !Nat.eqb_eq. tauto. Qed.

Lemma offer_count_offer c k c' k' l :
  offer_count c k (EOffer c' k' :: l) = (if (c' =? c) && (k' =? k) then 1 else 0) + offer_count c k l.
Proof. now rewrite offer_count_cons. Qed.

Lemma valid_count_one c k c' k' a :
  valid_count c k [(c', k', a)] = if (c' =? c) && (k' =? k) then 1 else 0.
Proof. unfold valid_count. cbn. destruct ((c' =? c) && (k' =? k)); reflexivity. Qed.
Lemma rej_count_one c k c' k' :
  rej_count c k [(c', k')] = if (c' =? c) && (k' =? k) then 1 else 0.
Proof. unfold rej_count. cbn. destruct ((c' =? c) && (k' =? k)); reflexivity. Qed.

Lemma eqb_pair_neq1 c c' k k' : c' <> c -> (c' =? c) && (k' =? k) = false.
Proof. intro H. apply Nat.eqb_neq in H. now rewrite H. Qed.
Lemma eqb_pair_neq2 c c' k k' : k' <> k -> (c' =? c) && (k' =? k) = false.
Proof. intro H. apply Nat.eqb_neq in H. rewrite H. apply andb_false_r. Qed.
Lemma eqb_pair_eq c k : (c =? c) && (k =? k) = true.
Proof. now rewrite !Nat.eqb_refl. Qed.

(* ------------------------------------------------------------------ upd *)
Lemma upd_length {A} k (x : A) l : length (upd k x l) = length l.
Proof. revert k. induction l as [|h t IH]; intros [|k]; cbn; auto. Qed.
Lemma upd_nth_same {A} k (x d : A) l : k < length l -> nth k (upd k x l) d = x.
Proof. revert k. induction l as [|h t IH]; intros [|k] H; cbn in *; try lia; auto. apply IH. lia. Qed.
Lemma upd_nth_other {A} k j (x d : A) l : j <> k -> nth j (upd k x l) d = nth j l d.
Proof.
  revert k j. induction l as [|h t IH]; intros [|k] [|j] H; cbn; auto; try congruence.
Qed.

(* ------------------------------------------------------------------ the alternatives loop adds solves only *)
Lemma try_alts_log accept nal : forall c k a log,
  exists new, snd (try_alts accept c k a nal log) = new ++ log /\ (forall c' k', offer_count c' k' new = 0).
Proof.
  induction nal as [|m IH]; intros c k a log; cbn [try_alts].
  - exists []. split; [reflexivity | intros; reflexivity].
  - destruct (accept log c k a) eqn:E.
    + exists [ETry c k a true]. split; [reflexivity | intros; reflexivity].
    + destruct (IH c k (S a) (ETry c k a false :: log)) as (new & H1 & H2).
      exists (new ++ [ETry c k a false]). split.
      * rewrite H1, <- app_assoc. reflexivity.
      * intros. rewrite offer_count_app, H2. reflexivity.
Qed.

(* ------------------------------------------------------------------ one compound constraint *)
(* what the loop over object c adds, relative to the state s / accumulators A it started from *)
Definition post (c : nat) (s : ccst) (A : acc) (s' : ccst) (A' : acc) : Prop :=
  ck s' = ck s /\ cn s' = cn s /\ calts s' = calts s /\ ccur s' = cn s /\ length (cflags s') = cn s /\
  exists newl newv newr,
    a_log A' = newl ++ a_log A /\ a_valid A' = newv ++ a_valid A /\ a_rej A' = newr ++ a_rej A /\
    (forall c' k, c' <> c -> offer_count c' k newl = 0 /\ valid_count c' k newv = 0 /\ rej_count c' k newr = 0) /\
    (forall k, k < ccur s ->
       offer_count c k newl = 0 /\ valid_count c k newv = 0 /\ rej_count c k newr = 0 /\
       nth k (cflags s') false = nth k (cflags s) false) /\
    (forall k, ccur s <= k < cn s ->
       offer_count c k newl = 1 /\ valid_count c k newv + rej_count c k newr = 1 /\
       (nth k (cflags s') false = true <-> valid_count c k newv = 1)).

Lemma loop_step c s b A A1 s' A' stepl stepv stepr :
  ccur s < cn s -> length (cflags s) = cn s ->
  a_log A1 = stepl ++ a_log A -> a_valid A1 = stepv ++ a_valid A -> a_rej A1 = stepr ++ a_rej A ->
  (forall c' k, c' <> c -> offer_count c' k stepl = 0 /\ valid_count c' k stepv = 0 /\ rej_count c' k stepr = 0) ->
  (forall k, k <> ccur s -> offer_count c k stepl = 0 /\ valid_count c k stepv = 0 /\ rej_count c k stepr = 0) ->
  (offer_count c (ccur s) stepl = 1 /\ valid_count c (ccur s) stepv + rej_count c (ccur s) stepr = 1 /\
   (b = true <-> valid_count c (ccur s) stepv = 1)) ->
  post c (mark_curr b s) A1 s' A' -> post c s A s' A'.
Proof.
  intros Hlt Hlen HL HV HR Hs1 Hs2 Hs3 (P1 & P2 & P3 & P4 & P5 & newl & newv & newr & QL & QV & QR & Q1 & Q2 & Q3).
  cbn [mark_curr ck cn calts ccur cflags] in *.
  repeat split; auto.
  exists (newl ++ stepl), (newv ++ stepv), (newr ++ stepr).
  split; [rewrite QL, HL, app_assoc; reflexivity|].
  split; [rewrite QV, HV, app_assoc; reflexivity|].
  split; [rewrite QR, HR, app_assoc; reflexivity|].
  split; [|split].
  - intros c' k Hc. rewrite offer_count_app, valid_count_app, rej_count_app.
    destruct (Q1 c' k Hc) as (a1 & a2 & a3). destruct (Hs1 c' k Hc) as (b1 & b2 & b3). lia.
  - intros k Hk. rewrite offer_count_app, valid_count_app, rej_count_app.
    destruct (Q2 k) as (a1 & a2 & a3 & a4); [lia|].
    destruct (Hs2 k) as (b1 & b2 & b3); [lia|].
    rewrite a4, upd_nth_other by lia. repeat split; lia.
  - intros k Hk. rewrite offer_count_app, valid_count_app, rej_count_app.
    destruct (Nat.eq_dec k (ccur s)) as [->|Hne].
    + destruct (Q2 (ccur s)) as (a1 & a2 & a3 & a4); [lia|].
      destruct Hs3 as (b1 & b2 & b3).
      rewrite a4, upd_nth_same by lia. rewrite a1, a2, a3. cbn [Nat.add].
      repeat split; try lia; tauto.
    + destruct (Q3 k) as (a1 & a2 & a3); [lia|].
      destruct (Hs2 k Hne) as (b1 & b2 & b3).
      rewrite b1, b2, b3, !Nat.add_0_r. auto.
Qed.

Lemma cc_loop_nonskip accept : forall d fuel c s A,
  cn s - ccur s = d -> d < fuel -> ccur s <= cn s -> wf_cc s -> ck s <> KSkip -> length (cflags s) = cn s ->
  exists s' A', cc_loop accept fuel c s A = ROk (s', A') /\ post c s A s' A'.
Proof.
  induction d as [|d IH]; intros fuel c s A Hd Hf Hle Hwf Hk Hlen;
    (destruct fuel as [|f]; [lia|]); cbn [cc_loop]; unfold remaining.
  - assert (E : ccur s <? cn s = false) by (apply Nat.ltb_ge; lia). rewrite E.
    eexists _, _. split; [reflexivity|].
    unfold post. cbn [a_log a_valid a_rej]. repeat split; auto; try lia.
    exists [ERemaining c false], [], []. repeat split; auto; try lia.
  - assert (E : ccur s <? cn s = true) by (apply Nat.ltb_lt; lia). rewrite E.
    assert (Hc : ccur s < cn s) by lia.
    destruct Hwf as (Hal & Hkind).
    assert (Hwf1 : forall b, wf_cc (mark_curr b s)) by (intro b; split; assumption).
    destruct (ck s) eqn:Ek; [| |congruence].
    + (* search branch *)
      assert (Hn : 1 <= nth (ccur s) (calts s) 0).
      { rewrite Forall_forall in Hkind. apply Hkind. apply nth_In. lia. }
      destruct (nth (ccur s) (calts s) 0 =? 0) eqn:E0; [apply Nat.eqb_eq in E0; lia|].
      destruct (try_alts_log accept (nth (ccur s) (calts s) 0) c (ccur s) 0
                  (EOffer c (ccur s) :: ERemaining c true :: a_log A)) as (newt & Ht & Hnt).
      destruct (try_alts accept c (ccur s) 0 (nth (ccur s) (calts s) 0)
                  (EOffer c (ccur s) :: ERemaining c true :: a_log A)) as [r log3] eqn:Etry.
      cbn [snd] in Ht. subst log3.
      assert (HstepL : forall b c' k',
                 offer_count c' k' (EMark c (ccur s) b :: newt ++ [EOffer c (ccur s); ERemaining c true])
                 = if (c =? c') && (ccur s =? k') then 1 else 0).
      { intros b c' k'. rewrite offer_count_cons, offer_count_app, Hnt, offer_count_offer. cbn.
        destruct ((c =? c') && (ccur s =? k')); reflexivity. }
      destruct r as [a|].
      * destruct (IH f c (mark_curr true s)
                    (mkAcc (EMark c (ccur s) true :: newt ++ EOffer c (ccur s) :: ERemaining c true :: a_log A)
                           ((c, ccur s, a) :: a_valid A) (a_rej A))) as (s' & A' & R & P);
          cbn [mark_curr ck cn calts ccur cflags]; try lia; auto; try congruence.
        { rewrite upd_length. assumption. }
        exists s', A'. split; [exact R|].
        eapply (loop_step c s true A _ s' A'
                  (EMark c (ccur s) true :: newt ++ [EOffer c (ccur s); ERemaining c true]) [(c, ccur s, a)] []);
          try exact P; auto; cbn [a_log a_valid a_rej].
        -- cbn [app]. rewrite <- app_assoc. reflexivity.
        -- intros c' k Hne. rewrite HstepL, valid_count_one, eqb_pair_neq1 by congruence. auto.
        -- intros k Hne. rewrite HstepL, valid_count_one, eqb_pair_neq2 by congruence. auto.
        -- rewrite HstepL, valid_count_one, eqb_pair_eq. cbn. repeat split; auto.
      * destruct (IH f c (mark_curr false s)
                    (mkAcc (EMark c (ccur s) false :: newt ++ EOffer c (ccur s) :: ERemaining c true :: a_log A)
                           (a_valid A) ((c, ccur s) :: a_rej A))) as (s' & A' & R & P);
          cbn [mark_curr ck cn calts ccur cflags]; try lia; auto; try congruence.
        { rewrite upd_length. assumption. }
        exists s', A'. split; [exact R|].
        eapply (loop_step c s false A _ s' A'
                  (EMark c (ccur s) false :: newt ++ [EOffer c (ccur s); ERemaining c true]) [] [(c, ccur s)]);
          try exact P; auto; cbn [a_log a_valid a_rej].
        -- cbn [app]. rewrite <- app_assoc. reflexivity.
        -- intros c' k Hne. rewrite HstepL, rej_count_one, eqb_pair_neq1 by congruence. auto.
        -- intros k Hne. rewrite HstepL, rej_count_one, eqb_pair_neq2 by congruence. auto.
        -- rewrite HstepL, rej_count_one, eqb_pair_eq. cbn. repeat split; auto; intro; discriminate.
    + (* combined branch *)
      assert (Hn : nth (ccur s) (calts s) 0 = 1).
      { rewrite Forall_forall in Hkind. apply Hkind. apply nth_In. lia. }
      rewrite Hn. cbn [Nat.eqb].
      destruct (IH f c (mark_curr true s)
                  (mkAcc (EMark c (ccur s) true :: EOffer c (ccur s) :: ERemaining c true :: a_log A)
                         ((c, ccur s, 0) :: a_valid A) (a_rej A))) as (s' & A' & R & P);
        cbn [mark_curr ck cn calts ccur cflags]; try lia; auto; try congruence.
      { rewrite upd_length. assumption. }
      exists s', A'. split; [exact R|].
      assert (HstepL : forall c' k',
                 offer_count c' k' [EMark c (ccur s) true; EOffer c (ccur s); ERemaining c true]
                 = if (c =? c') && (ccur s =? k') then 1 else 0).
      { intros c' k'. rewrite offer_count_cons, offer_count_offer. cbn.
        destruct ((c =? c') && (ccur s =? k')); reflexivity. }
      eapply (loop_step c s true A _ s' A'
                [EMark c (ccur s) true; EOffer c (ccur s); ERemaining c true] [(c, ccur s, 0)] []);
        try exact P; auto; cbn [a_log a_valid a_rej].
      * intros c' k Hne. rewrite HstepL, valid_count_one, eqb_pair_neq1 by congruence. auto.
      * intros k Hne. rewrite HstepL, valid_count_one, eqb_pair_neq2 by congruence. auto.
      * rewrite HstepL, valid_count_one, eqb_pair_eq. cbn. repeat split; auto.
Qed.

(* skipping objects (PageBoundaryConstraints): at most one (empty) offer, then the cursor is at the end *)
Lemma cc_loop_skip accept fuel c s A :
  2 <= fuel -> ck s = KSkip ->
  exists s' A' newl,
    cc_loop accept fuel c s A = ROk (s', A') /\
    ck s' = ck s /\ cn s' = cn s /\ calts s' = calts s /\ cflags s' = cflags s /\ (ccur s < cn s -> ccur s' = cn s) /\
    a_log A' = newl ++ a_log A /\ a_valid A' = a_valid A /\ a_rej A' = a_rej A /\
    (forall c' k, c' <> c -> offer_count c' k newl = 0).
Proof.
  intros Hf Hk. destruct fuel as [|[|f]]; try lia. cbn [cc_loop]. unfold remaining.
  destruct (ccur s <? cn s) eqn:E.
  - rewrite Hk. cbn [cc_loop]. unfold remaining. cbn [jump_to_end ccur cn].
    rewrite Nat.ltb_irrefl.
    eexists _, _, [ERemaining c false; EOffer c (ccur s); ERemaining c true].
    split; [reflexivity|]. cbn [jump_to_end ck cn calts cflags ccur a_log a_valid a_rej].
    repeat split; auto.
    intros c' k Hne. rewrite offer_count_cons, offer_count_offer, eqb_pair_neq1 by congruence. reflexivity.
  - eexists _, _, [ERemaining c false]. split; [reflexivity|]. cbn [a_log a_valid a_rej].
    repeat split; auto. apply Nat.ltb_ge in E. lia.
Qed.

(* ------------------------------------------------------------------ the whole call *)
Definition accounted (c : nat) (s s' : ccst) (newl : list ev) (newv : list (nat * nat * nat)) (newr : list (nat * nat)) : Prop :=
  ck s' = ck s /\ cn s' = cn s /\ calts s' = calts s /\
  (ck s <> KSkip ->
     ccur s' = cn s /\ length (cflags s') = cn s /\
     forall k, k < cn s ->
       offer_count c k newl = 1 /\
       valid_count c k newv + rej_count c k newr = 1 /\
       (nth k (cflags s') false = true <-> valid_count c k newv = 1)).

Lemma mf_from_spec accept fuel : forall ccs c0 A,
  Forall wf_cc ccs -> (forall s, In s ccs -> cn s < fuel) -> 2 <= fuel ->
  exists ccs' A' newl newv newr,
    mf_from accept true fuel c0 ccs A = ROk (ccs', A') /\
    length ccs' = length ccs /\
    a_log A' = newl ++ a_log A /\ a_valid A' = newv ++ a_valid A /\ a_rej A' = newr ++ a_rej A /\
    (forall c' k, c' < c0 -> offer_count c' k newl = 0 /\ valid_count c' k newv = 0 /\ rej_count c' k newr = 0) /\
    (forall i s, nth_error ccs i = Some s ->
       exists s', nth_error ccs' i = Some s' /\ accounted (c0 + i) s s' newl newv newr).
Proof.
  induction ccs as [|s rest IH]; intros c0 A Hwf Hfuel H2; cbn [mf_from].
  - exists [], A, [], [], []. repeat split; auto. intros [|i] s H; discriminate.
  - inversion Hwf as [|? ? Hwfs Hwfr]; subst.
    set (s0 := mark_all_inactive true s).
    set (A0 := mkAcc (EInactive c0 :: a_log A) (a_valid A) (a_rej A)).
    assert (Hs0 : ck s0 = ck s /\ cn s0 = cn s /\ calts s0 = calts s /\ ccur s0 = 0 /\ length (cflags s0) = cn s).
    { unfold s0, mark_all_inactive. cbn. rewrite repeat_length. auto. }
    destruct Hs0 as (K0 & N0 & L0 & C0 & F0).
    assert (Hstep : exists s1 A1 newl1 newv1 newr1,
               cc_loop accept fuel c0 s0 A0 = ROk (s1, A1) /\
               a_log A1 = newl1 ++ a_log A0 /\ a_valid A1 = newv1 ++ a_valid A0 /\ a_rej A1 = newr1 ++ a_rej A0 /\
               (forall c' k, c' <> c0 -> offer_count c' k newl1 = 0 /\ valid_count c' k newv1 = 0 /\ rej_count c' k newr1 = 0) /\
               accounted c0 s s1 newl1 newv1 newr1).
    { assert (Hns : ck s <> KSkip ->
                exists s1 A1, cc_loop accept fuel c0 s0 A0 = ROk (s1, A1) /\ post c0 s0 A0 s1 A1).
      { intro Hk.
        assert (G1 : cn s0 - ccur s0 < fuel) by (rewrite N0, C0; specialize (Hfuel s (or_introl eq_refl)); lia).
        assert (G2 : ccur s0 <= cn s0) by (rewrite C0; lia).
        assert (G3 : wf_cc s0) by (unfold wf_cc in *; rewrite K0, N0, L0; exact Hwfs).
        assert (G4 : ck s0 <> KSkip) by (rewrite K0; exact Hk).
        assert (G5 : length (cflags s0) = cn s0) by (rewrite F0, N0; reflexivity).
        exact (cc_loop_nonskip accept (cn s0 - ccur s0) fuel c0 s0 A0 eq_refl G1 G2 G3 G4 G5). }
      destruct (ck s) eqn:Ek.
      - destruct Hns as (s1 & A1 & R & P); [congruence|].
        destruct P as (P1 & P2 & P3 & P4 & P5 & newl & newv & newr & QL & QV & QR & Q1 & Q2 & Q3).
        exists s1, A1, newl, newv, newr. unfold accounted. rewrite Ek.
        repeat split; auto; try congruence; try (apply Q1; assumption).
        all: destruct (Q3 k) as (a1 & a2 & a3); [rewrite C0, N0; lia|]; tauto.
      - destruct Hns as (s1 & A1 & R & P); [congruence|].
        destruct P as (P1 & P2 & P3 & P4 & P5 & newl & newv & newr & QL & QV & QR & Q1 & Q2 & Q3).
        exists s1, A1, newl, newv, newr. unfold accounted. rewrite Ek.
        repeat split; auto; try congruence; try (apply Q1; assumption).
        all: destruct (Q3 k) as (a1 & a2 & a3); [rewrite C0, N0; lia|]; tauto.
      - destruct (cc_loop_skip accept fuel c0 s0 A0 H2) as (s1 & A1 & newl & R & P1 & P2 & P3 & P4 & P5 & QL & QV & QR & Q1);
          [first [exact K0 | rewrite K0; assumption]|].
        exists s1, A1, newl, [], []. unfold accounted. rewrite ?Ek.
        repeat split; auto; try congruence; try (apply Q1; assumption).
        all: try (intro; congruence). }
    destruct Hstep as (s1 & A1 & newl1 & newv1 & newr1 & R1 & L1 & V1 & J1 & Z1 & Acc1).
    fold s0 A0. rewrite R1.
    destruct (IH (S c0) A1 Hwfr) as (rest' & A2 & newl2 & newv2 & newr2 & R2 & Len2 & L2 & V2 & J2 & Z2 & Acc2);
      [intros; apply Hfuel; right; assumption | assumption |].
    rewrite R2.
    exists (s1 :: rest'), A2, (newl2 ++ newl1 ++ [EInactive c0]), (newv2 ++ newv1), (newr2 ++ newr1).
    split; [reflexivity|]. split; [cbn; congruence|].
    split; [rewrite L2, L1; unfold A0; cbn [a_log]; rewrite <- !app_assoc; reflexivity|].
    split; [rewrite V2, V1; unfold A0; cbn [a_valid]; rewrite <- !app_assoc; reflexivity|].
    split; [rewrite J2, J1; unfold A0; cbn [a_rej]; rewrite <- !app_assoc; reflexivity|].
    assert (Hin : forall c' k, offer_count c' k [EInactive c0] = 0) by reflexivity.
    split.
    + intros c' k Hc. rewrite !offer_count_app, valid_count_app, rej_count_app, Hin.
      destruct (Z2 c' k) as (a1 & a2 & a3); [lia|].
      destruct (Z1 c' k) as (b1 & b2 & b3); [lia|]. lia.
    + intros [|i] s' Hnth; cbn [nth_error] in *.
      * inversion Hnth; subst s'. exists s1. split; [reflexivity|].
        rewrite Nat.add_0_r.
        destruct Acc1 as (B1 & B2 & B3 & B4).
        split; [exact B1|]. split; [exact B2|]. split; [exact B3|].
        intro Hk. destruct (B4 Hk) as (D1 & D2 & D3).
        split; [exact D1|]. split; [exact D2|].
        intros k Hlt. destruct (D3 k Hlt) as (E1 & E2 & E3).
        destruct (Z2 c0 k) as (a1 & a2 & a3); [lia|].
        rewrite !offer_count_app, valid_count_app, rej_count_app, Hin, a1, a2, a3. cbn [Nat.add].
        split; [lia|]. split; [lia|]. exact E3.
      * destruct (Acc2 i s' Hnth) as (s'' & N2 & B1 & B2 & B3 & B4).
        exists s''. split; [exact N2|].
        replace (c0 + S i) with (S c0 + i) by lia.
        split; [exact B1|]. split; [exact B2|]. split; [exact B3|].
        intro Hk. destruct (B4 Hk) as (D1 & D2 & D3).
        split; [exact D1|]. split; [exact D2|].
        intros k Hlt. destruct (D3 k Hlt) as (E1 & E2 & E3).
        destruct (Z1 (S c0 + i) k) as (a1 & a2 & a3); [lia|].
        rewrite !offer_count_app, valid_count_app, rej_count_app, Hin, a1, a2, a3, !Nat.add_0_r.
        split; [exact E1|]. split; [exact E2|]. exact E3.
Qed.

(* MAIN: one makeFeasible() call on constraint objects in ANY state (cursor anywhere - also beyond the end -, flags
   anything: whatever earlier calls, completed or aborted by an exception, left behind), any solver decisions. *)
Theorem mf_call_accounts_thm (accept : oracle) fuel ccs log0 :
  Forall wf_cc ccs -> (forall s, In s ccs -> cn s < fuel) -> 2 <= fuel ->
  exists ccs' A new,
    mf_call accept true fuel ccs log0 = ROk (ccs', A) /\
    length ccs' = length ccs /\ a_log A = new ++ log0 /\
    forall c s, nth_error ccs c = Some s ->
      exists s', nth_error ccs' c = Some s' /\ accounted c s s' new (a_valid A) (a_rej A).
Proof.
  intros Hwf Hfuel H2. unfold mf_call.
  destruct (mf_from_spec accept fuel ccs 0 (mkAcc log0 [] []) Hwf Hfuel H2)
    as (ccs' & A' & newl & newv & newr & R & Len & L & V & J & _ & Acc).
  exists ccs', A', newl. cbn [a_log a_valid a_rej] in *. rewrite app_nil_r in V, J.
  split; [exact R|]. split; [exact Len|]. split; [exact L|].
  intros c s H. destruct (Acc c s H) as (s' & N & B). exists s'. split; [exact N|]. rewrite V, J. exact B.
Qed.

(* the same after an arbitrary history of earlier calls on the same objects (each with its own solver decisions) *)
Lemma map_ext_nth_error {A B} (f : A -> B) (l1 l2 : list A) :
  length l1 = length l2 ->
  (forall i a b, nth_error l1 i = Some a -> nth_error l2 i = Some b -> f a = f b) ->
  map f l1 = map f l2.
Proof.
  revert l2. induction l1 as [|a t IH]; intros [|b u] Hl H; cbn in *; try discriminate; auto.
  f_equal.
  - apply (H 0 a b); reflexivity.
  - apply IH; [congruence|]. intros i x y Hx Hy. apply (H (S i) x y); assumption.
Qed.

Lemma mf_call_preserves_wf accept fuel ccs log0 ccs' A :
  Forall wf_cc ccs -> (forall s, In s ccs -> cn s < fuel) -> 2 <= fuel ->
  mf_call accept true fuel ccs log0 = ROk (ccs', A) ->
  Forall wf_cc ccs' /\ (forall s, In s ccs' -> cn s < fuel) /\ map cn ccs' = map cn ccs /\ map ck ccs' = map ck ccs.
Proof.
  intros Hwf Hfuel H2 R.
  destruct (mf_call_accounts_thm accept fuel ccs log0 Hwf Hfuel H2) as (ccs2 & A2 & new & R2 & Len & _ & Acc).
  rewrite R in R2. inversion R2; subst ccs2 A2. clear R2.
  assert (Hpt : forall i s', nth_error ccs' i = Some s' ->
                 exists s, nth_error ccs i = Some s /\ ck s' = ck s /\ cn s' = cn s /\ calts s' = calts s).
  { intros i s' H. assert (i < length ccs) by (rewrite <- Len; apply nth_error_Some; congruence).
    destruct (nth_error ccs i) as [s|] eqn:E; [|apply nth_error_None in E; lia].
    destruct (Acc i s E) as (s'' & N & B1 & B2 & B3 & _). rewrite H in N. inversion N; subst. eauto. }
  split; [|split; [|split]].
  - rewrite Forall_forall. intros s' Hin. apply In_nth_error in Hin. destruct Hin as (i & Hi).
    destruct (Hpt i s' Hi) as (s & Hs & K & N & L).
    assert (W : wf_cc s) by (rewrite Forall_forall in Hwf; apply Hwf; eapply nth_error_In; eauto).
    unfold wf_cc in *. rewrite K, N, L. exact W.
  - intros s' Hin. apply In_nth_error in Hin. destruct Hin as (i & Hi).
    destruct (Hpt i s' Hi) as (s & Hs & K & N & L). rewrite N. apply Hfuel. eapply nth_error_In; eauto.
  - apply map_ext_nth_error; auto. intros i s' s H1 H2'. destruct (Hpt i s' H1) as (s2 & Hs & K & N & L). congruence.
  - apply map_ext_nth_error; auto. intros i s' s H1 H2'. destruct (Hpt i s' H1) as (s2 & Hs & K & N & L). congruence.
Qed.

(* ------------------------------------------------------------------ the statement, as a predicate of the `rewind` switch *)
Definition accounts_all (rewind : bool) : Prop :=
  forall (accept : oracle) fuel ccs log0,
    Forall wf_cc ccs -> (forall s, In s ccs -> cn s < fuel) -> 2 <= fuel ->
    exists ccs' A new,
      mf_call accept rewind fuel ccs log0 = ROk (ccs', A) /\
      length ccs' = length ccs /\ a_log A = new ++ log0 /\
      forall c s, nth_error ccs c = Some s ->
        exists s', nth_error ccs' c = Some s' /\ accounted c s s' new (a_valid A) (a_rej A).

Theorem accounts_all_rewind_thm : accounts_all true.
Proof. intros accept fuel ccs log0. apply mf_call_accounts_thm. Qed.

(* the objects as the public API constructs them are well formed *)
Lemma constructed_wf ccs : Forall wf_cc (constructed ccs).
Proof.
  unfold constructed. rewrite Forall_map. rewrite Forall_forall. intros c _.
  unfold wf_cc, constructed1. cbn [ck cn calts]. rewrite repeat_length. split; [reflexivity|].
  destruct (cc_kind c); auto; rewrite Forall_forall; intros a Ha; apply repeat_spec in Ha; lia.
Qed.

(* after ANY history of earlier makeFeasible() calls on the same objects (one oracle per call: the rectangles may have been
   moved in between, other layout objects may have been used), the next call still accounts for every sub-constraint *)
Theorem mf_after_any_history_thm (oracles : list oracle) (accept : oracle) fuel : forall ccs log0,
  Forall wf_cc ccs -> (forall s, In s ccs -> cn s < fuel) -> 2 <= fuel ->
  exists ccs1 log1,
    mf_history true fuel oracles ccs log0 = ROk (ccs1, log1) /\
    map cn ccs1 = map cn ccs /\ map ck ccs1 = map ck ccs /\
    exists ccs' A new,
      mf_call accept true fuel ccs1 log1 = ROk (ccs', A) /\ a_log A = new ++ log1 /\
      forall c s, nth_error ccs1 c = Some s ->
        exists s', nth_error ccs' c = Some s' /\ accounted c s s' new (a_valid A) (a_rej A).
Proof.
  induction oracles as [|o rest IH]; intros ccs log0 Hwf Hfuel H2; cbn [mf_history].
  - exists ccs, log0. split; [reflexivity|]. split; [reflexivity|]. split; [reflexivity|].
    destruct (mf_call_accounts_thm accept fuel ccs log0 Hwf Hfuel H2) as (ccs' & A & new & R & _ & L & Acc).
    exists ccs', A, new. auto.
  - destruct (mf_call_accounts_thm o fuel ccs log0 Hwf Hfuel H2) as (ccs' & A & new & R & _ & L & Acc).
    rewrite R.
    destruct (mf_call_preserves_wf o fuel ccs log0 ccs' A Hwf Hfuel H2 R) as (W1 & W2 & W3 & W4).
    destruct (IH ccs' (a_log A) W1 W2 H2) as (ccs1 & log1 & R1 & M1 & M2 & Rest).
    exists ccs1, log1. split; [exact R1|]. split; [congruence|]. split; [congruence|]. exact Rest.
Qed.

(* a first call on freshly constructed objects behaves the same with or without the rewind: the cursor is 0 anyway.
   This is why a change that drops the rewind passes every test that builds fresh constraint objects per layout. *)
Lemma mf_from_norewind_first accept fuel : forall ccs c0 A,
  Forall (fun s => ccur s = 0) ccs ->
  mf_from accept false fuel c0 ccs A = mf_from accept true fuel c0 ccs A.
Proof.
  induction ccs as [|s rest IH]; intros c0 A H; cbn [mf_from]; [reflexivity|].
  inversion H as [|? ? H0 Hr]; subst.
  assert (E : mark_all_inactive false s = mark_all_inactive true s) by (unfold mark_all_inactive; rewrite H0; reflexivity).
  rewrite E.
  destruct (cc_loop accept fuel c0 (mark_all_inactive true s) _) as [[s1 A1]| |]; auto.
  rewrite (IH (S c0) A1 Hr). reflexivity.
Qed.

Theorem mf_norewind_first_call_same_thm accept fuel ccs log0 :
  Forall (fun s => ccur s = 0) ccs ->
  mf_call accept false fuel ccs log0 = mf_call accept true fuel ccs log0.
Proof. intro H. unfold mf_call. apply mf_from_norewind_first. exact H. Qed.

(* ------------------------------------------------------------------ without the rewind the statement is FALSE *)
Definition accept_all : oracle := fun _ _ _ _ => true.
(* SeparationConstraint(X, 0, 1, g) and AlignmentConstraint(X) with two shapes, as constructed *)
Definition demo_ccs : list cc :=
  [CSep DX 0 1 (1 # 1)%Q false; CAlign DX (0 # 1)%Q false [(0, (0 # 1)%Q); (1, (5 # 1)%Q)]].
(* the state a first makeFeasible() leaves them in *)
Definition demo_after_first : list ccst :=
  [mkCcst KNormal 1 [1] 1 [true]; mkCcst KNormal 2 [1; 1] 2 [true; true]].

Lemma demo_first_call_norewind :
  exists A, mf_call accept_all false 5 (constructed demo_ccs) [] = ROk (demo_after_first, A) /\
            a_valid A = [(1, 1, 0); (1, 0, 0); (0, 0, 0)] /\ a_rej A = [].
Proof. eexists. vm_compute. repeat split. Qed.

Theorem mf_call_norewind_refuted_thm : ~ accounts_all false.
Proof.
  intro H.
  destruct (H accept_all 5 demo_after_first []) as (ccs' & A & new & R & _ & L & Acc).
  - repeat constructor.
  - intros s [<-|[<-|[]]]; cbn; lia.
  - lia.
  - vm_compute in R. inversion R; subst ccs' A. clear R.
    cbn [a_log] in L. rewrite app_nil_r in L. subst new.
    destruct (Acc 0 (mkCcst KNormal 1 [1] 1 [true]) eq_refl) as (s' & _ & _ & _ & _ & B).
    destruct B as (_ & _ & B); [cbn; congruence|].
    destruct (B 0) as (B1 & _); [cbn; lia|].
    vm_compute in B1. discriminate.
Qed.

(* what the no-rewind variant does on the second call, explicitly: nothing is offered, nothing enters the valid set, nothing is
   given up, every `satisfied` flag is false - the constraints are silently skipped *)
Theorem mf_call_norewind_second_call_skips_everything_thm :
  mf_call accept_all false 5 demo_after_first []
  = ROk ([mkCcst KNormal 1 [1] 1 [false]; mkCcst KNormal 2 [1; 1] 2 [false; false]],
         mkAcc [ERemaining 1 false; EInactive 1; ERemaining 0 false; EInactive 0] [] []).
Proof. vm_compute. reflexivity. Qed.

(* ------------------------------------------------------------------ non-vacuity: a history with rejections, odd cursors *)
(* an oracle that rejects sub-constraint 1 of object 1 and the first alternative of everything of object 2 *)
Definition demo_oracle : oracle :=
  fun _ c k a => match c, k, a with 1, 1, _ => false | 2, _, 0 => false | _, _, _ => true end.
(* object 0 with the cursor beyond the end, object 1 in the middle, object 2 (two alternatives each) at the end,
   a combined object, a skipping object: no real history is excluded *)
Definition demo_odd_state : list ccst :=
  [mkCcst KNormal 1 [1] 7 [true]; mkCcst KNormal 3 [1; 1; 1] 1 [true; false; true];
   mkCcst KNormal 2 [2; 2] 2 [false; false]; mkCcst KCombine 4 [1; 1; 1; 1] 2 [true; true; false; false];
   mkCcst KSkip 3 [0; 0; 0] 0 [false; false; false]].

Example demo_odd_state_hyps : Forall wf_cc demo_odd_state /\ (forall s, In s demo_odd_state -> cn s < 6) /\ 2 <= 6.
Proof.
  split; [|split; [|lia]].
  - repeat constructor.
  - intros s [<-|[<-|[<-|[<-|[<-|[]]]]]]; cbn; lia.
Qed.

Example demo_odd_state_call :
  exists A, mf_call demo_oracle true 6 demo_odd_state []
    = ROk ([mkCcst KNormal 1 [1] 1 [true]; mkCcst KNormal 3 [1; 1; 1] 3 [true; false; true];
            mkCcst KNormal 2 [2; 2] 2 [true; true]; mkCcst KCombine 4 [1; 1; 1; 1] 4 [true; true; true; true];
            mkCcst KSkip 3 [0; 0; 0] 3 [false; false; false]], A) /\
    a_rej A = [(1, 1)] /\
    a_valid A = [(3, 3, 0); (3, 2, 0); (3, 1, 0); (3, 0, 0); (2, 1, 1); (2, 0, 1); (1, 2, 0); (1, 0, 0); (0, 0, 0)] /\
    offer_count 1 1 (a_log A) = 1 /\ offer_count 2 0 (a_log A) = 1.
Proof. eexists. vm_compute. repeat split. Qed.

Example accounts_all_nonvacuous :
  exists ccs' A new, mf_call demo_oracle true 6 demo_odd_state [] = ROk (ccs', A) /\ a_log A = new ++ [] /\
    forall c s, nth_error demo_odd_state c = Some s ->
      exists s', nth_error ccs' c = Some s' /\ accounted c s s' new (a_valid A) (a_rej A).
Proof.
  destruct demo_odd_state_hyps as (H1 & H2 & H3).
  destruct (accounts_all_rewind_thm demo_oracle 6 demo_odd_state [] H1 H2 H3) as (ccs' & A & new & R & _ & L & Acc).
  exists ccs', A, new. auto.
Qed.

(* ------------------------------------------------------------------ at the level of the public API's constraint objects *)
Lemma nth_error_map_some {A B} (f : A -> B) l i b :
  nth_error (map f l) i = Some b -> exists a, nth_error l i = Some a /\ f a = b.
Proof.
  revert i. induction l as [|h t IH]; intros [|i] H; cbn in *; try discriminate.
  - inversion H. eauto.
  - apply IH. exact H.
Qed.

(* ccs: the user's compound constraints (CompoundCsModel.cc); the objects are constructed once and then go through ANY number
   of makeFeasible() calls (oracles: what the solver decided in each); in the NEXT call every sub-constraint of every object
   that takes part in the search is offered exactly once, and ends in the valid set or in the given-up list (flag = which). *)
Theorem makeFeasible_reused_objects_thm (ccs : list cc) (oracles : list oracle) (accept : oracle) fuel :
  (forall c, In c ccs -> cc_nsubs c < fuel) -> 2 <= fuel ->
  exists ccs1 log1 ccs' A new,
    mf_history true fuel oracles (constructed ccs) [] = ROk (ccs1, log1) /\
    mf_call accept true fuel ccs1 log1 = ROk (ccs', A) /\ a_log A = new ++ log1 /\
    forall i c, nth_error ccs i = Some c -> cc_kind c <> KSkip ->
      exists s', nth_error ccs' i = Some s' /\ ccur s' = cc_nsubs c /\
        forall k, k < cc_nsubs c ->
          offer_count i k new = 1 /\
          valid_count i k (a_valid A) + rej_count i k (a_rej A) = 1 /\
          (nth k (cflags s') false = true <-> valid_count i k (a_valid A) = 1).
Proof.
  intros Hfuel H2.
  assert (Hf' : forall s, In s (constructed ccs) -> cn s < fuel).
  { intros s Hin. unfold constructed in Hin. apply in_map_iff in Hin. destruct Hin as (c & <- & Hc). cbn. auto. }
  destruct (mf_after_any_history_thm oracles accept fuel (constructed ccs) [] (constructed_wf ccs) Hf' H2)
    as (ccs1 & log1 & R1 & M1 & M2 & ccs' & A & new & R & L & Acc).
  exists ccs1, log1, ccs', A, new. split; [exact R1|]. split; [exact R|]. split; [exact L|].
  intros i c Hi Hk.
  assert (Hc : nth_error (constructed ccs) i = Some (constructed1 c)) by (apply map_nth_error; exact Hi).
  assert (Hn : nth_error (map cn ccs1) i = Some (cc_nsubs c)).
  { rewrite M1. apply (map_nth_error cn) in Hc. exact Hc. }
  assert (Hkd : nth_error (map ck ccs1) i = Some (cc_kind c)).
  { rewrite M2. apply (map_nth_error ck) in Hc. exact Hc. }
  destruct (nth_error_map_some cn ccs1 i _ Hn) as (s1 & Hs1 & N1).
  destruct (nth_error_map_some ck ccs1 i _ Hkd) as (s1' & Hs1' & K1).
  rewrite Hs1 in Hs1'. inversion Hs1'; subst s1'. clear Hs1'.
  destruct (Acc i s1 Hs1) as (s' & Hs' & B1 & B2 & B3 & B4).
  exists s'. split; [exact Hs'|].
  destruct B4 as (D1 & D2 & D3); [rewrite K1; exact Hk|].
  split; [congruence|].
  intros k Hlt. apply D3. rewrite N1. exact Hlt.
Qed.

Example makeFeasible_reused_objects_nonvacuous :
  (forall c, In c demo_ccs -> cc_nsubs c < 5) /\ 2 <= 5 /\
  Forall (fun c => cc_kind c <> KSkip) demo_ccs /\
  exists A, mf_history true 5 [accept_all; demo_oracle] (constructed demo_ccs) [] = ROk (A) /\
            map ccur (fst A) = [1; 2] /\ map cflags (fst A) = [[true]; [true; false]].
Proof.
  split; [|split; [lia|split]].
  - intros c [<-|[<-|[]]]; cbn; lia.
  - repeat constructor; cbn; congruence.
  - eexists. vm_compute. repeat split.
Qed.
