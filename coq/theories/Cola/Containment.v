(* C08 - proofs about cluster containment (Cola/ContainmentModel.v) and the cluster variant of the non-overlap pair
   generator (Cola/NonOverlapModel.v gen_pair on Clus shapes). *)
From Adapt Require Import Num.Qaux Cola.CompoundCsModel Cola.CompoundCs Cola.NonOverlapModel Cola.NonOverlap Cola.ContainmentModel.
Local Open Scope Q_scope.

Definition box_nonneg (b : box) : Prop := 0 <= bminx b /\ 0 <= bmaxx b /\ 0 <= bminy b /\ 0 <= bmaxy b.
Lemma box_nonneg_d d b : box_nonneg b -> 0 <= bmin d b /\ 0 <= bmax d b.
Proof. intros (A & B & C' & D). destruct d; cbn; auto. Qed.

(* the generated containment constraints of the member nodes, as (in)equations *)
Lemma gen_containment_members eps v d cv pad members rects children :
  Forall (sat_eps eps v) (gen_containment d cv pad members rects children) ->
  forall id, In id members ->
    v cv + (rlen d (nth id rects rect0) / 2 + bmin d pad) <= v id + eps /\
    v id + (rlen d (nth id rects rect0) / 2 + bmax d pad) <= v (S cv) + eps.
Proof.
  unfold gen_containment. rewrite Forall_app, !Forall_forall. intros [H _] id Hin.
  apply (proj2 (sort_uniq_In _ _)) in Hin.
  set (h := Qred (rlen d (nth id rects rect0) / 2)).
  assert (S1 : sat_eps eps v (mkSep cv id (Qred (h + bmin d pad)) false)).
  { apply H. apply in_flat_map. exists id. split; auto. left. reflexivity. }
  assert (S2 : sat_eps eps v (mkSep id (S cv) (Qred (h + bmax d pad)) false)).
  { apply H. apply in_flat_map. exists id. split; auto. right. left. reflexivity. }
  destruct S1 as [S1 _]. destruct S2 as [S2 _]. cbn [sl sr sgap] in *.
  rewrite Qred_correct in S1, S2. unfold h in *.
  pose proof (Qred_correct (rlen d (nth id rects rect0) / 2)) as E. lra.
Qed.

(* containment_sound: the generated constraints for the member nodes hold (exactly) iff every member rectangle, placed
   at its variable's value and inflated by the padding, lies inside the cluster box [v cv, v (cv+1)] *)
Theorem containment_sound_thm v d cv pad members rects :
  Forall (sat v) (gen_containment d cv pad members rects []) <->
  forall id, In id members -> inside_padded d pad (v cv) (v (S cv)) (moved d (nth id rects rect0) (v id)).
Proof.
  unfold gen_containment. cbn [flat_map]. rewrite app_nil_r, Forall_forall. unfold inside_padded. split.
  - intros H id Hin. pose proof (proj2 (sort_uniq_In _ _) Hin) as Hin'.
    set (h := Qred (rlen d (nth id rects rect0) / 2)).
    assert (S1 : sat v (mkSep cv id (Qred (h + bmin d pad)) false)).
    { apply H. apply in_flat_map. exists id. split; [exact Hin'|]. left. reflexivity. }
    assert (S2 : sat v (mkSep id (S cv) (Qred (h + bmax d pad)) false)).
    { apply H. apply in_flat_map. exists id. split; [exact Hin'|]. right. left. reflexivity. }
    unfold sat in S1, S2. cbn [sl sr sgap seqy] in *. rewrite Qred_correct in S1, S2. unfold h in *.
    pose proof (Qred_correct (rlen d (nth id rects rect0) / 2)) as E.
    rewrite rmin_moved_same, rmax_moved_same. lra.
  - intros H c Hc. apply in_flat_map in Hc. destruct Hc as (id & Hin & Hc). apply (proj1 (sort_uniq_In _ _)) in Hin.
    destruct (H id Hin) as [H1 H2]. rewrite rmin_moved_same in H1. rewrite rmax_moved_same in H2.
    pose proof (Qred_correct (rlen d (nth id rects rect0) / 2)) as E.
    destruct Hc as [<-|[<-|[]]]; unfold sat; cbn [sl sr sgap seqy]; rewrite Qred_correct; lra.
Qed.

(* child clusters: boundary variables of the child (inflated by its margin and the parent's padding) inside the parent's *)
Theorem containment_children_sound v d cv pad rects children :
  Forall (sat v) (gen_containment d cv pad [] rects children) <->
  forall ch m, In (ch, m) children -> child_inside d pad m (v cv) (v (S cv)) (v ch) (v (S ch)).
Proof.
  unfold gen_containment. cbn [sort_uniq fold_right flat_map app]. rewrite Forall_forall. unfold child_inside. split.
  - intros H ch m Hin.
    assert (S1 : sat v (mkSep cv ch (Qred (bmin d pad + bmin d m)) false)).
    { apply H. apply in_flat_map. exists (ch, m). split; auto. left. reflexivity. }
    assert (S2 : sat v (mkSep (S ch) (S cv) (Qred (bmax d pad + bmax d m)) false)).
    { apply H. apply in_flat_map. exists (ch, m). split; auto. right. left. reflexivity. }
    unfold sat in S1, S2. cbn [sl sr sgap seqy] in *. rewrite Qred_correct in S1, S2. lra.
  - intros H c Hc. apply in_flat_map in Hc. destruct Hc as ([ch m] & Hin & Hc). destruct (H ch m Hin) as [H1 H2].
    destruct Hc as [<-|[<-|[]]]; unfold sat; cbn [sl sr sgap seqy fst snd]; rewrite Qred_correct; lra.
Qed.

(* siblings_disjoint: containment of the members of A and of B in their boundary variables, plus the non-overlap
   constraint that gen_pair generates between the two clusters' boundary variables (either orientation), give:
   every member of one cluster lies entirely on one side of every member of the other in dimension d
   (so the member bounding boxes are disjoint), up to 3*eps. *)
Theorem siblings_disjoint_thm eps v d a b boundsA boundsB mA mB nodesA nodesB padA padB MA MB rects chA chB c :
  0 <= eps ->
  box_nonneg mA -> box_nonneg mB -> box_nonneg padA -> box_nonneg padB ->
  (forall x, In x MA \/ In x MB -> (x < length rects)%nat) ->
  Forall (sat_eps eps v) (gen_containment d a padA MA rects chA) ->
  Forall (sat_eps eps v) (gen_containment d b padB MB rects chB) ->
  In c (gen_pair d a b (Clus boundsA mA nodesA) (Clus boundsB mB nodesB) rects) ->
  sat_eps eps v c ->
  members_right_of d (3 * eps) (move_all d rects v) MA MB \/ members_right_of d (3 * eps) (move_all d rects v) MB MA.
Proof.
  intros He NmA NmB NpA NpB Hlen HA HB Hc Hs.
  destruct (box_nonneg_d d _ NmA) as [mA1 mA2]. destruct (box_nonneg_d d _ NmB) as [mB1 mB2].
  destruct (box_nonneg_d d _ NpA) as [pA1 pA2]. destruct (box_nonneg_d d _ NpB) as [pB1 pB2].
  unfold gen_pair, shape_data in Hc.
  destruct (Qltb thr (overlapD (other d) (apply_box mA boundsA) (apply_box mB boundsB))); [|destruct Hc].
  destruct (Qltb (rcentre d boundsA) (rcentre d boundsB)).
  - destruct Hc as [<-|[]]. destruct Hs as [Hs _]. cbn [sl sr sgap] in Hs. rewrite Qred_correct in Hs.
    left. intros x y Hx Hy.
    destruct (gen_containment_members eps v d a padA MA rects chA HA x Hx) as [_ X2].
    destruct (gen_containment_members eps v d b padB MB rects chB HB y Hy) as [Y1 _].
    rewrite !nth_move_all by auto. rewrite rmax_moved_same, rmin_moved_same. lra.
  - destruct Hc as [<-|[]]. destruct Hs as [Hs _]. cbn [sl sr sgap] in Hs. rewrite Qred_correct in Hs.
    right. intros y x Hy Hx.
    destruct (gen_containment_members eps v d a padA MA rects chA HA x Hx) as [X1 _].
    destruct (gen_containment_members eps v d b padB MB rects chB HB y Hy) as [_ Y2].
    rewrite !nth_move_all by auto. rewrite rmax_moved_same, rmin_moved_same. lra.
Qed.

(* a node n that is not a member of cluster A but has a non-overlap constraint with A's boundary variables lies on one
   side of every member of A (outside the member bounding box) in dimension d, up to 2*eps *)
Theorem nonmember_outside_thm eps v d n a hw hh boundsA mA nodesA padA MA rects chA c :
  0 <= eps -> (n < length rects)%nat ->
  box_nonneg mA -> box_nonneg padA ->
  match d with DX => hw | DY => hh end == rlen d (nth n rects rect0) / 2 ->
  Forall (sat_eps eps v) (gen_containment d a padA MA rects chA) ->
  (forall x, In x MA -> (x < length rects)%nat) ->
  In c (gen_pair d n a (Node hw hh) (Clus boundsA mA nodesA) rects) ->
  sat_eps eps v c ->
  members_right_of d (2 * eps) (move_all d rects v) [n] MA \/ members_right_of d (2 * eps) (move_all d rects v) MA [n].
Proof.
  intros He Hn NmA NpA Hh HA Hlen Hc Hs.
  destruct (box_nonneg_d d _ NmA) as [mA1 mA2]. destruct (box_nonneg_d d _ NpA) as [pA1 pA2].
  unfold gen_pair, shape_data in Hc.
  destruct (Qltb thr (overlapD (other d) (nth n rects rect0) (apply_box mA boundsA))); [|destruct Hc].
  destruct (Qltb (rcentre d (nth n rects rect0)) (rcentre d boundsA)).
  - destruct Hc as [<-|[]]. destruct Hs as [Hs _]. cbn [sl sr sgap] in Hs. rewrite Qred_correct in Hs.
    left. intros x y [<-|[]] Hy.
    destruct (gen_containment_members eps v d a padA MA rects chA HA y Hy) as [Y1 _].
    rewrite !nth_move_all by auto. rewrite rmax_moved_same, rmin_moved_same. lra.
  - destruct Hc as [<-|[]]. destruct Hs as [Hs _]. cbn [sl sr sgap] in Hs. rewrite Qred_correct in Hs.
    right. intros y x Hy [<-|[]].
    destruct (gen_containment_members eps v d a padA MA rects chA HA y Hy) as [_ Y2].
    rewrite !nth_move_all by auto. rewrite rmax_moved_same, rmin_moved_same. lra.
Qed.

(* the checker used on real layouts *)
Lemma members_right_ofb_spec d t rects A B : members_right_ofb d t rects A B = true <-> members_right_of d t rects A B.
Proof.
  unfold members_right_ofb, members_right_of. rewrite forall_pairs_spec. split.
  - intros H a b Ha Hb. apply Qleb_spec. auto.
  - intros H a b Ha Hb. apply Qleb_spec. auto.
Qed.
Theorem boxes_sepb_correct t rects A B : boxes_sepb t rects A B = true <-> boxes_sep t rects A B.
Proof.
  unfold boxes_sepb, boxes_sep. rewrite !orb_true_iff, !members_right_ofb_spec. tauto.
Qed.

(* ------------------------------------------------------------------ non-vacuity *)
Definition exc_rects : list rect := [mkRect 0 10 0 10; mkRect 12 22 0 10; mkRect 60 70 0 10].
Definition exc_pad : box := mkBox 1 1 1 1.
Definition exc_marg : box := mkBox 2 2 2 2.
(* variables: 0 1 2 nodes; cluster A = {0,1} at 3,4; cluster B = {2} at 5,6 *)
Definition exc_v : val := lv [5; 17; 65; (-(1)); 23; 59; 71].
Example containment_nonvacuous : Forall (sat exc_v) (gen_containment DX 3 exc_pad [0; 1]%nat exc_rects []).
Proof.
  apply containment_sound_thm. intros id [<-|[<-|[]]]; unfold inside_padded, exc_v, lv, rlen, rmin, rmax, bmin, bmax, exc_pad; cbn; unfold rlen; cbn; split; apply Qle_bool_iff; reflexivity.
Qed.
Example siblings_nonvacuous :
  exists c, In c (gen_pair DX 3 5 (Clus (mkRect (-(1)) 23 (-(1)) 11) exc_marg [0; 1]%nat) (Clus (mkRect 59 71 (-(1)) 11) exc_marg [2%nat]) exc_rects)
            /\ sat_eps 0 exc_v c.
Proof.
  eexists. split; [vm_compute; left; reflexivity|]. apply sat_epsb_spec. vm_compute. reflexivity.
Qed.

(* ------------------------------------------------------------------ fixed-rectangle clusters (RectangularCluster(rectIndex)) *)

(* the two equalities of dimension d hold iff the cluster box [v cv, v (cv+1)] IS the container rectangle placed at its
   variable's value *)
Theorem fixed_rect_cluster_sound_thm v d cv ri rects :
  Forall (sat v) (gen_fixed_rect d cv ri rects) <->
  box_is_rect d (v cv) (v (S cv)) (moved d (nth ri rects rect0) (v ri)).
Proof.
  unfold gen_fixed_rect, box_is_rect. rewrite rmin_moved_same, rmax_moved_same.
  pose proof (Qred_correct (rlen d (nth ri rects rect0) / 2)) as E.
  split.
  - intros H. inversion H as [|? ? S1 H']; subst. inversion H' as [|? ? S2 _]; subst.
    unfold sat in S1, S2. cbn [sl sr sgap seqy] in S1, S2. rewrite E in S1, S2. split; lra.
  - intros [H1 H2]. apply Forall_cons; [|apply Forall_cons; [|apply Forall_nil]]; unfold sat; cbn [sl sr sgap seqy]; rewrite E; lra.
Qed.

Theorem fixed_rect_cluster_eps_thm eps v d cv ri rects :
  Forall (sat_eps eps v) (gen_fixed_rect d cv ri rects) <->
  box_is_rect_eps eps d (v cv) (v (S cv)) (moved d (nth ri rects rect0) (v ri)).
Proof.
  unfold gen_fixed_rect, box_is_rect_eps. rewrite rmin_moved_same, rmax_moved_same.
  pose proof (Qred_correct (rlen d (nth ri rects rect0) / 2)) as E.
  split.
  - intros H. inversion H as [|? ? S1 H']; subst. inversion H' as [|? ? S2 _]; subst.
    destruct S1 as [A1 B1]. destruct S2 as [A2 B2]. cbn [sl sr sgap seqy] in *.
    specialize (B1 eq_refl). specialize (B2 eq_refl). rewrite E in A1, B1, A2, B2. repeat split; lra.
  - intros (H1 & H2 & H3 & H4).
    apply Forall_cons; [|apply Forall_cons; [|apply Forall_nil]]; unfold sat_eps; cbn [sl sr sgap seqy]; rewrite E;
      (split; [|intros _]); lra.
Qed.

(* with the containment constraints of the members: every member rectangle, inflated by the cluster's padding, lies inside
   the CONTAINER RECTANGLE in dimension d (exactly) *)
Theorem members_inside_fixed_rect_thm v d cv ri pad members rects children :
  Forall (sat v) (gen_fixed_rect d cv ri rects) ->
  Forall (sat v) (gen_containment d cv pad members rects children) ->
  forall id, In id members ->
    inside_rect_d d 0 pad (moved d (nth ri rects rect0) (v ri)) (moved d (nth id rects rect0) (v id)).
Proof.
  intros HF HC id Hin.
  apply fixed_rect_cluster_sound_thm in HF. destruct HF as [F1 F2].
  assert (HC' : Forall (sat_eps 0 v) (gen_containment d cv pad members rects children)).
  { apply Forall_forall. intros c Hc. rewrite Forall_forall in HC. specialize (HC c Hc).
    unfold sat in HC. unfold sat_eps. destruct (seqy c); (split; [|intros E0; try discriminate E0]); lra. }
  destruct (gen_containment_members 0 v d cv pad members rects children HC' id Hin) as [M1 M2].
  unfold inside_rect_d. rewrite !rmin_moved_same, !rmax_moved_same in *. split; lra.
Qed.

(* ... when the solver satisfies the constraints only to within eps (C01): inside up to 2*eps *)
Theorem members_inside_fixed_rect_eps_thm eps v d cv ri pad members rects children :
  Forall (sat_eps eps v) (gen_fixed_rect d cv ri rects) ->
  Forall (sat_eps eps v) (gen_containment d cv pad members rects children) ->
  forall id, In id members ->
    inside_rect_d d (2 * eps) pad (moved d (nth ri rects rect0) (v ri)) (moved d (nth id rects rect0) (v id)).
Proof.
  intros HF HC id Hin.
  apply fixed_rect_cluster_eps_thm in HF. destruct HF as (F1 & F2 & F3 & F4).
  destruct (gen_containment_members eps v d cv pad members rects children HC id Hin) as [M1 M2].
  unfold inside_rect_d. rewrite !rmin_moved_same, !rmax_moved_same in *. split; lra.
Qed.

(* both dimensions, on the moved rectangle list: the form the V-run checker decides.  v x / v y are the solutions of the two
   dimensions (the rectangle variables are shared by index, the cluster variables have the same ids in both dimensions) *)
Theorem members_inside_fixed_rect_2d_thm eps vx vy cv ri pad members rects chx chy :
  (ri < length rects)%nat -> (forall m, In m members -> (m < length rects)%nat) ->
  Forall (sat_eps eps vx) (gen_fixed_rect DX cv ri rects) ->
  Forall (sat_eps eps vy) (gen_fixed_rect DY cv ri rects) ->
  Forall (sat_eps eps vx) (gen_containment DX cv pad members rects chx) ->
  Forall (sat_eps eps vy) (gen_containment DY cv pad members rects chy) ->
  members_inside_rect (2 * eps) pad (move_all DY (move_all DX rects vx) vy) ri members.
Proof.
  intros Hri Hm FX FY CX CY m Hin.
  assert (L : length (move_all DX rects vx) = length rects).
  { unfold move_all. apply move_from_length. }
  pose proof (members_inside_fixed_rect_eps_thm eps vx DX cv ri pad members rects chx FX CX m Hin) as [X1 X2].
  pose proof (members_inside_fixed_rect_eps_thm eps vy DY cv ri pad members rects chy FY CY m Hin) as [Y1 Y2].
  specialize (Hm m Hin).
  rewrite !nth_move_all by (rewrite ?L; auto).
  unfold inside_rect, inside_rect_d in *.
  assert (A1 : forall r a c, rmin DX (moved DY (moved DX r a) c) == a - rlen DX r / 2).
  { intros r a c. rewrite (rmin_moved_other DY (moved DX r a) c : rmin DX _ = _). apply rmin_moved_same. }
  assert (A2 : forall r a c, rmax DX (moved DY (moved DX r a) c) == a + rlen DX r / 2).
  { intros r a c. rewrite (rmax_moved_other DY (moved DX r a) c : rmax DX _ = _). apply rmax_moved_same. }
  assert (A3 : forall r a c, rmin DY (moved DY (moved DX r a) c) == c - rlen DY r / 2).
  { intros r a c. rewrite rmin_moved_same. rewrite (rlen_moved DX DY r a). reflexivity. }
  assert (A4 : forall r a c, rmax DY (moved DY (moved DX r a) c) == c + rlen DY r / 2).
  { intros r a c. rewrite rmax_moved_same. rewrite (rlen_moved DX DY r a). reflexivity. }
  rewrite !A1, !A2, !A3, !A4. rewrite !rmin_moved_same in X1, Y1. rewrite !rmax_moved_same in X2, Y2.
  repeat split; lra.
Qed.

(* refutation: WITHOUT the last equality (only rect + half <= boundaryVar+1) the members are NOT confined to the container
   rectangle: the weakened list together with the member's containment constraints has a solution with the member wholly
   outside the container on the max side.  (This is what dropping the `true` argument of the fourth SeparationConstraint in
   generateFixedRectangleConstraints does in the Y dimension.) *)
Definition fxr_rects : list rect := [mkRect (-(100)) 100 (-(50)) 50; mkRect (-(15)) 15 5 35; mkRect (-(15)) 15 75 105].
(* variables: 0 container, 1 child, 2 outside node; cluster boundary 3,4 *)
Definition fxr_bad_v : val := lv [0; 200; 90; (-(50)); 215].
Theorem fixed_rect_weak_max_refuted :
  exists v d cv ri pad members rects,
    Forall (sat v) (gen_fixed_rect_weak_max d cv ri rects ++ gen_containment d cv pad members rects []) /\
    exists id, In id members /\
      ~ inside_rect_d d 0 pad (moved d (nth ri rects rect0) (v ri)) (moved d (nth id rects rect0) (v id)) /\
      rmax d (moved d (nth ri rects rect0) (v ri)) <= rmin d (moved d (nth id rects rect0) (v id)).
Proof.
  exists fxr_bad_v, DY, 3%nat, 0%nat, (mkBox 0 0 0 0), [1%nat], fxr_rects. split.
  - repeat constructor; unfold sat; cbn; apply Qle_bool_iff || apply Qeq_bool_iff; reflexivity.
  - exists 1%nat. split; [left; reflexivity|]. split.
    + unfold inside_rect_d. intros [_ H]. revert H. cbn. unfold rlen. cbn. intros H.
      apply Qle_bool_iff in H. discriminate H.
    + cbn. unfold rlen. cbn. apply Qle_bool_iff. reflexivity.
Qed.
(* ... while the real list excludes exactly that valuation *)
Example fixed_rect_excludes_bad : ~ Forall (sat fxr_bad_v) (gen_fixed_rect DY 3 0 fxr_rects).
Proof.
  intros H. apply fixed_rect_cluster_sound_thm in H. destruct H as [_ H]. revert H.
  cbn. unfold rlen. cbn. intros H. apply Qeq_bool_iff in H. discriminate H.
Qed.

(* the checker used on real layouts *)
Lemma inside_rect_db_spec d t pad c m : inside_rect_db d t pad c m = true <-> inside_rect_d d t pad c m.
Proof. unfold inside_rect_db, inside_rect_d. rewrite andb_true_iff, !Qleb_spec. tauto. Qed.
Theorem inside_rectb_correct t pad c m : inside_rectb t pad c m = true <-> inside_rect t pad c m.
Proof. unfold inside_rectb, inside_rect. rewrite andb_true_iff, !inside_rect_db_spec. tauto. Qed.
Theorem members_inside_rectb_correct t pad rects ci members :
  members_inside_rectb t pad rects ci members = true <-> members_inside_rect t pad rects ci members.
Proof.
  unfold members_inside_rectb, members_inside_rect. rewrite forallb_forall. split.
  - intros H m Hm. apply inside_rectb_correct. auto.
  - intros H m Hm. apply inside_rectb_correct. auto.
Qed.

(* non-vacuity: the demo scene of the fixed-rectangle family: container 200x100 at (0,0) = node 0, child 30x30 = node 1;
   cluster boundary variables 3,4; a solution of the Y dimension with the child touching the max-Y wall *)
Definition fxr_good_v : val := lv [0; 35; 65; (-(50)); 50].
Example fixed_rect_nonvacuous :
  Forall (sat fxr_good_v) (gen_fixed_rect DY 3 0 fxr_rects) /\
  Forall (sat fxr_good_v) (gen_containment DY 3 (mkBox 0 0 0 0) [1%nat] fxr_rects []).
Proof.
  split; repeat constructor; unfold sat; cbn; apply Qle_bool_iff || apply Qeq_bool_iff; reflexivity.
Qed.
Definition fxr_good_vx : val := lv [0; 35; 65; (-(100)); 100].
(* the hypotheses of members_inside_fixed_rect_2d_thm are satisfiable *)
Example fixed_rect_eps_nonvacuous :
  Forall (sat_eps (1 # 1000) fxr_good_vx) (gen_fixed_rect DX 3 0 fxr_rects) /\
  Forall (sat_eps (1 # 1000) fxr_good_v) (gen_fixed_rect DY 3 0 fxr_rects) /\
  Forall (sat_eps (1 # 1000) fxr_good_vx) (gen_containment DX 3 (mkBox 0 0 0 0) [1%nat] fxr_rects []) /\
  Forall (sat_eps (1 # 1000) fxr_good_v) (gen_containment DY 3 (mkBox 0 0 0 0) [1%nat] fxr_rects []) /\
  (0 < length fxr_rects)%nat.
Proof.
  assert (H : forall v l, forallb (sat_epsb (1 # 1000) v) l = true -> Forall (sat_eps (1 # 1000) v) l).
  { intros v l Hl. apply Forall_forall. intros c Hc. apply sat_epsb_spec. rewrite forallb_forall in Hl. auto. }
  repeat split; try (apply H; vm_compute; reflexivity). cbn. repeat constructor.
Qed.
Example members_inside_rectb_nonvacuous :
  members_inside_rectb (1 # 1000) (mkBox 0 0 0 0) (move_all DY fxr_rects fxr_good_v) 0 [1%nat] = true /\
  members_inside_rectb (1 # 1000) (mkBox 0 0 0 0) (move_all DY fxr_rects fxr_bad_v) 0 [1%nat] = false.
Proof. split; vm_compute; reflexivity. Qed.
