(* C07 - model of the per-type translation of libcola compound constraints into vpsc separation
   constraints (cola/libcola/compound_constraints.cpp).  No proofs in this file (DESIGN 3.3): it is
   extracted and run against the compiled generateVariables / generateSeparationConstraints
   (harness/c07_cc.cpp, checks/c07.py).

   Conventions.  Variables are indexed by nat; the first n are the rectangle centres in the dimension being
   generated, auxiliary variables are appended in the order generateVariables() creates them
   (vars.size() at the time of creation).  A generated vpsc::Constraint left + gap <= right (== when
   equality) is the record sepc.  C++ double is modelled by Q (DESIGN 3.1); Rectangle borders are 0.

   Source lines (compound_constraints.cpp):
     BoundaryConstraint        generateVariables 127-137   generateSeparationConstraints 140-172
     AlignmentConstraint       260-274 / 277-298
     SeparationConstraint      519-526 / 548-567   (VarIndexPair::indexL/indexR 421-430: alignment-pair form)
     MultiSeparationConstraint 814-821 / 855-881
     DistributionConstraint    902-909 / 988-1031
     FixedRelativeConstraint   constructor 1062-1098, 1115-1133 / 1197-1221
     PageBoundaryConstraints   constructor 1241-1262, 1360-1377 / 1380-1409                         *)
From Adapt Require Import Num.Qaux.
Local Open Scope Q_scope.

Inductive dim := DX | DY.
Definition dim_eqb (a b : dim) : bool :=
  match a, b with DX, DX => true | DY, DY => true | _, _ => false end.

(* vpsc::Constraint(left, right, gap, equality) *)
Record sepc := mkSep { sl : nat; sr : nat; sgap : Q; seqy : bool }.
(* vpsc::Variable(id, desiredPosition, weight) + fixedDesiredPosition, for the auxiliary variables *)
Record auxvar := mkAux { av_des : Q; av_weight : Q; av_fixed : bool }.

Definition offs := list (nat * Q).               (* (rectangle index, offset) : class Offset *)

(* compound_constraints.h:75 *)
Definition freeWeight : Q := 1 # 10000.
Definition fixedWeight : Q := 100000.

(* The compound constraints.  References to AlignmentConstraint objects (C++ pointers) are positions in the
   list of compound constraints. *)
Inductive cc :=
| CSep (d : dim) (l r : nat) (g : Q) (e : bool)
| CSepA (d : dim) (la ra : nat) (g : Q) (e : bool)
| CAlign (d : dim) (pos : Q) (fixed : bool) (sh : offs)
| CBoundary (d : dim) (pos : Q) (sh : offs)
| CDistrib (d : dim) (sep : Q) (prs : list (nat * nat))
| CMultiSep (d : dim) (sep : Q) (e : bool) (prs : list (nat * nat))
| CFixedRel (fixedpos : bool) (ids : list nat) (cx cy : list Q)   (* cx, cy: rectangle centres at construction *)
| CPage (xlo xhi ylo yhi w : Q) (sh : list (nat * (Q * Q))).

(* ------------------------------------------------------------------ the per-type generators *)

(* SeparationConstraint::generateSeparationConstraints :548-567 (left/right already resolved) *)
Definition gen_sep (l r : nat) (g : Q) (e : bool) : list sepc := [mkSep l r g e].

(* AlignmentConstraint::generateSeparationConstraints :277-298; vid = id of the guideline variable *)
Definition gen_align (vid : nat) (sh : offs) : list sepc :=
  map (fun so => mkSep vid (fst so) (snd so) true) sh.

(* BoundaryConstraint::generateSeparationConstraints :140-172 *)
Definition gen_boundary (vid : nat) (sh : offs) : list sepc :=
  map (fun so => if Qltb (snd so) 0 then mkSep (fst so) vid (- snd so) false
                 else mkSep vid (fst so) (snd so) false) sh.

(* MultiSeparationConstraint :855-881 and DistributionConstraint :988-1031 (equality = true, gap = sep);
   prs already resolved to the guideline variable ids of the two alignments *)
Definition gen_pairs (prs : list (nat * nat)) (sep : Q) (e : bool) : list sepc :=
  map (fun ab => mkSep (fst ab) (snd ab) sep e) prs.

(* std::sort + std::unique of the FixedRelativeConstraint constructor :1071-1075 *)
Fixpoint ins_uniq (x : nat) (l : list nat) : list nat :=
  match l with
  | [] => [x]
  | y :: t => if Nat.ltb x y then x :: l else if Nat.eqb x y then l else y :: ins_uniq x t
  end.
Definition sort_uniq (l : list nat) : list nat := fold_right ins_uniq [] l.

(* RelativeOffset list of the constructor :1077-1097, restricted to one dimension: (first, this, offset) *)
Definition fixedrel_offsets (ids : list nat) (c0 : list Q) : list (nat * nat * Q) :=
  match sort_uniq ids with
  | [] => []
  | f :: rest => map (fun t => (f, t, Qred (nth t c0 0 - nth f c0 0))) rest
  end.
(* FixedRelativeConstraint::generateSeparationConstraints :1197-1221 *)
Definition gen_fixedrel (ids : list nat) (c0 : list Q) : list sepc :=
  map (fun fto => mkSep (fst (fst fto)) (snd (fst fto)) (snd fto) true) (fixedrel_offsets ids c0).

(* PageBoundaryConstraints::generateSeparationConstraints :1380-1409; vl / vr are None when weight = 0 *)
Definition gen_page (vl vr : option nat) (sh : list (nat * Q)) : list sepc :=
  flat_map (fun sh1 =>
     (match vl with Some l => [mkSep l (fst sh1) (snd sh1) false] | None => [] end) ++
     (match vr with Some r => [mkSep (fst sh1) r (snd sh1) false] | None => [] end)) sh.

(* ------------------------------------------------------------------ the system generator *)

Inductive generr := InvalidVariableIndex | InvalidConstraint.
Inductive genres (A : Type) := GOk (a : A) | GErr (e : generr).
Arguments GOk {A} _.
Arguments GErr {A} _.

(* what generateVariables() of one compound constraint adds in dimension d when vars.size() = next:
   (auxiliary variables, id recorded in the object (variable / vl), is vr present) *)
Definition cc_vars (d : dim) (next : nat) (c : cc) : list auxvar * option nat :=
  match c with
  | CAlign d' pos fixed _ =>
      if dim_eqb d d' then ([mkAux pos (if fixed then fixedWeight else freeWeight) fixed], Some next)
      else ([], None)
  | CBoundary d' pos _ =>
      if dim_eqb d d' then ([mkAux pos freeWeight false], Some next) else ([], None)
  | CPage xlo xhi ylo yhi w _ =>
      if Qeqb w 0 then ([], None)
      else ([mkAux (match d with DX => xlo | DY => ylo end) w true;
             mkAux (match d with DX => xhi | DY => yhi end) w true], Some next)
  | _ => ([], None)
  end.

(* for_each(ccs, GenerateVariables(dim, vars)) :1466-1471 — returns the auxiliary variables and, per
   compound constraint, the variable id it recorded *)
Fixpoint gen_vars (d : dim) (next : nat) (ccs : list cc) : list auxvar * list (option nat) :=
  match ccs with
  | [] => ([], [])
  | c :: t =>
      let '(a, v) := cc_vars d next c in
      let '(a', vs) := gen_vars d (next + length a) t in
      (a ++ a', v :: vs)
  end.

(* rectangle variables whose weight/fixedDesiredPosition FixedRelativeConstraint::generateVariables changes *)
Definition cc_fixed (c : cc) : list nat :=
  match c with
  | CFixedRel true ids _ _ => sort_uniq ids
  | _ => []
  end.

(* the guideline variable id of the alignment constraint at position a, as seen when generating
   dimension d: None when it is not an alignment of this dimension (variable == nullptr) *)
Definition align_vid (d : dim) (ccs : list cc) (vids : list (option nat)) (a : nat) : option nat :=
  match nth_error ccs a with
  | Some (CAlign d' _ _ _) => if dim_eqb d d' then nth a vids None else None
  | _ => None
  end.

Fixpoint resolve_pairs (d : dim) (ccs : list cc) (vids : list (option nat)) (prs : list (nat * nat))
  : option (list (nat * nat)) :=
  match prs with
  | [] => Some []
  | (a, b) :: t =>
      match align_vid d ccs vids a, align_vid d ccs vids b, resolve_pairs d ccs vids t with
      | Some va, Some vb, Some r => Some ((va, vb) :: r)
      | _, _, _ => None
      end
  end.

Definition all_lt (nv : nat) (l : list nat) : bool := forallb (fun i => Nat.ltb i nv) l.

(* generateSeparationConstraints of the compound constraint at position i; nv = vars.size() *)
Definition cc_seps (d : dim) (nv : nat) (ccs : list cc) (vids : list (option nat)) (i : nat) (c : cc)
  : genres (list sepc) :=
  match c with
  | CSep d' l r g e =>
      if dim_eqb d d' then
        if Nat.ltb l nv && Nat.ltb r nv then GOk (gen_sep l r g e) else GErr InvalidVariableIndex
      else GOk []
  | CSepA d' la ra g e =>
      if dim_eqb d d' then
        match align_vid d ccs vids la, align_vid d ccs vids ra with
        | Some l, Some r => GOk (gen_sep l r g e)
        | _, _ => GErr InvalidConstraint       (* C++: null dereference; outside the domain *)
        end
      else GOk []
  | CAlign d' _ _ sh =>
      if dim_eqb d d' then
        match nth i vids None with
        | Some vid => if all_lt nv (map fst sh) then GOk (gen_align vid sh) else GErr InvalidVariableIndex
        | None => GErr InvalidConstraint
        end
      else GOk []
  | CBoundary d' _ sh =>
      if dim_eqb d d' then
        match nth i vids None with
        | Some vid => if all_lt nv (map fst sh) then GOk (gen_boundary vid sh) else GErr InvalidVariableIndex
        | None => GErr InvalidConstraint
        end
      else GOk []
  | CDistrib d' sep prs =>
      if dim_eqb d d' then
        match resolve_pairs d ccs vids prs with
        | Some r => GOk (gen_pairs r sep true)
        | None => GErr InvalidConstraint
        end
      else GOk []
  | CMultiSep d' sep e prs =>
      if dim_eqb d d' then
        match resolve_pairs d ccs vids prs with
        | Some r => GOk (gen_pairs r sep e)
        | None => GErr InvalidConstraint
        end
      else GOk []
  | CFixedRel _ ids cx cy =>
      if all_lt nv (sort_uniq ids) then GOk (gen_fixedrel ids (match d with DX => cx | DY => cy end))
      else GErr InvalidVariableIndex
  | CPage _ _ _ _ w sh =>
      if all_lt nv (map fst sh) then
        let shd := map (fun s => (fst s, match d with DX => fst (snd s) | DY => snd (snd s) end)) sh in
        match nth i vids None with
        | Some vl => GOk (gen_page (Some vl) (Some (S vl)) shd)
        | None => GOk (gen_page None None shd)
        end
      else GErr InvalidVariableIndex
  end.

Fixpoint gen_seps_from (d : dim) (nv : nat) (ccs : list cc) (vids : list (option nat)) (i : nat) (rest : list cc)
  : genres (list sepc) :=
  match rest with
  | [] => GOk []
  | c :: t =>
      match cc_seps d nv ccs vids i c with
      | GErr e => GErr e
      | GOk s => match gen_seps_from d nv ccs vids (S i) t with
                 | GErr e => GErr e
                 | GOk s' => GOk (s ++ s')
                 end
      end
  end.

Record sysout := mkSys { so_aux : list auxvar; so_fixed : list nat; so_seps : list sepc }.

(* generateVariablesAndConstraints(ccs, dim, vars, cs, bbs) :1456-1463 with vars.size() = n on entry *)
Definition gen_system (d : dim) (n : nat) (ccs : list cc) : genres sysout :=
  let '(aux, vids) := gen_vars d n ccs in
  match gen_seps_from d (n + length aux) ccs vids 0 ccs with
  | GErr e => GErr e
  | GOk s => GOk (mkSys aux (flat_map cc_fixed ccs) s)
  end.

(* ------------------------------------------------------------------ semantics of separation constraints *)
Definition val := nat -> Q.
Definition lv (l : list Q) : val := fun i => nth i l 0.

Definition sat (v : val) (c : sepc) : Prop :=
  if seqy c then v (sl c) + sgap c == v (sr c) else v (sl c) + sgap c <= v (sr c).
(* satisfied to within tolerance eps (what C01 gives for the output of a projection) *)
Definition sat_eps (eps : Q) (v : val) (c : sepc) : Prop :=
  v (sl c) + sgap c <= v (sr c) + eps /\ (seqy c = true -> v (sr c) <= v (sl c) + sgap c + eps).

Definition sat_epsb (eps : Q) (v : val) (c : sepc) : bool :=
  Qleb (v (sl c) + sgap c) (v (sr c) + eps) &&
  (if seqy c then Qleb (v (sr c)) (v (sl c) + sgap c + eps) else true).

(* ------------------------------------------------------------------ declarative meanings (on rectangle centres only) *)

(* the guideline through (s,o) sits at v s - o.  pair_rel: every guideline position of A plus g is <= (== when e)
   every guideline position of B, to within tol *)
Definition pair_rel (tol : Q) (e : bool) (v : val) (A B : offs) (g : Q) : Prop :=
  forall s o s' o', In (s, o) A -> In (s', o') B ->
    (v s - o) + g <= (v s' - o') + tol /\ (e = true -> v s' - o' <= (v s - o) + g + tol).

Definition sep_holds (tol : Q) (v : val) (l r : nat) (g : Q) (e : bool) : Prop :=
  v l + g <= v r + tol /\ (e = true -> v r <= v l + g + tol).
(* all shapes lie on one line, each at its offset from it *)
Definition align_holds (tol : Q) (v : val) (sh : offs) : Prop := pair_rel tol true v sh sh 0.
(* shapes with negative offset are at least |offset| left of a common line, the others at least offset right of it:
   pairwise form without the line *)
Definition boundary_holds (tol : Q) (v : val) (sh : offs) : Prop :=
  forall s o s' o', In (s, o) sh -> In (s', o') sh -> o < 0 -> 0 <= o' -> v s - o <= v s' - o' + tol.
(* guidelines of consecutive alignment pairs are separated by sep (exactly: distribution; at least: multi-separation) *)
Definition multisep_holds (tol : Q) (v : val) (als : nat -> offs) (prs : list (nat * nat)) (sep : Q) (e : bool) : Prop :=
  forall a b, In (a, b) prs -> pair_rel tol e v (als a) (als b) sep.
Definition distribution_holds (tol : Q) (v : val) (als : nat -> offs) (prs : list (nat * nat)) (sep : Q) : Prop :=
  multisep_holds tol v als prs sep true.
(* the group is a rigid translate of its configuration at construction time (c0), in this dimension *)
Definition fixedrel_holds (tol : Q) (v : val) (ids : list nat) (c0 : list Q) : Prop :=
  forall i j, In i ids -> In j ids ->
    v j - v i <= (nth j c0 0 - nth i c0 0) + tol /\ (nth j c0 0 - nth i c0 0) <= v j - v i + tol.
(* every rectangle [v s - h, v s + h] lies inside the page [L, R] *)
Definition page_holds (tol : Q) (v : val) (L R : Q) (sh : list (nat * Q)) : Prop :=
  forall s h, In (s, h) sh -> L + h <= v s + tol /\ v s + h <= R + tol.

(* ------------------------------------------------------------------ executable checker used on real layouts (V) *)
Definition forall_pairs {A B} (f : A -> B -> bool) (la : list A) (lb : list B) : bool :=
  forallb (fun a => forallb (fun b => f a b) lb) la.

Definition pair_relb (tol : Q) (e : bool) (v : val) (A B : offs) (g : Q) : bool :=
  forall_pairs (fun so so' =>
     Qleb ((v (fst so) - snd so) + g) ((v (fst so') - snd so') + tol) &&
     (if e then Qleb (v (fst so') - snd so') ((v (fst so) - snd so) + g + tol) else true)) A B.

Definition shapes_of (ccs : list cc) (d : dim) (a : nat) : offs :=
  match nth_error ccs a with
  | Some (CAlign d' _ _ sh) => if dim_eqb d d' then sh else []
  | _ => []
  end.

Definition boundary_holdsb (tol : Q) (v : val) (sh : offs) : bool :=
  forall_pairs (fun so so' =>
     if Qltb (snd so) 0 && negb (Qltb (snd so') 0)
     then Qleb (v (fst so) - snd so) (v (fst so') - snd so' + tol) else true) sh sh.

Definition fixedrel_holdsb (tol : Q) (v : val) (ids : list nat) (c0 : list Q) : bool :=
  forall_pairs (fun i j =>
     Qleb (v j - v i) ((nth j c0 0 - nth i c0 0) + tol) &&
     Qleb (nth j c0 0 - nth i c0 0) (v j - v i + tol)) ids ids.

(* does compound constraint c hold, in dimension d, on the rectangle centres v?  (page boundaries are soft:
   nothing to check on the rectangles alone) *)
Definition cc_holdsb (tol : Q) (d : dim) (ccs : list cc) (v : val) (c : cc) : bool :=
  match c with
  | CSep d' l r g e =>
      if dim_eqb d d' then Qleb (v l + g) (v r + tol) && (if e then Qleb (v r) (v l + g + tol) else true) else true
  | CSepA d' la ra g e =>
      if dim_eqb d d' then pair_relb tol e v (shapes_of ccs d la) (shapes_of ccs d ra) g else true
  | CAlign d' _ _ sh => if dim_eqb d d' then pair_relb tol true v sh sh 0 else true
  | CBoundary d' _ sh => if dim_eqb d d' then boundary_holdsb tol v sh else true
  | CDistrib d' sep prs =>
      if dim_eqb d d' then forallb (fun ab => pair_relb tol true v (shapes_of ccs d (fst ab)) (shapes_of ccs d (snd ab)) sep) prs
      else true
  | CMultiSep d' sep e prs =>
      if dim_eqb d d' then forallb (fun ab => pair_relb tol e v (shapes_of ccs d (fst ab)) (shapes_of ccs d (snd ab)) sep) prs
      else true
  | CFixedRel _ ids cx cy => fixedrel_holdsb tol v ids (match d with DX => cx | DY => cy end)
  | CPage _ _ _ _ _ _ => true
  end.

(* the Prop the checker decides *)
Definition cc_meaning (tol : Q) (d : dim) (ccs : list cc) (v : val) (c : cc) : Prop :=
  match c with
  | CSep d' l r g e => d = d' -> sep_holds tol v l r g e
  | CSepA d' la ra g e => d = d' -> pair_rel tol e v (shapes_of ccs d la) (shapes_of ccs d ra) g
  | CAlign d' _ _ sh => d = d' -> align_holds tol v sh
  | CBoundary d' _ sh => d = d' -> boundary_holds tol v sh
  | CDistrib d' sep prs => d = d' -> distribution_holds tol v (shapes_of ccs d) prs sep
  | CMultiSep d' sep e prs => d = d' -> multisep_holds tol v (shapes_of ccs d) prs sep e
  | CFixedRel _ ids cx cy => fixedrel_holds tol v ids (match d with DX => cx | DY => cy end)
  | CPage _ _ _ _ _ _ => True
  end.

(* ------------------------------------------------------------------ control-flow model of the driver
   ConstrainedFDLayout::run :316-380, runOnce :386-405, computeDescentVectorOnBothAxes :297-308,
   setPosition :286-291, moveTo :1063-1098, applyForcesAndConstraints :1105-1161 (non-topology branch).
   Primitive writes to the coordinate arrays X, Y, in program order:                                          *)
Inductive wr :=
| WProj (d : dim)       (* project(vs,cs,coords) :1014-1021 — coords := solver output                      *)
| WDisplace             (* computeForces :1252-1253 — X[v], Y[v] randomly displaced for coincident nodes    *)
| WDescent (d : dim)    (* applyDescentVector :1185 before the projection — coords := oldCoords - s*g       *)
| WBlend (d : dim).     (* applyDescentVector :1185 after the projection — coords := old - s*(old - proj)   *)

Definition moveTo (d : dim) : list wr := [WProj d].
Definition applyForces (d : dim) : list wr := [WDisplace; WDescent d; WProj d; WBlend d].
Definition setPosition : list wr := moveTo DX ++ moveTo DY.
Definition descentBoth (xAxis yAxis : bool) : list wr :=
  setPosition ++ (if xAxis then applyForces DX else []) ++ (if yAxis then applyForces DY else []).
(* the body of the do-while of run(): with rungekutta four descent evaluations, else one; then setPosition(x1) *)
Definition iteration (rk xAxis yAxis : bool) : list wr :=
  (if rk then descentBoth xAxis yAxis ++ descentBoth xAxis yAxis ++ descentBoth xAxis yAxis ++ descentBoth xAxis yAxis
   else descentBoth xAxis yAxis) ++ setPosition.
Fixpoint run_trace (rk xAxis yAxis : bool) (iters : nat) : list wr :=
  match iters with
  | O => []
  | S k => run_trace rk xAxis yAxis k ++ iteration rk xAxis yAxis
  end.
(* runOnce: the same body without the final setPosition *)
Definition runOnce_trace (rk xAxis yAxis : bool) : list wr :=
  if rk then descentBoth xAxis yAxis ++ descentBoth xAxis yAxis ++ descentBoth xAxis yAxis ++ descentBoth xAxis yAxis
  else descentBoth xAxis yAxis.

Definition writes (d : dim) (w : wr) : bool :=
  match w with
  | WProj d' | WDescent d' | WBlend d' => dim_eqb d d'
  | WDisplace => true
  end.
(* the last write to coordinate array d in a trace *)
Definition last_write (d : dim) (t : list wr) : option wr :=
  fold_left (fun acc w => if writes d w then Some w else acc) t None.

(* ------------------------------------------------------------------ single-axis runs: run(true,false), run(false,true)
   The projections (IncSolver solves) of a trace in program order - exactly what a constraint-free probe compound constraint
   observes through CompoundConstraint::updatePosition(dim), which moveTo :1095 and applyForcesAndConstraints :1164 each call
   once after their solve; the harness compares this list with the compiled run() for every flag combination.             *)
Definition projs (t : list wr) : list dim :=
  flat_map (fun w => match w with WProj d => [d] | _ => [] end) t.
Fixpoint rep_tr {A : Type} (k : nat) (l : list A) : list A :=
  match k with O => [] | S k' => l ++ rep_tr k' l end.
(* the closed form of the projections of one do-while iteration: every descent evaluation first projects BOTH axes
   (setPosition), then solves once more for each axis that is laid out; the iteration ends with a projection of BOTH axes *)
Definition iteration_projs (rk xAxis yAxis : bool) : list dim :=
  rep_tr (if rk then 4%nat else 1%nat) ([DX; DY] ++ (if xAxis then [DX] else []) ++ (if yAxis then [DY] else [])) ++ [DX; DY].

(* the VARIANT "only the axes that are being laid out are moved" (not the code: a plausible-looking optimisation of
   computeDescentVectorOnBothAxes :300 and run :361 that replaces setPosition by if(xAxis) moveTo(X); if(yAxis) moveTo(Y)) *)
Definition setPosition_axes (xAxis yAxis : bool) : list wr :=
  (if xAxis then moveTo DX else []) ++ (if yAxis then moveTo DY else []).
Definition descentBoth_axes (xAxis yAxis : bool) : list wr :=
  setPosition_axes xAxis yAxis ++ (if xAxis then applyForces DX else []) ++ (if yAxis then applyForces DY else []).
Definition iteration_axes (rk xAxis yAxis : bool) : list wr :=
  (if rk then descentBoth_axes xAxis yAxis ++ descentBoth_axes xAxis yAxis ++ descentBoth_axes xAxis yAxis ++ descentBoth_axes xAxis yAxis
   else descentBoth_axes xAxis yAxis) ++ setPosition_axes xAxis yAxis.
Fixpoint run_trace_axes (rk xAxis yAxis : bool) (iters : nat) : list wr :=
  match iters with
  | O => []
  | S k => run_trace_axes rk xAxis yAxis k ++ iteration_axes rk xAxis yAxis
  end.
