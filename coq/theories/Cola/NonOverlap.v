(* C08 - proofs about the non-overlap constraint generator model (Cola/NonOverlapModel.v).
   nonoverlap_step_preserved: one projection in dimension d onto the constraints generated from the current rectangles
   (satisfied to 1e-10) yields rectangles in which every listed pair is separated by at least -0.0005 in x or in y;
   hence Sep is an invariant of any sequence of projections in any axis order, and Sep excludes an overlap of more
   than 1e-3 in both dimensions. *)
From Adapt Require Import Num.Qaux Cola.CompoundCsModel Cola.CompoundCs Cola.NonOverlapModel.
Local Open Scope Q_scope.

Definition eps10 : Q := 1 # 10000000000.        (* 1e-10: ZERO_UPPERBOUND of the solver, see C01 *)

(* ------------------------------------------------------------------ geometry of moved *)
Lemma rmin_moved_same d r c : rmin d (moved d r c) == c - rlen d r / 2.
Proof. destruct d; cbn; lra. Qed.
Lemma rmax_moved_same d r c : rmax d (moved d r c) == c + rlen d r / 2.
Proof. destruct d; cbn; lra. Qed.
Lemma rmin_moved_other d r c : rmin (other d) (moved d r c) = rmin (other d) r.
Proof. destruct d; reflexivity. Qed.
Lemma rmax_moved_other d r c : rmax (other d) (moved d r c) = rmax (other d) r.
Proof. destruct d; reflexivity. Qed.
Lemma rlen_moved_same d r c : rlen d (moved d r c) == rlen d r.
Proof. unfold rlen at 1. rewrite rmin_moved_same, rmax_moved_same. field. Qed.
Lemma rlen_moved_other d r c : rlen (other d) (moved d r c) = rlen (other d) r.
Proof. unfold rlen. rewrite rmin_moved_other, rmax_moved_other. reflexivity. Qed.
Lemma rlen_moved d d' r c : rlen d' (moved d r c) == rlen d' r.
Proof.
  destruct d, d'; try apply (rlen_moved_same DX); try apply (rlen_moved_same DY);
  [rewrite (rlen_moved_other DX)|rewrite (rlen_moved_other DY)]; reflexivity.
Qed.

Lemma move_from_length d rects v : forall k, length (move_from d k rects v) = length rects.
Proof. induction rects; intro k; cbn; auto. Qed.
Lemma nth_move_from d rects v : forall k i, (i < length rects)%nat ->
  nth i (move_from d k rects v) rect0 = moved d (nth i rects rect0) (v (k + i)%nat).
Proof.
  induction rects as [|r t IH]; intros k i H; cbn in H; [lia|].
  destruct i; cbn [move_from nth].
  - rewrite Nat.add_0_r. reflexivity.
  - rewrite IH by lia. f_equal. f_equal. lia.
Qed.
Lemma nth_move_all d rects v i : (i < length rects)%nat ->
  nth i (move_all d rects v) rect0 = moved d (nth i rects rect0) (v i).
Proof. intro H. unfold move_all. rewrite nth_move_from by exact H. reflexivity. Qed.

(* ------------------------------------------------------------------ the overlap test *)
(* Rectangle::overlapD at most t (t >= 0) means the rectangles are separated in that dimension up to t *)
Lemma overlapD_small_sep d t u v : 0 <= t -> overlapD d u v <= t -> sepd d t u v.
Proof.
  intros Ht. unfold overlapD, sepd.
  destruct (Qleb (rcentre d u) (rcentre d v) && Qltb (rmin d v) (rmax d u)) eqn:E1.
  - intro H. left. lra.
  - destruct (Qleb (rcentre d v) (rcentre d u) && Qltb (rmin d u) (rmax d v)) eqn:E2.
    + intro H. right. lra.
    + intros _. apply andb_false_iff in E1, E2.
      destruct (Qlt_le_dec (rcentre d v) (rcentre d u)) as [L|L].
      * (* vc < uc: second test's first conjunct holds *)
        destruct E2 as [E2|E2]; qb2p; [lra|]. right. lra.
      * destruct E1 as [E1|E1]; qb2p; [lra|]. left. lra.
Qed.

(* and conversely a real overlap larger than t is seen by the test (so the constraint is generated) *)
Lemma overlapD_ge_true_overlap d u v : 0 < true_overlap d u v -> true_overlap d u v <= overlapD d u v.
Proof.
  unfold true_overlap, overlapD, Qmin', Qmax'. intro H.
  destruct (Qltb (rmax d v) (rmax d u)) eqn:A; destruct (Qltb (rmin d u) (rmin d v)) eqn:B; qb2p;
  destruct (Qleb (rcentre d u) (rcentre d v) && Qltb (rmin d v) (rmax d u)) eqn:E1;
  try (apply andb_true_iff in E1; destruct E1; qb2p; lra);
  destruct (Qleb (rcentre d v) (rcentre d u) && Qltb (rmin d u) (rmax d v)) eqn:E2;
  try (apply andb_true_iff in E2; destruct E2; qb2p; lra);
  apply andb_false_iff in E1, E2; exfalso;
  (destruct (Qlt_le_dec (rcentre d v) (rcentre d u)) as [L|L];
   [destruct E2 as [E2|E2]; qb2p; lra | destruct E1 as [E1|E1]; qb2p; lra]).
Qed.

Lemma sepd_true_overlap d t a b : sepd d t a b -> true_overlap d a b <= t.
Proof.
  unfold sepd, true_overlap, Qmin', Qmax'. intros [H|H];
  destruct (Qltb (rmax d b) (rmax d a)) eqn:A; destruct (Qltb (rmin d a) (rmin d b)) eqn:B; qb2p; lra.
Qed.

(* ------------------------------------------------------------------ the pair loop *)
Lemma gen_pairs_incl d nv offs rects : forall prs cs,
  gen_nonoverlap_pairs d nv offs rects prs = GOk cs ->
  forall i j, In (i, j) prs ->
  exists s1 s2, lookup i offs = Some s1 /\ lookup j offs = Some s2 /\ incl (gen_pair d i j s1 s2 rects) cs.
Proof.
  induction prs as [|[i0 j0] t IH]; intros cs H i j Hin; [destruct Hin|].
  cbn [gen_nonoverlap_pairs] in H.
  destruct (Nat.ltb i0 nv && Nat.ltb j0 nv); [|discriminate].
  destruct (lookup i0 offs) as [s1|] eqn:L1; [|discriminate].
  destruct (lookup j0 offs) as [s2|] eqn:L2; [|discriminate].
  destruct (gen_nonoverlap_pairs d nv offs rects t) as [r|] eqn:Er; [|discriminate].
  inversion H; subst; clear H. destruct Hin as [E|Hin].
  - inversion E; subst. exists s1, s2. repeat split; auto. apply incl_appl, incl_refl.
  - destruct (IH r eq_refl i j Hin) as (a & b & Ha & Hb & Hi). exists a, b. repeat split; auto. apply incl_appr; auto.
Qed.

(* every listed pair consists of two added node shapes whose half sizes are those of their bounding boxes
   (colafd.cpp:496-497, 597-598: addShape(id, width()/2, height()/2)) *)
Definition nodes_ok (offs : list sinfo) (prs : list (nat * nat)) (rects : list rect) : Prop :=
  forall i j, In (i, j) prs ->
    (i < length rects)%nat /\ (j < length rects)%nat /\
    exists hw1 hh1 hw2 hh2,
      lookup i offs = Some (Node hw1 hh1) /\ lookup j offs = Some (Node hw2 hh2) /\
      hw1 == rlen DX (nth i rects rect0) / 2 /\ hh1 == rlen DY (nth i rects rect0) / 2 /\
      hw2 == rlen DX (nth j rects rect0) / 2 /\ hh2 == rlen DY (nth j rects rect0) / 2.

Lemma sep_after_constraint d e a b (ca cb g : Q) :
  g == rlen d a / 2 + rlen d b / 2 -> ca + g <= cb + e -> e <= thr ->
  sepd d thr (moved d a ca) (moved d b cb).
Proof.
  intros Hg H He. left. rewrite rmax_moved_same, rmin_moved_same. lra.
Qed.

Lemma sepd_moved_other d t a b ca cb : sepd (other d) t a b -> sepd (other d) t (moved d a ca) (moved d b cb).
Proof. unfold sepd. rewrite !rmin_moved_other, !rmax_moved_other. auto. Qed.

Lemma sep2_of_sepd d t a b : sepd d t a b -> sep2 t a b.
Proof. destruct d; unfold sep2; auto. Qed.
Lemma sepd_sym d t a b : sepd d t a b -> sepd d t b a.
Proof. unfold sepd. tauto. Qed.
Lemma sep2_sym t a b : sep2 t a b -> sep2 t b a.
Proof. unfold sep2. intros [H|H]; [left|right]; apply sepd_sym; exact H. Qed.

Theorem nonoverlap_step_established d nv offs prs rects cs v' :
  nodes_ok offs prs rects ->
  gen_nonoverlap d nv (offs, prs) rects = GOk cs ->
  Forall (sat_eps eps10 v') cs ->
  Sep thr prs (move_all d rects v').
Proof.
  intros Hok Hg Hf i j Hin.
  destruct (Hok i j Hin) as (Hi & Hj & hw1 & hh1 & hw2 & hh2 & L1 & L2 & E1 & E2 & E3 & E4).
  unfold gen_nonoverlap in Hg. cbn [fst snd] in Hg.
  destruct (gen_pairs_incl d nv offs rects prs cs Hg i j Hin) as (s1 & s2 & L1' & L2' & Hincl).
  rewrite L1 in L1'. rewrite L2 in L2'. inversion L1'; inversion L2'; subst s1 s2; clear L1' L2'.
  rewrite !nth_move_all by assumption.
  set (a := nth i rects rect0) in *. set (b := nth j rects rect0) in *.
  unfold gen_pair, shape_data in Hincl. fold a b in Hincl.
  assert (He : eps10 <= thr) by (unfold eps10, thr; lra).
  destruct (Qltb thr (overlapD (other d) a b)) eqn:Eo.
  - (* overlap in the other axis: a separation constraint in this axis was generated *)
    destruct (Qltb (rcentre d a) (rcentre d b)) eqn:Ec.
    + assert (S1 : sat_eps eps10 v' (mkSep i j (Qred (match d with DX => hw1 | DY => hh1 end + match d with DX => hw2 | DY => hh2 end)) false)).
      { rewrite Forall_forall in Hf. apply Hf. apply Hincl. left. reflexivity. }
      destruct S1 as [S1 _]. cbn [sl sr sgap] in S1.
      apply (sep2_of_sepd d). eapply sep_after_constraint; [|exact S1|exact He].
      rewrite Qred_correct. destruct d; lra.
    + assert (S1 : sat_eps eps10 v' (mkSep j i (Qred (match d with DX => hw1 | DY => hh1 end + match d with DX => hw2 | DY => hh2 end)) false)).
      { rewrite Forall_forall in Hf. apply Hf. apply Hincl. left. reflexivity. }
      destruct S1 as [S1 _]. cbn [sl sr sgap] in S1.
      apply sep2_sym. apply (sep2_of_sepd d). eapply sep_after_constraint; [|exact S1|exact He].
      rewrite Qred_correct. destruct d; lra.
  - (* no constraint: the pair is already separated (up to 0.0005) in the other axis, which the projection does not move *)
    qb2p. apply (sep2_of_sepd (other d)). apply sepd_moved_other.
    apply overlapD_small_sep; [unfold thr; lra|exact Eo].
Qed.

(* the form stated in DESIGN 5.8 (the hypothesis Sep(P) is not even needed) *)
Corollary nonoverlap_step_preserved_thm d nv offs prs rects cs v' :
  nodes_ok offs prs rects ->
  Sep thr prs rects ->
  gen_nonoverlap d nv (offs, prs) rects = GOk cs ->
  Forall (sat_eps eps10 v') cs ->
  Sep thr prs (move_all d rects v').
Proof. intros Hok _. apply nonoverlap_step_established; exact Hok. Qed.

(* nodes_ok is preserved by a move (sizes do not change) *)
Lemma nodes_ok_moved offs prs rects d v : nodes_ok offs prs rects -> nodes_ok offs prs (move_all d rects v).
Proof.
  intros H i j Hin. destruct (H i j Hin) as (Hi & Hj & hw1 & hh1 & hw2 & hh2 & L1 & L2 & E1 & E2 & E3 & E4).
  unfold move_all. rewrite move_from_length. repeat split; auto.
  exists hw1, hh1, hw2, hh2. fold (move_all d rects v). rewrite !nth_move_all by assumption.
  rewrite !rlen_moved. repeat split; auto.
Qed.

(* any number of projections, in any axis order, each onto the constraints generated from the rectangles current at
   that moment and each satisfied to 1e-10 (no non-overlap constraint flagged unsatisfiable) *)
Inductive descent (offs : list sinfo) (prs : list (nat * nat)) : list rect -> list rect -> Prop :=
| DNil rects : descent offs prs rects rects
| DStep rects d nv cs v' rects'' :
    gen_nonoverlap d nv (offs, prs) rects = GOk cs ->
    Forall (sat_eps eps10 v') cs ->
    descent offs prs (move_all d rects v') rects'' ->
    descent offs prs rects rects''.

Theorem Sep_descent_invariant offs prs rects rects' :
  nodes_ok offs prs rects -> Sep thr prs rects -> descent offs prs rects rects' -> Sep thr prs rects'.
Proof.
  intros Hok Hs Hd. induction Hd as [|rects d nv cs v' rects'' Hg Hf Hd IH]; auto.
  apply IH.
  - apply nodes_ok_moved; exact Hok.
  - eapply nonoverlap_step_established; eauto.
Qed.

Definition tol3 : Q := 1 # 1000.
Theorem Sep_no_big_overlap prs rects :
  Sep thr prs rects ->
  forall i j, In (i, j) prs ->
    ~ (tol3 < true_overlap DX (nth i rects rect0) (nth j rects rect0) /\
       tol3 < true_overlap DY (nth i rects rect0) (nth j rects rect0)).
Proof.
  intros H i j Hin [H1 H2]. destruct (H i j Hin) as [S|S]; apply sepd_true_overlap in S; unfold thr, tol3 in *; lra.
Qed.

(* the checker used on real layouts *)
Lemma sepdb_spec d t a b : sepdb d t a b = true <-> sepd d t a b.
Proof. unfold sepdb, sepd. rewrite orb_true_iff, !Qleb_spec. tauto. Qed.
Lemma sep2b_spec t a b : sep2b t a b = true <-> sep2 t a b.
Proof. unfold sep2b, sep2. rewrite orb_true_iff, !sepdb_spec. tauto. Qed.
Theorem Sepb_correct t prs rects : Sepb t prs rects = true <-> Sep t prs rects.
Proof.
  unfold Sepb, Sep. rewrite forallb_forall. split.
  - intros H i j Hin. apply sep2b_spec. exact (H (i, j) Hin).
  - intros H [i j] Hin. apply sep2b_spec. cbn. auto.
Qed.

(* ------------------------------------------------------------------ bookkeeping facts: which pairs are listed *)
Lemma add_shape_pairs exg offs prs id hw hh g ex i j :
  In (i, j) (snd (add_shape exg (offs, prs) id hw hh g ex)) <->
  In (i, j) prs \/
  exists o, In o offs /\ (i, j) = npair (s_id o) id /\ s_group o = g /\ id <> s_id o /\
            mem (s_id o) ex = false /\ pmem (npair (s_id o) id) exg = false.
Proof.
  cbn. rewrite in_app_iff, in_flat_map. split.
  - intros [H|(o & Ho & H)]; [left; exact H|]. right.
    destruct (Nat.eqb (s_group o) g) eqn:E1; cbn in H; [|destruct H].
    destruct (Nat.eqb id (s_id o)) eqn:E2; cbn in H; [destruct H|].
    destruct (mem (s_id o) ex) eqn:E3; cbn in H; [destruct H|].
    destruct (pmem (npair (s_id o) id) exg) eqn:E4; cbn in H; [destruct H|].
    destruct H as [H|[]]. exists o. apply Nat.eqb_eq in E1. apply Nat.eqb_neq in E2. repeat split; auto.
  - intros [H|(o & Ho & E & E1 & E2 & E3 & E4)]; [left; exact H|]. right. exists o. split; auto.
    apply Nat.eqb_eq in E1. apply Nat.eqb_neq in E2. rewrite E1, E2, E3, E4. cbn. left. auto.
Qed.

(* ------------------------------------------------------------------ non-vacuity *)
Definition ex_rects : list rect := [mkRect 0 10 0 10; mkRect 4 14 2 12; mkRect 30 40 0 10].
Definition ex_st : nstate :=
  run_ops [] [] [OpShape 0 5 5 1 []; OpShape 1 5 5 1 []; OpShape 2 5 5 1 []].
Example ex_pairs : snd ex_st = [(0, 1); (0, 2); (1, 2)]%nat.
Proof. reflexivity. Qed.
Example ex_gen : exists cs, gen_nonoverlap DX 3 ex_st ex_rects = GOk cs /\ length cs = 3%nat /\
  Forall (sat_eps eps10 (lv [3; 13; 35])) cs /\ ~ Forall (sat_eps eps10 (lv [5; 9; 35])) cs.
Proof.
  eexists. split; [vm_compute; reflexivity|]. split; [reflexivity|]. split.
  - apply Forall_forall. intros c Hc. apply sat_epsb_spec.
    destruct Hc as [<-|[<-|[<-|[]]]]; vm_compute; reflexivity.
  - intro H. inversion H as [|c l [H1 _] _]; subst. unfold lv, eps10 in H1; cbn in H1. lra.
Qed.
Example ex_nodes_ok : nodes_ok (fst ex_st) (snd ex_st) ex_rects.
Proof.
  intros i j Hin. cbn in Hin.
  destruct Hin as [E|[E|[E|[]]]]; inversion E; subst; cbn; (split; [lia|split; [lia|]]);
  exists 5, 5, 5, 5; cbn; repeat split; try reflexivity; unfold rlen; cbn; lra.
Qed.
Example ex_before_not_sep : ~ Sep thr (snd ex_st) ex_rects.
Proof. intro H. apply Sepb_correct in H. vm_compute in H. discriminate. Qed.
Example ex_after_sep : Sep thr (snd ex_st) (move_all DX ex_rects (lv [3; 13; 35])).
Proof.
  destruct ex_gen as (cs & Hg & _ & Hf & _).
  eapply nonoverlap_step_established; [exact ex_nodes_ok| |exact Hf]. exact Hg.
Qed.
