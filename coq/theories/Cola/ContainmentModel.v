(* C08 - model of ClusterContainmentConstraints (cola/libcola/cc_clustercontainmentconstraints.cpp:57-190): the
   constructor's sub-constraint list (:57-104) and generateSeparationConstraints (:155-190).  No proofs here. *)
From Adapt Require Import Num.Qaux Cola.CompoundCsModel Cola.NonOverlapModel.
Local Open Scope Q_scope.

(* cv = cluster->clusterVarId (min side; max side is cv+1); pad = cluster->padding();
   members: the cluster's child nodes (std::set, ascending) with their bounding boxes; children: child clusters as
   (clusterVarId, margin()) in the order of cluster->clusters *)
Definition gen_containment (d : dim) (cv : nat) (pad : box) (members : list nat) (rects : list rect)
  (children : list (nat * box)) : list sepc :=
  flat_map (fun id =>
     let h := Qred (rlen d (nth id rects rect0) / 2) in
     [ mkSep cv id (Qred (h + bmin d pad)) false;             (* AboveBoundary: boundaryVar + offset <= node *)
       mkSep id (S cv) (Qred (h + bmax d pad)) false ])       (* BelowBoundary: node + offset <= boundaryVar+1 *)
    (sort_uniq members)
  ++
  flat_map (fun ch =>
     [ mkSep cv (fst ch) (Qred (bmin d pad + bmin d (snd ch))) false;
       mkSep (S (fst ch)) (S cv) (Qred (bmax d pad + bmax d (snd ch))) false ]) children.

(* declarative: the member rectangle inflated by the padding lies inside the cluster box [lo, hi] in dimension d *)
Definition inside_padded (d : dim) (pad : box) (lo hi : Q) (r : rect) : Prop :=
  lo <= rmin d r - bmin d pad /\ rmax d r + bmax d pad <= hi.
(* child cluster box [clo, chi] inflated by its margin and the parent's padding lies inside [lo, hi] *)
Definition child_inside (d : dim) (pad margin : box) (lo hi clo chi : Q) : Prop :=
  lo + (bmin d pad + bmin d margin) <= clo /\ chi + (bmax d pad + bmax d margin) <= hi.

(* bounding box of the members in one dimension, as predicates (no min/max over an empty set) *)
Definition members_right_of (d : dim) (t : Q) (rects : list rect) (A B : list nat) : Prop :=
  forall a b, In a A -> In b B -> rmax d (nth a rects rect0) <= rmin d (nth b rects rect0) + t.

(* executable checker for the V-runs: the member bounding boxes of two clusters are separated (up to t) in x or in y,
   i.e. in some dimension every member of one lies on one side of every member of the other *)
Definition members_right_ofb (d : dim) (t : Q) (rects : list rect) (A B : list nat) : bool :=
  forall_pairs (fun a b => Qleb (rmax d (nth a rects rect0)) (rmin d (nth b rects rect0) + t)) A B.
Definition boxes_sepb (t : Q) (rects : list rect) (A B : list nat) : bool :=
  members_right_ofb DX t rects A B || members_right_ofb DX t rects B A ||
  members_right_ofb DY t rects A B || members_right_ofb DY t rects B A.
Definition boxes_sep (t : Q) (rects : list rect) (A B : list nat) : Prop :=
  members_right_of DX t rects A B \/ members_right_of DX t rects B A \/
  members_right_of DY t rects A B \/ members_right_of DY t rects B A.
