(* C08 - model of ClusterContainmentConstraints (cola/libcola/cc_clustercontainmentconstraints.cpp:57-190): the
   constructor's sub-constraint list (:57-104) and generateSeparationConstraints (:155-190).  No proofs here. *)
From Adapt Require Import Num.Qaux Cola.CompoundCsModel Cola.NonOverlapModel.
Local Open Scope Q_scope.

(* cv = cluster->clusterVarId (min side; max side is cv+1); pad = cluster->padding();
   members: the cluster's child nodes (std::set, ascending) with their bounding boxes; children: child clusters as
   (clusterVarId, margin()) in the order of cluster->clusters *)
Definition gen_containment (d : dim) (cv : nat) (pad : box) (members : list nat) (rects : list rect)
  (children : list (nat * box)) : list sepc :=
  flat_map (fun id =>
     let h := Qred (rlen d (nth id rects rect0) / 2) in
     [ mkSep cv id (Qred (h + bmin d pad)) false;             (* AboveBoundary: boundaryVar + offset <= node *)
       mkSep id (S cv) (Qred (h + bmax d pad)) false ])       (* BelowBoundary: node + offset <= boundaryVar+1 *)
    (sort_uniq members)
  ++
  flat_map (fun ch =>
     [ mkSep cv (fst ch) (Qred (bmin d pad + bmin d (snd ch))) false;
       mkSep (S (fst ch)) (S cv) (Qred (bmax d pad + bmax d (snd ch))) false ]) children.

(* declarative: the member rectangle inflated by the padding lies inside the cluster box [lo, hi] in dimension d *)
Definition inside_padded (d : dim) (pad : box) (lo hi : Q) (r : rect) : Prop :=
  lo <= rmin d r - bmin d pad /\ rmax d r + bmax d pad <= hi.
(* child cluster box [clo, chi] inflated by its margin and the parent's padding lies inside [lo, hi] *)
Definition child_inside (d : dim) (pad margin : box) (lo hi clo chi : Q) : Prop :=
  lo + (bmin d pad + bmin d margin) <= clo /\ chi + (bmax d pad + bmax d margin) <= hi.

(* bounding box of the members in one dimension, as predicates (no min/max over an empty set) *)
Definition members_right_of (d : dim) (t : Q) (rects : list rect) (A B : list nat) : Prop :=
  forall a b, In a A -> In b B -> rmax d (nth a rects rect0) <= rmin d (nth b rects rect0) + t.

(* executable checker for the V-runs: the member bounding boxes of two clusters are separated (up to t) in x or in y,
   i.e. in some dimension every member of one lies on one side of every member of the other *)
Definition members_right_ofb (d : dim) (t : Q) (rects : list rect) (A B : list nat) : bool :=
  forall_pairs (fun a b => Qleb (rmax d (nth a rects rect0)) (rmin d (nth b rects rect0) + t)) A B.
Definition boxes_sepb (t : Q) (rects : list rect) (A B : list nat) : bool :=
  members_right_ofb DX t rects A B || members_right_ofb DX t rects B A ||
  members_right_ofb DY t rects A B || members_right_ofb DY t rects B A.
Definition boxes_sep (t : Q) (rects : list rect) (A B : list nat) : Prop :=
  members_right_of DX t rects A B \/ members_right_of DX t rects B A \/
  members_right_of DY t rects A B \/ members_right_of DY t rects B A.

(* ------------------------------------------------------------------ fixed-rectangle clusters
   RectangularCluster(rectIndex): a cluster whose boundary IS an existing rectangle (cluster.cpp:224).
   RectangularCluster::generateFixedRectangleConstraints (cluster.cpp:300-329) pushes four cola::SeparationConstraints, all
   with equality = true, in the order X pair, Y pair:
       (XDIM, clusterVarId, rect, halfWidth, true)   (XDIM, rect, clusterVarId + 1, halfWidth, true)
       (YDIM, clusterVarId, rect, halfHeight, true)  (YDIM, rect, clusterVarId + 1, halfHeight, true)
   A cola::SeparationConstraint generates its vpsc constraint only in its own dimension, so in dimension d the solver sees the
   pair of that dimension, in this order.  cv = clusterVarId, ri = m_rectangle_index. *)
Definition gen_fixed_rect (d : dim) (cv ri : nat) (rects : list rect) : list sepc :=
  let half := Qred (rlen d (nth ri rects rect0) / 2) in
  [ mkSep cv ri half true;             (* boundaryVar + half == rect centre *)
    mkSep ri (S cv) half true ].       (* rect centre + half == boundaryVar+1 *)

(* what the list looks like when the LAST equality is only an inequality (documents what the equality flag is for) *)
Definition gen_fixed_rect_weak_max (d : dim) (cv ri : nat) (rects : list rect) : list sepc :=
  let half := Qred (rlen d (nth ri rects rect0) / 2) in
  [ mkSep cv ri half true; mkSep ri (S cv) half false ].

(* declarative: the cluster box [lo, hi] is exactly the extent of rectangle r in dimension d *)
Definition box_is_rect (d : dim) (lo hi : Q) (r : rect) : Prop := lo == rmin d r /\ hi == rmax d r.
(* ... up to t *)
Definition box_is_rect_eps (t : Q) (d : dim) (lo hi : Q) (r : rect) : Prop :=
  lo <= rmin d r + t /\ rmin d r <= lo + t /\ hi <= rmax d r + t /\ rmax d r <= hi + t.

(* member rectangle m, inflated by the padding, lies inside the container rectangle c in dimension d, up to t *)
Definition inside_rect_d (d : dim) (t : Q) (pad : box) (c m : rect) : Prop :=
  rmin d c <= rmin d m - bmin d pad + t /\ rmax d m + bmax d pad <= rmax d c + t.
Definition inside_rect (t : Q) (pad : box) (c m : rect) : Prop := inside_rect_d DX t pad c m /\ inside_rect_d DY t pad c m.
Definition members_inside_rect (t : Q) (pad : box) (rects : list rect) (ci : nat) (members : list nat) : Prop :=
  forall m, In m members -> inside_rect t pad (nth ci rects rect0) (nth m rects rect0).

(* executable checker for the V-runs *)
Definition inside_rect_db (d : dim) (t : Q) (pad : box) (c m : rect) : bool :=
  Qleb (rmin d c) (rmin d m - bmin d pad + t) && Qleb (rmax d m + bmax d pad) (rmax d c + t).
Definition inside_rectb (t : Q) (pad : box) (c m : rect) : bool := inside_rect_db DX t pad c m && inside_rect_db DY t pad c m.
Definition members_inside_rectb (t : Q) (pad : box) (rects : list rect) (ci : nat) (members : list nat) : bool :=
  forallb (fun m => inside_rectb t pad (nth ci rects rect0) (nth m rects rect0)) members.
