(* cola::PseudoRandom (cola/libcola/pseudorandom.{h,cpp}): a pure linear congruential generator.
   HAND-WRITTEN model (cpp2v refuses the mixed int / unsigned int arithmetic); tied to the code by the exact
   correspondence run of checks/c20.py (harness command P).  State = the member `seed` (unsigned int);
   a = 214013, c = 2531011, m = 2147483648 = 2^31, range = 32767. *)
From Adapt Require Import Num.Qaux.
Local Open Scope Z_scope.

Definition pr_a : Z := 214013.
Definition pr_c : Z := 2531011.
Definition pr_m : Z := 2147483648.
Definition pr_range : Z := 32767.

(* seed = (seed * a + c) % m, evaluated in unsigned 32-bit arithmetic *)
Definition lcg_next_c (seed : Z) : Z := (((seed * pr_a + pr_c) mod 4294967296) mod pr_m).
(* the same without the 32-bit wrap-around *)
Definition lcg_next (seed : Z) : Z := (seed * pr_a + pr_c) mod pr_m.
(* double getNext(): returns (seed >> 16) / range, and the new state *)
Definition getNext (seed : Z) : Z * Q :=
  let s := lcg_next_c seed in (s, (inject_Z (Z.shiftr s 16) / inject_Z pr_range)%Q).
Definition getNextBetween (seed : Z) (lo hi : Q) : Z * Q :=
  let '(s, v) := getNext seed in (s, (lo + v * (hi - lo))%Q).
Fixpoint stream (k : nat) (seed : Z) : list Q :=
  match k with O => [] | S k' => let '(s, v) := getNext seed in v :: stream k' s end.
