(* C08 - model of NonOverlapConstraints (cola/libcola/cc_nonoverlapconstraints.cpp): the bookkeeping of addShape /
   addCluster (:91-113, :138-166) and the pair loop of generateSeparationConstraints (:510-587).  No proofs here.
   vpsc::Rectangle (libvpsc/rectangle.h) is modelled with borders xBorder = yBorder = 0 (their value outside
   makeFeasible); double by Q. *)
From Adapt Require Import Num.Qaux Cola.CompoundCsModel.
Local Open Scope Q_scope.

Record rect := mkRect { rx : Q; rX : Q; ry : Q; rY : Q }.          (* minX maxX minY maxY *)
Record box := mkBox { bminx : Q; bmaxx : Q; bminy : Q; bmaxy : Q }. (* cola::Box m_min[X] m_max[X] m_min[Y] m_max[Y] *)
Definition rect0 : rect := mkRect 1 (-(1)) 1 (-(1)).                (* Rectangle(): invalid *)

Definition rmin (d : dim) (r : rect) : Q := match d with DX => rx r | DY => ry r end.
Definition rmax (d : dim) (r : rect) : Q := match d with DX => rX r | DY => rY r end.
Definition rlen (d : dim) (r : rect) : Q := rmax d r - rmin d r.
(* getCentreD: getMinD(d) + length(d)/2 *)
Definition rcentre (d : dim) (r : rect) : Q := rmin d r + rlen d r / 2.
Definition other (d : dim) : dim := match d with DX => DY | DY => DX end.
Definition bmin (d : dim) (b : box) : Q := match d with DX => bminx b | DY => bminy b end.
Definition bmax (d : dim) (b : box) : Q := match d with DX => bmaxx b | DY => bmaxy b end.

(* Rectangle::isValid rectangle.cpp:76 *)
Definition rvalid (r : rect) : bool := Qleb (rx r) (rX r) && Qleb (ry r) (rY r).
(* Box::rectangleByApplyingBox box.cpp:79-92 *)
Definition apply_box (b : box) (r : rect) : rect :=
  if rvalid r then mkRect (rx r - bminx b) (rX r + bmaxx b) (ry r - bminy b) (rY r + bmaxy b) else r.

(* Rectangle::overlapX / overlapY  rectangle.h:182-199 *)
Definition overlapD (d : dim) (u v : rect) : Q :=
  let uc := rcentre d u in let vc := rcentre d v in
  if Qleb uc vc && Qltb (rmin d v) (rmax d u) then rmax d u - rmin d v
  else if Qleb vc uc && Qltb (rmin d u) (rmax d v) then rmax d v - rmin d u
  else 0.

(* OverlapShapeOffsets: a node with its half sizes, or a cluster (bounds, margin(), child nodes) whose id is clusterVarId *)
Inductive shp :=
| Node (hw hh : Q)
| Clus (bounds : rect) (margin : box) (nodes : list nat).
Record sinfo := mkS { s_id : nat; s_shape : shp; s_group : nat }.

Definition nstate := (list sinfo * list (nat * nat))%type.   (* shapeOffsets (ascending id, a std::map), pairInfoList *)

Fixpoint put (x : sinfo) (l : list sinfo) : list sinfo :=
  match l with
  | [] => [x]
  | y :: t => if Nat.ltb (s_id x) (s_id y) then x :: l
              else if Nat.eqb (s_id x) (s_id y) then x :: t else y :: put x t
  end.
Definition mem (x : nat) (l : list nat) : bool := existsb (Nat.eqb x) l.
Definition npair (a b : nat) : nat * nat := (Nat.min a b, Nat.max a b).    (* ShapePairInfo / ShapePair ctor *)
Definition pmem (p : nat * nat) (l : list (nat * nat)) : bool :=
  existsb (fun q => Nat.eqb (fst p) (fst q) && Nat.eqb (snd p) (snd q)) l.

(* NonOverlapConstraints::addShape :91-113.  exg: m_exemptions' exempt pairs (normalised); ex: the exemptions argument *)
Definition add_shape (exg : list (nat * nat)) (st : nstate) (id : nat) (hw hh : Q) (group : nat) (ex : list nat) : nstate :=
  let '(offs, prs) := st in
  let new := flat_map (fun o =>
       if Nat.eqb (s_group o) group && negb (Nat.eqb id (s_id o)) && negb (mem (s_id o) ex)
          && negb (pmem (npair (s_id o) id) exg)
       then [npair (s_id o) id] else []) offs in
  (put (mkS id (Node hw hh) group) offs, prs ++ new).

(* NonOverlapConstraints::addCluster :138-166.  cex: m_cluster_cluster_exemptions *)
Definition add_cluster (cex : list (nat * nat)) (st : nstate) (id : nat) (bounds : rect) (margin : box) (nodes : list nat)
  (group : nat) : nstate :=
  let '(offs, prs) := st in
  let new := flat_map (fun o =>
       if Nat.eqb (s_group o) group && negb (mem (s_id o) nodes) && negb (pmem (npair id (s_id o)) cex)
       then [npair (s_id o) id] else []) offs in
  (put (mkS id (Clus bounds margin nodes) group) offs, prs ++ new).

Fixpoint lookup (id : nat) (l : list sinfo) : option shp :=
  match l with
  | [] => None
  | y :: t => if Nat.eqb id (s_id y) then Some (s_shape y) else lookup id t
  end.

(* per shape: (rectangle used for the centre, rectangle used for the overlap test, below, above, left var, right var) *)
Definition shape_data (d : dim) (id : nat) (s : shp) (rects : list rect) : rect * rect * Q * Q * nat * nat :=
  match s with
  | Node hw hh =>
      let r := nth id rects rect0 in
      let h := match d with DX => hw | DY => hh end in
      (r, r, h, h, id, id)
  | Clus bounds margin _ =>
      (bounds, apply_box margin bounds, bmin d margin, bmax d margin, id, S id)
  end.

Definition thr : Q := 5 # 10000.                           (* 0.0005 *)

(* the body of the loop :514-586 for one pair *)
Definition gen_pair (d : dim) (id1 id2 : nat) (s1 s2 : shp) (rects : list rect) : list sepc :=
  let '(c1, o1, below1, above1, l1, r1) := shape_data d id1 s1 rects in
  let '(c2, o2, below2, above2, l2, r2) := shape_data d id2 s2 rects in
  if Qltb thr (overlapD (other d) o1 o2) then
    if Qltb (rcentre d c1) (rcentre d c2) then [mkSep r1 l2 (Qred (above1 + below2)) false]
    else [mkSep r2 l1 (Qred (below1 + above2)) false]
  else [].

(* NonOverlapConstraints::generateSeparationConstraints :510-587; nv = vs.size().
   A pair whose shape was never added has a default OverlapShapeOffsets (operator[] inserts one): outside the domain -> error. *)
Fixpoint gen_nonoverlap_pairs (d : dim) (nv : nat) (offs : list sinfo) (rects : list rect) (prs : list (nat * nat))
  : genres (list sepc) :=
  match prs with
  | [] => GOk []
  | (i, j) :: t =>
      if Nat.ltb i nv && Nat.ltb j nv then
        match lookup i offs, lookup j offs with
        | Some s1, Some s2 =>
            match gen_nonoverlap_pairs d nv offs rects t with
            | GOk r => GOk (gen_pair d i j s1 s2 rects ++ r)
            | GErr e => GErr e
            end
        | _, _ => GErr InvalidConstraint
        end
      else GErr InvalidVariableIndex
  end.
Definition gen_nonoverlap (d : dim) (nv : nat) (st : nstate) (rects : list rect) : genres (list sepc) :=
  gen_nonoverlap_pairs d nv (fst st) rects (snd st).

(* ------------------------------------------------------------------ driving the bookkeeping: a script of calls *)
Inductive nop :=
| OpShape (id : nat) (hw hh : Q) (group : nat) (ex : list nat)
| OpCluster (id : nat) (bounds : rect) (margin : box) (nodes : list nat) (group : nat).
Definition run_op (exg cex : list (nat * nat)) (st : nstate) (o : nop) : nstate :=
  match o with
  | OpShape id hw hh g ex => add_shape exg st id hw hh g ex
  | OpCluster id b m ns g => add_cluster cex st id b m ns g
  end.
Definition run_ops (exg cex : list (nat * nat)) (ops : list nop) : nstate := fold_left (run_op exg cex) ops ([], []).

(* NonOverlapConstraintExemptions::addExemptGroupOfNodes :43-69 *)
Fixpoint all_pairs (l : list nat) : list (nat * nat) :=
  match l with
  | [] => []
  | x :: t => map (fun y => (x, y)) t ++ all_pairs t
  end.
Definition exempt_pairs (groups : list (list nat)) : list (nat * nat) :=
  flat_map (fun g => all_pairs (sort_uniq g)) groups.

(* ------------------------------------------------------------------ declarative layer *)
(* rectangles separated in dimension d up to an overlap of t *)
Definition sepd (d : dim) (t : Q) (a b : rect) : Prop := rmax d a <= rmin d b + t \/ rmax d b <= rmin d a + t.
Definition sep2 (t : Q) (a b : rect) : Prop := sepd DX t a b \/ sepd DY t a b.
(* Sep: every listed pair is separated by at least -t in x or in y *)
Definition Sep (t : Q) (prs : list (nat * nat)) (rects : list rect) : Prop :=
  forall i j, In (i, j) prs -> sep2 t (nth i rects rect0) (nth j rects rect0).
(* the overlap of two rectangles in one dimension *)
Definition true_overlap (d : dim) (a b : rect) : Q := Qmin' (rmax d a) (rmax d b) - Qmax' (rmin d a) (rmin d b).

(* the rectangle moved so that its centre in dimension d is c (same size, other dimension untouched):
   Rectangle::moveCentreD *)
Definition moved (d : dim) (r : rect) (c : Q) : rect :=
  match d with
  | DX => mkRect (c - rlen DX r / 2) (c + rlen DX r / 2) (ry r) (rY r)
  | DY => mkRect (rx r) (rX r) (c - rlen DY r / 2) (c + rlen DY r / 2)
  end.
Fixpoint move_from (d : dim) (k : nat) (rects : list rect) (v : val) : list rect :=
  match rects with
  | [] => []
  | r :: t => moved d r (v k) :: move_from d (S k) t v
  end.
Definition move_all (d : dim) (rects : list rect) (v : val) : list rect := move_from d 0 rects v.

(* executable checker for the V-runs *)
Definition sepdb (d : dim) (t : Q) (a b : rect) : bool :=
  Qleb (rmax d a) (rmin d b + t) || Qleb (rmax d b) (rmin d a + t).
Definition sep2b (t : Q) (a b : rect) : bool := sepdb DX t a b || sepdb DY t a b.
Definition Sepb (t : Q) (prs : list (nat * nat)) (rects : list rect) : bool :=
  forallb (fun p => sep2b t (nth (fst p) rects rect0) (nth (snd p) rects rect0)) prs.
