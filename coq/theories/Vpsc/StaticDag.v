(* static_no_throw_on_dag: on a constraint graph whose DFS order is topological, the merge pass of Solver::satisfy
   (Vpsc/StaticModel.v) leaves EVERY constraint with slack >= 0, so the closing scan cannot throw.
   Ingredients: the geometry of one merge (StaticGeom.v), heap order under lazily stale keys (StaticHeapOrd.v with the
   domination relation Rdom below), time-stamp bookkeeping, and the "most violated first" argument (G3 below). *)
From Adapt Require Import Num.Qaux Vpsc.VpscSpec Vpsc.VpscModel Vpsc.VpscInv Vpsc.VpscFrame Vpsc.VpscWalks Vpsc.VpscForest
  Vpsc.StaticModel Vpsc.StaticFrame Vpsc.StaticHeap Vpsc.StaticInv Vpsc.StaticInvB Vpsc.StaticHeapOrd Vpsc.StaticGeom.
From Coq Require Import Permutation.
Local Open Scope Q_scope.

(* ------------------------------------------------------------------ keys *)
(* the part of the state CompareConstraints reads *)
Definition ceqv (s s' : sst) : Prop := base s' = base s /\ ctime s' = ctime s /\ btime s' = btime s.
Lemma ceqv_refl s : ceqv s s. Proof. repeat split. Qed.
Lemma ceqv_trans a b c : ceqv a b -> ceqv b c -> ceqv a c.
Proof. intros [A [B C]] [D [E F]]. repeat split; congruence. Qed.
Lemma ceqv_sym a b : ceqv a b -> ceqv b a.
Proof. intros [A [B C]]. repeat split; congruence. Qed.
Lemma ceqv_snote_b s t : ceqv s (snote_b s t). Proof. destruct t; repeat split. Qed.
Lemma ceqv_snote_slack e s c z : ceqv s (snote_slack e s c z).
Proof. unfold snote_slack. destruct (_ && _); repeat split. Qed.
Lemma ceqv_set_heap s inn b h : ceqv s (set_heap s inn b h). Proof. destruct inn; repeat split. Qed.

Lemma skey_ceqv s s' x : ceqv s s' -> skey s' x = skey s x.
Proof. intros [A [B C]]. unfold skey, lblk, rblk, ctime_of, btime_of, sslack. rewrite A, B, C. reflexivity. Qed.
Lemma lblk_ceqv s s' x : ceqv s s' -> lblk s' x = lblk s x.
Proof. intros [A _]. unfold lblk. rewrite A. reflexivity. Qed.
Lemma rblk_ceqv s s' x : ceqv s s' -> rblk s' x = rblk s x.
Proof. intros [A _]. unfold rblk. rewrite A. reflexivity. Qed.

Definition Kof (s : sst) (Yb : nat -> Q) (x : nat) : Q :=
  match skey s x with
  | Some k => k
  | None => Yof (base s) (cr (con_of (base s) x)) - gap (con_of (base s) x) - Yb (cl (con_of (base s) x))
  end.
(* c dominates x: if c's key is current (not stale, not internal) it is <= the key / snapshot lower bound of x *)
Definition Rdom (s : sst) (Yb : nat -> Q) (c x : nat) : Prop :=
  skey s c <> None -> lblk s x <> rblk s x -> Kof s Yb c <= Kof s Yb x.

Lemma Kof_ceqv s s' Yb x : ceqv s s' -> Kof s' Yb x = Kof s Yb x.
Proof. intros E. unfold Kof. rewrite (skey_ceqv _ _ _ E). destruct E as [A _]. rewrite A. reflexivity. Qed.
Lemma Rdom_ceqv s s' Yb c x : ceqv s s' -> Rdom s Yb c x -> Rdom s' Yb c x.
Proof.
  intros E H. unfold Rdom. rewrite !(skey_ceqv _ _ _ E), (lblk_ceqv _ _ _ E), (rblk_ceqv _ _ _ E), !(Kof_ceqv _ _ _ _ E). exact H.
Qed.
Lemma hordh_ceqv s s' Yb h : ceqv s s' -> hordh (Rdom s Yb) h -> hordh (Rdom s' Yb) h.
Proof. intros E. apply hordh_impl. intros c x _ _. apply Rdom_ceqv. exact E. Qed.

Lemma cmp_less_true s a b : cmp_less s b a = true -> forall kb, skey s b = Some kb -> exists ka, skey s a = Some ka /\ kb <= ka.
Proof.
  unfold cmp_less. intros H kb Eb. rewrite Eb in H. destruct (skey s a) as [ka|]; cbn [key_eqb key_ltb] in H; [|discriminate].
  exists ka. split; [reflexivity|]. destruct (Qeqb kb ka) eqn:E; qb2p; lra.
Qed.
Lemma cmp_less_false s a b : cmp_less s b a = false -> forall ka, skey s a = Some ka -> exists kb, skey s b = Some kb /\ ka <= kb.
Proof.
  unfold cmp_less. intros H ka Ea. rewrite Ea in H. destruct (skey s b) as [kb|]; cbn [key_eqb key_ltb] in H; [|discriminate].
  exists kb. split; [reflexivity|]. destruct (Qeqb kb ka) eqn:E; qb2p; lra.
Qed.
Lemma Rdom_lt_true s Yb a b : cmp_less s b a = true -> Rdom s Yb b a /\ (forall x, Rdom s Yb a x -> Rdom s Yb b x).
Proof.
  intros H. split.
  - intros Nb _. destruct (skey s b) as [kb|] eqn:Eb; [|congruence].
    destruct (cmp_less_true s a b H kb Eb) as [ka [Ea L]]. unfold Kof. rewrite Ea, Eb. exact L.
  - intros x Rx Nb Ex. destruct (skey s b) as [kb|] eqn:Eb; [|congruence].
    destruct (cmp_less_true s a b H kb Eb) as [ka [Ea L]].
    assert (Na : skey s a <> None) by congruence. specialize (Rx Na Ex). unfold Kof in *. rewrite Ea in Rx. rewrite Eb. lra.
Qed.
Lemma Rdom_lt_false s Yb a b : cmp_less s b a = false -> Rdom s Yb a b /\ (forall x, Rdom s Yb b x -> Rdom s Yb a x).
Proof.
  intros H. split.
  - intros Na _. destruct (skey s a) as [ka|] eqn:Ea; [|congruence].
    destruct (cmp_less_false s a b H ka Ea) as [kb [Eb L]]. unfold Kof. rewrite Ea, Eb. exact L.
  - intros x Rx Na Ex. destruct (skey s a) as [ka|] eqn:Ea; [|congruence].
    destruct (cmp_less_false s a b H ka Ea) as [kb [Eb L]].
    assert (Nb : skey s b <> None) by congruence. specialize (Rx Nb Ex). unfold Kof in *. rewrite Eb in Rx. rewrite Ea. lra.
Qed.

(* ------------------------------------------------------------------ heap operations on states *)
Definition hgood (s : sst) (Yb : nat -> Q) (h : heap) : Prop := NoDup (heap_elems h) /\ hordh (Rdom s Yb) h.

Lemma s_insert_spec s Yb h c :
  hordh (Rdom s Yb) h ->
  let r := s_insert s h c in
  ceqv s (fst r) /\ ctr (fst r) = ctr s /\ heaps_eq s (fst r) /\
  hordh (Rdom (fst r) Yb) (snd r) /\ Permutation (heap_elems (snd r)) (c :: heap_elems h).
Proof.
  intros H. cbv zeta. unfold s_insert.
  pose proof (h_insert_hord (Rdom s Yb) (cmp_less s) (nr_of s) (Rdom_lt_true s Yb) (Rdom_lt_false s Yb) h c H) as O.
  pose proof (h_insert_perm (cmp_less s) (nr_of s) h c) as P.
  destruct (h_insert (cmp_less s) (nr_of s) h c) as [h' t]. cbn [fst snd] in *.
  split; [apply ceqv_snote_b|]. split; [destruct t; reflexivity|]. split; [apply heaps_eq_snote_b|].
  split; [apply (hordh_ceqv s); [apply ceqv_snote_b | exact O] | exact P].
Qed.
Lemma s_delete_min_spec s Yb h :
  hordh (Rdom s Yb) h ->
  let r := s_delete_min s h in
  ceqv s (fst r) /\ ctr (fst r) = ctr s /\ heaps_eq s (fst r) /\
  hordh (Rdom (fst r) Yb) (snd r) /\ Permutation (heap_elems (snd r)) (tl (heap_elems h)).
Proof.
  intros H. cbv zeta. unfold s_delete_min.
  pose proof (h_delete_min_hord (Rdom s Yb) (cmp_less s) (nr_of s) (Rdom_lt_true s Yb) (Rdom_lt_false s Yb) h H) as O.
  pose proof (h_delete_min_perm (cmp_less s) (nr_of s) h) as P.
  destruct (h_delete_min (cmp_less s) (nr_of s) h) as [h' t]. cbn [fst snd] in *.
  split; [apply ceqv_snote_b|]. split; [destruct t; reflexivity|]. split; [apply heaps_eq_snote_b|].
  split; [apply (hordh_ceqv s); [apply ceqv_snote_b | exact O] | exact P].
Qed.
Lemma s_merge_spec s Yb h g :
  hordh (Rdom s Yb) h -> hordh (Rdom s Yb) g ->
  let r := s_merge s h g in
  ceqv s (fst r) /\ ctr (fst r) = ctr s /\ heaps_eq s (fst r) /\
  hordh (Rdom (fst r) Yb) (snd r) /\ Permutation (heap_elems (snd r)) (heap_elems h ++ heap_elems g).
Proof.
  intros H G. cbv zeta. unfold s_merge.
  pose proof (h_merge_hord (Rdom s Yb) (cmp_less s) (nr_of s) (Rdom_lt_true s Yb) (Rdom_lt_false s Yb) h g H G) as O.
  pose proof (h_merge_perm (cmp_less s) (nr_of s) h g) as P.
  destruct (h_merge (cmp_less s) (nr_of s) h g) as [h' t]. cbn [fst snd] in *.
  split; [apply ceqv_snote_b|]. split; [destruct t; reflexivity|]. split; [apply heaps_eq_snote_b|].
  split; [apply (hordh_ceqv s); [apply ceqv_snote_b | exact O] | exact P].
Qed.

(* time stamps *)
Definition T1 (s : sst) : Prop := forall c, (ctime_of s c <= ctr s)%nat.
Definition T2 (s : sst) : Prop := forall B, (btime_of s B <= ctr s)%nat.

(* a state that differs from s only in the time stamp of constraint v *)
Lemma skey_set_ctime_other s v t x : x <> v -> skey (set_ctime_of s v t) x = skey s x.
Proof.
  intros N. unfold skey, lblk, rblk, ctime_of, btime_of, sslack, set_ctime_of. cbn [base ctime btime set_ctime].
  rewrite nth_upd_nth_neq by congruence. reflexivity.
Qed.
Lemma Rdom_set_ctime_other s Yb v t c x : c <> v -> x <> v -> Rdom s Yb c x -> Rdom (set_ctime_of s v t) Yb c x.
Proof.
  intros Nc Nx H. unfold Rdom, Kof. rewrite !(skey_set_ctime_other s v t) by assumption. exact H.
Qed.
Lemma hordh_set_ctime_other s Yb v t h : ~ In v (heap_elems h) -> hordh (Rdom s Yb) h -> hordh (Rdom (set_ctime_of s v t) Yb) h.
Proof.
  intros N. apply hordh_impl. intros c x Hc Hx. apply Rdom_set_ctime_other; intros ->; contradiction.
Qed.

Lemma NoDup_app_disj {A} (l l' : list A) : NoDup (l ++ l') -> forall x, In x l -> In x l' -> False.
Proof.
  induction l as [|a t IH]; intros ND x Hx Hx'; [destruct Hx|]. cbn [app] in ND. inversion ND as [|? ? N ND']. subst.
  destruct Hx as [<-|Hx]; [apply N; rewrite in_app_iff; right; exact Hx' | exact (IH ND' x Hx Hx')].
Qed.
Lemma NoDup_app_l {A} (l l' : list A) : NoDup (l ++ l') -> NoDup l.
Proof.
  induction l as [|a t IH]; intros ND; [constructor|]. cbn [app] in ND. inversion ND as [|? ? N ND']. subst.
  constructor; [intros H; apply N; rewrite in_app_iff; left; exact H | exact (IH ND')].
Qed.
Lemma NoDup_app_r {A} (l l' : list A) : NoDup (l ++ l') -> NoDup l'.
Proof. induction l as [|a t IH]; intros ND; [exact ND|]. cbn [app] in ND. inversion ND. subst. auto. Qed.

(* ------------------------------------------------------------------ findMinInConstraint *)
Lemma skey_some s v : Nat.eqb (lblk s v) (rblk s v) = false -> Nat.ltb (ctime_of s v) (btime_of s (lblk s v)) = false ->
  skey s v <> None.
Proof. intros A B. unfold skey. rewrite A, B. cbn. discriminate. Qed.
Lemma skey_some_inv s v : skey s v <> None ->
  lblk s v <> rblk s v /\ (btime_of s (lblk s v) <= ctime_of s v)%nat.
Proof.
  unfold skey. destruct (Nat.ltb _ _) eqn:A; cbn [orb]; [congruence|]. destruct (Nat.eqb _ _) eqn:B; [congruence|].
  intros _. apply Nat.eqb_neq in B. apply Nat.ltb_ge in A. split; assumption.
Qed.

Lemma fmi_loop_good Yb : forall fuel s h ood s' h' ood',
  fmi_loop fuel s h ood = Ok (s', h', ood') ->
  hordh (Rdom s Yb) h -> NoDup (heap_elems h ++ ood) ->
  (forall v, In v ood -> lblk s v <> rblk s v) ->
  ceqv s s' /\ ctr s' = ctr s /\ heaps_eq s s' /\
  hordh (Rdom s' Yb) h' /\ NoDup (heap_elems h' ++ ood') /\
  (forall x, In x (heap_elems h' ++ ood') -> In x (heap_elems h ++ ood)) /\
  (forall x, In x (heap_elems h ++ ood) -> lblk s x <> rblk s x -> In x (heap_elems h' ++ ood')) /\
  (forall v, In v ood' -> lblk s v <> rblk s v) /\
  (forall v, heap_min h' = Some v -> skey s v <> None).
Proof.
  induction fuel as [|f IH]; intros s h ood s' h' ood' H HO ND HE; [discriminate|].
  cbn [fmi_loop] in H. destruct h as [[v kids]|].
  2:{ inversion H. subst. split; [apply ceqv_refl|]. split; [reflexivity|]. split; [apply heaps_eq_refl|].
      repeat split; auto. intros v E. discriminate. }
  set (h := Some (PH v kids)) in *.
  destruct (s_delete_min_spec s Yb h HO) as [C1 [C2 [C3 [C4 C5]]]]. cbv zeta in *.
  assert (Eh : heap_elems h = v :: lelems kids) by reflexivity. rewrite Eh in C5. cbn [tl] in C5.
  destruct (Nat.eqb (lblk s v) (rblk s v)) eqn:EQ.
  - destruct (s_delete_min s h) as [s1 h1] eqn:E. cbn [fst snd] in *.
    destruct (IH _ _ _ _ _ _ H C4) as [A1 [A2 [A3 [A4 [A5 [A6 [A7 [A8 A9]]]]]]]].
    + rewrite Eh in ND. cbn [app] in ND. inversion ND. subst.
      apply (Permutation_NoDup (l := lelems kids ++ ood)); [|assumption]. apply Permutation_app_tail. apply Permutation_sym. exact C5.
    + intros w Hw. rewrite (lblk_ceqv _ _ _ C1), (rblk_ceqv _ _ _ C1). apply HE, Hw.
    + split; [apply (ceqv_trans _ s1); assumption|]. split; [congruence|]. split; [apply (heaps_eq_trans _ s1); assumption|].
      split; [exact A4|]. split; [exact A5|]. split; [|split; [|split]].
      * intros x Hx. apply A6 in Hx. rewrite Eh. cbn [app]. right. rewrite in_app_iff in *. destruct Hx as [Hx|Hx]; [left|right; exact Hx].
        apply (Permutation_in _ C5). exact Hx.
      * intros x Hx Ex. apply A7.
        -- rewrite Eh in Hx. cbn [app] in Hx. destruct Hx as [<-|Hx]; [apply Nat.eqb_eq in EQ; contradiction|].
           rewrite in_app_iff in *. destruct Hx as [Hx|Hx]; [left|right; exact Hx]. apply (Permutation_in _ (Permutation_sym C5)). exact Hx.
        -- rewrite (lblk_ceqv _ _ _ C1), (rblk_ceqv _ _ _ C1). exact Ex.
      * intros w Hw. specialize (A8 w Hw). rewrite (lblk_ceqv _ _ _ C1), (rblk_ceqv _ _ _ C1) in A8. exact A8.
      * intros w Hw. specialize (A9 w Hw). rewrite (skey_ceqv _ _ _ C1) in A9. exact A9.
  - destruct (Nat.ltb (ctime_of s v) (btime_of s (lblk s v))) eqn:LT.
    + destruct (s_delete_min s h) as [s1 h1] eqn:E. cbn [fst snd] in *.
      assert (Ev : lblk s v <> rblk s v) by (apply Nat.eqb_neq; exact EQ).
      destruct (IH _ _ _ _ _ _ H C4) as [A1 [A2 [A3 [A4 [A5 [A6 [A7 [A8 A9]]]]]]]].
      * rewrite Eh in ND. cbn [app] in ND.
        apply (Permutation_NoDup (l := v :: lelems kids ++ ood)); [|assumption].
        rewrite app_assoc. eapply Permutation_trans; [apply Permutation_cons_append|].
        apply Permutation_app_tail. apply Permutation_app_tail. apply Permutation_sym. exact C5.
      * intros w Hw. rewrite (lblk_ceqv _ _ _ C1), (rblk_ceqv _ _ _ C1). apply in_app_or in Hw.
        destruct Hw as [Hw|[<-|[]]]; [apply HE, Hw | exact Ev].
      * split; [apply (ceqv_trans _ s1); assumption|]. split; [congruence|]. split; [apply (heaps_eq_trans _ s1); assumption|].
        split; [exact A4|]. split; [exact A5|]. split; [|split; [|split]].
        -- intros x Hx. apply A6 in Hx. rewrite Eh. cbn [app In]. rewrite !in_app_iff in Hx. cbn [In] in Hx. rewrite in_app_iff.
           destruct Hx as [Hx|[Hx|[Hx|[]]]]; [right; left; apply (Permutation_in _ C5); exact Hx | right; right; exact Hx | left; exact Hx].
        -- intros x Hx Ex. apply A7.
           ++ rewrite Eh in Hx. cbn [app In] in Hx. rewrite !in_app_iff. cbn [In]. rewrite in_app_iff in Hx.
              destruct Hx as [<-|[Hx|Hx]]; [right; right; left; reflexivity | left; apply (Permutation_in _ (Permutation_sym C5)); exact Hx | right; left; exact Hx].
           ++ rewrite (lblk_ceqv _ _ _ C1), (rblk_ceqv _ _ _ C1). exact Ex.
        -- intros w Hw. specialize (A8 w Hw). rewrite (lblk_ceqv _ _ _ C1), (rblk_ceqv _ _ _ C1) in A8. exact A8.
        -- intros w Hw. specialize (A9 w Hw). rewrite (skey_ceqv _ _ _ C1) in A9. exact A9.
    + inversion H. subst. split; [apply ceqv_refl|]. split; [reflexivity|]. split; [apply heaps_eq_refl|].
      split; [exact HO|]. split; [exact ND|]. split; [auto|]. split; [auto|]. split; [exact HE|].
      intros w Hw. cbn in Hw. inversion Hw. subst w. apply skey_some; assumption.
Qed.

Lemma ctime_of_set_ctime_of s v t x :
  ctime_of (set_ctime_of s v t) x = if Nat.eqb x v && Nat.ltb v (length (ctime s)) then t else ctime_of s x.
Proof.
  unfold ctime_of, set_ctime_of. cbn [ctime set_ctime].
  destruct (Nat.eqb x v) eqn:E; cbn [andb].
  - apply Nat.eqb_eq in E. subst x. destruct (Nat.ltb v (length (ctime s))) eqn:L.
    + apply Nat.ltb_lt in L. apply nth_upd_nth_eq. exact L.
    + apply Nat.ltb_ge in L. rewrite !nth_overflow; [reflexivity | exact L | rewrite upd_nth_length; exact L].
  - apply Nat.eqb_neq in E. apply nth_upd_nth_neq. congruence.
Qed.

Lemma reinsert_fold_good Yb : forall ood s h s2 h2,
  fold_left reinsert ood (s, h) = (s2, h2) ->
  hordh (Rdom s Yb) h -> NoDup (heap_elems h ++ ood) ->
  (forall v, In v ood -> (v < length (ctime s))%nat) ->
  base s2 = base s /\ btime s2 = btime s /\ ctr s2 = ctr s /\ heaps_eq s s2 /\ length (ctime s2) = length (ctime s) /\
  (forall x, (~ In x ood -> ctime_of s2 x = ctime_of s x) /\ (In x ood -> ctime_of s2 x = ctr s)) /\
  hordh (Rdom s2 Yb) h2 /\ Permutation (heap_elems h2) (heap_elems h ++ ood).
Proof.
  induction ood as [|v t IH]; intros s h s2 h2 H HO ND HL; cbn [fold_left] in H.
  - inversion H. subst. repeat split; auto using heaps_eq_refl. intros []. rewrite app_nil_r. apply Permutation_refl.
  - unfold reinsert at 2 in H.
    set (s0 := set_ctime_of s v (ctr s)) in *.
    assert (Nv : ~ In v (heap_elems h)).
    { intros Hv. apply NoDup_remove_2 in ND. apply ND. rewrite in_app_iff. left. exact Hv. }
    assert (Nvt : ~ In v t).
    { intros Hv. apply NoDup_remove_2 in ND. apply ND. rewrite in_app_iff. right. exact Hv. }
    pose proof (hordh_set_ctime_other s Yb v (ctr s) h Nv HO) as HO0. fold s0 in HO0.
    destruct (s_insert_spec s0 Yb h v HO0) as [C1 [C2 [C3 [C4 C5]]]]. cbv zeta in *.
    destruct (s_insert s0 h v) as [s1 h1] eqn:E. cbn [fst snd] in *.
    assert (L0 : length (ctime s0) = length (ctime s)) by (cbn; apply upd_nth_length).
    assert (L1 : length (ctime s1) = length (ctime s)) by (destruct C1 as [_ [C1 _]]; rewrite C1; exact L0).
    destruct (IH _ _ _ _ H C4) as [A1 [A2 [A3 [A4 [A4' [A5 [A6 A7]]]]]]].
    + apply (Permutation_NoDup (l := v :: heap_elems h ++ t)).
      * apply Permutation_app_tail with (tl := t) in C5. apply Permutation_sym. exact C5.
      * apply (Permutation_NoDup (l := heap_elems h ++ v :: t)); [|exact ND]. apply Permutation_sym, Permutation_middle.
    + intros w Hw. rewrite L1. apply HL. right. exact Hw.
    + destruct C1 as [B1 [B2 B3]].
      split; [rewrite A1, B1; reflexivity|]. split; [rewrite A2, B3; reflexivity|]. split; [rewrite A3, C2; reflexivity|].
      split; [apply (heaps_eq_trans _ s1); [|exact A4]; destruct C3 as [X Y]; split; [exact X | exact Y]|].
      split; [congruence|]. split; [|split].
      * intros x. destruct (A5 x) as [P1 P2].
        assert (E1 : ctime_of s1 x = ctime_of s0 x) by (unfold ctime_of; rewrite B2; reflexivity).
        assert (Lv : Nat.ltb v (length (ctime s)) = true) by (apply Nat.ltb_lt, HL; left; reflexivity).
        split.
        -- intros Hx. rewrite P1 by (intros Y; apply Hx; right; exact Y). rewrite E1. unfold s0. rewrite ctime_of_set_ctime_of.
           destruct (Nat.eqb x v) eqn:EV; [apply Nat.eqb_eq in EV; subst x; exfalso; apply Hx; left; reflexivity | reflexivity].
        -- intros [<-|Hx].
           ++ rewrite P1 by exact Nvt. rewrite E1. unfold s0. rewrite ctime_of_set_ctime_of, Nat.eqb_refl, Lv. reflexivity.
           ++ rewrite (P2 Hx). rewrite C2. reflexivity.
      * exact A6.
      * eapply Permutation_trans; [exact A7|]. eapply Permutation_trans; [apply Permutation_app_tail; exact C5|].
        cbn [app]. apply Permutation_middle.
Qed.

Lemma find_min_in_good Yb s b h s' c :
  T2 s -> bin_of s b = Some h -> hgood s Yb h ->
  (forall x, In x (heap_elems h) -> (x < length (ctime s))%nat) ->
  find_min_in s b = Ok (s', c) ->
  exists h', bin_of s' b = Some h' /\ hgood s' Yb h' /\ heap_min h' = c /\
    (forall x, In x (heap_elems h') -> In x (heap_elems h)) /\
    (forall x, In x (heap_elems h) -> lblk s x <> rblk s x -> In x (heap_elems h')) /\
    (forall c0, c = Some c0 -> skey s' c0 <> None) /\
    base s' = base s /\ btime s' = btime s /\ ctr s' = ctr s /\ length (ctime s') = length (ctime s) /\
    (forall x, ctime_of s' x = ctime_of s x \/ (In x (heap_elems h) /\ ctime_of s' x = ctr s)) /\
    (forall inn' b', (inn' = true /\ b' = b) \/ heap_of s' inn' b' = heap_of s inn' b').
Proof.
  intros HT2 Hb [ND HO] HL H. unfold find_min_in in H. rewrite Hb in H.
  apply bind_ok in H. destruct H as [[[s1 h1] ood] [H1 H2]].
  destruct (fmi_loop_good Yb _ _ _ _ _ _ _ H1 HO) as [A1 [A2 [A3 [A4 [A5 [A6 [A7 [A8 A9]]]]]]]].
  { rewrite app_nil_r. exact ND. } { intros v []. }
  destruct (fold_left reinsert ood (s1, h1)) as [s2 h2] eqn:E2.
  pose proof A1 as [B1 [B2 B3]].
  destruct (reinsert_fold_good Yb _ _ _ _ _ E2 A4 A5) as [C1 [C2 [C3 [C4 [C4' [C5 [C6 C7]]]]]]].
  { intros v Hv. rewrite B2. apply HL. specialize (A6 v). rewrite app_nil_r in A6. apply A6. rewrite in_app_iff. right. exact Hv. }
  destruct (reinsert_fold_spec _ _ _ _ _ E2) as [_ [_ [_ D2]]].
  assert (Es : s' = set_heap s2 true b (Some h2)) by congruence.
  assert (Ec : c = heap_min h2) by congruence. subst s' c. clear H2.
  assert (Q : heaps_eq s s2) by (apply (heaps_eq_trans _ s1); assumption).
  assert (CE : ceqv s2 (set_heap s2 true b (Some h2))) by apply ceqv_set_heap.
  exists h2. split.
  { change (heap_of (set_heap s2 true b (Some h2)) true b = Some h2). apply (heap_of_set_heap_same _ _ _ _ h).
    rewrite (heaps_eq_heap_of s s2 true b Q). exact Hb. }
  split.
  { split.
    - apply (Permutation_NoDup (l := heap_elems h1 ++ ood)); [apply Permutation_sym; exact C7 | exact A5].
    - apply (hordh_ceqv s2); [exact CE | exact C6]. }
  split; [reflexivity|].
  assert (In2 : forall x, In x (heap_elems h2) <-> In x (heap_elems h1 ++ ood)).
  { intros x. split; intros Hx; [apply (Permutation_in _ C7) | apply (Permutation_in _ (Permutation_sym C7))]; exact Hx. }
  split.
  { intros x Hx. apply In2, A6 in Hx. rewrite app_nil_r in Hx. exact Hx. }
  split.
  { intros x Hx Ex. apply In2, A7; [rewrite app_nil_r; exact Hx | exact Ex]. }
  split.
  { intros c0 Ec0. rewrite (skey_ceqv _ _ _ CE).
    assert (LR : lblk s2 c0 = lblk s c0 /\ rblk s2 c0 = rblk s c0 /\ btime_of s2 (lblk s c0) = btime_of s (lblk s c0)).
    { unfold lblk, rblk, btime_of. rewrite C1, C2, B1, B3. auto. }
    destruct LR as [LR1 [LR2 LR3]].
    destruct (D2 c0 Ec0) as [Y|Y].
    - assert (Ex : lblk s c0 <> rblk s c0) by (apply A8; exact Y).
      apply skey_some; [rewrite LR1, LR2; apply Nat.eqb_neq; exact Ex|].
      apply Nat.ltb_ge. rewrite LR1, LR3. rewrite (proj2 (C5 c0) Y), A2. apply HT2.
    - pose proof (A9 c0 Y) as K. apply skey_some_inv in K. destruct K as [K1 K2].
      apply skey_some; [rewrite LR1, LR2; apply Nat.eqb_neq; exact K1|].
      apply Nat.ltb_ge. rewrite LR1, LR3.
      assert (Nin : ~ In c0 ood).
      { intros Y'. apply heap_min_in in Y. exact (NoDup_app_disj _ _ A5 c0 Y Y'). }
      rewrite (proj1 (C5 c0) Nin). unfold ctime_of. rewrite B2. exact K2. }
  split; [rewrite base_set_heap; congruence|].
  split; [change (btime s2 = btime s); congruence|].
  split; [change (ctr s2 = ctr s); congruence|].
  split; [change (length (ctime s2) = length (ctime s)); congruence|].
  split.
  { intros x. change (ctime_of (set_heap s2 true b (Some h2)) x) with (ctime_of s2 x).
    destruct (in_dec Nat.eq_dec x ood) as [Hx|Hx].
    - right. split; [|rewrite (proj2 (C5 x) Hx); exact A2].
      specialize (A6 x). rewrite app_nil_r in A6. apply A6. rewrite in_app_iff. right. exact Hx.
    - left. rewrite (proj1 (C5 x) Hx). unfold ctime_of. rewrite B2. reflexivity. }
  intros inn' b'. destruct (heap_of_set_heap s2 true b (Some h2) inn' b') as [X|[X1 [X2 _]]]; [|left; auto].
  right. rewrite X. apply heaps_eq_heap_of. exact Q.
Qed.

(* ------------------------------------------------------------------ deleteMin, mergeIn *)
Lemma skey_frame s s' x :
  base s' = base s -> btime s' = btime s -> ctime_of s' x = ctime_of s x -> skey s' x = skey s x.
Proof.
  intros A B C. unfold skey, lblk, rblk, btime_of, sslack. rewrite C, A, B. reflexivity.
Qed.
Lemma hordh_same_keys s s' Yb h :
  base s' = base s -> btime s' = btime s -> (forall x, In x (heap_elems h) -> ctime_of s' x = ctime_of s x) ->
  hordh (Rdom s Yb) h -> hordh (Rdom s' Yb) h.
Proof.
  intros A B C. apply hordh_impl. intros c x Hc Hx R. unfold Rdom, Kof, lblk, rblk in *.
  rewrite (skey_frame s s' c A B (C c Hc)), (skey_frame s s' x A B (C x Hx)), A. exact R.
Qed.

Lemma NoDup_tl {A} (l : list A) : NoDup l -> NoDup (tl l).
Proof. destruct l; intros H; [exact H | inversion H; assumption]. Qed.

Lemma delete_min_good Yb s b h s' :
  bin_of s b = Some h -> hgood s Yb h -> delete_min true s b = Ok s' ->
  exists h', bin_of s' b = Some h' /\ hgood s' Yb h' /\ Permutation (heap_elems h') (tl (heap_elems h)) /\
    ceqv s s' /\ ctr s' = ctr s /\
    (forall inn' b', (inn' = true /\ b' = b) \/ heap_of s' inn' b' = heap_of s inn' b').
Proof.
  intros Hb [ND HO] H. unfold delete_min in H. cbn [heap_of] in H. rewrite Hb in H.
  destruct (s_delete_min_spec s Yb h HO) as [C1 [C2 [C3 [C4 C5]]]]. cbv zeta in *.
  destruct (s_delete_min s h) as [s1 h1] eqn:E. cbn [fst snd] in *.
  assert (Es : s' = set_heap s1 true b (Some h1)) by congruence. subst s'. clear H.
  assert (CE : ceqv s1 (set_heap s1 true b (Some h1))) by apply ceqv_set_heap.
  exists h1. split.
  { change (heap_of (set_heap s1 true b (Some h1)) true b = Some h1). apply (heap_of_set_heap_same _ _ _ _ h).
    rewrite (heaps_eq_heap_of s s1 true b C3). exact Hb. }
  split.
  { split; [apply (Permutation_NoDup (l := tl (heap_elems h))); [apply Permutation_sym; exact C5 | apply NoDup_tl; exact ND]|].
    apply (hordh_ceqv s1); assumption. }
  split; [exact C5|]. split; [apply (ceqv_trans _ s1); assumption|]. split; [exact C2|].
  intros inn' b'. destruct (heap_of_set_heap s1 true b (Some h1) inn' b') as [X|[X1 [X2 _]]]; [|left; auto].
  right. rewrite X. apply heaps_eq_heap_of. exact C3.
Qed.

Lemma merge_heaps_good Yb s r l hr hl s' :
  r <> l -> T2 s -> bin_of s r = Some hr -> bin_of s l = Some hl ->
  hordh (Rdom s Yb) hr -> hordh (Rdom s Yb) hl -> NoDup (heap_elems hr ++ heap_elems hl) ->
  (forall x, In x (heap_elems hr ++ heap_elems hl) -> (x < length (ctime s))%nat) ->
  merge_heaps true s r l = Ok s' ->
  exists h', bin_of s' r = Some h' /\ bin_of s' l = Some None /\ hgood s' Yb h' /\
    (forall x, In x (heap_elems h') -> In x (heap_elems hr ++ heap_elems hl)) /\
    (forall x, In x (heap_elems hr ++ heap_elems hl) -> lblk s x <> rblk s x -> In x (heap_elems h')) /\
    base s' = base s /\ btime s' = btime s /\ ctr s' = ctr s /\ length (ctime s') = length (ctime s) /\
    (forall x, ctime_of s' x = ctime_of s x \/ (In x (heap_elems hr ++ heap_elems hl) /\ ctime_of s' x = ctr s)) /\
    (forall inn' b', (inn' = true /\ (b' = r \/ b' = l)) \/ heap_of s' inn' b' = heap_of s inn' b').
Proof.
  intros Hne HT2 Hr Hl Or Ol ND HL H. unfold merge_heaps in H.
  apply bind_ok in H. destruct H as [[s1 c1] [H1 H]].
  apply bind_ok in H. destruct H as [[s2 c2] [H2 H]]. cbn [fst] in *.
  pose proof (NoDup_app_l _ _ ND) as NDr. pose proof (NoDup_app_r _ _ ND) as NDl.
  destruct (find_min_in_good Yb s r hr s1 c1 HT2 Hr (conj NDr Or)) as
    [hr1 [R1 [[R2 R3] [_ [R4 [R5 [_ [R6 [R7 [R8 [R8' [R9 R10]]]]]]]]]]]].
  { intros x Hx. apply HL. rewrite in_app_iff. left. exact Hx. } { exact H1. }
  assert (HT2' : T2 s1) by (intros B; unfold btime_of; rewrite R7, R8; apply HT2).
  assert (Hl1 : bin_of s1 l = Some hl).
  { destruct (R10 true l) as [[_ X]|X]; [congruence|]. cbn [heap_of] in X. congruence. }
  assert (Ol1 : hordh (Rdom s1 Yb) hl).
  { apply (hordh_same_keys s); [exact R6 | exact R7 | | exact Ol].
    intros x Hx. destruct (R9 x) as [E|[Y _]]; [exact E|]. exfalso. exact (NoDup_app_disj _ _ ND x Y Hx). }
  destruct (find_min_in_good Yb s1 l hl s2 c2 HT2' Hl1 (conj NDl Ol1)) as
    [hl2 [L1 [[L2 L3] [_ [L4 [L5 [_ [L6 [L7 [L8 [L8' [L9 L10]]]]]]]]]]]].
  { intros x Hx. rewrite R8'. apply HL. rewrite in_app_iff. right. exact Hx. } { exact H2. }
  assert (Hr2 : bin_of s2 r = Some hr1).
  { destruct (L10 true r) as [[_ X]|X]; [congruence|]. cbn [heap_of] in X. congruence. }
  assert (Or2 : hordh (Rdom s2 Yb) hr1).
  { apply (hordh_same_keys s1); [exact L6 | exact L7 | | exact R3].
    intros x Hx. destruct (L9 x) as [E|[Y _]]; [exact E|]. exfalso. exact (NoDup_app_disj _ _ ND x (R4 x Hx) Y). }
  cbn [heap_of] in H. rewrite Hr2, L1 in H.
  destruct (s_merge_spec s2 Yb hr1 hl2 Or2 L3) as [M1 [M2 [M3 [M4 M5]]]]. cbv zeta in *.
  destruct (s_merge s2 hr1 hl2) as [s3 h] eqn:E. cbn [fst snd] in *.
  assert (Es : s' = set_heap (set_heap s3 true r (Some h)) true l (Some None)) by congruence. subst s'. clear H.
  set (s4 := set_heap s3 true r (Some h)) in *.
  assert (C34 : ceqv s3 s4) by apply ceqv_set_heap.
  assert (C45 : ceqv s4 (set_heap s4 true l (Some None))) by apply ceqv_set_heap.
  assert (B4r : bin_of s4 r = Some h).
  { change (heap_of (set_heap s3 true r (Some h)) true r = Some h). apply (heap_of_set_heap_same _ _ _ _ hr1).
    rewrite (heaps_eq_heap_of s2 s3 true r M3). exact Hr2. }
  assert (B4l : bin_of s4 l = Some hl2).
  { destruct (heap_of_set_heap s3 true r (Some h) true l) as [X|[_ [X _]]]; [|congruence].
    change (bin_of s4 l) with (heap_of s4 true l). unfold s4. rewrite X, (heaps_eq_heap_of s2 s3 true l M3). exact L1. }
  assert (In5 : forall x, In x (heap_elems h) <-> In x (heap_elems hr1 ++ heap_elems hl2)).
  { intros x. split; intros Hx; [apply (Permutation_in _ M5) | apply (Permutation_in _ (Permutation_sym M5))]; exact Hx. }
  exists h. split.
  { destruct (heap_of_set_heap s4 true l (Some None) true r) as [X|[_ [X _]]]; [|congruence].
    change (heap_of (set_heap s4 true l (Some None)) true r = Some h). rewrite X. exact B4r. }
  split.
  { change (heap_of (set_heap s4 true l (Some None)) true l = Some None). apply (heap_of_set_heap_same _ _ _ _ hl2). exact B4l. }
  split.
  { split.
    - apply (Permutation_NoDup (l := heap_elems hr1 ++ heap_elems hl2)); [apply Permutation_sym; exact M5|].
      apply NoDup_app_disjoint; [exact R2 | exact L2|]. intros a Ha Hb. exact (NoDup_app_disj _ _ ND a (R4 a Ha) (L4 a Hb)).
    - apply (hordh_ceqv s4); [exact C45|]. apply (hordh_ceqv s3); [exact C34 | exact M4]. }
  split.
  { intros x Hx. apply In5 in Hx. rewrite in_app_iff in *. destruct Hx as [Hx|Hx]; [left; apply R4 | right; apply L4]; exact Hx. }
  split.
  { intros x Hx Ex. apply In5. rewrite in_app_iff in *. destruct Hx as [Hx|Hx]; [left; apply R5; assumption|].
    right. apply L5; [exact Hx|]. unfold lblk, rblk. rewrite R6. exact Ex. }
  destruct M1 as [N1 [N2 N3]].
  split; [rewrite base_set_heap; unfold s4; rewrite base_set_heap; congruence|].
  split; [change (btime s3 = btime s); congruence|].
  split; [change (ctr s3 = ctr s); congruence|].
  split; [change (length (ctime s3) = length (ctime s)); congruence|].
  split.
  { intros x. change (ctime_of (set_heap s4 true l (Some None)) x) with (ctime_of s3 x).
    assert (E3 : ctime_of s3 x = ctime_of s2 x) by (unfold ctime_of; rewrite N2; reflexivity). rewrite E3.
    destruct (L9 x) as [E0|[Y E0]].
    - rewrite E0. destruct (R9 x) as [E'|[Y' E']]; [left; exact E'|]. right. split; [rewrite in_app_iff; left; exact Y' | exact E'].
    - right. split; [rewrite in_app_iff; right; exact Y | congruence]. }
  intros inn' b'.
  destruct (heap_of_set_heap s4 true l (Some None) inn' b') as [X|[X1 [X2 _]]]; [|left; auto].
  destruct (heap_of_set_heap s3 true r (Some h) inn' b') as [Y|[Y1 [Y2 _]]]; [|left; auto].
  fold s4 in Y. rewrite X, Y, (heaps_eq_heap_of s2 s3 inn' b' M3).
  destruct (L10 inn' b') as [[Z1 Z2]|Z]; [left; auto|]. rewrite Z.
  destruct (R10 inn' b') as [[Z1 Z2]|Z']; [left; auto|]. right. exact Z'.
Qed.

(* ------------------------------------------------------------------ one merge across a violated constraint *)
Lemma slack_Y' b c : wf_vars (svars b) ->
  slack_val b c == Yof b (cr (con_of b c)) - gap (con_of b c) - Yof b (cl (con_of b c)).
Proof.
  intros W. apply slack_Y; unfold var_of.
  - destruct (vget_pos' (svars b) (cl (con_of b c)) W) as [_ P]. lra.
  - destruct (vget_pos' (svars b) (cr (con_of b c)) W) as [_ P]. lra.
Qed.

Definition mdist (b : st) (c : nat) : Q :=
  off_of b (cr (con_of b c)) - off_of b (cl (con_of b c)) - gap (con_of b c).

Lemma merge_shift b c (sw : bool) :
  book b -> wf_vars (svars b) -> all_blk_ok b -> (c < length (scons b))%nat ->
  let r := blk_of b (cr (con_of b c)) in
  let l := blk_of b (cl (con_of b c)) in
  l <> r -> slack_val b c < 0 ->
  let b' := merge_into b (if sw then l else r) (if sw then r else l) c (if sw then - mdist b c else mdist b c) in
  exists rr rl, 0 <= rr /\ rl <= 0 /\ rr - rl == - slack_val b c /\
    (forall u, (u < length (svars b))%nat ->
       (blk_of b u = r -> Yof b' u == Yof b u + rr) /\
       (blk_of b u = l -> Yof b' u == Yof b u + rl) /\
       (blk_of b u <> r -> blk_of b u <> l -> Yof b' u == Yof b u)) /\
    all_blk_ok b'.
Proof.
  intros BK W OK Hc r l Hne Hs. cbv zeta.
  destruct (con_ends_lt _ _ BK Hc) as [Hl Hr].
  pose proof (slack_Y' b c W) as SY. unfold Yof in SY. fold r l in SY.
  set (Yr := bscale (block_of b r) * posn (block_of b r)) in *.
  set (Yl := bscale (block_of b l) * posn (block_of b l)) in *.
  assert (Ed : slack_val b c == Yr - Yl + mdist b c) by (rewrite SY; unfold mdist; ring).
  destruct sw.
  - destruct (merge_into_geom b l r c (- mdist b c) _ _ BK W OK Hl Hr eq_refl eq_refl Hne) as [P' [_ [M2 [MY MOK]]]].
    cbv zeta in *. fold l r in M2, MY. fold Yl Yr in M2.
    assert (B : Yr - - mdist b c <= P' <= Yl) by (apply M2; lra).
    exists (P' - mdist b c - Yr), (P' - Yl). split; [lra|]. split; [lra|]. split; [rewrite Ed; ring|]. split; [|exact MOK].
    intros u Hu. destruct (MY u Hu) as [Y1 [Y2 Y3]]. split; [|split].
    + intros E. rewrite (Y2 E). unfold Yof. rewrite E. fold Yr. ring.
    + intros E. rewrite (Y1 E). unfold Yof. rewrite E. fold Yl. ring.
    + intros E1 E2. apply Y3; assumption.
  - assert (Hne' : r <> l) by congruence.
    destruct (merge_into_geom b r l c (mdist b c) _ _ BK W OK Hr Hl eq_refl eq_refl Hne') as [P' [M1 [_ [MY MOK]]]].
    cbv zeta in *. fold l r in M1, MY. fold Yl Yr in M1.
    assert (B : Yr <= P' <= Yl - mdist b c) by (apply M1; lra).
    exists (P' - Yr), (P' + mdist b c - Yl). split; [lra|]. split; [lra|]. split; [rewrite Ed; ring|]. split; [|exact MOK].
    intros u Hu. destruct (MY u Hu) as [Y1 [Y2 Y3]]. split; [|split].
    + intros E. rewrite (Y1 E). unfold Yof. rewrite E. fold Yr. ring.
    + intros E. rewrite (Y2 E). unfold Yof. rewrite E. fold Yl. ring.
    + intros E1 E2. apply Y3; assumption.
Qed.

(* ------------------------------------------------------------------ the geometric invariant of mergeLeft's loop *)
Section Geo.
  Variable done : list nat.     (* variables processed before the current one *)
  Variable v : nat.             (* the variable being merged in *)
  Variable Yb : nat -> Q.       (* Y coordinates when mergeLeft(block(v)) started *)
  Variable cs : list con.
  Variable n : nat.
  Definition proc (u : nat) : Prop := In u done \/ u = v.
  Definition Kc (c : nat) : con := nth c cs dcon.

  Hypothesis topo : forall c, (c < length cs)%nat -> proc (cr (Kc c)) -> In (cl (Kc c)) done.
  Hypothesis vnd : ~ In v done.
  Hypothesis G0 : forall c, (c < length cs)%nat -> In (cr (Kc c)) done -> 0 <= Yb (cr (Kc c)) - gap (Kc c) - Yb (cl (Kc c)).
  Hypothesis done_lt : forall u, In u done -> (u < n)%nat.

  Record geo (b : st) (r : nat) : Prop := {
    g_cs : scons b = cs;
    g_n : length (svars b) = n;
    g_v : (v < n)%nat /\ blk_of b v = r;
    g_sing : forall u w, (u < n)%nat -> (w < n)%nat -> ~ proc u -> blk_of b w = blk_of b u -> w = u;
    g_2a : forall u, (u < n)%nat -> blk_of b u <> r -> Yof b u == Yb u;
    g_2b : forall u, In u done -> Yof b u <= Yb u;
    g_1 : forall c, (c < length cs)%nat -> blk_of b (cl (Kc c)) = r -> blk_of b (cr (Kc c)) = r -> 0 <= slack_val b c;
    g_3 : forall c u, (c < length cs)%nat -> blk_of b (cr (Kc c)) = r -> blk_of b (cl (Kc c)) <> r ->
            In u done -> blk_of b u = r -> - slack_val b c <= Yb u - Yof b u }.

  (* every variable sharing a block with a processed one is processed *)
  Lemma geo_block_proc b r u w : geo b r -> (u < n)%nat -> (w < n)%nat -> proc u -> blk_of b w = blk_of b u -> proc w.
  Proof.
    intros G Hu Hw Pu E. destruct (in_dec Nat.eq_dec w done) as [D|D]; [left; exact D|].
    destruct (Nat.eq_dec w v) as [->|N]; [right; reflexivity|].
    assert (NP : ~ proc w) by (intros [X|X]; contradiction).
    pose proof (g_sing b r G w u Hw Hu NP (eq_sym E)) as X. subst u. exact Pu.
  Qed.

  Lemma geo_step b r c0 (sw : bool) :
    book b -> wf_vars (svars b) -> all_blk_ok b -> geo b r ->
    (c0 < length cs)%nat -> blk_of b (cr (Kc c0)) = r -> blk_of b (cl (Kc c0)) <> r -> slack_val b c0 < 0 ->
    (forall c, (c < length cs)%nat -> blk_of b (cr (Kc c)) = r -> blk_of b (cl (Kc c)) <> r ->
       slack_val b c0 <= slack_val b c \/ 0 <= slack_val b c) ->
    let l := blk_of b (cl (Kc c0)) in
    let b' := merge_into b (if sw then l else r) (if sw then r else l) c0 (if sw then - mdist b c0 else mdist b c0) in
    geo b' (if sw then l else r) /\ all_blk_ok b'.
  Proof.
    intros BK W OK G Hc0 Er0 Nl0 Hs0 RM l b'.
    destruct G as [Gcs Gn [Gv1 Gv2] Gsing G2a G2b G1 G3].
    assert (Kcon : forall c, con_of b c = Kc c) by (intros c; unfold con_of, Kc; rewrite Gcs; reflexivity).
    assert (Hc0' : (c0 < length (scons b))%nat) by (rewrite Gcs; exact Hc0).
    assert (Erl : blk_of b (cl (con_of b c0)) <> blk_of b (cr (con_of b c0))) by (rewrite Kcon, Er0; exact Nl0).
    destruct (merge_shift b c0 sw BK W OK Hc0' Erl Hs0) as [rr [rl [Prr [Prl [Ed [MY MOK]]]]]].
    cbv zeta in MY, MOK. rewrite Kcon, Er0 in MY, MOK. fold l in MY, MOK. fold b' in MY, MOK. rewrite Gn in MY.
    split; [|exact MOK].
    set (t := if sw then l else r) in *. set (a := if sw then r else l) in *.
    destruct (con_ends_lt _ _ BK Hc0') as [Hl0 Hr0]. rewrite Kcon, Gn in Hl0, Hr0.
    assert (MF : merge_facts b t a c0 b').
    { unfold b', t, a. destruct sw.
      - apply (merge_into_facts b l r c0 _ (cl (Kc c0)) (cr (Kc c0)) BK); rewrite ?Gn; auto.
      - apply (merge_into_facts b r l c0 _ (cr (Kc c0)) (cl (Kc c0)) BK); rewrite ?Gn; auto. }
    assert (Nrl : l <> r) by exact Nl0.
    assert (NB : forall u, (u < n)%nat ->
                   ((blk_of b u = r \/ blk_of b u = l) -> blk_of b' u = t) /\
                   (blk_of b u <> r -> blk_of b u <> l -> blk_of b' u = blk_of b u /\ blk_of b' u <> t)).
    { intros u Hu. rewrite <- Gn in Hu. destruct (mg_blk _ _ _ _ _ MF u Hu) as [M1 M2]. unfold t, a in *. destruct sw.
      - split.
        + intros [E|E]; [apply M1; exact E | rewrite M2; congruence].
        + intros E1 E2. rewrite M2 by exact E1. split; [reflexivity | congruence].
      - split.
        + intros [E|E]; [rewrite M2; congruence | apply M1; exact E].
        + intros E1 E2. rewrite M2 by exact E2. split; [reflexivity | congruence]. }
    assert (Kcon' : forall c, con_of b' c = Kc c).
    { intros c. unfold con_of, Kc. rewrite (mg_scons _ _ _ _ _ MF), Gcs. reflexivity. }
    assert (W' : wf_vars (svars b')) by (rewrite (mg_svars _ _ _ _ _ MF); exact W).
    assert (SY : forall c, slack_val b c == Yof b (cr (Kc c)) - gap (Kc c) - Yof b (cl (Kc c))).
    { intros c. rewrite (slack_Y' b c W), Kcon. reflexivity. }
    assert (SY' : forall c, slack_val b' c == Yof b' (cr (Kc c)) - gap (Kc c) - Yof b' (cl (Kc c))).
    { intros c. rewrite (slack_Y' b' c W'), Kcon'. reflexivity. }
    assert (Ends : forall c, (c < length cs)%nat -> (cl (Kc c) < n)%nat /\ (cr (Kc c) < n)%nat).
    { intros c Hc. rewrite <- Gcs in Hc. destruct (con_ends_lt _ _ BK Hc) as [A B]. rewrite Kcon, Gn in A, B. auto. }
    (* processed-ness of the two blocks *)
    assert (Pr : forall u, (u < n)%nat -> blk_of b u = r -> proc u).
    { intros u Hu E. apply (geo_block_proc b r v u); [constructor; auto | exact Gv1 | exact Hu | right; reflexivity | congruence]. }
    assert (Pcr0 : proc (cr (Kc c0))) by (apply Pr; assumption).
    assert (Dcl0 : In (cl (Kc c0)) done) by (apply topo; assumption).
    assert (Pl : forall u, (u < n)%nat -> blk_of b u = l -> In u done).
    { intros u Hu E.
      assert (P : proc u) by (apply (geo_block_proc b r (cl (Kc c0)) u); [constructor; auto | exact Hl0 | exact Hu | left; exact Dcl0 | exact E]).
      destruct P as [P|P]; [exact P|]. subst u. congruence. }
    assert (Dr : forall u, (u < n)%nat -> blk_of b u = r -> u <> v -> In u done).
    { intros u Hu E N. destruct (Pr u Hu E) as [P|P]; [exact P | contradiction]. }
    constructor.
    - rewrite (mg_scons _ _ _ _ _ MF). exact Gcs.
    - rewrite (mg_svars _ _ _ _ _ MF). exact Gn.
    - split; [exact Gv1|]. apply (NB v Gv1). left. exact Gv2.
    - intros u w Hu Hw NP E.
      assert (Nr : blk_of b u <> r) by (intros X; apply NP; apply Pr; assumption).
      assert (Nl : blk_of b u <> l) by (intros X; apply NP; left; apply Pl; assumption).
      destruct (proj2 (NB u Hu) Nr Nl) as [Eu Nt].
      assert (Nw : blk_of b w <> r /\ blk_of b w <> l).
      { split; intros X; apply Nt; rewrite <- E; apply (NB w Hw); [left | right]; exact X. }
      destruct (proj2 (NB w Hw) (proj1 Nw) (proj2 Nw)) as [Ew _].
      apply (Gsing u w Hu Hw NP). congruence.
    - intros u Hu Nt.
      assert (Nr : blk_of b u <> r) by (intros X; apply Nt; apply (NB u Hu); left; exact X).
      assert (Nl : blk_of b u <> l) by (intros X; apply Nt; apply (NB u Hu); right; exact X).
      destruct (MY u Hu) as [_ [_ Y3]]. rewrite (Y3 Nr Nl). apply G2a; assumption.
    - intros u Du. pose proof (done_lt u Du) as Hu. destruct (MY u Hu) as [Y1 [Y2 Y3]].
      destruct (Nat.eq_dec (blk_of b u) r) as [E|E].
      + rewrite (Y1 E). pose proof (G3 c0 u Hc0 Er0 Nl0 Du E) as X. pose proof (G2b u Du). lra.
      + destruct (Nat.eq_dec (blk_of b u) l) as [E2|E2].
        * rewrite (Y2 E2). pose proof (G2b u Du). lra.
        * rewrite (Y3 E E2). apply G2b. exact Du.
    - intros c Hc El Er. destruct (Ends c Hc) as [Hcl Hcr].
      assert (Cl : blk_of b (cl (Kc c)) = r \/ blk_of b (cl (Kc c)) = l).
      { destruct (Nat.eq_dec (blk_of b (cl (Kc c))) r) as [X|X]; [left; exact X|].
        destruct (Nat.eq_dec (blk_of b (cl (Kc c))) l) as [X2|X2]; [right; exact X2|].
        destruct (proj2 (NB _ Hcl) X X2) as [_ Z]. contradiction. }
      assert (Cr : blk_of b (cr (Kc c)) = r \/ blk_of b (cr (Kc c)) = l).
      { destruct (Nat.eq_dec (blk_of b (cr (Kc c))) r) as [X|X]; [left; exact X|].
        destruct (Nat.eq_dec (blk_of b (cr (Kc c))) l) as [X2|X2]; [right; exact X2|].
        destruct (proj2 (NB _ Hcr) X X2) as [_ Z]. contradiction. }
      rewrite (SY' c). destruct (MY _ Hcl) as [L1 [L2 _]]. destruct (MY _ Hcr) as [R1 [R2 _]].
      pose proof (SY c) as Sc. pose proof (SY c0) as Sc0.
      destruct Cl as [Cl|Cl]; destruct Cr as [Cr|Cr].
      + rewrite (L1 Cl), (R1 Cr). pose proof (G1 c Hc Cl Cr). lra.
      + (* left end in r, right end in l *)
        rewrite (L1 Cl), (R2 Cr).
        assert (Dcr : In (cr (Kc c)) done) by (apply Pl; assumption).
        assert (Dcl : In (cl (Kc c)) done) by (apply topo; [exact Hc | left; exact Dcr]).
        pose proof (G0 c Hc Dcr) as X0. pose proof (G3 c0 _ Hc0 Er0 Nl0 Dcl Cl) as X3.
        assert (Ncr : blk_of b (cr (Kc c)) <> r) by congruence.
        pose proof (G2a _ Hcr Ncr) as X2. lra.
      + rewrite (L2 Cl), (R1 Cr).
        assert (Ncl : blk_of b (cl (Kc c)) <> r) by congruence.
        destruct (RM c Hc Cr Ncl) as [X|X]; lra.
      + rewrite (L2 Cl), (R2 Cr).
        assert (Dcr : In (cr (Kc c)) done) by (apply Pl; assumption).
        assert (Ncl : blk_of b (cl (Kc c)) <> r) by congruence.
        assert (Ncr : blk_of b (cr (Kc c)) <> r) by congruence.
        pose proof (G0 c Hc Dcr) as X0. pose proof (G2a _ Hcl Ncl). pose proof (G2a _ Hcr Ncr). lra.
    - intros c u Hc Er Nl Du Eu. destruct (Ends c Hc) as [Hcl Hcr]. pose proof (done_lt u Du) as Hu.
      assert (Nclr : blk_of b (cl (Kc c)) <> r) by (intros X; apply Nl; apply (NB _ Hcl); left; exact X).
      assert (Ncll : blk_of b (cl (Kc c)) <> l) by (intros X; apply Nl; apply (NB _ Hcl); right; exact X).
      assert (Cr : blk_of b (cr (Kc c)) = r \/ blk_of b (cr (Kc c)) = l).
      { destruct (Nat.eq_dec (blk_of b (cr (Kc c))) r) as [X|X]; [left; exact X|].
        destruct (Nat.eq_dec (blk_of b (cr (Kc c))) l) as [X2|X2]; [right; exact X2|].
        destruct (proj2 (NB _ Hcr) X X2) as [_ Z]. contradiction. }
      assert (Cu : blk_of b u = r \/ blk_of b u = l).
      { destruct (Nat.eq_dec (blk_of b u) r) as [X|X]; [left; exact X|].
        destruct (Nat.eq_dec (blk_of b u) l) as [X2|X2]; [right; exact X2|].
        destruct (proj2 (NB _ Hu) X X2) as [_ Z]. contradiction. }
      rewrite (SY' c). destruct (MY _ Hcl) as [_ [_ L3]]. destruct (MY _ Hcr) as [R1 [R2 _]]. destruct (MY u Hu) as [U1 [U2 _]].
      rewrite (L3 Nclr Ncll). pose proof (SY c) as Sc.
      destruct Cr as [Cr|Cr]; destruct Cu as [Cu|Cu].
      + rewrite (R1 Cr), (U1 Cu). pose proof (G3 c u Hc Cr Nclr Du Cu). lra.
      + rewrite (R1 Cr), (U2 Cu).
        assert (Nu : blk_of b u <> r) by congruence. pose proof (G2a u Hu Nu).
        destruct (RM c Hc Cr Nclr) as [X|X]; lra.
      + rewrite (R2 Cr), (U1 Cu).
        assert (Dcr : In (cr (Kc c)) done) by (apply Pl; assumption).
        assert (Dcl : In (cl (Kc c)) done) by (apply topo; [exact Hc | left; exact Dcr]).
        assert (Ncr : blk_of b (cr (Kc c)) <> r) by congruence.
        pose proof (G0 c Hc Dcr). pose proof (G2a _ Hcr Ncr). pose proof (G2b _ Dcl).
        pose proof (G3 c0 u Hc0 Er0 Nl0 Du Cu) as X3. lra.
      + rewrite (R2 Cr), (U2 Cu).
        assert (Dcr : In (cr (Kc c)) done) by (apply Pl; assumption).
        assert (Dcl : In (cl (Kc c)) done) by (apply topo; [exact Hc | left; exact Dcr]).
        assert (Ncr : blk_of b (cr (Kc c)) <> r) by congruence.
        assert (Nu : blk_of b u <> r) by congruence.
        pose proof (G0 c Hc Dcr). pose proof (G2a _ Hcr Ncr). pose proof (G2b _ Dcl). pose proof (G2a u Hu Nu). lra.
  Qed.
End Geo.

(* ------------------------------------------------------------------ the invariant of mergeLeft's loop *)
Definition root_ok (s : sst) (r : nat) (c : option nat) : Prop :=
  exists h, bin_of s r = Some h /\ heap_min h = c /\ (forall c0, c = Some c0 -> skey s c0 <> None).

Record MLI (done : list nat) (v : nat) (Yb : nat -> Q) (cs : list con) (n : nat) (s : sst) (r : nat) : Prop := {
  i_SI : SI s;
  i_wf : wf_vars (svars (base s));
  i_ok : all_blk_ok (base s);
  i_live : forall u, (u < n)%nat -> dead (block_of (base s) (blk_of (base s) u)) = false;
  i_geo : geo done v Yb cs n (base s) r;
  i_lct : length (ctime s) = length cs;
  i_lbt : length (btime s) = length (blocks (base s));
  i_T1 : T1 s;
  i_T2 : T2 s;
  i_T3 : forall B h x, inhabited (base s) B -> B <> r -> bin_of s B = Some h -> In x (heap_elems h) ->
           (ctime_of s x < btime_of s r)%nat;
  i_HN : forall u, (u < n)%nat -> proc done v u -> bin_of s (blk_of (base s) u) <> None;
  i_HG : forall B h, inhabited (base s) B -> bin_of s B = Some h -> hgood s Yb h;
  i_HE : forall B h x, inhabited (base s) B -> bin_of s B = Some h -> In x (heap_elems h) -> proc done v (cr (Kc cs x));
  i_HC : forall c, (c < length cs)%nat -> proc done v (cr (Kc cs c)) -> lblk s c <> rblk s c ->
           exists h, bin_of s (rblk s c) = Some h /\ In c (heap_elems h) }.

Lemma MLI_frame done v Yb cs n s s' r :
  base s' = base s -> ctime s' = ctime s -> btime s' = btime s -> bin s' = bin s -> ctr s' = ctr s ->
  MLI done v Yb cs n s r -> MLI done v Yb cs n s' r.
Proof.
  intros E1 E2 E3 E4 E5 [A1 A2 A3 A4 A5 A6 A6' A7 A8 A9 A10 A11 A12 A13].
  assert (CE : ceqv s s') by (repeat split; assumption).
  assert (EB : forall B, bin_of s' B = bin_of s B) by (intros B; unfold bin_of; rewrite E4; reflexivity).
  constructor; rewrite ?E1, ?E2, ?E3; try assumption.
  - destruct A1 as [X [Y Z]]. split; [rewrite E1; exact X|]. split; [rewrite E1; exact Y|].
    apply (heap_ok_in_frame s); assumption.
  - intros c. unfold ctime_of. rewrite E2, E5. apply A7.
  - intros B. unfold btime_of. rewrite E3, E5. apply A8.
  - intros B h x Hi Hn Hb Hx. rewrite EB in Hb. unfold ctime_of, btime_of. rewrite E2, E3. exact (A9 B h x Hi Hn Hb Hx).
  - intros u Hu Pu. rewrite EB. apply A10; assumption.
  - intros B h Hi Hb. rewrite EB in Hb. destruct (A11 B h Hi Hb) as [X Y]. split; [exact X|]. apply (hordh_ceqv s); assumption.
  - intros B h x Hi Hb. rewrite EB in Hb. exact (A12 B h x Hi Hb).
  - intros c Hc Pc Ex. rewrite (lblk_ceqv _ _ _ CE), (rblk_ceqv _ _ _ CE) in Ex. rewrite (rblk_ceqv _ _ _ CE), EB. exact (A13 c Hc Pc Ex).
Qed.

Section MLfacts.
  Variables (done : list nat) (v : nat) (Yb : nat -> Q) (cs : list con) (n : nat).
  Hypothesis topo : forall c, (c < length cs)%nat -> proc done v (cr (Kc cs c)) -> In (cl (Kc cs c)) done.
  Hypothesis vnd : ~ In v done.
  Hypothesis G0 : forall c, (c < length cs)%nat -> In (cr (Kc cs c)) done ->
                    0 <= Yb (cr (Kc cs c)) - gap (Kc cs c) - Yb (cl (Kc cs c)).
  Hypothesis done_lt : forall u, In u done -> (u < n)%nat.

  Lemma MLI_con s r c : MLI done v Yb cs n s r -> con_of (base s) c = Kc cs c.
  Proof. intros I. unfold con_of, Kc. rewrite (g_cs _ _ _ _ _ _ _ (i_geo _ _ _ _ _ _ _ I)). reflexivity. Qed.
  Lemma MLI_ends s r c : MLI done v Yb cs n s r -> (c < length cs)%nat -> (cl (Kc cs c) < n)%nat /\ (cr (Kc cs c) < n)%nat.
  Proof.
    intros I Hc. pose proof (i_geo _ _ _ _ _ _ _ I) as G. destruct (i_SI _ _ _ _ _ _ _ I) as [BK _].
    rewrite <- (g_cs _ _ _ _ _ _ _ G) in Hc. destruct (con_ends_lt _ _ BK Hc) as [A B].
    rewrite (MLI_con s r c I), (g_n _ _ _ _ _ _ _ G) in A, B. auto.
  Qed.
  Lemma MLI_inh_r s r : MLI done v Yb cs n s r -> inhabited (base s) r.
  Proof.
    intros I. pose proof (i_geo _ _ _ _ _ _ _ I) as G. destruct (g_v _ _ _ _ _ _ _ G) as [A B].
    exists v. rewrite (g_n _ _ _ _ _ _ _ G). auto.
  Qed.
  Lemma MLI_slack s r c : MLI done v Yb cs n s r ->
    slack_val (base s) c == Yof (base s) (cr (Kc cs c)) - gap (Kc cs c) - Yof (base s) (cl (Kc cs c)).
  Proof. intros I. rewrite (slack_Y' _ c (i_wf _ _ _ _ _ _ _ I)), (MLI_con s r c I). reflexivity. Qed.

  (* the key of an element of the current block's heap is (a lower bound that equals) its slack *)
  Lemma MLI_Kof_ext s r x : MLI done v Yb cs n s r -> (x < length cs)%nat ->
    blk_of (base s) (cl (Kc cs x)) <> r -> Kof s Yb x == slack_val (base s) x.
  Proof.
    intros I Hx Nl. unfold Kof. destruct (skey s x) as [k|] eqn:E.
    - unfold skey in E. destruct (_ || _); [discriminate|]. inversion E. reflexivity.
    - rewrite (MLI_con s r x I), (MLI_slack s r x I).
      destruct (MLI_ends s r x I Hx) as [Hl _].
      rewrite (g_2a _ _ _ _ _ _ _ (i_geo _ _ _ _ _ _ _ I) _ Hl Nl). reflexivity.
  Qed.

  (* bit 16 of StaticInvB (root_minb), proved: the root is a most violated in-constraint of the block *)
  Lemma MLI_root_min s r c0 :
    MLI done v Yb cs n s r -> root_ok s r (Some c0) ->
    forall c, (c < length cs)%nat -> blk_of (base s) (cr (Kc cs c)) = r -> blk_of (base s) (cl (Kc cs c)) <> r ->
      slack_val (base s) c0 <= slack_val (base s) c.
  Proof.
    intros I [h [Hb [Hm Hk]]] c Hc Er Nl.
    pose proof (i_geo _ _ _ _ _ _ _ I) as G.
    destruct (MLI_ends s r c I Hc) as [Hcl Hcr].
    assert (Pc : proc done v (cr (Kc cs c))).
    { apply (geo_block_proc done v Yb cs n (base s) r v _ G); [exact (proj1 (g_v _ _ _ _ _ _ _ G)) | exact Hcr | right; reflexivity|].
      rewrite (proj2 (g_v _ _ _ _ _ _ _ G)). exact Er. }
    assert (Ex : lblk s c <> rblk s c).
    { unfold lblk, rblk. rewrite (MLI_con s r c I), Er. exact Nl. }
    destruct (i_HC _ _ _ _ _ _ _ I c Hc Pc Ex) as [h' [Hb' Hin]].
    assert (Erb : rblk s c = r) by (unfold rblk; rewrite (MLI_con s r c I); exact Er).
    rewrite Erb, Hb in Hb'. inversion Hb'. subst h'.
    destruct (i_HG _ _ _ _ _ _ _ I r h (MLI_inh_r s r I) Hb) as [_ HO].
    destruct (hordh_root _ h c0 c HO Hm Hin) as [->|R]; [lra|].
    specialize (R (Hk c0 eq_refl) Ex).
    destruct (i_SI _ _ _ _ _ _ _ I) as [_ [_ HOK]].
    destruct (HOK r h c0 Hb (heap_min_in _ _ Hm) (MLI_inh_r s r I)) as [Hc0 Hrb0].
    rewrite (g_cs _ _ _ _ _ _ _ G) in Hc0.
    assert (Nl0 : blk_of (base s) (cl (Kc cs c0)) <> r).
    { destruct (skey_some_inv s c0 (Hk c0 eq_refl)) as [X _]. unfold lblk in X. rewrite Hrb0, (MLI_con s r c0 I) in X. exact X. }
    rewrite (MLI_Kof_ext s r c0 I Hc0 Nl0), (MLI_Kof_ext s r c I Hc Nl) in R. exact R.
  Qed.
  Lemma MLI_root_none s r :
    MLI done v Yb cs n s r -> root_ok s r None ->
    forall c, (c < length cs)%nat -> blk_of (base s) (cr (Kc cs c)) = r -> blk_of (base s) (cl (Kc cs c)) <> r -> False.
  Proof.
    intros I [h [Hb [Hm _]]] c Hc Er Nl.
    pose proof (i_geo _ _ _ _ _ _ _ I) as G.
    destruct (MLI_ends s r c I Hc) as [Hcl Hcr].
    assert (Pc : proc done v (cr (Kc cs c))).
    { apply (geo_block_proc done v Yb cs n (base s) r v _ G); [exact (proj1 (g_v _ _ _ _ _ _ _ G)) | exact Hcr | right; reflexivity|].
      rewrite (proj2 (g_v _ _ _ _ _ _ _ G)). exact Er. }
    assert (Ex : lblk s c <> rblk s c).
    { unfold lblk, rblk. rewrite (MLI_con s r c I), Er. exact Nl. }
    destruct (i_HC _ _ _ _ _ _ _ I c Hc Pc Ex) as [h' [Hb' Hin]].
    assert (Erb : rblk s c = r) by (unfold rblk; rewrite (MLI_con s r c I); exact Er).
    rewrite Erb, Hb in Hb'. inversion Hb'. subst h'.
    destruct h as [p|]; [discriminate | destruct Hin].
  Qed.

  (* bit 4 (prefix_satb), proved: when the loop stops, every constraint into a processed variable holds exactly *)
  Lemma MLI_exit_sat s r c :
    MLI done v Yb cs n s r -> root_ok s r c ->
    (forall c0, c = Some c0 -> 0 <= slack_val (base s) c0) ->
    forall k, (k < length cs)%nat -> proc done v (cr (Kc cs k)) -> 0 <= slack_val (base s) k.
  Proof.
    intros I RO Hex k Hk Pk.
    pose proof (i_geo _ _ _ _ _ _ _ I) as G.
    destruct (MLI_ends s r k I Hk) as [Hcl Hcr].
    pose proof (topo k Hk Pk) as Dl.
    destruct (Nat.eq_dec (blk_of (base s) (cr (Kc cs k))) r) as [Er|Er].
    - destruct (Nat.eq_dec (blk_of (base s) (cl (Kc cs k))) r) as [El|El].
      + exact (g_1 _ _ _ _ _ _ _ G k Hk El Er).
      + destruct c as [c0|].
        * pose proof (MLI_root_min s r c0 I RO k Hk Er El). specialize (Hex c0 eq_refl). lra.
        * exfalso. exact (MLI_root_none s r I RO k Hk Er El).
    - assert (Dr : In (cr (Kc cs k)) done).
      { destruct Pk as [P|P]; [exact P|]. exfalso. apply Er. rewrite P. exact (proj2 (g_v _ _ _ _ _ _ _ G)). }
      rewrite (MLI_slack s r k I). pose proof (G0 k Hk Dr). pose proof (g_2a _ _ _ _ _ _ _ G _ Hcr Er).
      pose proof (g_2b _ _ _ _ _ _ _ G _ Dl). lra.
  Qed.
End MLfacts.

(* ------------------------------------------------------------------ how one merge changes the keys in the heaps *)
Lemma add_variable_dead s b v B : dead (block_of (add_variable s b v) B) = dead (block_of s B).
Proof.
  unfold add_variable, block_of, set_block, set_blocks. cbn [blocks set_vblk].
  match goal with |- context [upd_nth (blocks s) b ?K] => destruct (nth_upd_nth_cases (blocks s) b B K dblk) as [E|[E1 [E2 E3]]] end.
  - rewrite E. reflexivity.
  - rewrite E3. subst B. reflexivity.
Qed.
Lemma mfold_dead t d B : forall vars s1, dead (block_of (fold_left (mstep t d) vars s1) B) = dead (block_of s1 B).
Proof.
  induction vars as [|w vars IH]; intros s1; cbn [fold_left]; [reflexivity|].
  rewrite IH. unfold mstep. rewrite add_variable_dead. reflexivity.
Qed.
Lemma merge_into_dead b t a c d B : B <> a -> dead (block_of (merge_into b t a c d) B) = dead (block_of b B).
Proof.
  intros N. rewrite merge_into_unfold.
  set (s1 := set_cact b (upd_nth (cact b) c true)).
  change (block_of b B) with (block_of s1 B).
  rewrite <- (mfold_dead t d B (bvars (block_of s1 a)) s1).
  unfold kill_block, set_block, set_blocks, block_of. cbn [blocks]. rewrite nth_upd_nth_neq by congruence. reflexivity.
Qed.

(* what the merge does to blocks and Y coordinates, as seen by the heaps *)
Record btrans (b b' : st) (r l t : nat) (rr rl : Q) : Prop := {
  bt_svars : svars b' = svars b;
  bt_scons : scons b' = scons b;
  bt_blk : forall u, (u < length (svars b))%nat ->
             ((blk_of b u = r \/ blk_of b u = l) -> blk_of b' u = t) /\
             (blk_of b u <> r -> blk_of b u <> l -> blk_of b' u = blk_of b u /\ blk_of b' u <> t);
  bt_Y : forall u, (u < length (svars b))%nat ->
           (blk_of b u = r -> Yof b' u == Yof b u + rr) /\
           (blk_of b u = l -> Yof b' u == Yof b u + rl) /\
           (blk_of b u <> r -> blk_of b u <> l -> Yof b' u == Yof b u) }.

Section KeyTrans.
  Variable Yb : nat -> Q.
  Variables (s s' : sst) (r l t : nat) (rr rl : Q).
  Hypothesis W : wf_vars (svars (base s)).
  Hypothesis BK : book (base s).
  Hypothesis BT : btrans (base s) (base s') r l t rr rl.

  Let con_eq y : con_of (base s') y = con_of (base s) y.
  Proof. unfold con_of. rewrite (bt_scons _ _ _ _ _ _ _ BT). reflexivity. Qed.
  Let W' : wf_vars (svars (base s')).
  Proof. rewrite (bt_svars _ _ _ _ _ _ _ BT). exact W. Qed.

  (* (a) a heap of one of the two merged blocks: all its keys shift by the same amount *)
  Lemma key_shift B0 sg y :
    ctime s' = ctime s -> btime s' = btime s ->
    (B0 = r /\ sg = rr \/ B0 = l /\ sg = rl) ->
    (y < length (scons (base s)))%nat -> rblk s y = B0 -> lblk s' y <> rblk s' y ->
    lblk s y <> rblk s y /\ (skey s' y <> None -> skey s y <> None) /\ Kof s' Yb y == Kof s Yb y + sg.
  Proof.
    intros Ec Eb HB Hy Er Ex'.
    destruct (con_ends_lt _ _ BK Hy) as [Hl Hr].
    unfold lblk, rblk in *. rewrite con_eq in Ex'.
    set (k := con_of (base s) y) in *.
    destruct (bt_blk _ _ _ _ _ _ _ BT _ Hl) as [L1 L2]. destruct (bt_blk _ _ _ _ _ _ _ BT _ Hr) as [R1 R2].
    destruct (bt_Y _ _ _ _ _ _ _ BT _ Hl) as [_ [_ YL]]. destruct (bt_Y _ _ _ _ _ _ _ BT _ Hr) as [YR1 [YR2 _]].
    assert (Rt : blk_of (base s') (cr k) = t) by (apply R1; destruct HB as [[-> _]|[-> _]]; [left | right]; exact Er).
    assert (Nr : blk_of (base s) (cl k) <> r) by (intros X; apply Ex'; rewrite Rt; apply L1; left; exact X).
    assert (Nl : blk_of (base s) (cl k) <> l) by (intros X; apply Ex'; rewrite Rt; apply L1; right; exact X).
    destruct (L2 Nr Nl) as [EL _]. specialize (YL Nr Nl).
    assert (Ex : blk_of (base s) (cl k) <> blk_of (base s) (cr k)) by (rewrite Er; destruct HB as [[-> _]|[-> _]]; assumption).
    assert (YR : Yof (base s') (cr k) == Yof (base s) (cr k) + sg).
    { destruct HB as [[E1 E2]|[E1 E2]]; subst B0 sg; [apply YR1 | apply YR2]; exact Er. }
    split; [exact Ex|].
    assert (K' : skey s' y = if Nat.ltb (ctime_of s y) (btime_of s (blk_of (base s) (cl k))) then None else Some (slack_val (base s') y)).
    { unfold skey, lblk, rblk, ctime_of, btime_of, sslack. rewrite con_eq. fold k. rewrite Ec, Eb, EL.
      rewrite <- EL at 2. apply Nat.eqb_neq in Ex'. rewrite Ex', orb_false_r. reflexivity. }
    assert (K0 : skey s y = if Nat.ltb (ctime_of s y) (btime_of s (blk_of (base s) (cl k))) then None else Some (slack_val (base s) y)).
    { unfold skey, lblk, rblk, sslack. fold k. apply Nat.eqb_neq in Ex. rewrite Ex, orb_false_r. reflexivity. }
    split.
    - rewrite K', K0. destruct (Nat.ltb _ _); [congruence | discriminate].
    - unfold Kof. rewrite K', K0, con_eq. fold k. destruct (Nat.ltb _ _).
      + rewrite YR. ring.
      + rewrite (slack_Y' _ y W'), (slack_Y' _ y W), con_eq. fold k. rewrite YR, YL. ring.
  Qed.

  Lemma Rdom_across_merge B0 sg c x :
    ctime s' = ctime s -> btime s' = btime s ->
    (B0 = r /\ sg = rr \/ B0 = l /\ sg = rl) ->
    (c < length (scons (base s)))%nat -> (x < length (scons (base s)))%nat -> rblk s c = B0 -> rblk s x = B0 ->
    Rdom s Yb c x -> Rdom s' Yb c x.
  Proof.
    intros Ec Eb HB Hc Hx Erc Erx R Nc Ex'.
    destruct (skey_some_inv s' c Nc) as [Exc' _].
    destruct (key_shift B0 sg c Ec Eb HB Hc Erc Exc') as [_ [C2 C3]].
    destruct (key_shift B0 sg x Ec Eb HB Hx Erx Ex') as [X1 [_ X3]].
    specialize (R (C2 Nc) X1). rewrite C3, X3. lra.
  Qed.

  (* (b) a heap of an untouched block *)
  Hypothesis HT1 : T1 s.
  Hypothesis Bt_t : btime_of s' t = S (ctr s).
  Hypothesis Bt_o : forall B, B <> t -> btime_of s' B = btime_of s B.
  Hypothesis G2a : forall u, (u < length (svars (base s)))%nat -> blk_of (base s) u <> r -> Yof (base s) u == Yb u.

  Lemma key_untouched B y :
    B <> r -> B <> l -> (y < length (scons (base s)))%nat -> rblk s y = B -> ctime_of s' y = ctime_of s y ->
    (skey s y <> None -> lblk s y <> r) ->
    (skey s' y <> None -> skey s y <> None /\ Kof s' Yb y == Kof s Yb y) /\
    (lblk s' y <> rblk s' y -> lblk s y <> rblk s y /\ Kof s Yb y <= Kof s' Yb y).
  Proof.
    intros NBr NBl Hy Er Ect Hfr.
    destruct (con_ends_lt _ _ BK Hy) as [Hl Hr].
    pose proof (HT1 y) as Ty.
    unfold lblk, rblk in *.
    set (k := con_of (base s) y) in *.
    destruct (bt_blk _ _ _ _ _ _ _ BT _ Hl) as [L1 L2]. destruct (bt_blk _ _ _ _ _ _ _ BT _ Hr) as [_ R2].
    destruct (bt_Y _ _ _ _ _ _ _ BT _ Hl) as [_ [_ YL]]. destruct (bt_Y _ _ _ _ _ _ _ BT _ Hr) as [_ [_ YR]].
    assert (NRr : blk_of (base s) (cr k) <> r) by congruence. assert (NRl : blk_of (base s) (cr k) <> l) by congruence.
    destruct (R2 NRr NRl) as [ER NRt]. specialize (YR NRr NRl).
    assert (K' : skey s' y = if Nat.ltb (ctime_of s y) (btime_of s' (blk_of (base s') (cl k))) || Nat.eqb (blk_of (base s') (cl k)) B
                            then None else Some (slack_val (base s') y)).
    { unfold skey, lblk, rblk, sslack. rewrite con_eq. fold k. rewrite Ect, ER, Er. reflexivity. }
    assert (K0 : skey s y = if Nat.ltb (ctime_of s y) (btime_of s (blk_of (base s) (cl k))) || Nat.eqb (blk_of (base s) (cl k)) B
                           then None else Some (slack_val (base s) y)).
    { unfold skey, lblk, rblk, sslack. fold k. rewrite Er. reflexivity. }
    destruct (Nat.eq_dec (blk_of (base s) (cl k)) r) as [Cr|Cr]; [|destruct (Nat.eq_dec (blk_of (base s) (cl k)) l) as [Cl|Cl]].
    - (* left end in r: stale afterwards, already stale before *)
      assert (Lt : blk_of (base s') (cl k) = t) by (apply L1; left; exact Cr).
      assert (S' : skey s' y = None).
      { rewrite K', Lt, Bt_t. assert (X : Nat.ltb (ctime_of s y) (S (ctr s)) = true) by (apply Nat.ltb_lt; lia). rewrite X. reflexivity. }
      assert (S0 : skey s y = None) by (destruct (skey s y) eqn:E; [exfalso; apply Hfr; [congruence | exact Cr] | reflexivity]).
      split; [intros X; congruence|]. intros _. split; [congruence|].
      unfold Kof. rewrite S', S0, con_eq. fold k. rewrite YR. lra.
    - assert (Lt : blk_of (base s') (cl k) = t) by (apply L1; right; exact Cl).
      assert (S' : skey s' y = None).
      { rewrite K', Lt, Bt_t. assert (X : Nat.ltb (ctime_of s y) (S (ctr s)) = true) by (apply Nat.ltb_lt; lia). rewrite X. reflexivity. }
      split; [intros X; congruence|]. intros _. split; [congruence|].
      unfold Kof. rewrite S', con_eq. fold k. destruct (skey s y) as [k0|] eqn:E0.
      + assert (Ek : k0 = slack_val (base s) y).
        { rewrite K0 in E0. destruct (_ || _); [discriminate | congruence]. }
        subst k0. rewrite (slack_Y' _ y W). fold k. rewrite YR, (G2a _ Hl Cr). lra.
      + rewrite YR. lra.
    - destruct (L2 Cr Cl) as [EL NLt]. specialize (YL Cr Cl).
      set (cnd := Nat.ltb (ctime_of s y) (btime_of s (blk_of (base s) (cl k))) || Nat.eqb (blk_of (base s) (cl k)) B) in *.
      assert (KK : skey s' y = if cnd then None else Some (slack_val (base s') y)).
      { rewrite K', EL. rewrite Bt_o by (rewrite <- EL; exact NLt). reflexivity. }
      assert (SE : slack_val (base s') y == slack_val (base s) y).
      { rewrite (slack_Y' _ y W'), (slack_Y' _ y W), con_eq. fold k. rewrite YR, YL. reflexivity. }
      clear K'. clearbody cnd.
      split.
      + intros N'. rewrite KK in N'. rewrite K0. unfold Kof. rewrite KK, K0. destruct cnd; [congruence|].
        split; [discriminate | exact SE].
      + intros Ex'. rewrite con_eq in Ex'. fold k in Ex'. rewrite ER, EL in Ex'. split; [exact Ex'|].
        unfold Kof. rewrite KK, K0, con_eq. fold k. destruct cnd; [rewrite YR; lra | rewrite SE; lra].
  Qed.

  Lemma Rdom_untouched B c x :
    B <> r -> B <> l -> (c < length (scons (base s)))%nat -> (x < length (scons (base s)))%nat ->
    rblk s c = B -> rblk s x = B -> ctime_of s' c = ctime_of s c -> ctime_of s' x = ctime_of s x ->
    (skey s c <> None -> lblk s c <> r) -> (skey s x <> None -> lblk s x <> r) ->
    Rdom s Yb c x -> Rdom s' Yb c x.
  Proof.
    intros NBr NBl Hc Hx Erc Erx Ecc Ecx Fc Fx R Nc Ex'.
    destruct (key_untouched B c NBr NBl Hc Erc Ecc Fc) as [C1 _].
    destruct (key_untouched B x NBr NBl Hx Erx Ecx Fx) as [_ X2].
    destruct (C1 Nc) as [C2 C3]. destruct (X2 Ex') as [X3 X4].
    specialize (R C2 X3). rewrite C3. lra.
  Qed.
End KeyTrans.

(* (c) stamping the merged block does not change the keys of its own in-constraints *)
Lemma skey_set_btime_r s t k x : rblk s x = t -> skey (set_btime s (upd_nth (btime s) t k)) x = skey s x.
Proof.
  intros E. unfold skey, lblk, rblk, ctime_of, btime_of, sslack in *. cbn [base ctime btime set_btime].
  destruct (Nat.eq_dec (blk_of (base s) (cl (con_of (base s) x))) t) as [Et|Et].
  - rewrite Et, E, Nat.eqb_refl, !orb_true_r. reflexivity.
  - rewrite nth_upd_nth_neq by congruence. reflexivity.
Qed.

(* ------------------------------------------------------------------ one iteration of mergeLeft's loop keeps the invariant *)
Section MLstep.
  Variables (done : list nat) (v : nat) (Yb : nat -> Q) (cs : list con) (n : nat).
  Hypothesis topo : forall c, (c < length cs)%nat -> proc done v (cr (Kc cs c)) -> In (cl (Kc cs c)) done.
  Hypothesis vnd : ~ In v done.
  Hypothesis G0 : forall c, (c < length cs)%nat -> In (cr (Kc cs c)) done ->
                    0 <= Yb (cr (Kc cs c)) - gap (Kc cs c) - Yb (cl (Kc cs c)).
  Hypothesis done_lt : forall u, In u done -> (u < n)%nat.

  Lemma ml_body_MLI s r c0 s' r' c' :
    MLI done v Yb cs n s r -> root_ok s r (Some c0) -> slack_val (base s) c0 < 0 ->
    ml_body s r c0 = Ok (s', r', c') ->
    MLI done v Yb cs n s' r' /\ root_ok s' r' c' /\ (nvars s r < nvars s' r')%nat.
  Proof.
    intros I [h0 [Hh0 [Hmin Hkey]]] Hneg H.
    pose proof (i_SI _ _ _ _ _ _ _ I) as SIs. pose proof SIs as [BK [AI HO]].
    pose proof (i_geo _ _ _ _ _ _ _ I) as G.
    pose proof (i_wf _ _ _ _ _ _ _ I) as W.
    pose proof (MLI_inh_r done v Yb cs n s r I) as Inr.
    pose proof (g_cs _ _ _ _ _ _ _ G) as Gcs. pose proof (g_n _ _ _ _ _ _ _ G) as Gn.
    destruct (g_v _ _ _ _ _ _ _ G) as [Hv Ev].
    destruct (HO r h0 c0 Hh0 (heap_min_in _ _ Hmin) Inr) as [Hc0 Hrb].
    destruct (skey_some_inv s c0 (Hkey c0 eq_refl)) as [Ext0 _].
    assert (Hext : extc (base s) c0) by exact Ext0.
    destruct (ml_body_inv s r c0 h0 s' r' c' SIs Inr Hh0 Hmin Hext H) as [SI' [Inr' _]].
    assert (Kcon : forall c, con_of (base s) c = Kc cs c) by (intros; apply (MLI_con done v Yb cs n s r); exact I).
    set (b := base s) in *.
    set (l := blk_of b (cl (Kc cs c0))).
    assert (El : lblk s c0 = l) by (unfold lblk, l; fold b; rewrite Kcon; reflexivity).
    assert (Er0 : blk_of b (cr (Kc cs c0)) = r) by (unfold rblk in Hrb; fold b in Hrb; rewrite Kcon in Hrb; exact Hrb).
    assert (Nl0 : l <> r) by (rewrite <- El, <- Hrb; exact Ext0).
    assert (Hc0' : (c0 < length cs)%nat) by (rewrite <- Gcs; exact Hc0).
    destruct (MLI_ends done v Yb cs n s r c0 I Hc0') as [Hcl0 Hcr0].
    assert (Pcr0 : proc done v (cr (Kc cs c0))).
    { apply (geo_block_proc done v Yb cs n b r v _ G); [exact Hv | exact Hcr0 | right; reflexivity | congruence]. }
    assert (Dcl0 : In (cl (Kc cs c0)) done) by (apply topo; assumption).
    assert (Inl : inhabited b l) by (exists (cl (Kc cs c0)); rewrite Gn; auto).
    destruct (bin_of s l) as [hl0|] eqn:Hl0.
    2:{ exfalso. apply (i_HN _ _ _ _ _ _ _ I (cl (Kc cs c0)) Hcl0 (or_introl Dcl0)). exact Hl0. }
    unfold ml_body in H.
    apply bind_ok in H. destruct H as [s1 [H1 H]].
    destruct (delete_min_good Yb s r h0 s1 Hh0 (i_HG _ _ _ _ _ _ _ I r h0 Inr Hh0) H1) as [h1 [D1 [[D2n D2o] [D3 [D4 [D5 D6]]]]]].
    pose proof D4 as [B1 [Ct1 Bt1]].
    assert (El1 : lblk s1 c0 = l) by (rewrite (lblk_ceqv _ _ _ D4); exact El).
    rewrite El1 in H.
    assert (Hl1 : bin_of s1 l = Some hl0).
    { destruct (D6 true l) as [[_ X]|X]; [congruence|]. cbn [heap_of] in X. congruence. }
    rewrite Hl1 in H.
    set (sw := Nat.ltb (nvars s1 r) (nvars s1 l)) in *.
    set (t := if sw then l else r) in *. set (a := if sw then r else l) in *.
    set (d := if sw then - mdist b c0 else mdist b c0).
    set (b' := merge_into b t a c0 d).
    assert (Hta : t <> a) by (unfold t, a; destruct sw; congruence).
    set (s4 := set_base (set_ctr s1 (S (ctr s1))) (merge_into (base (set_ctr s1 (S (ctr s1)))) t a c0 _)) in H.
    assert (Eb4 : base s4 = b').
    { unfold s4, b', d. cbn [base set_base set_ctr]. rewrite B1. fold b. unfold mdist. reflexivity. }
    apply bind_ok in H. destruct H as [s5 [H5 H]].
    apply bind_ok in H. destruct H as [[s9 c9] [H9 H]].
    assert (E' : s' = s9 /\ r' = t /\ c' = c9) by (inversion H; auto). destruct E' as [-> [-> ->]]. clear H.
    cbn [fst] in *.
    (* the geometric step *)
    assert (RM : forall c, (c < length cs)%nat -> blk_of b (cr (Kc cs c)) = r -> blk_of b (cl (Kc cs c)) <> r ->
                   slack_val b c0 <= slack_val b c \/ 0 <= slack_val b c).
    { intros c Hc E1 E2. left. apply (MLI_root_min done v Yb cs n s r c0 I); [exists h0; auto | exact Hc | exact E1 | exact E2]. }
    pose proof (geo_step done v Yb cs n topo G0 done_lt b r c0 sw BK W (i_ok _ _ _ _ _ _ _ I) G Hc0' Er0 Nl0 Hneg RM) as GS.
    cbv zeta in GS. fold l in GS. fold t a d in GS. fold b' in GS. destruct GS as [G' OK'].
    assert (Erl : blk_of b (cl (con_of b c0)) <> blk_of b (cr (con_of b c0))) by (rewrite Kcon, Er0; exact Nl0).
    destruct (merge_shift b c0 sw BK W (i_ok _ _ _ _ _ _ _ I) Hc0 Erl Hneg) as [rr [rl [Prr [Prl [Ed [MY _]]]]]].
    cbv zeta in MY. rewrite Kcon, Er0 in MY. fold l in MY. fold t a d in MY. fold b' in MY.
    assert (MF : merge_facts b t a c0 b').
    { unfold b', t, a. destruct sw.
      - apply (merge_into_facts b l r c0 _ (cl (Kc cs c0)) (cr (Kc cs c0)) BK); rewrite ?Gn; auto.
      - apply (merge_into_facts b r l c0 _ (cr (Kc cs c0)) (cl (Kc cs c0)) BK); rewrite ?Gn; auto. }
    assert (NB : forall u, (u < length (svars b))%nat ->
                   ((blk_of b u = r \/ blk_of b u = l) -> blk_of b' u = t) /\
                   (blk_of b u <> r -> blk_of b u <> l -> blk_of b' u = blk_of b u /\ blk_of b' u <> t)).
    { intros u Hu. destruct (mg_blk _ _ _ _ _ MF u Hu) as [M1 M2]. unfold t, a in *. destruct sw.
      - split.
        + intros [E|E]; [apply M1; exact E | rewrite M2; congruence].
        + intros E1 E2. rewrite M2 by exact E1. split; [reflexivity | congruence].
      - split.
        + intros [E|E]; [rewrite M2; congruence | apply M1; exact E].
        + intros E1 E2. rewrite M2 by exact E2. split; [reflexivity | congruence]. }
    assert (BT : btrans b b' r l t rr rl).
    { constructor; [exact (mg_svars _ _ _ _ _ MF) | exact (mg_scons _ _ _ _ _ MF) | exact NB | exact MY]. }
    (* elements of the two heaps *)
    assert (Eh0 : heap_elems h0 = c0 :: tl (heap_elems h0)).
    { destruct h0 as [[c kids]|]; [|discriminate]. cbn in Hmin. inversion Hmin. subst c. reflexivity. }
    pose proof (i_HG _ _ _ _ _ _ _ I r h0 Inr Hh0) as [ND0 _].
    assert (E1 : forall x, In x (heap_elems h1) -> (x < length cs)%nat /\ rblk s x = r /\ x <> c0 /\ In x (heap_elems h0)).
    { intros x Hx. apply (Permutation_in _ D3) in Hx.
      assert (Hx0 : In x (heap_elems h0)) by (rewrite Eh0; right; exact Hx).
      destruct (HO r h0 x Hh0 Hx0 Inr) as [A B]. fold b in A. rewrite Gcs in A. split; [exact A|]. split; [exact B|]. split; [|exact Hx0].
      intros ->. rewrite Eh0 in ND0. inversion ND0. contradiction. }
    assert (E2 : forall x, In x (heap_elems hl0) -> (x < length cs)%nat /\ rblk s x = l).
    { intros x Hx. destruct (HO l hl0 x Hl0 Hx Inl) as [A B]. fold b in A. rewrite Gcs in A. auto. }
    pose proof (i_HG _ _ _ _ _ _ _ I l hl0 Inl Hl0) as [NDl Ol].
    (* the state after the merge of the blocks, before the merge of the heaps *)
    assert (Ct4 : ctime s4 = ctime s) by (unfold s4; cbn; exact Ct1).
    assert (Bt4 : btime s4 = btime s) by (unfold s4; cbn; exact Bt1).
    assert (Cr4 : ctr s4 = S (ctr s)) by (unfold s4; cbn; rewrite D5; reflexivity).
    assert (Bin4 : forall B, bin_of s4 B = bin_of s1 B) by reflexivity.
    assert (W1 : wf_vars (svars (base s1))) by (rewrite B1; exact W).
    assert (BK1 : book (base s1)) by (rewrite B1; exact BK).
    assert (BT1 : btrans (base s1) (base s4) r l t rr rl) by (rewrite B1, Eb4; exact BT).
    assert (O1 : hordh (Rdom s4 Yb) h1).
    { apply (hordh_impl (Rdom s1 Yb)); [|exact D2o]. intros c x Hc Hx.
      destruct (E1 c Hc) as [A1 [A2 _]]. destruct (E1 x Hx) as [X1 [X2 _]].
      apply (Rdom_across_merge Yb s1 s4 r l t rr rl W1 BK1 BT1 r rr c x);
        [congruence | congruence | left; auto | rewrite B1; fold b; rewrite Gcs; exact A1 | rewrite B1; fold b; rewrite Gcs; exact X1
         | rewrite (rblk_ceqv _ _ _ D4); exact A2 | rewrite (rblk_ceqv _ _ _ D4); exact X2]. }
    assert (O2 : hordh (Rdom s4 Yb) hl0).
    { apply (hordh_impl (Rdom s1 Yb)); [|apply (hordh_ceqv s); assumption]. intros c x Hc Hx.
      destruct (E2 c Hc) as [A1 A2]. destruct (E2 x Hx) as [X1 X2].
      apply (Rdom_across_merge Yb s1 s4 r l t rr rl W1 BK1 BT1 l rl c x);
        [congruence | congruence | right; auto | rewrite B1; fold b; rewrite Gcs; exact A1 | rewrite B1; fold b; rewrite Gcs; exact X1
         | rewrite (rblk_ceqv _ _ _ D4); exact A2 | rewrite (rblk_ceqv _ _ _ D4); exact X2]. }
    set (ht := if sw then hl0 else h1). set (ha := if sw then h1 else hl0).
    assert (Hht : bin_of s4 t = Some ht) by (unfold t, ht; rewrite Bin4; destruct sw; assumption).
    assert (Hha : bin_of s4 a = Some ha) by (unfold a, ha; rewrite Bin4; destruct sw; assumption).
    assert (Oht : hordh (Rdom s4 Yb) ht) by (unfold ht; destruct sw; assumption).
    assert (Oha : hordh (Rdom s4 Yb) ha) by (unfold ha; destruct sw; assumption).
    assert (Eta : forall x, In x (heap_elems ht ++ heap_elems ha) <-> (In x (heap_elems h1) \/ In x (heap_elems hl0))).
    { intros x. rewrite in_app_iff. unfold ht, ha. destruct sw; tauto. }
    assert (Dis : forall x, In x (heap_elems h1) -> In x (heap_elems hl0) -> False).
    { intros x X1 X2. destruct (E1 x X1) as [_ [A _]]. destruct (E2 x X2) as [_ B]. congruence. }
    assert (NDta : NoDup (heap_elems ht ++ heap_elems ha)).
    { unfold ht, ha. destruct sw.
      - apply NoDup_app_disjoint; auto. intros x X1 X2. exact (Dis x X2 X1).
      - apply NoDup_app_disjoint; auto. }
    assert (T24 : T2 s4).
    { intros B. unfold btime_of. rewrite Bt4, Cr4. pose proof (i_T2 _ _ _ _ _ _ _ I B) as X. unfold btime_of in X. lia. }
    assert (Lct : length (ctime s) = length cs) by exact (i_lct _ _ _ _ _ _ _ I).
    destruct (merge_heaps_good Yb s4 t a ht ha s5 Hta T24 Hht Hha Oht Oha NDta) as
      [h5 [M1 [M2 [[M3n M3o] [M4 [M5 [M6 [M7 [M8 [M8' [M9 M10]]]]]]]]]]].
    { intros x Hx. apply Eta in Hx. rewrite Ct4, Lct. destruct Hx as [Hx|Hx]; [apply (E1 x Hx) | apply (E2 x Hx)]. }
    { exact H5. }
    (* stamping the merged block *)
    set (s6 := set_btime s5 (upd_nth (btime s5) t (ctr s5))) in *.
    assert (Ht_lt : (t < length (btime s))%nat).
    { rewrite (i_lbt _ _ _ _ _ _ _ I). fold b. unfold t. destruct sw.
      - unfold l. apply (bk_blk _ BK). rewrite Gn. exact Hcl0.
      - rewrite <- Er0. apply (bk_blk _ BK). rewrite Gn. exact Hcr0. }
    assert (Rb5 : forall x, In x (heap_elems h5) -> rblk s5 x = t).
    { intros x Hx. apply M4, Eta in Hx. unfold rblk. rewrite M6, Eb4.
      assert (Ec : con_of b' x = con_of b x) by (unfold con_of; rewrite (mg_scons _ _ _ _ _ MF); reflexivity). rewrite Ec.
      destruct Hx as [Hx|Hx].
      - destruct (E1 x Hx) as [A [B _]]. rewrite <- Gcs in A. destruct (con_ends_lt _ _ BK A) as [_ Hr]. apply (NB _ Hr). left. exact B.
      - destruct (E2 x Hx) as [A B]. rewrite <- Gcs in A. destruct (con_ends_lt _ _ BK A) as [_ Hr]. apply (NB _ Hr). right. exact B. }
    assert (O6 : hordh (Rdom s6 Yb) h5).
    { apply (hordh_impl (Rdom s5 Yb)); [|exact M3o]. intros c x Hc Hx R.
      unfold Rdom, Kof, lblk, rblk in *. unfold s6. rewrite !skey_set_btime_r by (apply Rb5; assumption). exact R. }
    assert (T26 : T2 s6).
    { intros B. unfold btime_of, s6. cbn [btime set_btime ctr].
      destruct (nth_upd_nth_cases (btime s5) t B (ctr s5) O) as [E|[_ [_ E]]]; rewrite E; [|lia].
      rewrite M7, Bt4, M8, Cr4. pose proof (i_T2 _ _ _ _ _ _ _ I B) as X. unfold btime_of in X. lia. }
    destruct (find_min_in_good Yb s6 t h5 s9 c9 T26 M1 (conj M3n O6)) as
      [h9 [N1 [N2 [N3 [N4 [N5 [N6 [N7 [N8 [N9 [N9' [N10 N11]]]]]]]]]]]].
    { intros x Hx. change (length (ctime s6)) with (length (ctime s5)). rewrite M8', Ct4, Lct.
      apply M4, Eta in Hx. destruct Hx as [Hx|Hx]; [apply (E1 x Hx) | apply (E2 x Hx)]. }
    { exact H9. }
    (* summary of the new state *)
    assert (Fb : base s9 = b') by (rewrite N7; change (base s6) with (base s5); rewrite M6; exact Eb4).
    assert (Fc : ctr s9 = S (ctr s)) by (rewrite N9; change (ctr s6) with (ctr s5); rewrite M8; exact Cr4).
    assert (Fbt_t : btime_of s9 t = S (ctr s)).
    { unfold btime_of. rewrite N8. unfold s6. cbn [btime set_btime]. rewrite nth_upd_nth_eq by (rewrite M7, Bt4; exact Ht_lt).
      rewrite M8. exact Cr4. }
    assert (Fbt_o : forall B, B <> t -> btime_of s9 B = btime_of s B).
    { intros B NB'. unfold btime_of. rewrite N8. unfold s6. cbn [btime set_btime]. rewrite nth_upd_nth_neq by congruence.
      rewrite M7, Bt4. reflexivity. }
    assert (Fct : forall x, ctime_of s9 x = ctime_of s x \/
                            ((In x (heap_elems h1) \/ In x (heap_elems hl0)) /\ ctime_of s9 x = S (ctr s))).
    { intros x. assert (E4 : ctime_of s4 x = ctime_of s x) by (unfold ctime_of; rewrite Ct4; reflexivity).
      destruct (N10 x) as [E|[Hx E]].
      - change (ctime_of s6 x) with (ctime_of s5 x) in E. destruct (M9 x) as [E5|[Hx E5]].
        + left. congruence.
        + right. split; [apply Eta; exact Hx | congruence].
      - right. split; [apply Eta, M4; exact Hx|]. change (ctr s6) with (ctr s5) in E. congruence. }
    assert (Fh_o : forall B, B <> r -> B <> l -> bin_of s9 B = bin_of s B).
    { intros B N1' N2'. assert (Nt : B <> t) by (unfold t; destruct sw; assumption).
      assert (Na : B <> a) by (unfold a; destruct sw; assumption).
      destruct (N11 true B) as [[_ X]|X]; [congruence|]. cbn [heap_of] in X. rewrite X.
      change (bin_of s6 B) with (bin_of s5 B).
      destruct (M10 true B) as [[_ [X'|X']]|X']; [congruence | congruence|]. cbn [heap_of] in X'. rewrite X', Bin4.
      destruct (D6 true B) as [[_ Y]|Y]; [congruence|]. exact Y. }
    assert (F9in : forall x, In x (heap_elems h9) -> In x (heap_elems h1) \/ In x (heap_elems hl0)).
    { intros x Hx. apply Eta, M4, N4. exact Hx. }
    assert (LR9 : forall x, lblk s9 x = blk_of b' (cl (con_of b x)) /\ rblk s9 x = blk_of b' (cr (con_of b x))).
    { intros x. unfold lblk, rblk. rewrite Fb.
      assert (Ec : con_of b' x = con_of b x) by (unfold con_of; rewrite (mg_scons _ _ _ _ _ MF); reflexivity). rewrite Ec. auto. }
    assert (F9ext : forall x, (In x (heap_elems h1) \/ In x (heap_elems hl0)) -> lblk s9 x <> rblk s9 x -> In x (heap_elems h9)).
    { intros x Hx Ex. apply N5.
      - apply M5; [apply Eta; exact Hx|]. unfold lblk, rblk in *. rewrite Eb4. rewrite Fb in Ex. exact Ex.
      - unfold lblk, rblk in *. change (base s6) with (base s5). rewrite M6, Eb4. rewrite Fb in Ex. exact Ex. }
    assert (Lb' : length (svars b') = n) by (rewrite (mg_svars _ _ _ _ _ MF); exact Gn).
    (* inhabited blocks after the merge *)
    assert (Inh' : forall B, inhabited b' B -> B <> t -> inhabited b B /\ B <> r /\ B <> l).
    { intros B [w [Hw Ew]] Nt. rewrite Lb' in Hw. rewrite <- Gn in Hw.
      destruct (Nat.eq_dec (blk_of b w) r) as [X|X]; [exfalso; apply Nt; rewrite <- Ew; apply (NB w Hw); left; exact X|].
      destruct (Nat.eq_dec (blk_of b w) l) as [X2|X2]; [exfalso; apply Nt; rewrite <- Ew; apply (NB w Hw); right; exact X2|].
      destruct (proj2 (NB w Hw) X X2) as [E _]. split; [exists w; split; [exact Hw | congruence]|]. split; congruence. }
    split; [|split].
    2:{ exists h9. split; [exact N1|]. split; [exact N3 | exact N6]. }
    2:{ (* the block grows: fuel bound of mergeLeft's loop *)
      unfold nvars. rewrite Fb. fold b.
      destruct SI' as [BK' _]. rewrite Fb in BK'.
      assert (Hvb : (v < length (svars b))%nat) by (rewrite Gn; exact Hv).
      assert (Hvb' : (v < length (svars b'))%nat) by (rewrite Lb'; exact Hv).
      assert (Evt : blk_of b' v = t) by (apply (NB v Hvb); left; exact Ev).
      pose proof (bk_nodup _ BK v Hvb) as NDr. rewrite Ev in NDr.
      assert (Hclb : (cl (Kc cs c0) < length (svars b))%nat) by (rewrite Gn; exact Hcl0).
      assert (NDc : NoDup (cl (Kc cs c0) :: bvars (block_of b r))).
      { constructor; [|exact NDr]. intros X. rewrite <- Ev in X. apply (bk_mem _ BK v _ Hvb) in X. destruct X as [_ X].
        rewrite Ev in X. apply Nl0. exact X. }
      assert (Inc : incl (cl (Kc cs c0) :: bvars (block_of b r)) (bvars (block_of b' t))).
      { intros w [<-|Hw]; rewrite <- Evt; apply (bk_mem _ BK' v _ Hvb'); rewrite Lb', Evt.
        - split; [exact Hcl0|]. apply (NB _ Hclb). right. reflexivity.
        - rewrite <- Ev in Hw. apply (bk_mem _ BK v _ Hvb) in Hw. destruct Hw as [Hw1 Hw2]. rewrite Gn in Hw1.
          split; [exact Hw1|]. apply (NB w); [rewrite Gn; exact Hw1|]. left. rewrite Hw2. exact Ev. }
      pose proof (NoDup_incl_length NDc Inc) as X. cbn [length] in X. lia. }
    assert (Blk' : forall u, (u < n)%nat -> blk_of b' u = t \/ (blk_of b' u = blk_of b u /\ blk_of b u <> r /\ blk_of b u <> l /\ blk_of b' u <> t)).
    { intros u Hu. rewrite <- Gn in Hu.
      destruct (Nat.eq_dec (blk_of b u) r) as [X|X]; [left; apply (NB u Hu); left; exact X|].
      destruct (Nat.eq_dec (blk_of b u) l) as [X2|X2]; [left; apply (NB u Hu); right; exact X2|].
      destruct (proj2 (NB u Hu) X X2) as [E E']. right. auto. }
    assert (Hcon : forall x, con_of b x = Kc cs x) by exact Kcon.
    constructor.
    - exact SI'.
    - rewrite Fb, (mg_svars _ _ _ _ _ MF). exact W.
    - rewrite Fb. exact OK'.
    - intros u Hu. rewrite Fb.
      assert (Na : blk_of b' u <> a).
      { destruct (Blk' u Hu) as [E|[E [X1 [X2 _]]]]; [congruence|]. rewrite E. unfold a. destruct sw; assumption. }
      pose proof (merge_into_dead b t a c0 d _ Na) as Dd. fold b' in Dd. rewrite Dd. clear Dd.
      destruct (Blk' u Hu) as [E|[E _]].
      + rewrite E. unfold t. destruct sw.
        * exact (i_live _ _ _ _ _ _ _ I _ Hcl0).
        * rewrite <- Er0. exact (i_live _ _ _ _ _ _ _ I _ Hcr0).
      + rewrite E. exact (i_live _ _ _ _ _ _ _ I u Hu).
    - rewrite Fb. exact G'.
    - rewrite N9'. change (length (ctime s6)) with (length (ctime s5)). rewrite M8', Ct4. exact Lct.
    - rewrite N8. unfold s6. cbn [btime set_btime]. rewrite upd_nth_length, M7, Bt4, Fb, (mg_lblocks _ _ _ _ _ MF).
      exact (i_lbt _ _ _ _ _ _ _ I).
    - intros x. rewrite Fc. pose proof (i_T1 _ _ _ _ _ _ _ I x). destruct (Fct x) as [E|[_ E]]; rewrite E; lia.
    - intros B. rewrite Fc. destruct (Nat.eq_dec B t) as [->|NB']; [rewrite Fbt_t; lia|].
      rewrite (Fbt_o B NB'). pose proof (i_T2 _ _ _ _ _ _ _ I B). lia.
    - (* T3 *)
      intros B h x Hi Nt Hb Hx. rewrite Fb in Hi. destruct (Inh' B Hi Nt) as [Hi0 [Nr Nl]].
      rewrite (Fh_o B Nr Nl) in Hb. rewrite Fbt_t.
      destruct (HO B h x Hb Hx Hi0) as [_ Rx].
      destruct (Fct x) as [E|[[X|X] _]].
      + rewrite E. pose proof (i_T1 _ _ _ _ _ _ _ I x). lia.
      + destruct (E1 x X) as [_ [Y _]]. congruence.
      + destruct (E2 x X) as [_ Y]. congruence.
    - (* HN *)
      intros u Hu Pu. rewrite Fb. destruct (Blk' u Hu) as [E|[E [X1 [X2 _]]]].
      + rewrite E, N1. discriminate.
      + rewrite E, (Fh_o _ X1 X2). exact (i_HN _ _ _ _ _ _ _ I u Hu Pu).
    - (* HG *)
      intros B h Hi Hb. rewrite Fb in Hi. destruct (Nat.eq_dec B t) as [->|Nt].
      + rewrite N1 in Hb. inversion Hb. subst h. exact N2.
      + destruct (Inh' B Hi Nt) as [Hi0 [Nr Nl]]. rewrite (Fh_o B Nr Nl) in Hb.
        destruct (i_HG _ _ _ _ _ _ _ I B h Hi0 Hb) as [NDh Oh]. split; [exact NDh|].
        apply (hordh_impl (Rdom s Yb)); [|exact Oh]. intros c x Hc Hx.
        assert (BT9 : btrans (base s) (base s9) r l t rr rl) by (rewrite Fb; exact BT).
        assert (Fr : forall y, In y (heap_elems h) -> (y < length (scons (base s)))%nat /\ rblk s y = B /\ ctime_of s9 y = ctime_of s y /\
                       (skey s y <> None -> lblk s y <> r)).
        { intros y Hy. destruct (HO B h y Hb Hy Hi0) as [A1 A2]. split; [exact A1|]. split; [exact A2|]. split.
          - destruct (Fct y) as [E|[[X|X] _]]; [exact E | |].
            + destruct (E1 y X) as [_ [Y _]]. congruence.
            + destruct (E2 y X) as [_ Y]. congruence.
          - intros Ny El'. destruct (skey_some_inv s y Ny) as [_ Z]. rewrite El' in Z.
            pose proof (i_T3 _ _ _ _ _ _ _ I B h y Hi0 Nr Hb Hy). lia. }
        destruct (Fr c Hc) as [C1 [C2 [C3 C4]]]. destruct (Fr x Hx) as [X1 [X2 [X3 X4]]].
        apply (Rdom_untouched Yb s s9 r l t rr rl W BK BT9 (i_T1 _ _ _ _ _ _ _ I) Fbt_t Fbt_o) with (B := B); auto.
        intros u Hu Nu. apply (g_2a _ _ _ _ _ _ _ G u); [rewrite <- Gn; exact Hu | exact Nu].
    - (* HE *)
      intros B h x Hi Hb Hx. rewrite Fb in Hi. destruct (Nat.eq_dec B t) as [->|Nt].
      + rewrite N1 in Hb. inversion Hb. subst h. destruct (F9in x Hx) as [X|X].
        * destruct (E1 x X) as [_ [_ [_ X0]]]. exact (i_HE _ _ _ _ _ _ _ I r h0 x Inr Hh0 X0).
        * exact (i_HE _ _ _ _ _ _ _ I l hl0 x Inl Hl0 X).
      + destruct (Inh' B Hi Nt) as [Hi0 [Nr Nl]]. rewrite (Fh_o B Nr Nl) in Hb. exact (i_HE _ _ _ _ _ _ _ I B h x Hi0 Hb Hx).
    - (* HC *)
      intros c Hc Pc Ex. destruct (LR9 c) as [L9 R9]. rewrite Hcon in L9, R9.
      destruct (MLI_ends done v Yb cs n s r c I Hc) as [Hcl Hcr].
      assert (Ex0 : lblk s c <> rblk s c).
      { unfold lblk, rblk. fold b. rewrite Hcon. intros E. apply Ex. rewrite L9, R9.
        destruct (Blk' _ Hcl) as [A|[A [A1 [A2 A3]]]]; destruct (Blk' _ Hcr) as [B|[B [Q1 [Q2 Q3]]]]; try congruence.
        - exfalso. rewrite <- E in Q1, Q2. rewrite <- Gn in Hcl.
          destruct (proj2 (NB _ Hcl) Q1 Q2) as [_ Z]. contradiction.
        - exfalso. rewrite E in A1, A2. rewrite <- Gn in Hcr.
          destruct (proj2 (NB _ Hcr) A1 A2) as [_ Z]. contradiction. }
      destruct (i_HC _ _ _ _ _ _ _ I c Hc Pc Ex0) as [h [Hb Hin]].
      assert (Rc : rblk s c = blk_of b (cr (Kc cs c))) by (unfold rblk; fold b; rewrite Hcon; reflexivity).
      rewrite R9. destruct (Blk' _ Hcr) as [E|[E [X1 [X2 _]]]].
      + rewrite E. exists h9. split; [exact N1|]. apply F9ext; [|exact Ex].
        rewrite <- Gn in Hcr. 
        destruct (Nat.eq_dec (blk_of b (cr (Kc cs c))) r) as [X|X].
        * left. rewrite Rc, X, Hh0 in Hb. inversion Hb. subst h.
          rewrite Eh0 in Hin. destruct Hin as [<-|Hin].
          -- exfalso. apply Ex. rewrite L9, R9.
             rewrite (proj1 (NB _ (eq_ind_r (fun k => (_ < k)%nat) Hcl0 Gn)) (or_intror eq_refl)).
             rewrite (proj1 (NB _ Hcr) (or_introl X)). reflexivity.
          -- apply (Permutation_in _ (Permutation_sym D3)). exact Hin.
        * destruct (Nat.eq_dec (blk_of b (cr (Kc cs c))) l) as [X2|X2].
          -- right. rewrite Rc, X2, Hl0 in Hb. inversion Hb. subst h. exact Hin.
          -- exfalso. destruct (proj2 (NB _ Hcr) X X2) as [_ Z]. contradiction.
      + rewrite E, (Fh_o _ X1 X2). exists h. rewrite Rc in Hb. split; assumption.
  Qed.

  Lemma ceqv_root_ok s s' r c : ceqv s s' -> bin s' = bin s -> root_ok s r c -> root_ok s' r c.
  Proof.
    intros CE EB [h [A [B C]]]. exists h. unfold bin_of. rewrite EB. split; [exact A|]. split; [exact B|].
    intros c0 E. rewrite (skey_ceqv _ _ _ CE). exact (C c0 E).
  Qed.

  Lemma snote_slack_fields e s c z :
    base (snote_slack e s c z) = base s /\ ctime (snote_slack e s c z) = ctime s /\ btime (snote_slack e s c z) = btime s /\
    bin (snote_slack e s c z) = bin s /\ ctr (snote_slack e s c z) = ctr s.
  Proof. unfold snote_slack. destruct (_ && _); repeat split. Qed.

  Lemma ml_loop_MLI : forall fuel s r c s',
    MLI done v Yb cs n s r -> root_ok s r c -> ml_loop fuel s r c = Ok s' ->
    exists r' c', MLI done v Yb cs n s' r' /\ root_ok s' r' c' /\ (forall c0, c' = Some c0 -> 0 <= slack_val (base s') c0).
  Proof.
    induction fuel as [|f IH]; intros s r c s' I RO H; [discriminate|].
    cbn [ml_loop] in H. destruct c as [c0|].
    2:{ inversion H. subst s'. exists r, None. split; [exact I|]. split; [exact RO|]. intros c0 E. discriminate. }
    destruct (snote_slack_fields TIE_EPS s c0 0) as [F1 [F2 [F3 [F4 F5]]]].
    set (s0 := snote_slack TIE_EPS s c0 0) in *.
    assert (I0 : MLI done v Yb cs n s0 r) by (apply (MLI_frame done v Yb cs n s); assumption).
    assert (RO0 : root_ok s0 r (Some c0)) by (apply (ceqv_root_ok s); [repeat split; assumption | exact F4 | exact RO]).
    destruct (Qltb (sslack s0 c0) 0) eqn:E.
    - apply bind_ok in H. destruct H as [[[s1 r1] c1] [H1 H2]].
      apply Qltb_spec in E. unfold sslack in E.
      destruct (ml_body_MLI s0 r c0 s1 r1 c1 I0 RO0 E H1) as [I1 [RO1 _]].
      exact (IH _ _ _ _ I1 RO1 H2).
    - inversion H. subst s'. exists r, (Some c0). split; [exact I0|]. split; [exact RO0|].
      intros c1 E1. inversion E1. subst c1. apply Qltb_false in E. exact E.
  Qed.
End MLstep.

(* ------------------------------------------------------------------ setUpInConstraints *)
Lemma heap_add_fold_good Yb b0 : forall L s h s' h',
  fold_left (heap_add b0 true) L (s, h) = (s', h') ->
  hordh (Rdom s Yb) h -> NoDup (heap_elems h ++ L) -> (forall x, In x L -> (x < length (ctime s))%nat) ->
  base s' = base s /\ btime s' = btime s /\ ctr s' = ctr s /\ heaps_eq s s' /\ length (ctime s') = length (ctime s) /\
  (forall x, (~ In x L -> ctime_of s' x = ctime_of s x) /\ (In x L -> ctime_of s' x = ctr s)) /\
  hordh (Rdom s' Yb) h' /\ NoDup (heap_elems h') /\
  (forall x, In x (heap_elems h') <-> (In x (heap_elems h) \/ (In x L /\ lblk s x <> b0))).
Proof.
  induction L as [|v t IH]; intros s h s' h' H HO ND HL; cbn [fold_left] in H.
  - inversion H. subst. rewrite app_nil_r in ND.
    split; [reflexivity|]. split; [reflexivity|]. split; [reflexivity|]. split; [apply heaps_eq_refl|]. split; [reflexivity|].
    split; [intros x; split; [reflexivity | intros []]|]. split; [exact HO|]. split; [exact ND|].
    intros x. split; [auto | intros [X|[[] _]]; exact X].
  - unfold heap_add at 2 in H.
    set (s0 := set_ctime_of s v (ctr s)) in *.
    assert (Nv : ~ In v (heap_elems h)).
    { intros Hv. apply NoDup_remove_2 in ND. apply ND. rewrite in_app_iff. left. exact Hv. }
    assert (Nvt : ~ In v t).
    { intros Hv. apply NoDup_remove_2 in ND. apply ND. rewrite in_app_iff. right. exact Hv. }
    pose proof (hordh_set_ctime_other s Yb v (ctr s) h Nv HO) as HO0. fold s0 in HO0.
    assert (L0 : length (ctime s0) = length (ctime s)) by (cbn; apply upd_nth_length).
    assert (Lv : Nat.ltb v (length (ctime s)) = true) by (apply Nat.ltb_lt, HL; left; reflexivity).
    assert (E0 : forall x, ctime_of s0 x = if Nat.eqb x v then ctr s else ctime_of s x).
    { intros x. unfold s0. rewrite ctime_of_set_ctime_of, Lv, andb_true_r. reflexivity. }
    assert (LB0 : forall x, lblk s0 x = lblk s x) by reflexivity.
    destruct (negb (Nat.eqb (lblk s0 v) b0)) eqn:EQ.
    + destruct (s_insert_spec s0 Yb h v HO0) as [C1 [C2 [C3 [C4 C5]]]]. cbv zeta in *.
      destruct (s_insert s0 h v) as [s1 h1] eqn:E. cbn [fst snd] in *.
      assert (L1 : length (ctime s1) = length (ctime s)) by (destruct C1 as [_ [C1 _]]; rewrite C1; exact L0).
      destruct (IH _ _ _ _ H C4) as [A1 [A2 [A3 [A4 [A4' [A5 [A6 [A7 A8]]]]]]]].
      * apply (Permutation_NoDup (l := v :: heap_elems h ++ t)).
        -- apply Permutation_app_tail with (tl := t) in C5. apply Permutation_sym. exact C5.
        -- apply (Permutation_NoDup (l := heap_elems h ++ v :: t)); [|exact ND]. apply Permutation_sym, Permutation_middle.
      * intros w Hw. rewrite L1. apply HL. right. exact Hw.
      * destruct C1 as [B1 [B2 B3]].
        split; [rewrite A1, B1; reflexivity|]. split; [rewrite A2, B3; reflexivity|]. split; [rewrite A3, C2; reflexivity|].
        split; [apply (heaps_eq_trans _ s1); [|exact A4]; destruct C3 as [X Y]; split; [exact X | exact Y]|].
        split; [congruence|]. split; [|split; [exact A6 | split; [exact A7|]]].
        -- intros x. destruct (A5 x) as [P1 P2].
           assert (E1 : ctime_of s1 x = ctime_of s0 x) by (unfold ctime_of; rewrite B2; reflexivity).
           split.
           ++ intros Hx. rewrite P1 by (intros Y; apply Hx; right; exact Y). rewrite E1, E0.
              destruct (Nat.eqb x v) eqn:EV; [apply Nat.eqb_eq in EV; subst x; exfalso; apply Hx; left; reflexivity | reflexivity].
           ++ intros [<-|Hx].
              ** rewrite P1 by exact Nvt. rewrite E1, E0, Nat.eqb_refl. reflexivity.
              ** rewrite (P2 Hx). rewrite C2. reflexivity.
        -- intros x. rewrite A8. 
           assert (LB1 : lblk s1 x = lblk s x) by (unfold lblk; rewrite B1; reflexivity). rewrite LB1.
           assert (X5 : In x (heap_elems h1) <-> x = v \/ In x (heap_elems h)).
           { split; intros Y; [apply (Permutation_in _ C5) in Y | apply (Permutation_in _ (Permutation_sym C5))]; cbn [In] in *; intuition. }
           rewrite X5. cbn [In]. apply negb_true_iff, Nat.eqb_neq in EQ. rewrite LB0 in EQ.
           split; [intros [[->|Y]|[Y Z]]; auto | intros [Y|[[<-|Y] Z]]; auto].
    + assert (HOx : hordh (Rdom s0 Yb) h) by exact HO0.
      destruct (IH _ _ _ _ H HOx) as [A1 [A2 [A3 [A4 [A4' [A5 [A6 [A7 A8]]]]]]]].
      * apply NoDup_remove_1 in ND. exact ND.
      * intros w Hw. rewrite L0. apply HL. right. exact Hw.
      * split; [rewrite A1; reflexivity|]. split; [rewrite A2; reflexivity|]. split; [rewrite A3; reflexivity|].
        split; [destruct A4 as [X Y]; split; [exact X | exact Y]|].
        split; [congruence|]. split; [|split; [exact A6 | split; [exact A7|]]].
        -- intros x. destruct (A5 x) as [P1 P2]. split.
           ++ intros Hx. rewrite P1 by (intros Y; apply Hx; right; exact Y). rewrite E0.
              destruct (Nat.eqb x v) eqn:EV; [apply Nat.eqb_eq in EV; subst x; exfalso; apply Hx; left; reflexivity | reflexivity].
           ++ intros [<-|Hx].
              ** rewrite P1 by exact Nvt. rewrite E0, Nat.eqb_refl. reflexivity.
              ** rewrite (P2 Hx). reflexivity.
        -- intros x. rewrite A8. rewrite LB0. cbn [In]. apply negb_false_iff, Nat.eqb_eq in EQ. rewrite LB0 in EQ.
           split; [intros [Y|[Y Z]]; auto | intros [Y|[[<-|Y] Z]]; auto]. contradiction.
Qed.

Lemma NoDup_map_fst_filter' {A B} (f : A * B -> bool) (l : list (A * B)) :
  NoDup (map fst l) -> NoDup (map fst (filter f l)).
Proof.
  induction l as [|p t IH]; intros H; cbn [filter map]; [constructor|].
  cbn [map] in H. inversion H as [|? ? N H']. subst.
  destruct (f p); [|exact (IH H')]. cbn [map]. constructor; [|exact (IH H')].
  intros X. apply N. apply in_map_iff in X. destruct X as [q [E Q]]. apply filter_In in Q. apply in_map_iff. exists q. tauto.
Qed.
Lemma map_fst_combine_seq' (cs : list con) : forall a, map fst (combine (seq a (length cs)) cs) = seq a (length cs).
Proof. induction cs as [|c t IH]; intros a; cbn; [reflexivity | rewrite IH; reflexivity]. Qed.
Lemma NoDup_ins_of' s v : NoDup (ins_of s v).
Proof. unfold ins_of, idx_filter. apply NoDup_map_fst_filter'. rewrite map_fst_combine_seq'. apply seq_NoDup. Qed.

Lemma singleton_list (l : list nat) v : NoDup l -> (forall w, In w l <-> w = v) -> l = [v].
Proof.
  intros ND H. destruct l as [|a t]; [exfalso; apply (proj2 (H v) eq_refl)|].
  assert (a = v) by (apply H; left; reflexivity). subst a. f_equal.
  destruct t as [|b t]; [reflexivity|]. exfalso. inversion ND as [|? ? N _]. subst. apply N.
  assert (b = v) by (apply H; right; left; reflexivity). subst b. left. reflexivity.
Qed.

(* ------------------------------------------------------------------ the invariant between two variables of the order *)
Record PI (cs : list con) (n : nat) (done : list nat) (s : sst) : Prop := {
  p_SI : SI s;
  p_wf : wf_vars (svars (base s));
  p_ok : all_blk_ok (base s);
  p_live : forall u, (u < n)%nat -> dead (block_of (base s) (blk_of (base s) u)) = false;
  p_cs : scons (base s) = cs;
  p_n : length (svars (base s)) = n;
  p_sing : forall u w, (u < n)%nat -> (w < n)%nat -> ~ In u done -> blk_of (base s) w = blk_of (base s) u -> w = u;
  p_sat : forall c, (c < length cs)%nat -> In (cr (Kc cs c)) done -> 0 <= slack_val (base s) c;
  p_lct : length (ctime s) = length cs;
  p_lbt : length (btime s) = length (blocks (base s));
  p_T1 : T1 s;
  p_T2 : T2 s;
  p_HN : forall u, In u done -> bin_of s (blk_of (base s) u) <> None;
  p_HG : forall B h, inhabited (base s) B -> bin_of s B = Some h -> hgood s (Yof (base s)) h;
  p_HE : forall B h x, inhabited (base s) B -> bin_of s B = Some h -> In x (heap_elems h) -> In (cr (Kc cs x)) done;
  p_HC : forall c, (c < length cs)%nat -> In (cr (Kc cs c)) done -> lblk s c <> rblk s c ->
           exists h, bin_of s (rblk s c) = Some h /\ In c (heap_elems h) }.

Section Visit.
  Variables (done : list nat) (v : nat) (cs : list con) (n : nat).
  Hypothesis topo : forall c, (c < length cs)%nat -> proc done v (cr (Kc cs c)) -> In (cl (Kc cs c)) done.
  Hypothesis vnd : ~ In v done.
  Hypothesis done_lt : forall u, In u done -> (u < n)%nat.
  Hypothesis Hv : (v < n)%nat.

  (* leaving mergeLeft: bit 4 (prefix_satb) for the extended prefix *)
  Lemma MLI_to_PI Yb s r c :
    (forall k, (k < length cs)%nat -> In (cr (Kc cs k)) done -> 0 <= Yb (cr (Kc cs k)) - gap (Kc cs k) - Yb (cl (Kc cs k))) ->
    MLI done v Yb cs n s r -> root_ok s r c -> (forall c0, c = Some c0 -> 0 <= slack_val (base s) c0) ->
    PI cs n (v :: done) s.
  Proof.
    intros G0 I RO Hex. pose proof (i_geo _ _ _ _ _ _ _ I) as G. pose proof (i_SI _ _ _ _ _ _ _ I) as [BK [AI HO]].
    assert (PR : forall u, In u (v :: done) <-> proc done v u) by (intros u; unfold proc; cbn [In]; intuition).
    constructor.
    - exact (i_SI _ _ _ _ _ _ _ I).
    - exact (i_wf _ _ _ _ _ _ _ I).
    - exact (i_ok _ _ _ _ _ _ _ I).
    - exact (i_live _ _ _ _ _ _ _ I).
    - exact (g_cs _ _ _ _ _ _ _ G).
    - exact (g_n _ _ _ _ _ _ _ G).
    - intros u w Hu Hw Nu. apply (g_sing _ _ _ _ _ _ _ G u w Hu Hw). rewrite <- PR. exact Nu.
    - intros k Hk Pk. apply PR in Pk. exact (MLI_exit_sat done v Yb cs n topo G0 s r c I RO Hex k Hk Pk).
    - exact (i_lct _ _ _ _ _ _ _ I).
    - exact (i_lbt _ _ _ _ _ _ _ I).
    - exact (i_T1 _ _ _ _ _ _ _ I).
    - exact (i_T2 _ _ _ _ _ _ _ I).
    - intros u Pu. apply (i_HN _ _ _ _ _ _ _ I u); [|apply PR; exact Pu]. destruct Pu as [<-|Pu]; [exact Hv | exact (done_lt u Pu)].
    - intros B h Hi Hb. destruct (i_HG _ _ _ _ _ _ _ I B h Hi Hb) as [NDh Oh]. split; [exact NDh|].
      apply (hordh_impl (Rdom s Yb)); [|exact Oh]. intros c1 x Hc1 Hx R Nc Ex.
      specialize (R Nc Ex). unfold Kof in *. destruct (skey s c1) as [k1|]; [|congruence].
      destruct (skey s x) as [kx|]; [exact R|].
      destruct (HO B h x Hb Hx Hi) as [Hxm _]. rewrite (g_cs _ _ _ _ _ _ _ G) in Hxm.
      pose proof (i_HE _ _ _ _ _ _ _ I B h x Hi Hb Hx) as Px. pose proof (topo x Hxm Px) as Dl.
      rewrite (MLI_con done v Yb cs n s r x I) in *. pose proof (g_2b _ _ _ _ _ _ _ G _ Dl). lra.
    - intros B h x Hi Hb Hx. apply PR. exact (i_HE _ _ _ _ _ _ _ I B h x Hi Hb Hx).
    - intros k Hk Pk. apply PR in Pk. exact (i_HC _ _ _ _ _ _ _ I k Hk Pk).
  Qed.
End Visit.

(* ------------------------------------------------------------------ entering mergeLeft *)
Lemma skey_frame2 s s' x :
  base s' = base s -> ctime_of s' x = ctime_of s x -> btime_of s' (lblk s x) = btime_of s (lblk s x) -> skey s' x = skey s x.
Proof.
  intros A C B. unfold skey, sslack. unfold lblk, rblk in *. rewrite C, A, B. reflexivity.
Qed.
Lemma Rdom_skey_eq s s' Yb c x :
  base s' = base s -> skey s' c = skey s c -> skey s' x = skey s x -> Rdom s Yb c x -> Rdom s' Yb c x.
Proof. intros A E1 E2 R. unfold Rdom, Kof, lblk, rblk in *. rewrite E1, E2, A. exact R. Qed.

Section Start.
  Variables (done : list nat) (v : nat) (cs : list con) (n : nat).
  Hypothesis topo : forall c, (c < length cs)%nat -> proc done v (cr (Kc cs c)) -> In (cl (Kc cs c)) done.
  Hypothesis vnd : ~ In v done.
  Hypothesis done_lt : forall u, In u done -> (u < n)%nat.
  Hypothesis Hv : (v < n)%nat.

  Lemma PI_to_MLI s s4 c :
    PI cs n done s ->
    let r := blk_of (base s) v in
    let s1 := set_ctr s (S (ctr s)) in
    let s2 := set_btime s1 (upd_nth (btime s1) r (ctr s1)) in
    find_min_in (set_up_heap true s2 r) r = Ok (s4, c) ->
    MLI done v (Yof (base s)) cs n s4 r /\ root_ok s4 r c.
  Proof.
    intros P r s1 s2 H.
    pose proof (p_SI _ _ _ _ P) as [BK [AI HO]].
    pose proof (p_cs _ _ _ _ P) as Gcs. pose proof (p_n _ _ _ _ P) as Gn. pose proof (p_wf _ _ _ _ P) as W.
    set (b := base s) in *. set (Yb := Yof b).
    assert (Kcon : forall x, con_of b x = Kc cs x) by (intros x; unfold con_of, Kc; rewrite Gcs; reflexivity).
    assert (Hvb : (v < length (svars b))%nat) by (rewrite Gn; exact Hv).
    assert (Sing : forall w, (w < n)%nat -> blk_of b w = r -> w = v).
    { intros w Hw E. apply (p_sing _ _ _ _ P v w Hv Hw vnd). exact E. }
    assert (Ebv : bvars (block_of b r) = [v]).
    { apply singleton_list; [apply (bk_nodup _ BK v Hvb)|]. intros w. unfold r. rewrite (bk_mem _ BK v w Hvb). fold r. rewrite Gn.
      split; [intros [A B]; apply Sing; assumption | intros ->; auto]. }
    assert (Ends : forall x, (x < length cs)%nat -> (cl (Kc cs x) < n)%nat /\ (cr (Kc cs x) < n)%nat).
    { intros x Hx. rewrite <- Gcs in Hx. destruct (con_ends_lt _ _ BK Hx) as [A B]. rewrite Kcon, Gn in A, B. auto. }
    assert (DoneNr : forall u, In u done -> blk_of b u <> r).
    { intros u Du E. apply vnd. rewrite <- (Sing u (done_lt u Du) E). exact Du. }
    unfold set_up_heap in H. change (base s2) with b in H. rewrite Ebv in H. cbn [fold_left] in H.
    set (L := ins_of b v) in *.
    destruct (fold_left (heap_add r true) L (s2, None)) as [s3' h3] eqn:EF.
    assert (Lct : length (ctime s) = length cs) by exact (p_lct _ _ _ _ P).
    assert (LIn : forall x, In x L <-> ((x < length cs)%nat /\ cr (Kc cs x) = v)).
    { intros x. unfold L. rewrite ins_of_In, Kcon. fold b. rewrite Gcs. tauto. }
    destruct (heap_add_fold_good Yb r L s2 None s3' h3 EF) as [A1 [A2 [A3 [A4 [A4' [A5 [A6 [A7 A8]]]]]]]].
    { exact I. } { cbn [heap_elems app]. apply NoDup_ins_of'. }
    { intros x Hx. change (length (ctime s2)) with (length (ctime s)). rewrite Lct. apply LIn. exact Hx. }
    change (base s2) with b in A1. change (ctr s2) with (S (ctr s)) in A3, A5.
    set (s3 := set_heap s3' true r (Some h3)) in *.
    assert (C3 : ceqv s3' s3) by apply ceqv_set_heap.
    assert (Hb3 : bin_of s3 r = Some h3).
    { unfold bin_of, s3, set_heap. cbn [bin set_bin].
      destruct (Nat.lt_ge_cases r (length (bin s3'))) as [Lr|Lr]; [apply nth_upd_nth_eq; exact Lr|].
      exfalso. unfold find_min_in in H. unfold bin_of, s3, set_heap in H. cbn [bin set_bin] in H.
      rewrite nth_overflow in H by (rewrite upd_nth_length; exact Lr). discriminate. }
    assert (Ho3 : forall inn' B, (inn' = true /\ B = r) \/ heap_of s3 inn' B = heap_of s inn' B).
    { intros inn' B. destruct (heap_of_set_heap s3' true r (Some h3) inn' B) as [X|[X1 [X2 _]]]; [|left; auto].
      right. fold s3 in X. rewrite X. rewrite (heaps_eq_heap_of s2 s3' inn' B A4). reflexivity. }
    assert (Ht_lt : (r < length (btime s))%nat).
    { rewrite (p_lbt _ _ _ _ P). fold b. apply (bk_blk _ BK). exact Hvb. }
    assert (Bt2r : btime_of s2 r = S (ctr s)).
    { unfold btime_of, s2, s1. cbn [btime set_btime set_ctr ctr]. apply nth_upd_nth_eq. exact Ht_lt. }
    assert (Bt2o : forall B, B <> r -> btime_of s2 B = btime_of s B).
    { intros B NB. unfold btime_of, s2, s1. cbn [btime set_btime set_ctr ctr]. apply nth_upd_nth_neq. congruence. }
    assert (T23 : T2 s3).
    { intros B. unfold btime_of. change (btime s3) with (btime s3'). change (ctr s3) with (ctr s3'). rewrite A2, A3.
      fold (btime_of s2 B). destruct (Nat.eq_dec B r) as [->|NB]; [rewrite Bt2r; lia|].
      rewrite (Bt2o B NB). pose proof (p_T2 _ _ _ _ P B). lia. }
    destruct (find_min_in_good Yb s3 r h3 s4 c T23 Hb3) as [h4 [N1 [N2 [N3 [N4 [N5 [N6 [N7 [N8 [N9 [N9' [N10 N11]]]]]]]]]]]].
    { split; [exact A7 | apply (hordh_ceqv s3'); assumption]. }
    { intros x Hx. change (length (ctime s3)) with (length (ctime s3')). rewrite A4'. change (length (ctime s2)) with (length (ctime s)).
      rewrite Lct. apply A8 in Hx. destruct Hx as [[]|[Hx _]]. apply LIn. exact Hx. }
    { exact H. }
    (* summary *)
    assert (Fb : base s4 = b) by (rewrite N7; change (base s3) with (base s3'); exact A1).
    assert (Fc : ctr s4 = S (ctr s)) by (rewrite N9; change (ctr s3) with (ctr s3'); exact A3).
    assert (Fbt : forall B, btime_of s4 B = btime_of s2 B).
    { intros B. unfold btime_of. rewrite N8. change (btime s3) with (btime s3'). rewrite A2. reflexivity. }
    assert (Fct : forall x, ctime_of s4 x = ctime_of s x \/ (In x L /\ ctime_of s4 x = S (ctr s))).
    { intros x. assert (E2 : ctime_of s2 x = ctime_of s x) by reflexivity.
      destruct (in_dec Nat.eq_dec x L) as [Hx|Hx].
      - right. split; [exact Hx|]. destruct (N10 x) as [E|[_ E]].
        + rewrite E. change (ctime_of s3 x) with (ctime_of s3' x). exact (proj2 (A5 x) Hx).
        + rewrite E. change (ctr s3) with (ctr s3'). exact A3.
      - left. destruct (N10 x) as [E|[Hx' _]].
        + rewrite E. change (ctime_of s3 x) with (ctime_of s3' x). rewrite (proj1 (A5 x) Hx). exact E2.
        + exfalso. apply A8 in Hx'. destruct Hx' as [[]|[Y _]]. contradiction. }
    assert (Fh_o : forall B, B <> r -> bin_of s4 B = bin_of s B).
    { intros B NB. destruct (N11 true B) as [[_ X]|X]; [congruence|]. cbn [heap_of] in X. rewrite X.
      destruct (Ho3 true B) as [[_ Y]|Y]; [congruence | exact Y]. }
    assert (F4in : forall x, In x (heap_elems h4) -> In x L /\ lblk s x <> r).
    { intros x Hx. apply N4, A8 in Hx. destruct Hx as [[]|Hx]. exact Hx. }
    assert (LR4 : forall x, lblk s4 x = lblk s x /\ rblk s4 x = rblk s x) by (intros x; unfold lblk, rblk; rewrite Fb; auto).
    assert (Inh4 : forall B, inhabited (base s4) B <-> inhabited b B) by (intros B; rewrite Fb; tauto).
    assert (HeapNr : forall B h x, inhabited b B -> bin_of s B = Some h -> In x (heap_elems h) ->
                       (x < length cs)%nat /\ rblk s x = B /\ In (cl (Kc cs x)) done /\ lblk s x <> r /\ (B <> r -> ~ In x L)).
    { intros B h x Hi Hb Hx. destruct (HO B h x Hb Hx Hi) as [X1 X2]. fold b in X1. rewrite Gcs in X1.
      pose proof (p_HE _ _ _ _ P B h x Hi Hb Hx) as Dr.
      assert (Dl : In (cl (Kc cs x)) done) by (apply topo; [exact X1 | left; exact Dr]).
      split; [exact X1|]. split; [exact X2|]. split; [exact Dl|]. split.
      - unfold lblk. fold b. rewrite Kcon. apply DoneNr. exact Dl.
      - intros NB Hl. apply LIn in Hl. destruct Hl as [_ Hl]. apply NB. rewrite <- X2. unfold rblk. fold b. rewrite Kcon, Hl. reflexivity. }
    split.
    2:{ exists h4. split; [exact N1|]. split; [exact N3 | exact N6]. }
    constructor.
    - (* SI *)
      split; [rewrite Fb; exact BK|]. split; [rewrite Fb; exact AI|].
      intros B h x Hb Hx Hi. apply Inh4 in Hi. rewrite Fb, (proj2 (LR4 x)). fold b. destruct (Nat.eq_dec B r) as [->|NB].
      + rewrite N1 in Hb. inversion Hb. subst h. destruct (F4in x Hx) as [X _]. apply LIn in X. destruct X as [X1 X2].
        rewrite Gcs. split; [exact X1|]. unfold rblk. fold b. rewrite Kcon, X2. reflexivity.
      + rewrite (Fh_o B NB) in Hb. exact (HO B h x Hb Hx Hi).
    - rewrite Fb. exact W.
    - rewrite Fb. exact (p_ok _ _ _ _ P).
    - rewrite Fb. exact (p_live _ _ _ _ P).
    - rewrite Fb. constructor.
      + exact Gcs.
      + exact Gn.
      + split; [exact Hv | reflexivity].
      + intros u w Hu Hw NP. apply (p_sing _ _ _ _ P u w Hu Hw). intros X. apply NP. left. exact X.
      + intros u _ _. reflexivity.
      + intros u _. apply Qle_refl.
      + intros k Hk E1 E2. exfalso. destruct (Ends k Hk) as [Hl Hr].
        pose proof (Sing _ Hl E1) as X1. pose proof (Sing _ Hr E2) as X2.
        apply vnd. rewrite <- X1 at 1. apply topo; [exact Hk | right; exact X2].
      + intros k u _ _ _ Du Eu. exfalso. exact (DoneNr u Du Eu).
    - rewrite N9'. change (length (ctime s3)) with (length (ctime s3')). rewrite A4'. exact Lct.
    - rewrite N8. change (btime s3) with (btime s3'). rewrite A2. unfold s2, s1. cbn [btime set_btime set_ctr].
      rewrite upd_nth_length, Fb. exact (p_lbt _ _ _ _ P).
    - intros x. rewrite Fc. pose proof (p_T1 _ _ _ _ P x). destruct (Fct x) as [E|[_ E]]; rewrite E; lia.
    - intros B. rewrite Fc, Fbt. destruct (Nat.eq_dec B r) as [->|NB]; [rewrite Bt2r; lia|].
      rewrite (Bt2o B NB). pose proof (p_T2 _ _ _ _ P B). lia.
    - (* T3 *)
      intros B h x Hi NB Hb Hx. apply Inh4 in Hi. rewrite (Fh_o B NB) in Hb. rewrite Fbt, Bt2r.
      destruct (HeapNr B h x Hi Hb Hx) as [_ [_ [_ [_ X5]]]].
      destruct (Fct x) as [E|[Y _]]; [|exfalso; exact (X5 NB Y)]. rewrite E. pose proof (p_T1 _ _ _ _ P x). lia.
    - (* HN *)
      intros u Hu Pu. rewrite Fb. destruct Pu as [Du | ->].
      + rewrite (Fh_o _ (DoneNr u Du)). exact (p_HN _ _ _ _ P u Du).
      + fold r. rewrite N1. discriminate.
    - (* HG *)
      intros B h Hi Hb. apply Inh4 in Hi. destruct (Nat.eq_dec B r) as [->|NB].
      + rewrite N1 in Hb. inversion Hb. subst h. exact N2.
      + rewrite (Fh_o B NB) in Hb. destruct (p_HG _ _ _ _ P B h Hi Hb) as [NDh Oh]. split; [exact NDh|].
        apply (hordh_impl (Rdom s Yb)); [|exact Oh]. intros c1 x Hc1 Hx.
        assert (SK : forall y, In y (heap_elems h) -> skey s4 y = skey s y).
        { intros y Hy. destruct (HeapNr B h y Hi Hb Hy) as [_ [_ [_ [X4 X5]]]]. apply skey_frame2; [exact Fb| |].
          - destruct (Fct y) as [E|[Y _]]; [exact E | exfalso; exact (X5 NB Y)].
          - rewrite Fbt. apply Bt2o. exact X4. }
        apply Rdom_skey_eq; [exact Fb | apply SK; exact Hc1 | apply SK; exact Hx].
    - (* HE *)
      intros B h x Hi Hb Hx. apply Inh4 in Hi. destruct (Nat.eq_dec B r) as [->|NB].
      + rewrite N1 in Hb. inversion Hb. subst h. destruct (F4in x Hx) as [X _]. apply LIn in X. right. exact (proj2 X).
      + rewrite (Fh_o B NB) in Hb. left. exact (p_HE _ _ _ _ P B h x Hi Hb Hx).
    - (* HC *)
      intros k Hk Pk Ex. destruct (LR4 k) as [L4 R4]. rewrite L4, R4 in Ex. rewrite R4.
      destruct Pk as [Dk|Ek].
      + assert (NB : rblk s k <> r) by (unfold rblk; fold b; rewrite Kcon; apply DoneNr; exact Dk).
        rewrite (Fh_o _ NB). exact (p_HC _ _ _ _ P k Hk Dk Ex).
      + assert (Rk : rblk s k = r) by (unfold rblk; fold b; rewrite Kcon, Ek; reflexivity).
        rewrite Rk. exists h4. split; [exact N1|]. apply N5.
        * apply A8. right. split; [apply LIn; auto|]. change (lblk s2 k) with (lblk s k). rewrite <- Rk. exact Ex.
        * change (lblk s3 k) with (lblk s3' k). change (rblk s3 k) with (rblk s3' k). unfold lblk, rblk. rewrite A1. exact Ex.
  Qed.
End Start.

(* ------------------------------------------------------------------ mergeLeft(block(v)) extends the satisfied prefix *)
Lemma merge_left_PI cs n done v s s' :
  (forall c, (c < length cs)%nat -> proc done v (cr (Kc cs c)) -> In (cl (Kc cs c)) done) ->
  ~ In v done -> (forall u, In u done -> (u < n)%nat) -> (v < n)%nat ->
  PI cs n done s -> merge_left s (blk_of (base s) v) = Ok s' -> PI cs n (v :: done) s'.
Proof.
  intros topo vnd dl Hv P H. unfold merge_left in H.
  apply bind_ok in H. destruct H as [[s4 c] [H4 H]]. cbn [fst snd] in H.
  destruct (PI_to_MLI done v cs n topo vnd dl Hv s s4 c P H4) as [I RO].
  assert (G0 : forall k, (k < length cs)%nat -> In (cr (Kc cs k)) done ->
                 0 <= Yof (base s) (cr (Kc cs k)) - gap (Kc cs k) - Yof (base s) (cl (Kc cs k))).
  { intros k Hk Dk. pose proof (p_sat _ _ _ _ P k Hk Dk) as X. rewrite (slack_Y' _ k (p_wf _ _ _ _ P)) in X.
    assert (E : con_of (base s) k = Kc cs k) by (unfold con_of, Kc; rewrite (p_cs _ _ _ _ P); reflexivity).
    rewrite E in X. exact X. }
  destruct (ml_loop_MLI done v _ cs n topo G0 dl _ _ _ _ _ I RO H) as [r' [c' [I' [RO' Hex]]]].
  exact (MLI_to_PI done v cs n topo dl Hv _ s' r' c' G0 I' RO' Hex).
Qed.

(* ------------------------------------------------------------------ the merge pass of Solver::satisfy *)
(* the processing order is a topological order of the constraint graph that lists every right end *)
Definition topo_order (cs : list con) (order : list nat) : Prop :=
  NoDup order /\
  (forall c, (c < length cs)%nat -> In (cr (Kc cs c)) order) /\
  (forall c pre v post, (c < length cs)%nat -> order = pre ++ v :: post ->
     (In (cr (Kc cs c)) pre \/ cr (Kc cs c) = v) -> In (cl (Kc cs c)) pre).

Lemma sat_visit_fold_stuck l : forall r, (forall s, r <> Ok s) -> fold_left sat_visit l r = r.
Proof.
  induction l as [|v t IH]; intros r N; [reflexivity|]. cbn [fold_left].
  assert (E : sat_visit r v = r) by (destruct r as [s| |]; [exfalso; exact (N s eq_refl) | reflexivity | reflexivity]).
  rewrite E. apply IH. exact N.
Qed.

Lemma visit_fold_PI cs n : forall post pre s s',
  topo_order cs (pre ++ post) -> (forall u, In u (pre ++ post) -> (u < n)%nat) ->
  PI cs n (rev pre) s -> fold_left sat_visit post (Ok s) = Ok s' -> PI cs n (rev (pre ++ post)) s'.
Proof.
  induction post as [|v post IH]; intros pre s s' TO R P H.
  - cbn in H. inversion H. subst. rewrite app_nil_r. exact P.
  - cbn [fold_left] in H. unfold sat_visit at 2 in H. cbn [bind] in H.
    assert (Hv : (v < n)%nat) by (apply R; rewrite in_app_iff; right; left; reflexivity).
    rewrite (p_live _ _ _ _ P v Hv) in H.
    destruct TO as [ND [CV TP]].
    destruct (merge_left s (blk_of (base s) v)) as [s1| |] eqn:E.
    + apply (merge_left_PI cs n (rev pre) v) in E; [| | | |exact Hv|exact P].
      * rewrite <- rev_unit in E.
        replace (pre ++ v :: post) with ((pre ++ [v]) ++ post) by (rewrite <- app_assoc; reflexivity).
        apply (IH (pre ++ [v]) s1 s'); [| |exact E|exact H].
        -- rewrite <- app_assoc. cbn [app]. split; [exact ND|]. split; [exact CV | exact TP].
        -- rewrite <- app_assoc. exact R.
      * intros c Hc Pc. apply -> in_rev. apply (TP c pre v post Hc eq_refl).
        destruct Pc as [X|X]; [left; apply in_rev; exact X | right; exact X].
      * intros X. apply in_rev in X. apply NoDup_remove_2 in ND. apply ND. rewrite in_app_iff. left. exact X.
      * intros u Hu. apply R. rewrite in_app_iff. left. apply in_rev. exact Hu.
    + rewrite sat_visit_fold_stuck in H by (intros x; discriminate). discriminate.
    + rewrite sat_visit_fold_stuck in H by (intros x; discriminate). discriminate.
Qed.

(* the initial state *)
Lemma nth_repeat_O n c : nth c (repeat O n) O = O.
Proof. revert c. induction n as [|n IH]; intros [|c]; cbn; auto. Qed.

Lemma init_step_live s v :
  (forall B, (B < length (blocks s))%nat -> dead (block_of s B) = false) ->
  length (blocks (init_step s v)) = S (length (blocks s)) /\
  (forall B, (B < S (length (blocks s)))%nat -> dead (block_of (init_step s v) B) = false).
Proof.
  intros H. unfold init_step, new_block.
  set (s1 := set_blocks s (blocks s ++ [mkblk [] 0 0 0 0 0 false])).
  split.
  - cbn [blocks set_blist]. unfold add_variable, set_vblk, set_block, set_blocks. cbn [blocks].
    rewrite upd_nth_length. unfold s1. cbn [blocks set_blocks]. rewrite app_length. cbn. lia.
  - intros B HB.
    change (block_of (set_blist (add_variable s1 (length (blocks s)) v) (blist (add_variable s1 (length (blocks s)) v) ++ [length (blocks s)])) B)
      with (block_of (add_variable s1 (length (blocks s)) v) B).
    rewrite add_variable_dead. unfold block_of, s1. cbn [blocks set_blocks].
    destruct (Nat.eq_dec B (length (blocks s))) as [->|N].
    + rewrite app_nth2 by lia. rewrite Nat.sub_diag. reflexivity.
    + rewrite app_nth1 by lia. apply H. lia.
Qed.
Lemma init_live vs cs B : (B < length (blocks (init vs cs)))%nat -> dead (block_of (init vs cs) B) = false.
Proof.
  rewrite init_unfold. generalize (seq 0 (length vs)) as l.
  set (s0 := mkst vs cs _ _ _ _ _ _ _ _ _).
  assert (A0 : forall B, (B < length (blocks s0))%nat -> dead (block_of s0 B) = false) by (cbn; intros; lia).
  revert A0. generalize s0. clear s0. intros s0 A0 l. revert s0 A0 B.
  induction l as [|v l IH]; intros s0 A0 B; cbn [fold_left]; [apply A0|].
  apply IH. intros B' HB'. destruct (init_step_live s0 v A0) as [L X]. rewrite L in HB'. apply X. exact HB'.
Qed.

Lemma static_init_PI vs cs : wf_vars vs -> wf_cons vs cs -> PI cs (length vs) [] (static_init vs cs).
Proof.
  intros WV W.
  destruct (init_problem vs cs) as [Iv Ic].
  destruct (init_book vs cs W) as [BK AI].
  assert (IF : init_facts vs cs (length vs) (init vs cs)).
  { rewrite init_unfold. apply init_fold_facts; [lia|].
    constructor; cbn; try reflexivity; try (apply repeat_length). intros i Hi. lia. }
  destruct IF as [F1 F2 F3 F4 F5 F6 F7].
  assert (NB : forall B, bin_of (static_init vs cs) B = None).
  { intros B. unfold bin_of. cbn [static_init bin]. apply nth_repeat_None. }
  constructor.
  - exact (static_init_SI vs cs W).
  - cbn [static_init base]. rewrite Iv. exact WV.
  - exact (init_all_blk_ok vs cs WV).
  - intros u Hu. cbn [static_init base]. apply init_live. destruct (F7 u Hu) as [E _]. rewrite E, F6. exact Hu.
  - exact Ic.
  - cbn [static_init base]. rewrite Iv. reflexivity.
  - intros u w Hu Hw _ E. cbn [static_init base] in E. rewrite (proj1 (F7 u Hu)), (proj1 (F7 w Hw)) in E. exact E.
  - intros c _ [].
  - cbn [static_init ctime]. apply repeat_length.
  - cbn [static_init btime base]. rewrite repeat_length, F6. reflexivity.
  - intros c. unfold ctime_of. cbn [static_init ctime ctr]. rewrite nth_repeat_O. lia.
  - intros B. unfold btime_of. cbn [static_init btime ctr]. rewrite nth_repeat_O. lia.
  - intros u [].
  - intros B h _ Hb. rewrite NB in Hb. discriminate.
  - intros B h x _ Hb. rewrite NB in Hb. discriminate.
  - intros c _ [].
Qed.

(* bit "all_satb" of StaticInvB, proved: after the merge pass EVERY constraint has slack >= 0 *)
Theorem merge_pass_all_sat vs cs order s1 :
  wf_vars vs -> wf_cons vs cs ->
  total_order (init vs cs) = Ok order -> topo_order cs order ->
  merge_pass (static_init vs cs) = Ok s1 ->
  forall c, (c < length (scons (base s1)))%nat -> 0 <= slack_val (base s1) c.
Proof.
  intros WV W TO TP H. unfold merge_pass in H. cbn [static_init base] in H. rewrite TO in H. cbn [bind] in H.
  destruct (init_problem vs cs) as [Iv Ic].
  assert (R : forall u, In u order -> (u < length vs)%nat).
  { pose proof (total_order_range (init vs cs) order) as X. rewrite Iv, Ic in X. specialize (X W TO).
    rewrite Forall_forall in X. exact X. }
  pose proof (visit_fold_PI cs (length vs) order [] (static_init vs cs) s1 TP R (static_init_PI vs cs WV W) H) as P.
  cbn [app] in P. intros c Hc. rewrite (p_cs _ _ _ _ P) in Hc. apply (p_sat _ _ _ _ P c Hc).
  apply -> in_rev. destruct TP as [_ [CV _]]. exact (CV c Hc).
Qed.

(* ------------------------------------------------------------------ the merge pass never throws *)
Definition nothrow {A} (r : res A) : Prop := forall c, r <> ThrowUnsat c.
Lemma nothrow_bind {A B} (r : res A) (f : A -> res B) : nothrow r -> (forall a, nothrow (f a)) -> nothrow (bind r f).
Proof. intros H1 H2 c. destruct r as [a|c0|]; cbn [bind]; [apply H2 | intros E; exact (H1 c0 eq_refl) | discriminate]. Qed.
Lemma nothrow_ok {A} (a : A) : nothrow (Ok a). Proof. intros c. discriminate. Qed.
Lemma nothrow_oof {A} : nothrow (@OutOfFuel A). Proof. intros c. discriminate. Qed.
Lemma nothrow_fold {X A} (g : X -> A -> res X) (l : list A) :
  (forall x a, nothrow (g x a)) -> forall acc, nothrow acc -> nothrow (fold_left (fun acc a => bind acc (fun x => g x a)) l acc).
Proof.
  intros Hg. induction l as [|a t IH]; intros acc Ha; cbn [fold_left]; [exact Ha|].
  apply IH. apply nothrow_bind; [exact Ha | intros x; apply Hg].
Qed.

Lemma fmi_loop_nothrow : forall fuel s h ood, nothrow (fmi_loop fuel s h ood).
Proof.
  induction fuel as [|f IH]; intros s h ood; cbn [fmi_loop]; [apply nothrow_oof|].
  destruct h as [[v kids]|]; [|apply nothrow_ok].
  destruct (Nat.eqb _ _); [destruct (s_delete_min _ _); apply IH|].
  destruct (Nat.ltb _ _); [destruct (s_delete_min _ _); apply IH | apply nothrow_ok].
Qed.
Lemma find_min_in_nothrow s b : nothrow (find_min_in s b).
Proof.
  unfold find_min_in. destruct (bin_of s b); [|apply nothrow_oof].
  apply nothrow_bind; [apply fmi_loop_nothrow|]. intros [[s1 h1] ood]. destruct (fold_left reinsert ood (s1, h1)). apply nothrow_ok.
Qed.
Lemma delete_min_nothrow inn s b : nothrow (delete_min inn s b).
Proof. unfold delete_min. destruct (heap_of s inn b); [|apply nothrow_oof]. destruct (s_delete_min _ _). apply nothrow_ok. Qed.
Lemma merge_heaps_in_nothrow s r l : nothrow (merge_heaps true s r l).
Proof.
  unfold merge_heaps. apply nothrow_bind; [apply find_min_in_nothrow|]. intros p1.
  apply nothrow_bind; [apply find_min_in_nothrow|]. intros p2.
  destruct (heap_of _ _ _); [|apply nothrow_oof]. destruct (heap_of _ _ _); [|apply nothrow_oof].
  destruct (s_merge _ _ _). apply nothrow_ok.
Qed.
Lemma ml_body_nothrow s r c : nothrow (ml_body s r c).
Proof.
  unfold ml_body. apply nothrow_bind; [apply delete_min_nothrow|]. intros s1.
  apply nothrow_bind; [apply merge_heaps_in_nothrow|]. intros s5.
  apply nothrow_bind; [apply find_min_in_nothrow|]. intros p. apply nothrow_ok.
Qed.
Lemma ml_loop_nothrow : forall fuel s r c, nothrow (ml_loop fuel s r c).
Proof.
  induction fuel as [|f IH]; intros s r c; cbn [ml_loop]; [apply nothrow_oof|].
  destruct c as [c0|]; [|apply nothrow_ok].
  destruct (Qltb _ _); [|apply nothrow_ok].
  apply nothrow_bind; [apply ml_body_nothrow|]. intros [[s' r'] c']. apply IH.
Qed.
Lemma merge_left_nothrow s r : nothrow (merge_left s r).
Proof. unfold merge_left. apply nothrow_bind; [apply find_min_in_nothrow|]. intros p. apply ml_loop_nothrow. Qed.
Lemma dfs_visit_nothrow : forall fuel s v acc, nothrow (dfs_visit fuel s v acc).
Proof.
  induction fuel as [|f IH]; intros s v acc; cbn [dfs_visit]; [apply nothrow_oof|].
  apply nothrow_bind; [|intros a; apply nothrow_ok].
  apply (nothrow_fold (fun (a' : list bool * list nat) (c : nat) =>
           let w := cr (con_of s c) in if nth w (fst a') false then Ok a' else dfs_visit f s w a')); [|apply nothrow_ok].
  intros x c. cbv zeta. destruct (nth _ _ _); [apply nothrow_ok | apply IH].
Qed.
Lemma total_order_nothrow s : nothrow (total_order s).
Proof.
  unfold total_order. apply nothrow_bind; [|intros a; apply nothrow_ok].
  apply (nothrow_fold (fun (a' : list bool * list nat) (v : nat) =>
           match ins_of s v with [] => dfs_visit (S (length (svars s))) s v a' | _ => Ok a' end)); [|apply nothrow_ok].
  intros x v. destruct (ins_of s v); [apply dfs_visit_nothrow | apply nothrow_ok].
Qed.
Lemma merge_pass_nothrow s : nothrow (merge_pass s).
Proof.
  unfold merge_pass. apply nothrow_bind; [apply total_order_nothrow|]. intros order.
  change (fold_left sat_visit order (Ok s)) with
    (fold_left (fun acc v => bind acc (fun s => let b := blk_of (base s) v in
                                                if dead (block_of (base s) b) then Ok s else merge_left s b)) order (Ok s)).
  apply (nothrow_fold (fun (s : sst) (v : nat) => let b := blk_of (base s) v in
                          if dead (block_of (base s) b) then Ok s else merge_left s b)); [|apply nothrow_ok].
  intros x v. cbv zeta. destruct (dead _); [apply nothrow_ok | apply merge_left_nothrow].
Qed.

(* ------------------------------------------------------------------ the DAG hypothesis as a boolean *)
Fixpoint nodupb (l : list nat) : bool :=
  match l with [] => true | a :: t => negb (existsb (Nat.eqb a) t) && nodupb t end.
Lemma nodupb_spec l : nodupb l = true -> NoDup l.
Proof.
  induction l as [|a t IH]; intros H; [constructor|]. cbn [nodupb] in H. apply andb_true_iff in H. destruct H as [H1 H2].
  constructor; [|exact (IH H2)]. intros X. apply negb_true_iff in H1.
  assert (E : existsb (Nat.eqb a) t = true) by (apply existsb_exists; exists a; split; [exact X | apply Nat.eqb_refl]). congruence.
Qed.
(* StaticInvB.is_dag (the DFS order lists every variable and every constraint goes forward in it) plus: no variable
   is listed twice *)
Definition dag_orderb (b : st) : bool :=
  is_dag b && match total_order b with Ok order => nodupb order | _ => false end.

Lemma index_of_app_lt x : forall l1 l2, (index_of x (l1 ++ l2) < length l1)%nat -> In x l1.
Proof.
  induction l1 as [|a t IH]; intros l2 H; [cbn in H; lia|]. cbn [app index_of length] in H.
  destruct (Nat.eqb a x) eqn:E; [left; apply Nat.eqb_eq; exact E|]. right. apply (IH l2). lia.
Qed.
Lemma index_of_in_lt x : forall l1 l2, In x l1 -> (index_of x (l1 ++ l2) < length l1)%nat.
Proof.
  induction l1 as [|a t IH]; intros l2 H; [destruct H|]. cbn [app index_of length].
  destruct (Nat.eqb a x) eqn:E; [lia|]. destruct H as [->|H]; [rewrite Nat.eqb_refl in E; discriminate|].
  specialize (IH l2 H). lia.
Qed.
Lemma index_of_mid_le x : forall l1 l2, (index_of x (l1 ++ x :: l2) <= length l1)%nat.
Proof.
  induction l1 as [|a t IH]; intros l2; cbn [app index_of length]; [rewrite Nat.eqb_refl; lia|].
  destruct (Nat.eqb a x); [lia|]. specialize (IH l2). lia.
Qed.

Lemma dag_orderb_topo vs cs :
  wf_cons vs cs -> dag_orderb (init vs cs) = true ->
  exists order, total_order (init vs cs) = Ok order /\ topo_order cs order.
Proof.
  intros W H. unfold dag_orderb, is_dag in H. destruct (init_problem vs cs) as [Iv Ic]. rewrite Iv, Ic in H.
  destruct (total_order (init vs cs)) as [order| |] eqn:TO; try discriminate.
  apply andb_true_iff in H. destruct H as [H ND]. apply andb_true_iff in H. destruct H as [HL HF].
  apply Nat.eqb_eq in HL. apply nodupb_spec in ND. rewrite forallb_forall in HF.
  exists order. split; [reflexivity|].
  assert (R : forall u, In u order -> (u < length vs)%nat).
  { pose proof (total_order_range (init vs cs) order) as X. rewrite Iv, Ic in X. specialize (X W TO).
    rewrite Forall_forall in X. exact X. }
  assert (All : forall u, (u < length vs)%nat -> In u order).
  { intros u Hu. apply (NoDup_length_incl ND (l' := seq 0 (length vs))).
    - rewrite seq_length. lia.
    - intros w Hw. apply in_seq. specialize (R w Hw). lia.
    - apply in_seq. lia. }
  assert (KIn : forall c, (c < length cs)%nat -> In (Kc cs c) cs) by (intros c Hc; unfold Kc; apply nth_In; exact Hc).
  split; [exact ND|]. split.
  - intros c Hc. apply All. exact (proj2 (W _ (KIn c Hc))).
  - intros c pre v post Hc E Hr. specialize (HF _ (KIn c Hc)). apply Nat.ltb_lt in HF. subst order.
    apply (index_of_app_lt _ pre (v :: post)).
    destruct Hr as [Hr|Hr].
    + pose proof (index_of_in_lt _ pre (v :: post) Hr). lia.
    + rewrite Hr in HF. pose proof (index_of_mid_le v pre post). lia.
Qed.

(* ------------------------------------------------------------------ static_no_throw_on_dag (modulo fuel) *)
Theorem static_no_throw_on_dag_modulo_fuel vs cs :
  wf_vars vs -> wf_cons vs cs -> dag_orderb (init vs cs) = true ->
  static_satisfy (static_init vs cs) <> OutOfFuel ->
  exists s', static_satisfy (static_init vs cs) = Ok s' /\
             forall c, (c < length cs)%nat -> 0 <= slack_val (base s') c.
Proof.
  intros WV W D NF.
  destruct (dag_orderb_topo vs cs W D) as [order [TO TP]].
  destruct (merge_pass (static_init vs cs)) as [s1|c|] eqn:E.
  - pose proof (merge_pass_all_sat vs cs order s1 WV W TO TP E) as A.
    unfold static_satisfy. rewrite E. cbn [bind].
    set (s2 := note_scan (set_base s1 (cleanup (base s1)))).
    assert (E2 : base s2 = cleanup (base s1)) by (unfold s2; rewrite note_scan_base; reflexivity).
    assert (K : keepP (base (static_init vs cs)) (base s1)) by (apply merge_pass_keepP; exact E).
    destruct K as [_ Kc']. cbn [static_init base] in Kc'. destruct (init_problem vs cs) as [_ Ic]. rewrite Ic in Kc'.
    exists s2. split.
    + unfold sfinal_scan. destruct (find _ _) as [c|] eqn:F; [|reflexivity].
      apply find_some in F. destruct F as [Hin Hlt]. apply in_seq in Hin. unfold sslack in Hlt. rewrite E2 in Hin, Hlt.
      apply Qltb_spec in Hlt. change (slack_val (cleanup (base s1)) c) with (slack_val (base s1) c) in Hlt.
      change (length (scons (cleanup (base s1)))) with (length (scons (base s1))) in Hin.
      pose proof (A c (proj2 Hin)) as P. unfold ZERO_UPPERBOUND in Hlt. lra.
    + intros c Hc. rewrite E2. change (slack_val (cleanup (base s1)) c) with (slack_val (base s1) c). apply A. rewrite Kc'. exact Hc.
  - exfalso. exact (merge_pass_nothrow _ c E).
  - exfalso. apply NF. unfold static_satisfy. rewrite E. reflexivity.
Qed.

(* ------------------------------------------------------------------ fuel: the heap loops terminate, heaps are never null *)
Lemma s_delete_min_size s h : heap_size (snd (s_delete_min s h)) = pred (heap_size h).
Proof.
  unfold s_delete_min. pose proof (h_delete_min_perm (cmp_less s) (nr_of s) h) as P.
  destruct (h_delete_min (cmp_less s) (nr_of s) h) as [h' t]. cbn [fst snd] in *.
  rewrite !heap_size_elems. rewrite (Permutation_length P). destruct (heap_elems h); reflexivity.
Qed.
Lemma s_delete_min_bin s h : bin (fst (s_delete_min s h)) = bin s.
Proof. exact (proj1 (heaps_eq_s_delete_min s h)). Qed.

Lemma fmi_loop_total : forall fuel s h ood, (heap_size h < fuel)%nat -> exists r, fmi_loop fuel s h ood = Ok r.
Proof.
  induction fuel as [|f IH]; intros s h ood Hf; [lia|]. cbn [fmi_loop].
  destruct h as [[v kids]|]; [|eexists; reflexivity].
  set (h := Some (PH v kids)) in *.
  assert (Hs : (heap_size (snd (s_delete_min s h)) < f)%nat).
  { rewrite s_delete_min_size. unfold h in *. cbn [heap_size] in *. destruct (ph_size (PH v kids)) eqn:E; [cbn in E; lia | cbn; lia]. }
  destruct (Nat.eqb _ _).
  - destruct (s_delete_min s h) as [s1 h1]. apply IH. exact Hs.
  - destruct (Nat.ltb _ _); [destruct (s_delete_min s h) as [s1 h1]; apply IH; exact Hs | eexists; reflexivity].
Qed.
Lemma find_min_in_total s b h : bin_of s b = Some h -> exists s' c, find_min_in s b = Ok (s', c).
Proof.
  intros Hb. unfold find_min_in. rewrite Hb.
  destruct (fmi_loop_total (S (heap_size h)) s h [] (Nat.lt_succ_diag_r _)) as [[[s1 h1] ood] E]. rewrite E. cbn [bind].
  destruct (fold_left reinsert ood (s1, h1)) as [s2 h2]. eexists _, _. reflexivity.
Qed.
Lemma delete_min_total s b h : bin_of s b = Some h -> exists s', delete_min true s b = Ok s'.
Proof. intros Hb. unfold delete_min. cbn [heap_of]. rewrite Hb. destruct (s_delete_min s h). eexists. reflexivity. Qed.

Lemma merge_heaps_total s r l hr hl :
  r <> l -> bin_of s r = Some hr -> bin_of s l = Some hl ->
  exists s' h', merge_heaps true s r l = Ok s' /\ bin_of s' r = Some h'.
Proof.
  intros Hne Hr Hl. unfold merge_heaps.
  destruct (find_min_in_total s r hr Hr) as [s1 [c1 E1]]. rewrite E1. cbn [bind fst].
  destruct (find_min_in_spec _ _ _ _ E1) as [_ [O1 [[hr0 [hr1 [R1 [R2 _]]]] _]]].
  assert (Hl1 : bin_of s1 l = Some hl).
  { destruct (O1 true l) as [[_ X]|X]; [congruence|]. cbn [heap_of] in X. congruence. }
  destruct (find_min_in_total s1 l hl Hl1) as [s2 [c2 E2]]. rewrite E2. cbn [bind fst].
  destruct (find_min_in_spec _ _ _ _ E2) as [_ [O2 [[hl0 [hl2 [L1 [L2 _]]]] _]]].
  assert (Hr2 : bin_of s2 r = Some hr1).
  { destruct (O2 true r) as [[_ X]|X]; [congruence|]. cbn [heap_of] in X. congruence. }
  cbn [heap_of]. rewrite Hr2, L2.
  destruct (s_merge s2 hr1 hl2) as [s3 h] eqn:E. eexists _, h. split; [reflexivity|].
  assert (Q3 : heaps_eq s2 s3) by (pose proof (heaps_eq_s_merge s2 hr1 hl2) as Q; rewrite E in Q; exact Q).
  destruct (heap_of_set_heap (set_heap s3 true r (Some h)) true l (Some None) true r) as [X|[_ [X _]]]; [|congruence].
  change (heap_of (set_heap (set_heap s3 true r (Some h)) true l (Some None)) true r = Some h). rewrite X.
  apply (heap_of_set_heap_same _ _ _ _ hr1). rewrite (heaps_eq_heap_of s2 s3 true r Q3). exact Hr2.
Qed.

Lemma ml_body_total s r c0 h0 hl0 :
  bin_of s r = Some h0 -> lblk s c0 <> r -> bin_of s (lblk s c0) = Some hl0 ->
  exists res, ml_body s r c0 = Ok res.
Proof.
  intros Hr Hne Hl. unfold ml_body.
  destruct (delete_min_total s r h0 Hr) as [s1 E1]. rewrite E1. cbn [bind].
  destruct (delete_min_in_spec _ _ _ E1) as [B1 [O1 [hd [hd' [D1 [D2 _]]]]]].
  assert (El : lblk s1 c0 = lblk s c0) by (unfold lblk; rewrite B1; reflexivity). rewrite El.
  set (l := lblk s c0) in *.
  assert (Hl1 : bin_of s1 l = Some hl0).
  { destruct (O1 true l) as [[_ X]|X]; [congruence|]. cbn [heap_of] in X. congruence. }
  rewrite Hl1.
  set (sw := Nat.ltb (nvars s1 r) (nvars s1 l)).
  set (t := if sw then l else r). set (a := if sw then r else l).
  assert (Hta : t <> a) by (unfold t, a; destruct sw; congruence).
  match goal with |- context [merge_heaps true ?x t a] => set (s4 := x) end.
  assert (Bin4 : forall B, bin_of s4 B = bin_of s1 B) by reflexivity.
  assert (exists ht, bin_of s4 t = Some ht) as [ht Hht] by (unfold t; rewrite Bin4; destruct sw; eauto).
  assert (exists ha, bin_of s4 a = Some ha) as [ha Hha] by (unfold a; rewrite Bin4; destruct sw; eauto).
  destruct (merge_heaps_total s4 t a ht ha Hta Hht Hha) as [s5 [h5 [E5 H5]]]. rewrite E5. cbn [bind].
  match goal with |- context [find_min_in ?x t] => set (s6 := x) end.
  assert (H6 : bin_of s6 t = Some h5) by exact H5.
  destruct (find_min_in_total s6 t h5 H6) as [s9 [c9 E9]]. rewrite E9. cbn [bind]. eexists. reflexivity.
Qed.

(* ------------------------------------------------------------------ fuel: the lists of heaps / blocks keep their lengths *)
Lemma set_heap_lbin s inn b h : length (bin (set_heap s inn b h)) = length (bin s).
Proof. destruct inn; cbn [set_heap bin set_bin set_bout]; [apply upd_nth_length | reflexivity]. Qed.
Lemma find_min_in_lbin s b s' c : find_min_in s b = Ok (s', c) -> length (bin s') = length (bin s).
Proof.
  unfold find_min_in. destruct (bin_of s b) as [h|]; [|discriminate]. intros H.
  apply bind_ok in H. destruct H as [[[s1 h1] ood] [H1 H2]].
  destruct (fmi_loop_spec _ _ _ _ _ _ _ H1) as [_ [[Q1 _] _]].
  destruct (fold_left reinsert ood (s1, h1)) as [s2 h2] eqn:E2.
  destruct (reinsert_fold_spec _ _ _ _ _ E2) as [_ [[Q2 _] _]].
  assert (Es : s' = set_heap s2 true b (Some h2)) by congruence. subst s'. rewrite set_heap_lbin. congruence.
Qed.
Lemma delete_min_lbin s b s' : delete_min true s b = Ok s' -> length (bin s') = length (bin s).
Proof.
  unfold delete_min. cbn [heap_of]. destruct (bin_of s b) as [h|]; [|discriminate].
  destruct (s_delete_min s h) as [s1 h1] eqn:E. intros H.
  assert (Es : s' = set_heap s1 true b (Some h1)) by congruence. subst s'. rewrite set_heap_lbin.
  pose proof (s_delete_min_bin s h) as X. rewrite E in X. cbn [fst] in X. congruence.
Qed.
Lemma merge_heaps_lbin s r l s' : merge_heaps true s r l = Ok s' -> length (bin s') = length (bin s).
Proof.
  unfold merge_heaps. intros H.
  apply bind_ok in H. destruct H as [[s1 c1] [H1 H]].
  apply bind_ok in H. destruct H as [[s2 c2] [H2 H]]. cbn [fst] in *.
  apply find_min_in_lbin in H1. apply find_min_in_lbin in H2.
  destruct (heap_of s2 true r) as [hr|]; [|discriminate]. destruct (heap_of s2 true l) as [hl|]; [|discriminate].
  destruct (s_merge s2 hr hl) as [s3 h] eqn:E.
  assert (Es : s' = set_heap (set_heap s3 true r (Some h)) true l (Some None)) by congruence. subst s'.
  rewrite !set_heap_lbin. pose proof (proj1 (heaps_eq_s_merge s2 hr hl)) as X. rewrite E in X. cbn [fst] in X. congruence.
Qed.
Lemma set_up_heap_lbin s b : length (bin (set_up_heap true s b)) = length (bin s).
Proof.
  unfold set_up_heap.
  match goal with |- context [fold_left ?f ?l ?a] => assert (E : bin (fst (fold_left f l a)) = bin s) end.
  { apply (fold_left_inv _ (fun acc => bin (fst acc) = bin s)); [|reflexivity].
    intros acc v _ Hacc.
    apply (fold_left_inv _ (fun acc => bin (fst acc) = bin s)); [|exact Hacc].
    intros [s1 h1] c _ H'. cbn [fst] in *. unfold heap_add.
    set (s2 := set_ctime_of s1 c (ctr s1)).
    destruct (negb _); [|exact H'].
    pose proof (proj1 (heaps_eq_s_insert s2 h1 c)) as X. rewrite X. exact H'. }
  match goal with |- context [fold_left ?f ?l ?a] => destruct (fold_left f l a) as [s' h] end.
  cbn [fst] in E. rewrite set_heap_lbin. congruence.
Qed.
Lemma mfold_lblocks t d : forall vars s1, length (blocks (fold_left (mstep t d) vars s1)) = length (blocks s1).
Proof.
  induction vars as [|w vars IH]; intros s1; cbn [fold_left]; [reflexivity|].
  rewrite IH. unfold mstep, add_variable, set_vblk, set_block, set_blocks. cbn [blocks]. apply upd_nth_length.
Qed.
Lemma merge_into_lblocks b t a c d : length (blocks (merge_into b t a c d)) = length (blocks b).
Proof.
  rewrite merge_into_unfold. unfold kill_block, set_block, set_blocks. cbn [blocks]. rewrite upd_nth_length.
  rewrite mfold_lblocks. reflexivity.
Qed.
Lemma ml_body_lens s r c s' r' c' :
  ml_body s r c = Ok (s', r', c') ->
  length (bin s') = length (bin s) /\ length (blocks (base s')) = length (blocks (base s)).
Proof.
  intros H. split.
  - unfold ml_body in H. apply bind_ok in H. destruct H as [s1 [H1 H]].
    apply delete_min_lbin in H1.
    apply bind_ok in H. destruct H as [s5 [H5 H]]. apply merge_heaps_lbin in H5.
    apply bind_ok in H. destruct H as [[s9 c9] [H9 H]]. apply find_min_in_lbin in H9.
    inversion H. subst. cbn [fst]. rewrite H9. cbn [bin set_btime]. rewrite H5. cbn [bin set_base set_ctr].
    destruct (bin_of s1 (lblk s1 c)); [exact H1 | rewrite set_up_heap_lbin; exact H1].
  - destruct (ml_body_base _ _ _ _ _ _ H) as [t [b [d [E _]]]]. rewrite E. apply merge_into_lblocks.
Qed.
Lemma ml_loop_lens : forall fuel s r c s', ml_loop fuel s r c = Ok s' ->
  length (bin s') = length (bin s) /\ length (blocks (base s')) = length (blocks (base s)).
Proof.
  induction fuel as [|f IH]; intros s r c s' H; [discriminate|].
  cbn [ml_loop] in H. destruct c as [c0|]; [|inversion H; auto].
  destruct (snote_slack_fields TIE_EPS s c0 0) as [F1 [_ [_ [F4 _]]]].
  set (s0 := snote_slack TIE_EPS s c0 0) in *.
  destruct (Qltb (sslack s0 c0) 0).
  - apply bind_ok in H. destruct H as [[[s1 r1] c1] [H1 H2]].
    destruct (ml_body_lens _ _ _ _ _ _ H1) as [A B]. destruct (IH _ _ _ _ H2) as [C D].
    rewrite C, A, D, B, F4, F1. auto.
  - inversion H. subst s'. rewrite F4, F1. auto.
Qed.
Lemma merge_left_lens s r s' : merge_left s r = Ok s' ->
  length (bin s') = length (bin s) /\ length (blocks (base s')) = length (blocks (base s)).
Proof.
  unfold merge_left. intros H. apply bind_ok in H. destruct H as [[s4 c4] [H4 H]]. cbn [fst snd] in H.
  pose proof (find_min_in_lbin _ _ _ _ H4) as A. pose proof (find_min_in_base _ _ _ _ H4) as B.
  rewrite set_up_heap_lbin in A. rewrite base_set_up_heap in B. cbn [bin base set_btime set_ctr] in A, B.
  destruct (ml_loop_lens _ _ _ _ _ H) as [C D]. rewrite C, D, A, B. auto.
Qed.

(* ------------------------------------------------------------------ fuel: mergeLeft's loop *)
Section LoopTotal.
  Variables (done : list nat) (v : nat) (Yb : nat -> Q) (cs : list con) (n : nat).
  Hypothesis topo : forall c, (c < length cs)%nat -> proc done v (cr (Kc cs c)) -> In (cl (Kc cs c)) done.
  Hypothesis G0 : forall c, (c < length cs)%nat -> In (cr (Kc cs c)) done ->
                    0 <= Yb (cr (Kc cs c)) - gap (Kc cs c) - Yb (cl (Kc cs c)).
  Hypothesis done_lt : forall u, In u done -> (u < n)%nat.

  Lemma MLI_root_facts s r c0 :
    MLI done v Yb cs n s r -> root_ok s r (Some c0) ->
    exists h0 hl0, bin_of s r = Some h0 /\ lblk s c0 <> r /\ bin_of s (lblk s c0) = Some hl0.
  Proof.
    intros I [h0 [Hh0 [Hmin Hkey]]].
    pose proof (i_SI _ _ _ _ _ _ _ I) as [BK [AI HO]]. pose proof (i_geo _ _ _ _ _ _ _ I) as G.
    pose proof (MLI_inh_r done v Yb cs n s r I) as Inr.
    destruct (g_v _ _ _ _ _ _ _ G) as [Hv Ev].
    destruct (HO r h0 c0 Hh0 (heap_min_in _ _ Hmin) Inr) as [Hc0 Hrb].
    destruct (skey_some_inv s c0 (Hkey c0 eq_refl)) as [Ext0 _].
    rewrite (g_cs _ _ _ _ _ _ _ G) in Hc0.
    destruct (MLI_ends done v Yb cs n s r c0 I Hc0) as [Hcl0 Hcr0].
    assert (Er0 : blk_of (base s) (cr (Kc cs c0)) = r).
    { unfold rblk in Hrb. rewrite (MLI_con done v Yb cs n s r c0 I) in Hrb. exact Hrb. }
    assert (Pcr0 : proc done v (cr (Kc cs c0))).
    { apply (geo_block_proc done v Yb cs n (base s) r v _ G); [exact Hv | exact Hcr0 | right; reflexivity | congruence]. }
    pose proof (topo c0 Hc0 Pcr0) as Dcl0.
    pose proof (i_HN _ _ _ _ _ _ _ I _ Hcl0 (or_introl Dcl0)) as HN.
    assert (El : lblk s c0 = blk_of (base s) (cl (Kc cs c0))) by (unfold lblk; rewrite (MLI_con done v Yb cs n s r c0 I); reflexivity).
    rewrite <- El in HN. destruct (bin_of s (lblk s c0)) as [hl0|] eqn:E; [|congruence].
    exists h0, hl0. split; [exact Hh0|]. split; [rewrite <- Hrb; exact Ext0 | reflexivity].
  Qed.

  Lemma MLI_nvars_le s r : MLI done v Yb cs n s r -> (nvars s r <= n)%nat.
  Proof.
    intros I. pose proof (i_SI _ _ _ _ _ _ _ I) as [BK _]. pose proof (i_geo _ _ _ _ _ _ _ I) as G.
    destruct (g_v _ _ _ _ _ _ _ G) as [Hv Ev]. pose proof (g_n _ _ _ _ _ _ _ G) as Gn.
    assert (Hvb : (v < length (svars (base s)))%nat) by (rewrite Gn; exact Hv).
    unfold nvars. rewrite <- Ev.
    pose proof (NoDup_incl_length (bk_nodup _ BK v Hvb) (l' := seq 0 n)) as X. rewrite seq_length in X. apply X.
    intros w Hw. apply (bk_mem _ BK v w Hvb) in Hw. apply in_seq. rewrite Gn in Hw. lia.
  Qed.

  Lemma ml_loop_total : forall fuel s r c,
    MLI done v Yb cs n s r -> root_ok s r c -> (n + 2 <= fuel + nvars s r)%nat ->
    exists s', ml_loop fuel s r c = Ok s'.
  Proof.
    induction fuel as [|f IH]; intros s r c I RO Hf.
    - pose proof (MLI_nvars_le s r I). lia.
    - cbn [ml_loop]. destruct c as [c0|]; [|eexists; reflexivity].
      destruct (snote_slack_fields TIE_EPS s c0 0) as [F1 [F2 [F3 [F4 F5]]]].
      set (s0 := snote_slack TIE_EPS s c0 0) in *.
      assert (I0 : MLI done v Yb cs n s0 r) by (apply (MLI_frame done v Yb cs n s); assumption).
      assert (RO0 : root_ok s0 r (Some c0)) by (apply (ceqv_root_ok s); [repeat split; assumption | exact F4 | exact RO]).
      destruct (Qltb (sslack s0 c0) 0) eqn:E; [|eexists; reflexivity].
      destruct (MLI_root_facts s0 r c0 I0 RO0) as [h0 [hl0 [A [B C]]]].
      destruct (ml_body_total s0 r c0 h0 hl0 A B C) as [[[s1 r1] c1] E1]. rewrite E1. cbn [bind].
      apply Qltb_spec in E. unfold sslack in E.
      destruct (ml_body_MLI done v Yb cs n topo G0 done_lt s0 r c0 s1 r1 c1 I0 RO0 E E1) as [I1 [RO1 M]].
      apply (IH s1 r1 c1 I1 RO1).
      assert (E0 : nvars s0 r = nvars s r) by (unfold nvars; rewrite F1; reflexivity). lia.
  Qed.
End LoopTotal.

(* ------------------------------------------------------------------ fuel: mergeLeft and the merge pass return *)
Definition LB (s : sst) : Prop := length (bin s) = length (blocks (base s)).

Lemma merge_left_total cs n done v s :
  (forall c, (c < length cs)%nat -> proc done v (cr (Kc cs c)) -> In (cl (Kc cs c)) done) ->
  ~ In v done -> (forall u, In u done -> (u < n)%nat) -> (v < n)%nat ->
  PI cs n done s -> LB s -> exists s', merge_left s (blk_of (base s) v) = Ok s'.
Proof.
  intros topo vnd dl Hv P L. unfold merge_left.
  set (r := blk_of (base s) v). set (s1 := set_ctr s (S (ctr s))). set (s2 := set_btime s1 (upd_nth (btime s1) r (ctr s1))).
  pose proof (p_SI _ _ _ _ P) as [BK _].
  assert (Hr : (r < length (bin s2))%nat).
  { change (bin s2) with (bin s). rewrite L. apply (bk_blk _ BK). rewrite (p_n _ _ _ _ P). exact Hv. }
  assert (exists h3, bin_of (set_up_heap true s2 r) r = Some h3) as [h3 H3].
  { unfold set_up_heap.
    match goal with |- context [fold_left ?f ?l ?a] => assert (E : bin (fst (fold_left f l a)) = bin s2) end.
    { apply (fold_left_inv _ (fun acc => bin (fst acc) = bin s2)); [|reflexivity].
      intros acc w _ Hacc.
      apply (fold_left_inv _ (fun acc => bin (fst acc) = bin s2)); [|exact Hacc].
      intros [sa ha] c _ H'. cbn [fst] in *. unfold heap_add.
      set (sb := set_ctime_of sa c (ctr sa)).
      destruct (negb _); [|exact H'].
      pose proof (proj1 (heaps_eq_s_insert sb ha c)) as X. rewrite X. exact H'. }
    match goal with |- context [fold_left ?f ?l ?a] => destruct (fold_left f l a) as [s' h] end.
    cbn [fst] in E. exists h. unfold bin_of, set_heap. cbn [bin set_bin]. apply nth_upd_nth_eq. rewrite E. exact Hr. }
  destruct (find_min_in_total _ r h3 H3) as [s4 [c E4]]. rewrite E4. cbn [bind fst snd].
  destruct (PI_to_MLI done v cs n topo vnd dl Hv s s4 c P E4) as [I RO].
  assert (G0 : forall k, (k < length cs)%nat -> In (cr (Kc cs k)) done ->
                 0 <= Yof (base s) (cr (Kc cs k)) - gap (Kc cs k) - Yof (base s) (cl (Kc cs k))).
  { intros k Hk Dk. pose proof (p_sat _ _ _ _ P k Hk Dk) as X. rewrite (slack_Y' _ k (p_wf _ _ _ _ P)) in X.
    assert (E : con_of (base s) k = Kc cs k) by (unfold con_of, Kc; rewrite (p_cs _ _ _ _ P); reflexivity).
    rewrite E in X. exact X. }
  apply (ml_loop_total done v _ cs n topo G0 dl (loop_fuel s) s4 r c I RO).
  unfold loop_fuel. rewrite (p_n _ _ _ _ P). lia.
Qed.

Lemma visit_fold_total cs n : forall post pre s,
  topo_order cs (pre ++ post) -> (forall u, In u (pre ++ post) -> (u < n)%nat) ->
  PI cs n (rev pre) s -> LB s -> exists s', fold_left sat_visit post (Ok s) = Ok s'.
Proof.
  induction post as [|v post IH]; intros pre s TO R P L.
  - eexists. reflexivity.
  - cbn [fold_left]. unfold sat_visit at 2. cbn [bind].
    assert (Hv : (v < n)%nat) by (apply R; rewrite in_app_iff; right; left; reflexivity).
    rewrite (p_live _ _ _ _ P v Hv).
    destruct TO as [ND [CV TP]].
    assert (topo : forall c, (c < length cs)%nat -> proc (rev pre) v (cr (Kc cs c)) -> In (cl (Kc cs c)) (rev pre)).
    { intros c Hc Pc. apply -> in_rev. apply (TP c pre v post Hc eq_refl).
      destruct Pc as [X|X]; [left; apply in_rev; exact X | right; exact X]. }
    assert (vnd : ~ In v (rev pre)).
    { intros X. apply in_rev in X. apply NoDup_remove_2 in ND. apply ND. rewrite in_app_iff. left. exact X. }
    assert (dl : forall u, In u (rev pre) -> (u < n)%nat).
    { intros u Hu. apply R. rewrite in_app_iff. left. apply in_rev. exact Hu. }
    destruct (merge_left_total cs n (rev pre) v s topo vnd dl Hv P L) as [s1 E]. rewrite E.
    pose proof (merge_left_PI cs n (rev pre) v s s1 topo vnd dl Hv P E) as P1.
    destruct (merge_left_lens _ _ _ E) as [A B].
    assert (L1 : LB s1) by (unfold LB in *; congruence).
    rewrite <- rev_unit in P1.
    apply (IH (pre ++ [v]) s1); [| |exact P1|exact L1].
    + rewrite <- app_assoc. cbn [app]. split; [exact ND|]. split; [exact CV | exact TP].
    + rewrite <- app_assoc. exact R.
Qed.

Lemma static_init_LB vs cs : LB (static_init vs cs).
Proof.
  unfold LB. cbn [static_init bin base]. rewrite repeat_length.
  assert (IF : init_facts vs cs (length vs) (init vs cs)).
  { rewrite init_unfold. apply init_fold_facts; [lia|].
    constructor; cbn; try reflexivity; try (apply repeat_length). intros i Hi. lia. }
  symmetry. exact (if_blocks _ _ _ _ IF).
Qed.

(* ------------------------------------------------------------------ static_no_throw_on_dag *)
Theorem static_no_throw_on_dag vs cs :
  wf_vars vs -> wf_cons vs cs -> dag_orderb (init vs cs) = true ->
  exists s', static_satisfy (static_init vs cs) = Ok s' /\
             forall c, (c < length cs)%nat -> 0 <= slack_val (base s') c.
Proof.
  intros WV W D. apply (static_no_throw_on_dag_modulo_fuel vs cs WV W D).
  destruct (dag_orderb_topo vs cs W D) as [order [TO TP]].
  destruct (init_problem vs cs) as [Iv Ic].
  assert (R : forall u, In u order -> (u < length vs)%nat).
  { pose proof (total_order_range (init vs cs) order) as X. rewrite Iv, Ic in X. specialize (X W TO).
    rewrite Forall_forall in X. exact X. }
  destruct (visit_fold_total cs (length vs) order [] (static_init vs cs) TP R (static_init_PI vs cs WV W) (static_init_LB vs cs)) as [s1 E].
  unfold static_satisfy, merge_pass. cbn [static_init base]. rewrite TO. cbn [bind].
  change (mksst (init vs cs) (repeat O (length vs)) (repeat O (length cs)) (repeat None (length vs)) (repeat None (length vs)) O false)
    with (static_init vs cs).
  rewrite E. cbn [bind]. unfold sfinal_scan. destruct (find _ _); discriminate.
Qed.

(* non-vacuity: the example DAG of StaticExamples.v (4 variables, 4 constraints, merges needed) satisfies the hypotheses,
   and so does a removeoverlaps-shaped chain with a tie *)
Example static_no_throw_on_dag_example :
  let vs := [mkvar 3 1 1; mkvar 0 2 1; mkvar 1 1 1; mkvar 0 1 1] in
  let cs := [mkcon 0 1 2 false; mkcon 1 3 1 false; mkcon 0 2 1 false; mkcon 2 3 2 false] in
  wf_vars vs /\ wf_cons vs cs /\ dag_orderb (init vs cs) = true /\
  exists s', static_satisfy (static_init vs cs) = Ok s' /\ existsb (fun c => act_of (base s') c) (seq 0 4) = true.
Proof.
  cbv zeta. split; [|split; [|split]].
  - intros i Hi. cbn [length] in Hi. destruct i as [|[|[|[|i]]]]; try lia; cbn; split; reflexivity.
  - intros c [<-|[<-|[<-|[<-|[]]]]]; cbn; lia.
  - vm_compute. reflexivity.
  - eexists. split; vm_compute; reflexivity.
Qed.
