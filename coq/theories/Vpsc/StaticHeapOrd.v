(* Order and multiset facts about the shape-exact pairing heap of Vpsc/StaticModel.v.
   (1) every operation permutes the elements (so NoDup is kept and sizes add up);
   (2) hord R: "every node dominates (R) all its strict descendants" is kept by link / insert / merge / deleteMin as
       long as the comparison used is compatible with R (lt b a = true -> R b a and R b dominates what a dominates;
       lt b a = false -> the same with a and b exchanged).  R is abstract: the keys CompareConstraints reads are
       mutable, the instance used in StaticDag.v is "if the node's key is not stale then its slack is <= the
       (snapshot) slack of the descendant". *)
From Adapt Require Import Num.Qaux Vpsc.VpscSpec Vpsc.VpscModel Vpsc.StaticModel Vpsc.StaticHeap.
From Coq Require Import Permutation.

Definition oelems (o : option ph) : list nat := match o with Some a => ph_elems a | None => [] end.

Lemma lelems_cons a l : lelems (a :: l) = ph_elems a ++ lelems l.
Proof. reflexivity. Qed.
Lemma lelems_app l l' : lelems (l ++ l') = lelems l ++ lelems l'.
Proof. unfold lelems. apply flat_map_app. Qed.

Section HeapPerm.
  Variables lt nr : nat -> nat -> bool.

  Lemma link_perm a b : Permutation (ph_elems (fst (link lt nr a b))) (ph_elems a ++ ph_elems b).
  Proof.
    unfold link. rewrite (ph_eta a), (ph_eta b). cbn [ph_root ph_kids].
    destruct (lt (ph_root b) (ph_root a)); cbn [fst]; rewrite !ph_elems_eq, ?lelems_cons, ?ph_elems_eq.
    - cbn [app]. apply (Permutation_cons_app (ph_root a :: lelems (ph_kids a)) (lelems (ph_kids b)) (ph_root b)).
      apply Permutation_refl.
    - cbn [app]. apply perm_skip.
      apply (Permutation_app_comm (ph_root b :: lelems (ph_kids b)) (lelems (ph_kids a))).
  Qed.

  Lemma h_insert_perm h c : Permutation (heap_elems (fst (h_insert lt nr h c))) (c :: heap_elems h).
  Proof.
    unfold h_insert. destruct h as [r|]; cbn [fst heap_elems]; [|apply Permutation_refl].
    destruct (link lt nr r (PH c [])) as [p t] eqn:E. cbn [fst heap_elems].
    replace p with (fst (link lt nr r (PH c []))) by (rewrite E; reflexivity).
    eapply Permutation_trans; [apply link_perm|]. rewrite ph_elems_eq. cbn [lelems flat_map].
    apply Permutation_sym. apply Permutation_cons_append.
  Qed.
  Lemma h_merge_perm h g : Permutation (heap_elems (fst (h_merge lt nr h g))) (heap_elems h ++ heap_elems g).
  Proof.
    unfold h_merge. destruct h as [r|]; [destruct g as [b|]|]; cbn [fst heap_elems]; rewrite ?app_nil_r; try apply Permutation_refl.
    destruct (link lt nr r b) as [p t] eqn:E. cbn [fst heap_elems].
    replace p with (fst (link lt nr r b)) by (rewrite E; reflexivity). apply link_perm.
  Qed.

  Lemma pass1_perm : forall l ps lo t, pass1 lt nr l = (ps, lo, t) -> Permutation (lelems ps ++ oelems lo) (lelems l).
  Proof.
    fix IH 1. intros l ps lo t E. destruct l as [|a [|b l']].
    - cbn in E. inversion E. subst. apply Permutation_refl.
    - cbn in E. inversion E. subst. cbn. rewrite app_nil_r. apply Permutation_refl.
    - cbn [pass1] in E. destruct (link lt nr a b) as [p t1] eqn:EL. destruct (pass1 lt nr l') as [[ps' lo'] t2] eqn:EP.
      inversion E. subst ps lo t. rewrite !lelems_cons. rewrite <- !app_assoc.
      replace p with (fst (link lt nr a b)) by (rewrite EL; reflexivity).
      eapply Permutation_trans; [apply Permutation_app_tail; apply link_perm|].
      rewrite <- !app_assoc. apply Permutation_app_head. apply Permutation_app_head. exact (IH l' ps' lo' t2 EP).
  Qed.
  Lemma link_last_perm : forall ps a, Permutation (lelems (fst (link_last lt nr ps a))) (lelems ps ++ ph_elems a).
  Proof.
    induction ps as [|p t IH]; intros a.
    - cbn. rewrite app_nil_r. apply Permutation_refl.
    - destruct t as [|q t'].
      + cbn [link_last]. destruct (link lt nr p a) as [q t0] eqn:E. cbn [fst].
        rewrite !lelems_cons. cbn [lelems flat_map]. rewrite !app_nil_r.
        replace q with (fst (link lt nr p a)) by (rewrite E; reflexivity). apply link_perm.
      + change (link_last lt nr (p :: q :: t') a) with
          (let '(r, t0) := link_last lt nr (q :: t') a in (p :: r, t0)).
        specialize (IH a). destruct (link_last lt nr (q :: t') a) as [r t0] eqn:E. cbn [fst] in *.
        rewrite (lelems_cons p r), (lelems_cons p (q :: t')). rewrite <- app_assoc. apply Permutation_app_head. exact IH.
  Qed.
  Lemma pass2_perm : forall ps, Permutation (heap_elems (fst (pass2 lt nr ps))) (lelems ps).
  Proof.
    induction ps as [|p t IH]; [apply Permutation_refl|].
    cbn [pass2]. destruct (pass2 lt nr t) as [[acc|] t0] eqn:E; cbn [fst heap_elems] in *.
    - destruct (link lt nr p acc) as [q t1] eqn:EL. cbn [fst heap_elems].
      replace q with (fst (link lt nr p acc)) by (rewrite EL; reflexivity).
      eapply Permutation_trans; [apply link_perm|]. rewrite lelems_cons. apply Permutation_app_head. exact IH.
    - rewrite lelems_cons. apply Permutation_nil in IH. rewrite IH, app_nil_r. apply Permutation_refl.
  Qed.
  Lemma combine_perm l : Permutation (heap_elems (fst (combine_siblings lt nr l))) (lelems l).
  Proof.
    unfold combine_siblings. destruct l as [|a [|b l']].
    - apply Permutation_refl.
    - cbn. rewrite app_nil_r. apply Permutation_refl.
    - set (l := a :: b :: l'). destruct (pass1 lt nr l) as [[ps lo] t1] eqn:E1.
      pose proof (pass1_perm l ps lo t1 E1) as P1.
      destruct lo as [y|].
      + pose proof (link_last_perm ps y) as P2.
        destruct (link_last lt nr ps y) as [ps' t2] eqn:E2. pose proof (pass2_perm ps') as P3.
        destruct (pass2 lt nr ps') as [r t3] eqn:E3. cbn [fst] in *.
        eapply Permutation_trans; [exact P3|]. eapply Permutation_trans; [exact P2 | exact P1].
      + pose proof (pass2_perm ps) as P3. destruct (pass2 lt nr ps) as [r t3] eqn:E3. cbn [fst] in *.
        cbn [oelems] in P1. rewrite app_nil_r in P1. eapply Permutation_trans; [exact P3 | exact P1].
  Qed.
  Lemma h_delete_min_perm h : Permutation (heap_elems (fst (h_delete_min lt nr h))) (tl (heap_elems h)).
  Proof.
    unfold h_delete_min. destruct h as [[c kids]|]; [|apply Permutation_refl].
    cbn [heap_elems]. rewrite ph_elems_eq. cbn [tl]. apply combine_perm.
  Qed.
End HeapPerm.

Lemma ph_size_elems : forall p, ph_size p = length (ph_elems p).
Proof.
  fix IH 1. intros [c kids]. cbn [ph_size]. rewrite ph_elems_eq. cbn [length]. f_equal.
  induction kids as [|k t IHk]; [reflexivity|]. cbn [fold_right]. rewrite lelems_cons, app_length, IHk, IH. reflexivity.
Qed.
Lemma heap_size_elems h : heap_size h = length (heap_elems h).
Proof. destruct h as [p|]; [apply ph_size_elems | reflexivity]. Qed.

(* ------------------------------------------------------------------ heap order w.r.t. an abstract domination relation *)
Section HeapOrd.
  Variable R : nat -> nat -> Prop.

  Fixpoint hord (p : ph) : Prop :=
    match p with
    | PH c kids =>
        (forall x, In x (lelems kids) -> R c x) /\
        (fix all (l : list ph) : Prop := match l with [] => True | k :: t => hord k /\ all t end) kids
    end.
  Fixpoint hordl (l : list ph) : Prop := match l with [] => True | k :: t => hord k /\ hordl t end.
  Definition hordh (h : heap) : Prop := match h with None => True | Some p => hord p end.

  Lemma hord_eq c kids : hord (PH c kids) <-> ((forall x, In x (lelems kids) -> R c x) /\ hordl kids).
  Proof.
    cbn [hord]. assert (E : forall l, (fix all (l : list ph) : Prop := match l with [] => True | k :: t => hord k /\ all t end) l <-> hordl l).
    { induction l as [|k t IH]; cbn; [tauto | rewrite IH; tauto]. }
    rewrite E. tauto.
  Qed.
  Lemma hordl_app l l' : hordl (l ++ l') <-> hordl l /\ hordl l'.
  Proof. induction l as [|k t IH]; cbn [app hordl]; [tauto | rewrite IH; tauto]. Qed.

  Variables lt nr : nat -> nat -> bool.
  Hypothesis lt_true : forall a b, lt b a = true -> R b a /\ (forall x, R a x -> R b x).
  Hypothesis lt_false : forall a b, lt b a = false -> R a b /\ (forall x, R b x -> R a x).

  Lemma link_hord a b : hord a -> hord b -> hord (fst (link lt nr a b)).
  Proof.
    rewrite (ph_eta a), (ph_eta b). set (ra := ph_root a). set (rb := ph_root b). set (ka := ph_kids a). set (kb := ph_kids b).
    rewrite !hord_eq. intros [Da Ha] [Db Hb]. unfold link. cbn [ph_root ph_kids].
    destruct (lt rb ra) eqn:E; cbn [fst]; rewrite hord_eq.
    - destruct (lt_true _ _ E) as [L1 L2]. split.
      + intros x Hx. rewrite lelems_cons, ph_elems_eq in Hx. cbn [app In] in Hx. rewrite in_app_iff in Hx.
        destruct Hx as [<-|[Hx|Hx]]; [exact L1 | apply L2, Da, Hx | apply Db, Hx].
      + cbn [hordl]. split; [rewrite hord_eq; split; assumption | exact Hb].
    - destruct (lt_false _ _ E) as [L1 L2]. split.
      + intros x Hx. rewrite lelems_cons, ph_elems_eq in Hx. cbn [app In] in Hx. rewrite in_app_iff in Hx.
        destruct Hx as [<-|[Hx|Hx]]; [exact L1 | apply L2, Db, Hx | apply Da, Hx].
      + cbn [hordl]. split; [rewrite hord_eq; split; assumption | exact Ha].
  Qed.

  Lemma hord_single c : hord (PH c []).
  Proof. rewrite hord_eq. split; [intros x [] | exact I]. Qed.

  Lemma h_insert_hord h c : hordh h -> hordh (fst (h_insert lt nr h c)).
  Proof.
    unfold h_insert. destruct h as [r|]; cbn [fst hordh]; [|intros _; apply hord_single].
    intros H. destruct (link lt nr r (PH c [])) as [p t] eqn:E. cbn [fst hordh].
    replace p with (fst (link lt nr r (PH c []))) by (rewrite E; reflexivity). apply link_hord; [exact H | apply hord_single].
  Qed.
  Lemma h_merge_hord h g : hordh h -> hordh g -> hordh (fst (h_merge lt nr h g)).
  Proof.
    unfold h_merge. destruct h as [r|]; [destruct g as [b|]|]; cbn [fst hordh]; try tauto.
    intros H G. destruct (link lt nr r b) as [p t] eqn:E. cbn [fst hordh].
    replace p with (fst (link lt nr r b)) by (rewrite E; reflexivity). apply link_hord; assumption.
  Qed.

  Lemma pass1_hord : forall l ps lo t, pass1 lt nr l = (ps, lo, t) -> hordl l -> hordl ps /\ (forall a, lo = Some a -> hord a).
  Proof.
    fix IH 1. intros l ps lo t E H. destruct l as [|a [|b l']].
    - cbn in E. inversion E. subst. split; [exact I | discriminate].
    - cbn in E. inversion E. subst. split; [exact I|]. intros a' Ea. inversion Ea. subst. exact (proj1 H).
    - cbn [pass1] in E. destruct (link lt nr a b) as [p t1] eqn:EL. destruct (pass1 lt nr l') as [[ps' lo'] t2] eqn:EP.
      inversion E. subst ps lo t. cbn [hordl] in H. destruct H as [Ha [Hb Hl]].
      destruct (IH l' ps' lo' t2 EP Hl) as [I1 I2]. split; [|exact I2].
      cbn [hordl]. split; [|exact I1]. replace p with (fst (link lt nr a b)) by (rewrite EL; reflexivity).
      apply link_hord; assumption.
  Qed.
  Lemma link_last_hord : forall ps a, hordl ps -> hord a -> hordl (fst (link_last lt nr ps a)).
  Proof.
    induction ps as [|p t IH]; intros a H Ha.
    - cbn. auto.
    - destruct t as [|q t'].
      + cbn [link_last]. destruct (link lt nr p a) as [q t0] eqn:E. cbn [fst hordl]. split; [|exact I].
        replace q with (fst (link lt nr p a)) by (rewrite E; reflexivity). apply link_hord; [exact (proj1 H) | exact Ha].
      + change (link_last lt nr (p :: q :: t') a) with
          (let '(r, t0) := link_last lt nr (q :: t') a in (p :: r, t0)).
        destruct H as [Hp Ht]. specialize (IH a Ht Ha). destruct (link_last lt nr (q :: t') a) as [r t0] eqn:E. cbn [fst] in *.
        cbn [hordl]. split; assumption.
  Qed.
  Lemma pass2_hord : forall ps, hordl ps -> hordh (fst (pass2 lt nr ps)).
  Proof.
    induction ps as [|p t IH]; intros H; [exact I|].
    cbn [pass2]. destruct H as [Hp Ht]. specialize (IH Ht). destruct (pass2 lt nr t) as [[acc|] t0] eqn:E; cbn [fst hordh] in *.
    - destruct (link lt nr p acc) as [q t1] eqn:EL. cbn [fst hordh].
      replace q with (fst (link lt nr p acc)) by (rewrite EL; reflexivity). apply link_hord; assumption.
    - exact Hp.
  Qed.
  Lemma combine_hord l : hordl l -> hordh (fst (combine_siblings lt nr l)).
  Proof.
    unfold combine_siblings. destruct l as [|a [|b l']].
    - intros _. exact I.
    - intros [H _]. exact H.
    - set (l := a :: b :: l'). intros H. destruct (pass1 lt nr l) as [[ps lo] t1] eqn:E1.
      destruct (pass1_hord l ps lo t1 E1 H) as [P1 P2].
      destruct lo as [y|].
      + pose proof (link_last_hord ps y P1 (P2 y eq_refl)) as Q.
        destruct (link_last lt nr ps y) as [ps' t2] eqn:E2. pose proof (pass2_hord ps') as Q3.
        destruct (pass2 lt nr ps') as [r t3] eqn:E3. cbn [fst] in *. exact (Q3 Q).
      + pose proof (pass2_hord ps P1) as Q3. destruct (pass2 lt nr ps) as [r t3] eqn:E3. cbn [fst] in *. exact Q3.
  Qed.
  Lemma h_delete_min_hord h : hordh h -> hordh (fst (h_delete_min lt nr h)).
  Proof.
    unfold h_delete_min. destruct h as [[c kids]|]; [|intros _; exact I].
    cbn [hordh]. rewrite hord_eq. intros [_ H]. apply combine_hord. exact H.
  Qed.

  (* the root dominates everything else *)
  Lemma hordh_root h c x : hordh h -> heap_min h = Some c -> In x (heap_elems h) -> x = c \/ R c x.
  Proof.
    destruct h as [[r kids]|]; cbn [hordh heap_min heap_elems]; [|discriminate].
    rewrite hord_eq, ph_elems_eq. intros [D _] E [Hx|Hx]; cbn [ph_root] in E; inversion E; subst; [left; reflexivity | right; apply D, Hx].
  Qed.
End HeapOrd.

(* changing the relation *)
Lemma hord_impl (R R' : nat -> nat -> Prop) : forall p,
  (forall c x, In c (ph_elems p) -> In x (ph_elems p) -> R c x -> R' c x) -> hord R p -> hord R' p.
Proof.
  fix IH 1. intros [c kids] H. rewrite !hord_eq. intros [D Hk]. split.
  - intros x Hx. apply H; [rewrite ph_elems_eq; left; reflexivity | rewrite ph_elems_eq; right; exact Hx | apply D, Hx].
  - assert (H' : forall a x, In a (lelems kids) -> In x (lelems kids) -> R a x -> R' a x).
    { intros a x Ha Hx. apply H; rewrite ph_elems_eq; right; assumption. }
    clear H D. induction kids as [|k t IHk]; [exact I|]. cbn [hordl] in *. destruct Hk as [Hk Ht]. split.
    + apply IH; [|exact Hk]. intros a x Ha Hx. apply H'; rewrite lelems_cons, in_app_iff; left; assumption.
    + apply IHk; [exact Ht|]. intros a x Ha Hx. apply H'; rewrite lelems_cons, in_app_iff; right; assumption.
Qed.
Lemma hordh_impl (R R' : nat -> nat -> Prop) h :
  (forall c x, In c (heap_elems h) -> In x (heap_elems h) -> R c x -> R' c x) -> hordh R h -> hordh R' h.
Proof. destruct h as [p|]; [apply hord_impl | auto]. Qed.
