(* The pairing-heap operations of Vpsc/StaticModel.v never invent elements: what insert / merge / deleteMin return
   contains only elements that were put in (whatever the comparison function answers - the keys CompareConstraints reads
   are mutable, so nothing about ORDER is claimed here), and the root after an insert is the old root or the new element. *)
From Adapt Require Import Num.Qaux Vpsc.VpscSpec Vpsc.VpscModel Vpsc.StaticModel.

Definition lelems (l : list ph) : list nat := flat_map ph_elems l.
Lemma ph_elems_eq c kids : ph_elems (PH c kids) = c :: lelems kids.
Proof. reflexivity. Qed.
Lemma ph_eta p : p = PH (ph_root p) (ph_kids p).
Proof. destruct p; reflexivity. Qed.

Section HeapElems.
  Variables lt nr : nat -> nat -> bool.

  Lemma link_elems a b x : In x (ph_elems (fst (link lt nr a b))) -> In x (ph_elems a) \/ In x (ph_elems b).
  Proof.
    unfold link. rewrite (ph_eta a), (ph_eta b). cbn [ph_root ph_kids].
    destruct (lt (ph_root b) (ph_root a)); cbn [fst]; rewrite !ph_elems_eq; unfold lelems; cbn [flat_map];
      rewrite ?ph_elems_eq; fold (lelems (ph_kids a)); fold (lelems (ph_kids b)); cbn [In]; rewrite !in_app_iff; cbn [In]; tauto.
  Qed.
  Lemma link_root a b : ph_root (fst (link lt nr a b)) = ph_root a \/ ph_root (fst (link lt nr a b)) = ph_root b.
  Proof. unfold link. destruct (lt _ _); cbn; tauto. Qed.

  Lemma h_insert_elems h c x : In x (heap_elems (fst (h_insert lt nr h c))) -> x = c \/ In x (heap_elems h).
  Proof.
    unfold h_insert. destruct h as [r|]; cbn [fst heap_elems].
    - destruct (link lt nr r (PH c [])) as [p t] eqn:E. cbn [fst heap_elems]. intros H.
      replace p with (fst (link lt nr r (PH c []))) in H by (rewrite E; reflexivity).
      apply link_elems in H. destruct H as [H|H]; [right; exact H|]. rewrite ph_elems_eq in H. cbn in H. destruct H as [H|[]]. left; congruence.
    - cbn. intros [H|[]]. left; congruence.
  Qed.
  Lemma h_insert_min h c :
    heap_min (fst (h_insert lt nr h c)) = Some c \/ (heap_min h <> None /\ heap_min (fst (h_insert lt nr h c)) = heap_min h).
  Proof.
    unfold h_insert. destruct h as [r|]; cbn [fst heap_min].
    - destruct (link lt nr r (PH c [])) as [p t] eqn:E. cbn [fst heap_min].
      replace p with (fst (link lt nr r (PH c []))) by (rewrite E; reflexivity).
      destruct (link_root r (PH c [])) as [H|H]; rewrite H; cbn [ph_root]; [right; split; [discriminate | reflexivity] | left; reflexivity].
    - left. reflexivity.
  Qed.
  Lemma h_merge_elems h g x : In x (heap_elems (fst (h_merge lt nr h g))) -> In x (heap_elems h) \/ In x (heap_elems g).
  Proof.
    unfold h_merge. destruct h as [r|]; [destruct g as [b|]|]; cbn [fst heap_elems]; try tauto.
    destruct (link lt nr r b) as [p t] eqn:E. cbn [fst heap_elems]. intros H.
    replace p with (fst (link lt nr r b)) in H by (rewrite E; reflexivity). apply link_elems in H. exact H.
  Qed.

  Lemma pass1_elems : forall l ps lo t x,
    pass1 lt nr l = (ps, lo, t) ->
    In x (lelems ps) \/ (exists a, lo = Some a /\ In x (ph_elems a)) -> In x (lelems l).
  Proof.
    fix IH 1. intros l ps lo t x E H. destruct l as [|a [|b l']].
    - cbn in E. inversion E. subst. destruct H as [[]|[a [D _]]]. discriminate.
    - cbn in E. inversion E. subst. destruct H as [[]|[a' [D H]]]. inversion D. subst a'.
      unfold lelems. cbn [flat_map]. rewrite app_nil_r. exact H.
    - cbn [pass1] in E. destruct (link lt nr a b) as [p t1] eqn:EL. destruct (pass1 lt nr l') as [[ps' lo'] t2] eqn:EP.
      inversion E. subst ps lo t. unfold lelems. cbn [flat_map]. rewrite !in_app_iff.
      destruct H as [H|H].
      + unfold lelems in H. cbn [flat_map] in H. rewrite in_app_iff in H. destruct H as [H|H].
        * replace p with (fst (link lt nr a b)) in H by (rewrite EL; reflexivity). apply link_elems in H. tauto.
        * right. right. apply (IH l' ps' lo' t2 x EP). left. exact H.
      + right. right. apply (IH l' ps' lo' t2 x EP). right. exact H.
  Qed.
  Lemma link_last_elems : forall ps a x, In x (lelems (fst (link_last lt nr ps a))) -> In x (lelems ps) \/ In x (ph_elems a).
  Proof.
    induction ps as [|p t IH]; intros a x H.
    - cbn in H. rewrite app_nil_r in H. right. exact H.
    - destruct t as [|q t'].
      + cbn [link_last] in H. destruct (link lt nr p a) as [q t0] eqn:E. cbn [fst] in H.
        unfold lelems in H. cbn [flat_map] in H. rewrite app_nil_r in H.
        replace q with (fst (link lt nr p a)) in H by (rewrite E; reflexivity). apply link_elems in H.
        unfold lelems. cbn [flat_map]. rewrite app_nil_r. exact H.
      + change (link_last lt nr (p :: q :: t') a) with
          (let '(r, t0) := link_last lt nr (q :: t') a in (p :: r, t0)) in H.
        destruct (link_last lt nr (q :: t') a) as [r t0] eqn:E. cbn [fst] in H.
        unfold lelems in H. cbn [flat_map] in H. rewrite in_app_iff in H.
        unfold lelems. cbn [flat_map]. rewrite !in_app_iff.
        destruct H as [H|H]; [tauto|].
        assert (H' : In x (lelems (fst (link_last lt nr (q :: t') a)))) by (rewrite E; exact H).
        apply IH in H'. unfold lelems in H'. cbn [flat_map] in H'. rewrite in_app_iff in H'. tauto.
  Qed.
  Lemma pass2_elems : forall ps x, In x (heap_elems (fst (pass2 lt nr ps))) -> In x (lelems ps).
  Proof.
    induction ps as [|p t IH]; intros x H; [destruct H|].
    cbn [pass2] in H. destruct (pass2 lt nr t) as [[acc|] t0] eqn:E.
    - destruct (link lt nr p acc) as [q t1] eqn:EL. cbn [fst heap_elems] in H.
      replace q with (fst (link lt nr p acc)) in H by (rewrite EL; reflexivity). apply link_elems in H.
      unfold lelems. cbn [flat_map]. rewrite in_app_iff. destruct H as [H|H]; [left; exact H|]. right. apply IH. cbn. exact H.
    - cbn [fst heap_elems] in H. unfold lelems. cbn [flat_map]. rewrite in_app_iff. left. exact H.
  Qed.
  Lemma combine_elems l x : In x (heap_elems (fst (combine_siblings lt nr l))) -> In x (lelems l).
  Proof.
    unfold combine_siblings. destruct l as [|a [|b l']].
    - intros [].
    - cbn. rewrite app_nil_r. tauto.
    - set (l := a :: b :: l'). destruct (pass1 lt nr l) as [[ps lo] t1] eqn:E1.
      destruct lo as [y|].
      + destruct (link_last lt nr ps y) as [ps' t2] eqn:E2. destruct (pass2 lt nr ps') as [r t3] eqn:E3. cbn [fst]. intros H.
        assert (H3 : In x (lelems ps')) by (apply pass2_elems; rewrite E3; exact H).
        assert (H2 : In x (lelems ps) \/ In x (ph_elems y)) by (apply link_last_elems; rewrite E2; exact H3).
        apply (pass1_elems l ps (Some y) t1 x E1). destruct H2 as [H2|H2]; [left; exact H2 | right; exists y; auto].
      + destruct (pass2 lt nr ps) as [r t3] eqn:E3. cbn [fst]. intros H.
        assert (H3 : In x (lelems ps)) by (apply pass2_elems; rewrite E3; exact H).
        apply (pass1_elems l ps None t1 x E1). left. exact H3.
  Qed.
  Lemma h_delete_min_elems h x : In x (heap_elems (fst (h_delete_min lt nr h))) -> In x (heap_elems h).
  Proof.
    unfold h_delete_min. destruct h as [[c kids]|]; [|intros []].
    intros H. apply combine_elems in H. cbn [heap_elems]. rewrite ph_elems_eq. right. exact H.
  Qed.
End HeapElems.

Lemma heap_min_in h c : heap_min h = Some c -> In c (heap_elems h).
Proof. destruct h as [[r k]|]; cbn; intros H; inversion H. left. reflexivity. Qed.
