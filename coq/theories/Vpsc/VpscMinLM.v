(* C02: Block::findMinLM returns the MINIMUM multiplier over the active inequality constraints of its block
   (block.cpp:297-317: the three-argument compute_dfdv updates min_lm after it has written c->lm), so the exit test of
   IncSolver::splitBlocks ("min_lm == nullptr || min_lm->lm >= LAGRANGIAN_TOLERANCE" for every block, i.e. splitCnt = 0)
   really says: every multiplier of an active inequality is >= -1e-4.  With the stationarity theorem of
   VpscStationary.v this gives the duality-gap bound for the state splitBlocks leaves, from the solver's own test. *)
From Adapt Require Import Num.Qaux Vpsc.VpscSpec Vpsc.KKT Vpsc.VpscModel Vpsc.VpscInv Vpsc.VpscFrame Vpsc.VpscTree
  Vpsc.VpscPopulate Vpsc.VpscForest Vpsc.VpscWalks Vpsc.VpscTrichotomy Vpsc.VpscReach Vpsc.VpscStats Vpsc.VpscKktB
  Vpsc.VpscStationary Vpsc.VpscModelW Vpsc.VpscWeight Vpsc.VpscStatsW Vpsc.VpscFresh.
Local Open Scope Q_scope.

(* mn is an inequality of W whose multiplier (in x) is minimal among the inequalities of W; None iff W has none *)
Definition minOK (s : st) (W : nat -> Prop) (mn : option nat) (x : st) : Prop :=
  (forall e, W e -> ceq (con_of s e) = false -> exists m, mn = Some m /\ lm_of x m <= lm_of x e) /\
  (forall m, mn = Some m -> W m /\ ceq (con_of s m) = false).

Lemma minOK_ext s W W' mn x : (forall e, W e <-> W' e) -> minOK s W mn x -> minOK s W' mn x.
Proof.
  intros E [A B]. split.
  - intros e We Ce. apply (A e); [apply E; exact We | exact Ce].
  - intros m Em. destruct (B m Em) as [X Y]. split; [apply E; exact X | exact Y].
Qed.

(* writing lm(c) for a new c and then updating the minimum *)
Lemma minOK_write s W mnr xr c lmv mn3 x4 :
  lm_only s xr -> (c < length (clm xr))%nat -> ~ W c -> minOK s W mnr xr ->
  upd_min (set_lm xr c lmv) c mnr = (mn3, x4) ->
  minOK s (fun e => W e \/ e = c) mn3 x4.
Proof.
  intros L Hc NW [A B] U.
  pose proof (upd_min_lm _ _ _ _ _ U) as C4.
  assert (E4 : forall e, lm_of x4 e = lm_of (set_lm xr c lmv) e) by (intros e; unfold lm_of; rewrite C4; reflexivity).
  assert (En : forall e, e <> c -> lm_of x4 e = lm_of xr e) by (intros e N; rewrite E4; apply lm_of_set_lm_neq; exact N).
  assert (Ec : lm_of x4 c = lmv) by (rewrite E4; apply lm_of_set_lm_eq; exact Hc).
  assert (Kc : con_of (set_lm xr c lmv) c = con_of s c).
  { apply lm_only_con. apply (lm_only_trans _ xr); [exact L | apply lm_only_set_lm]. }
  assert (NWm : forall m, W m -> m <> c) by (intros m Wm ->; contradiction).
  unfold upd_min in U. rewrite Kc in U.
  destruct (ceq (con_of s c)) eqn:Q.
  - assert (Em3 : mn3 = mnr) by (inversion U; reflexivity). subst mn3. clear U. split.
    + intros e [We| ->] Ce; [|congruence]. destruct (A e We Ce) as [m [-> Le]]. exists m. split; [reflexivity|].
      rewrite (En e (NWm e We)), (En m (NWm m (proj1 (B m eq_refl)))). exact Le.
    + intros m Em. destruct (B m Em) as [Wm Cm]. split; [left; exact Wm | exact Cm].
  - destruct mnr as [m0|].
    + destruct (B m0 eq_refl) as [Wm0 Cm0]. pose proof (NWm m0 Wm0) as Nm0. cbv zeta in U.
      destruct (Qltb (lm_of (set_lm xr c lmv) c) (lm_of (set_lm xr c lmv) m0)) eqn:LT.
      * assert (Em3 : mn3 = Some c) by (inversion U; reflexivity). subst mn3. clear U.
        rewrite <- !E4 in LT. rewrite (En m0 Nm0) in LT. qb2p. split.
        -- intros e [We| ->] Ce.
           ++ exists c. split; [reflexivity|]. destruct (A e We Ce) as [m [Em Le]]. inversion Em. subst m.
              rewrite (En e (NWm e We)). lra.
           ++ exists c. split; [reflexivity | apply Qle_refl].
        -- intros m Em. inversion Em. subst m. split; [right; reflexivity | exact Q].
      * assert (Em3 : mn3 = Some m0) by (inversion U; reflexivity). subst mn3. clear U.
        rewrite <- !E4 in LT. rewrite (En m0 Nm0) in LT. qb2p. split.
        -- intros e [We| ->] Ce.
           ++ destruct (A e We Ce) as [m [Em Le]]. inversion Em. subst m. exists m0. split; [reflexivity|].
              rewrite (En e (NWm e We)), (En m0 Nm0). exact Le.
           ++ exists m0. split; [reflexivity|]. rewrite (En m0 Nm0). exact LT.
        -- intros m Em. inversion Em. subst m. split; [left; exact Wm0 | exact Cm0].
    + assert (Em3 : mn3 = Some c) by (inversion U; reflexivity). subst mn3. clear U. split.
      * intros e [We| ->] Ce.
        -- destruct (A e We Ce) as [m [Em _]]. discriminate.
        -- exists c. split; [reflexivity | apply Qle_refl].
      * intros m Em. inversion Em. subst m. split; [right; reflexivity | exact Q].
Qed.

(* ------------------------------------------------------------------ the parts of a sub-tree cut off by the edges at v *)
Section Parts.
Variables (s : st) (V' E' : nat -> Prop) (v : nat).
Hypothesis T : tree (con_of s) V' E'.
Hypothesis Vv : V' v.

Definition Sx (c e : nat) : Prop := e = c \/ under s V' E' v c e.

Lemma under_iff c A EA B EB e :
  sdec (con_of s) V' E' c v A EA B EB -> (under s V' E' v c e <-> EB e).
Proof.
  intros S. split.
  - intros [Ee [U1 U2]].
    pose proof (separates_far (con_of s) V' E' c v A EA B EB _ S U1) as B1.
    pose proof (separates_far (con_of s) V' E' c v A EA B EB _ S U2) as B2.
    apply (sx_E _ _ _ _ _ _ _ _ _ S) in Ee. destruct Ee as [->|[X|X]]; [| |exact X].
    + exfalso. destruct (sx_ends _ _ _ _ _ _ _ _ _ S) as [a [b [Hab [Aa Bb]]]].
      destruct Hab as [[P _]|[P _]]; rewrite <- P in Aa;
        [exact (sx_disj _ _ _ _ _ _ _ _ _ S _ Aa B1) | exact (sx_disj _ _ _ _ _ _ _ _ _ S _ Aa B2)].
    + exfalso. destruct (tree_edge_ends _ _ _ (sx_tA _ _ _ _ _ _ _ _ _ S) e X) as [P _].
      exact (sx_disj _ _ _ _ _ _ _ _ _ S _ P B1).
  - intros X. split; [apply (sx_E _ _ _ _ _ _ _ _ _ S); right; right; exact X|].
    destruct (tree_edge_ends _ _ _ (sx_tB _ _ _ _ _ _ _ _ _ S) e X) as [P Q].
    split; apply (sdec_separates (con_of s) V' E' c v A EA B EB _ S); assumption.
Qed.

Lemma Sx_sub c e : E' c -> Sx c e -> E' e.
Proof. intros Ec [->|[X _]]; assumption. Qed.

Lemma Sx_disjoint c c2 y y2 e :
  E' c -> E' c2 -> c <> c2 -> inc s c v y -> inc s c2 v y2 -> Sx c e -> Sx c2 e -> False.
Proof.
  intros Ec Ec2 N Hi Hi2 [->|[Ee [U1 U2]]] [E2|[Ee2 [W1 W2]]].
  - congruence.
  - destruct Hi as [[P _]|[P _]]; [rewrite P in W1; exact (separates_self _ _ _ _ _ W1) | rewrite P in W2; exact (separates_self _ _ _ _ _ W2)].
  - subst e. destruct Hi2 as [[P _]|[P _]]; [rewrite P in U1; exact (separates_self _ _ _ _ _ U1) | rewrite P in U2; exact (separates_self _ _ _ _ _ U2)].
  - exact (separates_disjoint (con_of s) V' E' T c c2 v y y2 _ Ec Ec2 N Hi Hi2 U1 W1).
Qed.

Lemma Sx_cover e : E' e -> exists c y, E' c /\ inc s c v y /\ Sx c e.
Proof.
  intros Ee. destruct (tree_edge_ends _ _ _ T e Ee) as [Pl Pr].
  destruct (Nat.eq_dec (cl (con_of s e)) v) as [El|Nl].
  { exists e, (cr (con_of s e)). split; [exact Ee|]. split; [left; split; [exact El | reflexivity] | left; reflexivity]. }
  destruct (Nat.eq_dec (cr (con_of s e)) v) as [Er|Nr].
  { exists e, (cl (con_of s e)). split; [exact Ee|]. split; [right; split; [exact Er | reflexivity] | left; reflexivity]. }
  destruct (separates_cover (con_of s) V' E' T v Vv _ Pl Nl) as [c [y [Ec [Hi Sp]]]].
  exists c, y. split; [exact Ec|]. split; [exact Hi|]. right. split; [exact Ee|]. split; [exact Sp|].
  destruct (sdec_exists (con_of s) V' E' T c v Ec Vv) as [A [EA [B [EB S]]]].
  pose proof (separates_far (con_of s) V' E' c v A EA B EB _ S Sp) as Bl.
  assert (Nec : e <> c) by (intros ->; destruct Hi as [[P _]|[P _]]; congruence).
  destruct (sdec_same_side (con_of s) V' E' c v A EA B EB e _ _ S Ee Nec (or_introl (conj eq_refl eq_refl))) as [_ [X _]].
  apply (sdec_separates (con_of s) V' E' c v A EA B EB _ S). apply X. exact Bl.
Qed.
End Parts.

(* ------------------------------------------------------------------ the generic fold *)
Lemma fold_min s (S : nat -> nat -> Prop) (g : Q * option nat * st -> nat -> res (Q * option nat * st)) (f : nat -> bool) :
  forall l, NoDup l ->
  (forall a c a', In c l -> f c = false -> acc_ok s a -> g a c = Ok a' -> a' = a) ->
  (forall a c a' (Wc : nat -> Prop), In c l -> f c = true -> acc_ok s a -> (forall e, Wc e -> ~ S c e) ->
     minOK s Wc (snd (fst a)) (snd a) -> g a c = Ok a' ->
     acc_ok s a' /\ minOK s (fun e => Wc e \/ S c e) (snd (fst a')) (snd a')) ->
  (forall c c2 e, In c l -> In c2 l -> f c = true -> f c2 = true -> c <> c2 -> S c e -> S c2 e -> False) ->
  forall a0 a1 (W0 : nat -> Prop), acc_ok s a0 ->
  (forall c e, In c l -> f c = true -> W0 e -> ~ S c e) ->
  minOK s W0 (snd (fst a0)) (snd a0) ->
  fold_left (fun acc c => bind acc (fun a => g a c)) l (Ok a0) = Ok a1 ->
  acc_ok s a1 /\ minOK s (fun e => W0 e \/ exists c, In c l /\ f c = true /\ S c e) (snd (fst a1)) (snd a1).
Proof.
  induction l as [|c l IH]; intros ND G1 G2 G3 a0 a1 W0 A0 D0 M0 H; cbn [fold_left] in H.
  - inversion H. subst a1. split; [exact A0|]. apply (minOK_ext s W0); [|exact M0].
    intros e. split; [intros X; left; exact X | intros [X|[c [[] _]]]; exact X].
  - inversion ND as [|? ? Nc ND']. subst.
    destruct (fold_bind_inv g (fun _ => True) l (fun _ _ _ _ _ _ => I) _ _ H) as [am [Em _]].
    cbn [bind] in Em, H. rewrite Em in H.
    assert (IHl := IH ND' (fun a c0 a' Hc => G1 a c0 a' (or_intror Hc))
                      (fun a c0 a' Wc Hc => G2 a c0 a' Wc (or_intror Hc))
                      (fun c0 c2 e H0 H2 => G3 c0 c2 e (or_intror H0) (or_intror H2))).
    destruct (f c) eqn:Fc.
    + destruct (G2 a0 c am W0 (or_introl eq_refl) Fc A0 (fun e We => D0 c e (or_introl eq_refl) Fc We) M0 Em) as [Am Mm].
      destruct (IHl am a1 (fun e => W0 e \/ S c e) Am) as [A1 M1]; [| exact Mm | exact H |].
      * intros c2 e Hc2 F2 [We|Se]; [exact (D0 c2 e (or_intror Hc2) F2 We)|].
        intros S2. apply (G3 c c2 e (or_introl eq_refl) (or_intror Hc2) Fc F2); [intros ->; contradiction | exact Se | exact S2].
      * split; [exact A1|]. apply (minOK_ext s (fun e => (W0 e \/ S c e) \/ exists c0, In c0 l /\ f c0 = true /\ S c0 e)); [|exact M1].
        intros e. split.
        -- intros [[X|X]|[c2 [I2 [F2 S2]]]]; [left; exact X | right; exists c; split; [left; reflexivity | split; assumption]
                                               | right; exists c2; split; [right; exact I2 | split; assumption]].
        -- intros [X|[c2 [[<-|I2] [F2 S2]]]]; [left; left; exact X | left; right; exact S2 | right; exists c2; split; [exact I2 | split; assumption]].
    + pose proof (G1 a0 c am (or_introl eq_refl) Fc A0 Em) as ->.
      destruct (IHl a0 a1 W0 A0) as [A1 M1]; [| exact M0 | exact H |].
      * intros c2 e Hc2 F2 We. exact (D0 c2 e (or_intror Hc2) F2 We).
      * split; [exact A1|]. apply (minOK_ext s (fun e => W0 e \/ exists c0, In c0 l /\ f c0 = true /\ S c0 e)); [|exact M1].
        intros e. split.
        -- intros [X|[c2 [I2 [F2 S2]]]]; [left; exact X | right; exists c2; split; [right; exact I2 | split; assumption]].
        -- intros [X|[c2 [[<-|I2] [F2 S2]]]]; [left; exact X | congruence | right; exists c2; split; [exact I2 | split; assumption]].
Qed.

(* ------------------------------------------------------------------ compute_dfdv(v, u, min_lm) over a sub-tree *)
Theorem compute_dfdv_min s this :
  act_inv s -> (forall i, ~ scl (var_of s i) == 0) ->
  forall fuel V' E' v u mn x0 d mn' x' (W : nat -> Prop),
  tree (con_of s) V' E' -> sub_ok s this V' E' v u ->
  (forall z, V' z -> blk_of s z = this) -> (forall e, E' e -> Eof s this e) -> (forall p, u = Some p -> ~ V' p) ->
  lm_only s x0 -> length (clm x0) = length (scons s) ->
  (forall e, W e -> ~ E' e) -> minOK s W mn x0 ->
  compute_dfdv fuel true this v u mn x0 = Ok (d, mn', x') ->
  minOK s (fun e => W e \/ E' e) mn' x'.
Proof.
  intros AI NZ. induction fuel as [|f IH]; intros V' E' v u mn x0 d mn' x' W T SUB VB ES UP L0 Hlen DW MW H; [discriminate|].
  rewrite compute_dfdv_unfold in H.
  rewrite (lm_only_ins _ _ v L0), (lm_only_outs _ _ v L0), (dfdv_lm_only _ _ v L0) in H.
  apply bind_ok in H. destruct H as [[[d2 mn2] x2] [H E]].
  change (Ok (Qred (d2 / scl (var_of x2 v)), mn2, x2) = Ok (d, mn', x')) in E.
  assert (Em : mn' = mn2) by congruence. assert (Ex : x' = x2) by congruence. subst mn' x'. clear E.
  pose proof (proj1 (proj2 SUB)) as Vv.
  (* one followed edge c = {v, w}: child call over the far side, write lm(c), update the minimum *)
  assert (STEP : forall c w dx mnx x lmv0 mnr xr lmv mn3 x4 (Wc : nat -> Prop),
            (c < length (scons s))%nat -> act_of s c = true -> inc s c v w -> u <> Some w ->
            acc_ok s (dx, mnx, x) -> (forall e, Wc e -> ~ Sx s V' E' v c e) -> minOK s Wc mnx x ->
            compute_dfdv f true this w (Some v) mnx x = Ok (lmv0, mnr, xr) ->
            upd_min (set_lm xr c lmv) c mnr = (mn3, x4) ->
            lm_only s x4 /\ length (clm x4) = length (scons s) /\ minOK s (fun e => Wc e \/ Sx s V' E' v c e) mn3 x4).
  { intros c w dx mnx x lmv0 mnr xr lmv mn3 x4 Wc Hc Ac Hi Hu [Lx Lenx] DWc MWc G U. cbn [snd] in Lx, Lenx.
    pose proof (followed_edge s this AI V' E' v u SUB VB c w Hc Ac Hi Hu) as Ec.
    destruct (sdec_exists (con_of s) V' E' T c v Ec Vv) as [A [EA [B [EB S]]]].
    destruct (sub_ok_far s this V' E' v u T SUB c w A EA B EB Ec Hi S) as [Hw [SUBw [SubV [SubE NBv]]]].
    assert (UPw : forall p, Some v = Some p -> ~ B p) by (intros p Ep; inversion Ep; subst p; exact NBv).
    destruct (compute_dfdv_stat s this AI NZ f true B EB w (Some v) mnx x lmv0 mnr xr (sx_tB _ _ _ _ _ _ _ _ _ S) SUBw
                (fun z Hz => VB z (SubV z Hz)) (fun e He => ES e (SubE e He)) UPw Lx Lenx G) as [Lr [Lenr _]].
    assert (MR : minOK s (fun e => Wc e \/ EB e) mnr xr).
    { apply (IH B EB w (Some v) mnx x lmv0 mnr xr Wc (sx_tB _ _ _ _ _ _ _ _ _ S) SUBw
                (fun z Hz => VB z (SubV z Hz)) (fun e He => ES e (SubE e He)) UPw Lx Lenx); [|exact MWc | exact G].
      intros e We Be. apply (DWc e We). right. apply (under_iff s V' E' v c A EA B EB e S). exact Be. }
    assert (MW4 : minOK s (fun e => (Wc e \/ EB e) \/ e = c) mn3 x4).
    { apply (minOK_write s _ mnr xr c lmv mn3 x4 Lr); [rewrite Lenr, Lenx; exact Hc | | exact MR | exact U].
      intros [X|X]; [exact (DWc c X (or_introl eq_refl)) | exact (sx_ncB _ _ _ _ _ _ _ _ _ S X)]. }
    destruct (upd_min_spec _ _ _ _ _ U) as [L34 _].
    split; [apply (lm_only_trans _ xr); [exact Lr|]; apply (lm_only_trans _ (set_lm xr c lmv)); [apply lm_only_set_lm | exact L34]|].
    split; [rewrite (upd_min_lm _ _ _ _ _ U), len_set_lm, Lenr; exact Lenx|].
    apply (minOK_ext s (fun e => (Wc e \/ EB e) \/ e = c)); [|exact MW4].
    intros e. pose proof (under_iff s V' E' v c A EA B EB e S) as UI. unfold Sx. tauto. }
  set (fo := fun c => can_follow_right s this c u).
  set (fi := fun c => can_follow_left s this c u).
  assert (A0 : acc_ok s (dfdv s v, mn, x0)) by (split; assumption).
  destruct (fold_bind_inv (cd_gin f true this v u) (fun _ => True) (ins_of s v) (fun _ _ _ _ _ _ => I) _ _ H) as [[[d1 mn1] x1] [H1 _]].
  rewrite H1 in H.
  (* facts about followed edges *)
  assert (FO : forall c, In c (outs_of s v) -> fo c = true -> E' c /\ inc s c v (cr (con_of s c))).
  { intros c Hc Fc. unfold fo in Fc. apply can_follow_right_true in Fc. destruct Fc as [Bw [Ac Hu]].
    apply outs_of_In in Hc. destruct Hc as [Hc Hl].
    split; [exact (followed_edge s this AI V' E' v u SUB VB c _ Hc Ac (or_introl (conj Hl eq_refl)) Hu) | left; split; [exact Hl | reflexivity]]. }
  assert (FI : forall c, In c (ins_of s v) -> fi c = true -> E' c /\ inc s c v (cl (con_of s c))).
  { intros c Hc Fc. unfold fi in Fc. apply can_follow_left_true in Fc. destruct Fc as [Bw [Ac Hu]].
    apply ins_of_In in Hc. destruct Hc as [Hc Hr].
    split; [exact (followed_edge s this AI V' E' v u SUB VB c _ Hc Ac (or_intror (conj Hr eq_refl)) Hu) | right; split; [exact Hr | reflexivity]]. }
  assert (OI : forall c c2, In c (outs_of s v) -> fo c = true -> In c2 (ins_of s v) -> fi c2 = true -> c <> c2).
  { intros c c2 Hc Fc Hc2 Fc2 ->. destruct (FO c2 Hc Fc) as [Ec _].
    apply outs_of_In in Hc. apply ins_of_In in Hc2. destruct Hc as [_ El]. destruct Hc2 as [_ Er].
    apply (tree_no_loop (con_of s) V' E' T c2 Ec). congruence. }
  (* ---- Variable::out *)
  destruct (fold_min s (Sx s V' E' v) (cd_gout f true this v u) fo (outs_of s v) (NoDup_outs_of s v)) with
    (a0 := (dfdv s v, mn, x0)) (a1 := (d1, mn1, x1)) (W0 := W) as [A1 M1]; try assumption.
  { intros [[dx mnx] x] c a' Hc Fc [Lx _] G. cbn [snd] in Lx. unfold cd_gout in G.
    rewrite (lm_only_follow_right _ _ this c u Lx) in G. unfold fo in Fc. rewrite Fc in G. inversion G. reflexivity. }
  { intros [[dx mnx] x] c a' Wc Hc Fc Ax DWc MWc G. pose proof Ax as [Lx Lenx]. cbn [snd fst] in Lx, Lenx, MWc. unfold cd_gout in G.
    rewrite (lm_only_follow_right _ _ this c u Lx) in G. unfold fo in Fc. rewrite Fc in G.
    apply can_follow_right_true in Fc. destruct Fc as [Bw [Ac Hu]].
    apply outs_of_In in Hc. destruct Hc as [Hc Hl].
    rewrite (lm_only_con _ _ c Lx) in G.
    apply bind_ok in G. destruct G as [[[lmv0 mnr] xr] [G1 G2]]. cbv beta iota zeta in G2.
    destruct (upd_min (set_lm xr c lmv0) c mnr) as [mn3 x4] eqn:U. inversion G2. subst a'. cbn [fst snd].
    destruct (STEP c (cr (con_of s c)) dx mnx x lmv0 mnr xr lmv0 mn3 x4 Wc Hc Ac (or_introl (conj Hl eq_refl)) Hu Ax DWc MWc G1 U) as [L4 [Len4 M4]].
    split; [split; assumption | exact M4]. }
  { intros c c2 e Hc Hc2 Fc Fc2 N. destruct (FO c Hc Fc) as [Ec Hi]. destruct (FO c2 Hc2 Fc2) as [Ec2 Hi2].
    exact (Sx_disjoint s V' E' v T c c2 _ _ e Ec Ec2 N Hi Hi2). }
  { intros c e Hc Fc We Se. destruct (FO c Hc Fc) as [Ec _]. exact (DW e We (Sx_sub s V' E' v c e Ec Se)). }
  cbn [fst snd] in A1, M1.
  (* ---- Variable::in *)
  destruct (fold_min s (Sx s V' E' v) (cd_gin f true this v u) fi (ins_of s v) (NoDup_ins_of s v)) with
    (a0 := (d1, mn1, x1)) (a1 := (d2, mn2, x2))
    (W0 := fun e => W e \/ exists c, In c (outs_of s v) /\ fo c = true /\ Sx s V' E' v c e) as [A2 M2]; try assumption.
  { intros [[dx mnx] x] c a' Hc Fc [Lx _] G. cbn [snd] in Lx. unfold cd_gin in G.
    rewrite (lm_only_follow_left _ _ this c u Lx) in G. unfold fi in Fc. rewrite Fc in G. inversion G. reflexivity. }
  { intros [[dx mnx] x] c a' Wc Hc Fc Ax DWc MWc G. pose proof Ax as [Lx Lenx]. cbn [snd fst] in Lx, Lenx, MWc. unfold cd_gin in G.
    rewrite (lm_only_follow_left _ _ this c u Lx) in G. unfold fi in Fc. rewrite Fc in G.
    apply can_follow_left_true in Fc. destruct Fc as [Bw [Ac Hu]].
    apply ins_of_In in Hc. destruct Hc as [Hc Hr].
    rewrite (lm_only_con _ _ c Lx) in G.
    apply bind_ok in G. destruct G as [[[lmv0 mnr] xr] [G1 G2]]. cbv beta iota zeta in G2.
    destruct (upd_min (set_lm xr c (Qred (- lmv0))) c mnr) as [mn3 x4] eqn:U. inversion G2. subst a'. cbn [fst snd].
    destruct (STEP c (cl (con_of s c)) dx mnx x lmv0 mnr xr (Qred (- lmv0)) mn3 x4 Wc Hc Ac (or_intror (conj Hr eq_refl)) Hu Ax DWc MWc G1 U) as [L4 [Len4 M4]].
    split; [split; assumption | exact M4]. }
  { intros c c2 e Hc Hc2 Fc Fc2 N. destruct (FI c Hc Fc) as [Ec Hi]. destruct (FI c2 Hc2 Fc2) as [Ec2 Hi2].
    exact (Sx_disjoint s V' E' v T c c2 _ _ e Ec Ec2 N Hi Hi2). }
  { intros c e Hc Fc [We|[c1 [Hc1 [Fc1 S1]]]] Se; destruct (FI c Hc Fc) as [Ec Hi].
    - exact (DW e We (Sx_sub s V' E' v c e Ec Se)).
    - destruct (FO c1 Hc1 Fc1) as [Ec1 Hi1].
      exact (Sx_disjoint s V' E' v T c1 c _ _ e Ec1 Ec (OI c1 c Hc1 Fc1 Hc Fc) Hi1 Hi S1 Se). }
  cbn [fst snd] in A2, M2.
  (* ---- the parts cover the sub-tree *)
  apply (minOK_ext s (fun e => (W e \/ exists c, In c (outs_of s v) /\ fo c = true /\ Sx s V' E' v c e) \/
                               exists c, In c (ins_of s v) /\ fi c = true /\ Sx s V' E' v c e)); [|exact M2].
  intros e. split.
  - intros [[X|[c [Hc [Fc Sc]]]]|[c [Hc [Fc Sc]]]]; [left; exact X | right | right].
    + exact (Sx_sub s V' E' v c e (proj1 (FO c Hc Fc)) Sc).
    + exact (Sx_sub s V' E' v c e (proj1 (FI c Hc Fc)) Sc).
  - intros [X|Ee]; [left; left; exact X|].
    destruct (Sx_cover s V' E' v T Vv e Ee) as [c [y [Ec [Hi Sc]]]].
    destruct (ES c Ec) as [Hc [Ac _]].
    assert (Vy : V' y).
    { destruct (tree_edge_ends _ _ _ T c Ec) as [P Q]. destruct Hi as [[_ <-]|[_ <-]]; assumption. }
    assert (Hu : u <> Some y) by (intros X; exact (UP y X Vy)).
    destruct Hi as [[Hl Hr]|[Hr Hl]].
    + left. right. exists c. split; [apply outs_of_In; split; assumption|]. split; [|exact Sc].
      unfold fo. apply can_follow_right_true. rewrite Hr. split; [apply VB; exact Vy|]. split; [exact Ac | exact Hu].
    + right. exists c. split; [apply ins_of_In; split; assumption|]. split; [|exact Sc].
      unfold fi. apply can_follow_left_true. rewrite Hl. split; [apply VB; exact Vy|]. split; [exact Ac | exact Hu].
Qed.

(* ------------------------------------------------------------------ findMinLM returns the minimum of its block *)
Theorem find_min_lm_min s b mn s' :
  book s -> act_inv s -> forest s -> (forall i, ~ scl (var_of s i) == 0) ->
  (front s b < length (svars s))%nat -> blk_of s (front s b) = b -> length (clm s) = length (scons s) ->
  find_min_lm s b = Ok (mn, s') -> minOK s (Eof s b) mn s'.
Proof.
  intros BK AI FO NZ Hr Hb Hlen H. unfold find_min_lm in H.
  apply bind_ok in H. destruct H as [s1 [H1 H]].
  apply bind_ok in H. destruct H as [[[d mn2] s2] [H2 H]]. inversion H. subst mn2 s2. clear H.
  assert (F0 : lmf s b s) by (split; [apply lm_only_refl | split; [reflexivity | intros; reflexivity]]).
  destruct (reset_active_lm_frame s b AI _ _ _ _ _ F0 H1) as [L1 [Len1 _]].
  destruct (root_sub_ok s b (front s b) FO Hr Hb) as [T SUB].
  apply (minOK_ext s (fun e => False \/ Eof s b e)); [intros e; tauto|].
  apply (compute_dfdv_min s b AI NZ (walk_fuel s) (Vof s b) (Eof s b) (front s b) None None s1 d mn s' (fun _ => False) T SUB); auto.
  - intros z [_ Z]. exact Z.
  - intros p Ep. discriminate.
  - rewrite Len1. exact Hlen.
  - split; [intros e [] | intros m Em; discriminate].
Qed.

(* spelled out: None iff the block has no active inequality; otherwise an active inequality of the block whose
   multiplier is <= that of every active inequality of the block *)
Corollary find_min_lm_min_spec s b mn s' :
  book s -> act_inv s -> forest s -> (forall i, ~ scl (var_of s i) == 0) ->
  (front s b < length (svars s))%nat -> blk_of s (front s b) = b -> length (clm s) = length (scons s) ->
  find_min_lm s b = Ok (mn, s') ->
  match mn with
  | None => forall e, Eof s b e -> ceq (con_of s e) = true
  | Some m => Eof s b m /\ ceq (con_of s m) = false /\
              forall e, Eof s b e -> ceq (con_of s e) = false -> lm_of s' m <= lm_of s' e
  end.
Proof.
  intros BK AI FO NZ Hr Hb Hlen H. destruct (find_min_lm_min s b mn s' BK AI FO NZ Hr Hb Hlen H) as [A B].
  destruct mn as [m|].
  - destruct (B m eq_refl) as [Em Cm]. split; [exact Em|]. split; [exact Cm|].
    intros e Ee Ce. destruct (A e Ee Ce) as [m' [X Le]]. inversion X. subst m'. exact Le.
  - intros e Ee. destruct (ceq (con_of s e)) eqn:Q; [reflexivity|]. destruct (A e Ee Q) as [m [X _]]. discriminate.
Qed.

(* ------------------------------------------------------------------ gap bound from stationarity (VpscStationary.relm_gap_bound with
   the stationarity of the given multiplier vector as hypothesis instead of `relm s = Ok s'`) *)
Theorem stationary_gap_bound s s' :
  inv s -> all_pos s -> lm_only s s' ->
  (forall i, (i < length (svars s))%nat -> stat_res (svars s) (lcons_of s') (xs_of s) i == 0) ->
  forall y, feasible (svars s) (scons s) y ->
    obj (svars s) (xs_of s) - obj (svars s) y <= gap_of s s'.
Proof.
  intros I AO L ST y Fy. pose proof (i_book s I) as BK. pose proof (proj1 AO) as WV.
  assert (NZ : forall i, ~ scl (var_of s i) == 0).
  { intros i. destruct (vget_pos (svars s) i WV) as [_ P]. unfold var_of. lra. }
  set (L' := mcons s (clipv s s')).
  assert (W : wf_lcons (svars s) L').
  { intros p Hp. destruct (in_mcons s _ p Hp) as [k [Hk [E1 _]]]. rewrite E1. apply (bk_cons s BK). unfold con_of. apply nth_In. exact Hk. }
  assert (SG : forall p, In p L' -> ceq (fst p) = false -> 0 <= snd p).
  { intros p Hp Eq. destruct (in_mcons s _ p Hp) as [k [Hk [E1 E2]]]. rewrite E2. unfold clipv, clip. rewrite <- E1, Eq. qcase; qb2p; lra. }
  assert (LF : lfeasible (svars s) L' y).
  { intros p Hp. destruct (in_mcons s _ p Hp) as [k [Hk [E1 _]]]. rewrite E1. apply Fy. unfold con_of. apply nth_In. exact Hk. }
  pose proof (kkt_gap_bound_l (svars s) L' (xs_of s) y WV W SG LF) as GB. unfold gap_bound in GB.
  (* complementary slackness: the second term vanishes *)
  assert (Z2 : csum L' (fun p => snd p * slackv (svars s) (xs_of s) (fst p)) == 0).
  { rewrite <- (csum_zero L'). apply csum_ext. intros p Hp. destruct (in_mcons s _ p Hp) as [k [Hk [E1 E2]]]. rewrite E1, E2.
    assert (Hin : In (con_of s k) (scons s)) by (unfold con_of; apply nth_In; exact Hk).
    destruct (bk_cons s BK _ Hin) as [Hl Hr].
    unfold clipv, lam_at. assert (Ea : act_of s' k = act_of s k) by (destruct L as [lm [t ->]]; reflexivity). rewrite Ea.
    destruct (act_of s k) eqn:A.
    - unfold xs_of. rewrite <- (slack_val_declarative s k Hl Hr).
      rewrite (active_tight s k (i_act s I) A (NZ _) (NZ _)). ring.
    - unfold clip. destruct (ceq (con_of s k)); [ring|]. qcase; ring. }
  (* stationarity: the first term only sees the clipped amounts *)
  assert (Z1 : sumn (length (svars s)) (fun i => sq (stat_res (svars s) L' (xs_of s) i) / (4 * wt (vget (svars s) i))) == gap_of s s').
  { unfold gap_of. apply sumn_ext. intros i Hi.
    assert (E : stat_res (svars s) L' (xs_of s) i ==
                scl (var_of s i) * (csum (outs_of s i) (negpart s s') - csum (ins_of s i) (negpart s s'))).
    { pose proof (ST i Hi) as S0. rewrite (stat_res_resid s s' i L Hi) in S0. unfold resid, OUT, IN in S0.
      unfold stat_res. unfold L'. rewrite outs_mcons, ins_mcons.
      assert (Eo : csum (outs_of s i) (clipv s s') == csum (outs_of s i) (lam_at s') + csum (outs_of s i) (negpart s s')).
      { rewrite <- csum_plus. apply csum_ext. intros c _. unfold negpart. ring. }
      assert (Ei : csum (ins_of s i) (clipv s s') == csum (ins_of s i) (lam_at s') + csum (ins_of s i) (negpart s s')).
      { rewrite <- csum_plus. apply csum_ext. intros c _. unfold negpart. ring. }
      rewrite Eo, Ei. unfold xs_of. rewrite final_positions_nth by exact Hi.
      unfold dfdv in S0. rewrite Qred_correct in S0. unfold var_of in *. lra. }
    unfold sq. rewrite E. unfold var_of. reflexivity. }
  rewrite Z1, Z2 in GB. lra.
Qed.

Corollary stationary_near_optimal s s' tau :
  inv s -> all_pos s -> lm_only s s' ->
  (forall i, (i < length (svars s))%nat -> stat_res (svars s) (lcons_of s') (xs_of s) i == 0) ->
  0 <= tau ->
  (forall c, (c < length (scons s))%nat -> act_of s c = true -> ceq (con_of s c) = false -> - tau <= lm_of s' c) ->
  forall y, feasible (svars s) (scons s) y -> obj (svars s) (xs_of s) - obj (svars s) y <= tau_bound s tau.
Proof.
  intros I AO L ST T NN y Fy. pose proof (stationary_gap_bound s s' I AO L ST y Fy) as GB.
  assert (Z : forall c, negpart s s' c <= tau).
  { intros c. unfold negpart, clipv, clip, lam_at.
    assert (Ea : act_of s' c = act_of s c) by (destruct L as [lm [t ->]]; reflexivity). rewrite Ea.
    destruct (act_of s c) eqn:A.
    - destruct (ceq (con_of s c)) eqn:Q; [lra|].
      assert (Hc : (c < length (scons s))%nat) by (rewrite <- (bk_cact s (i_book s I)); apply act_of_lt; exact A).
      pose proof (NN c Hc A Q). qcase; qb2p; lra.
    - destruct (ceq (con_of s c)); [lra|]. qcase; lra. }
  pose proof (gap_of_tau s s' tau (proj1 AO) T Z). lra.
Qed.
(* ------------------------------------------------------------------ findMinLM on ANY block index writes only multipliers of that block *)
Lemma compute_dfdv_lmf s this : act_inv s -> forall fuel track v u mn x a,
  lmf s this x -> compute_dfdv fuel track this v u mn x = Ok a -> lmf s this (snd a).
Proof.
  intros AI. induction fuel as [|f IH]; intros track v u mn x a F H; [discriminate|].
  rewrite compute_dfdv_unfold in H. apply bind_ok in H. destruct H as [[[d1 mn1] x1] [H E]]. inversion E. subst a. clear E. cbn [snd].
  pose proof (proj1 F) as Lx.
  set (I := fun a : Q * option nat * st => lmf s this (snd a)).
  assert (TAIL : forall (x2 : st) c lmv mn2 (d' : Q) a',
            lmf s this x2 -> (c < length (scons s))%nat -> act_of s c = true ->
            (blk_of s (cl (con_of s c)) = this \/ blk_of s (cr (con_of s c)) = this) ->
            (if track then let '(mn3, s4) := upd_min (set_lm x2 c lmv) c mn2 in Ok (d', mn3, s4) else Ok (d', mn2, set_lm x2 c lmv)) = Ok a' ->
            lmf s this (snd a')).
  { intros x2 c lmv mn2 d' a' [L2 [Len2 Fr2]] Hc Ac Hb G.
    destruct (cd_tail s track x2 c lmv mn2 d' a' L2 G) as [mn3 [x4 [-> [L4 E4]]]]. cbn [snd].
    split; [exact L4|]. split; [rewrite E4, len_set_lm; exact Len2|].
    intros e Ne. assert (Nec : e <> c).
    { intros ->. apply Ne. split; [exact Hc|]. split; [exact Ac|]. destruct (AI c Ac) as [Sb _]. destruct Hb as [X|X]; congruence. }
    unfold lm_of at 1. rewrite E4. fold (lm_of (set_lm x2 c lmv) e). rewrite lm_of_set_lm_neq by exact Nec. apply Fr2. exact Ne. }
  destruct (fold_bind_inv (cd_gin f track this v u) I (ins_of x v)) with
    (acc := fold_left (fun acc c => bind acc (fun a => cd_gout f track this v u a c)) (outs_of x v) (Ok (dfdv x v, mn, x)))
    (r := (d1, mn1, x1)) as [amid [Emid Rin]].
  { intros [[d m1] y] c a' Hc Iy G. unfold I in *. cbn [snd] in *. pose proof (proj1 Iy) as Ly. unfold cd_gin in G.
    rewrite (lm_only_follow_left _ _ this c u Ly) in G.
    destruct (can_follow_left s this c u) eqn:CF; [|inversion G; subst; exact Iy].
    apply can_follow_left_true in CF. destruct CF as [Bc [Ac _]].
    rewrite (lm_only_ins _ _ v Lx) in Hc. apply ins_of_In in Hc. destruct Hc as [Hc _].
    apply bind_ok in G. destruct G as [[[lmv0 mn2] x2] [G1 G2]]. cbv zeta in G2.
    pose proof (IH _ _ _ _ _ _ Iy G1) as F2. cbn [snd] in F2.
    exact (TAIL _ _ _ _ _ _ F2 Hc Ac (or_introl Bc) G2). }
  { exact H. }
  destruct (fold_bind_inv (cd_gout f track this v u) I (outs_of x v)) with (acc := Ok (dfdv x v, mn, x)) (r := amid) as [a0 [E0 Rout]].
  { intros [[d m1] y] c a' Hc Iy G. unfold I in *. cbn [snd] in *. pose proof (proj1 Iy) as Ly. unfold cd_gout in G.
    rewrite (lm_only_follow_right _ _ this c u Ly) in G.
    destruct (can_follow_right s this c u) eqn:CF; [|inversion G; subst; exact Iy].
    apply can_follow_right_true in CF. destruct CF as [Bc [Ac _]].
    rewrite (lm_only_outs _ _ v Lx) in Hc. apply outs_of_In in Hc. destruct Hc as [Hc _].
    apply bind_ok in G. destruct G as [[[lmv0 mn2] x2] [G1 G2]]. cbv zeta in G2.
    pose proof (IH _ _ _ _ _ _ Iy G1) as F2. cbn [snd] in F2.
    exact (TAIL _ _ _ _ _ _ F2 Hc Ac (or_intror Bc) G2). }
  { exact Emid. }
  inversion E0. subst a0. exact (Rin (Rout F)).
Qed.

Lemma find_min_lm_lmf s b mn s' : act_inv s -> find_min_lm s b = Ok (mn, s') -> lmf s b s'.
Proof.
  intros AI H. unfold find_min_lm in H.
  apply bind_ok in H. destruct H as [s1 [H1 H]].
  apply bind_ok in H. destruct H as [[[d mn2] s2] [H2 H]]. inversion H. subst mn2 s2. clear H.
  assert (F0 : lmf s b s) by (split; [apply lm_only_refl | split; [reflexivity | intros; reflexivity]]).
  pose proof (reset_active_lm_frame s b AI _ _ _ _ _ F0 H1) as F1.
  exact (compute_dfdv_lmf s b AI _ _ _ _ _ _ _ F1 H2).
Qed.

(* ------------------------------------------------------------------ one block of splitBlocks that is not split *)
Lemma sb_body_quiet x cnt b x' cnt' :
  sb_body (x, cnt) b = Ok (x', cnt') ->
  cnt' = S cnt \/
  (cnt' = cnt /\ exists mn y, find_min_lm x b = Ok (mn, y) /\ lm_only y x' /\ clm x' = clm y /\
                              forall v, mn = Some v -> LAGRANGIAN_TOLERANCE <= lm_of y v).
Proof.
  intros H. unfold sb_body in H. apply bind_ok in H. destruct H as [[mn y] [FM H]].
  destruct mn as [v|].
  2:{ inversion H. subst x' cnt'. right. split; [reflexivity|]. exists None, y. split; [exact FM|]. split; [apply lm_only_refl|].
      split; [reflexivity | intros v E; discriminate]. }
  set (s3 := note y (lm_of y v) LAGRANGIAN_TOLERANCE) in *.
  destruct (Qltb (lm_of s3 v) LAGRANGIAN_TOLERANCE) eqn:LT.
  - apply bind_ok in H. destruct H as [[[s4 l] r] [_ H]]. inversion H. left. reflexivity.
  - inversion H. subst x' cnt'. right. split; [reflexivity|]. exists (Some v), y. split; [exact FM|].
    split; [apply lm_only_note|]. split; [apply clm_note|]. intros v' E. inversion E. subst v'.
    assert (E3 : lm_of s3 v = lm_of y v) by (unfold lm_of, s3; rewrite clm_note; reflexivity).
    rewrite E3 in LT. qb2p. exact LT.
Qed.

Lemma var_blocks_In s b : In b (var_blocks s) <-> exists v, (v < length (svars s))%nat /\ blk_of s v = b.
Proof.
  unfold var_blocks. rewrite nodup_In, in_map_iff. split.
  - intros [v [E Hv]]. apply in_seq in Hv. exists v. split; [lia | exact E].
  - intros [v [Hv E]]. exists v. split; [exact E | apply in_seq; lia].
Qed.

Lemma var_block_ready_p s v : book s -> all_pos s -> all_fresh s -> (v < length (svars s))%nat -> block_ready s (blk_of s v).
Proof.
  intros BK [_ AO] AF Hv. pose proof (bk_blk s BK v Hv) as Hb. destruct (AO _ Hb) as [NE _].
  assert (Hin : In (front s (blk_of s v)) (bvars (block_of s (blk_of s v)))).
  { unfold front. destruct (bvars (block_of s (blk_of s v))) as [|h t]; [congruence | left; reflexivity]. }
  apply (bk_mem s BK v _ Hv) in Hin. destruct Hin as [A B]. split; [exact A|]. split; [exact B | exact (AF v Hv)].
Qed.

Lemma sb_quiet_step s x b x' :
  inv s -> all_pos s -> all_fresh s -> relm_inv s x -> sb_body (x, O) b = Ok (x', O) ->
  relm_inv s x' /\ (forall e, ~ Eof s b e -> lm_of x' e = lm_of x e) /\
  (In b (var_blocks s) ->
   stationary_block s x' b /\
   forall e, Eof s b e -> ceq (con_of s e) = false -> LAGRANGIAN_TOLERANCE <= lm_of x' e).
Proof.
  intros I AO AF [L Len] H. pose proof (i_book s I) as BK. pose proof (i_act s I) as AI. pose proof (i_forest s I) as FO.
  assert (NZ : forall i, ~ scl (var_of s i) == 0).
  { intros i. destruct (vget_pos (svars s) i (proj1 AO)) as [_ P]. unfold var_of. lra. }
  destruct (sb_body_quiet _ _ _ _ _ H) as [X|[_ [mn [y [FM [Ly [Cy TOL]]]]]]]; [discriminate|].
  assert (Ex : svars x = svars s /\ scons x = scons s /\ blk_of x = blk_of s /\ front x b = front s b /\ var_of x = var_of s /\
               Eof x b = Eof s b /\ con_of x = con_of s).
  { destruct L as [lm [t ->]]. repeat split; reflexivity. }
  destruct Ex as [X1 [X2 [X3 [X4 [X5 [X6 X7]]]]]].
  pose proof (book_lm_only _ _ L BK) as BKx. pose proof (act_inv_lm_only _ _ L AI) as AIx. pose proof (forest_lm_only _ _ L FO) as FOx.
  destruct (find_min_lm_lmf x b mn y AIx FM) as [Lxy [Lenxy Frxy]]. rewrite X6 in Frxy.
  assert (Ely : forall e, lm_of x' e = lm_of y e) by (intros e; unfold lm_of; rewrite Cy; reflexivity).
  assert (Lsy : lm_only s y) by (apply (lm_only_trans _ x); assumption).
  assert (Lsx' : lm_only s x') by (apply (lm_only_trans _ y); assumption).
  split; [split; [exact Lsx' | rewrite Cy, Lenxy; exact Len]|].
  split; [intros e Ne; rewrite Ely; apply Frxy; exact Ne|].
  intros VB. apply var_blocks_In in VB. destruct VB as [v0 [Hv0 Ev0]].
  pose proof (var_block_ready_p s v0 BK AO AF Hv0) as RD. rewrite Ev0 in RD.
  assert (RB : relm_block x b = Ok y) by (unfold relm_block; rewrite FM; reflexivity).
  destruct (relm_block_step s x b y BK AI FO NZ RD (conj L Len) RB) as [_ [ST _]].
  split.
  - intros i Hi Bi. rewrite (resid_ext s y x' i Lsy Lsx'); [exact (ST i Hi Bi) | intros c _; apply Ely].
  - destruct RD as [R1 [R2 _]].
    assert (MO : minOK x (Eof x b) mn y).
    { apply (find_min_lm_min x b mn y BKx AIx FOx); [rewrite X5; exact NZ | rewrite X4, X1; exact R1 | rewrite X3, X4; exact R2 | rewrite X2; exact Len | exact FM]. }
    destruct MO as [A _].
    intros e Ee Ce. destruct (A e) as [m [Em Le]]; [rewrite X6; exact Ee | rewrite X7; exact Ce|].
    rewrite Ely. pose proof (TOL m Em). lra.
Qed.

(* ------------------------------------------------------------------ splitBlocks that splits nothing (splitCnt = 0) *)
Lemma sb_body_cnt_zero x cnt b x' : sb_body (x, cnt) b = Ok (x', O) -> cnt = O.
Proof. intros H. destruct (sb_body_quiet _ _ _ _ _ H) as [X|[X _]]; [discriminate | congruence]. Qed.

Definition blk_kkt (s x : st) (b : nat) : Prop :=
  stationary_block s x b /\ forall e, Eof s b e -> ceq (con_of s e) = false -> LAGRANGIAN_TOLERANCE <= lm_of x e.

Lemma sb_fold_quiet s l q :
  inv s -> all_pos s -> all_fresh s -> length (clm s) = length (scons s) ->
  fold_left (fun acc b => bind acc (fun p => sb_body p b)) l (Ok (s, O)) = Ok q -> snd q = O ->
  relm_inv s (fst q) /\ forall b, In b l -> In b (var_blocks s) -> blk_kkt s (fst q) b.
Proof.
  intros I AO AF Hlen H Hq. pose proof (i_act s I) as AI.
  destruct (fold_bind_inv2 sb_body (fun p => snd p = O -> relm_inv s (fst p))
              (fun b p => snd p = O -> In b (var_blocks s) -> blk_kkt s (fst p) b) l) with (acc := Ok (s, O)) (r := q) as [p0 [E0 R]].
  - intros [x cnt] b [x' cnt'] Hb Ip G. cbn [fst snd] in *. split.
    + intros ->. pose proof (sb_body_cnt_zero _ _ _ _ G) as ->.
      exact (proj1 (sb_quiet_step s x b x' I AO AF (Ip eq_refl) G)).
    + intros -> VB. pose proof (sb_body_cnt_zero _ _ _ _ G) as ->.
      exact (proj2 (proj2 (sb_quiet_step s x b x' I AO AF (Ip eq_refl) G)) VB).
  - intros a b [x cnt] [x' cnt'] Hb Ip Qa G. cbn [fst snd] in *. intros -> VA.
    pose proof (sb_body_cnt_zero _ _ _ _ G) as ->.
    destruct (sb_quiet_step s x b x' I AO AF (Ip eq_refl) G) as [Ix' [Fr New]].
    destruct (Nat.eq_dec a b) as [->|N]; [exact (New VA)|].
    destruct (Qa eq_refl VA) as [ST BD]. split.
    + intros i Hi Bi. rewrite (resid_ext s x x' i (proj1 (Ip eq_refl)) (proj1 Ix')); [exact (ST i Hi Bi)|].
      intros c Hc. apply Fr. intros [Hc' [Ac Bc]]. apply N. rewrite <- Bi, <- Bc.
      destruct Hc as [Hc|Hc]; [apply outs_of_In in Hc | apply ins_of_In in Hc]; destruct Hc as [_ Hc]; rewrite <- Hc; [reflexivity|].
      symmetry. exact (proj1 (AI c Ac)).
    + intros e Ee Ce. rewrite Fr; [exact (BD e Ee Ce)|]. intros [_ [_ Bc]]. destruct Ee as [_ [_ Ba]]. congruence.
  - exact H.
  - inversion E0. subst p0. destruct R as [Ir Qr]; [intros _; split; [apply lm_only_refl | exact Hlen]|].
    split; [exact (Ir Hq)|]. intros b Hb VB. exact (Qr b Hb Hq VB).
Qed.

(* what the exit test of splitBlocks guarantees: x carries multipliers for the positions of s *)
Definition exit_kkt (s x : st) : Prop :=
  (forall i, (i < length (svars s))%nat -> stat_res (svars s) (lcons_of x) (xs_of s) i == 0) /\
  (forall c, (c < length (scons s))%nat -> act_of s c = true -> ceq (con_of s c) = false -> LAGRANGIAN_TOLERANCE <= lm_of x c) /\
  (forall y, feasible (svars s) (scons s) y -> obj (svars s) (xs_of s) - obj (svars s) y <= tau_bound s (1 # 10000)).

Lemma exit_kkt_cleanup s x : lm_only s x -> exit_kkt s x -> exit_kkt (cleanup x) (cleanup x).
Proof. intros [lm [t ->]] H. exact H. Qed.
Lemma exit_kkt_lm_only x x' : lm_only x x' -> clm x' = clm x -> exit_kkt x x -> exit_kkt x' x'.
Proof. intros [lm [t ->]] E H. cbn [clm] in E. subst lm. exact H. Qed.

(* C02_split_blocks_exit_kkt from the solver's own test: if splitBlocks splits nothing, then in the state it leaves
   the stored multipliers (Constraint::lm) satisfy the stationarity equation exactly at every variable, every multiplier of
   an active inequality is >= -1e-4, and hence the objective exceeds that of every feasible placement by at most
   sum_i (scl_i * 1e-4 * deg_i)^2 / (4 w_i) *)
Theorem split_blocks_quiet_kkt s s' :
  inv s -> all_pos s -> live s -> LL s -> split_blocks s = Ok (s', O) -> exit_kkt s' s'.
Proof.
  intros I AO LV L0 H. rewrite split_blocks_unfold in H.
  apply bind_ok in H. destruct H as [q [H E]].
  assert (Es' : s' = cleanup (fst q)) by (inversion E; reflexivity).
  assert (Hq : snd q = O) by (inversion E; reflexivity). subst s'. clear E.
  pose proof (inv_move_blocks s I) as I0. pose proof (move_blocks_all_pos s AO) as AO0.
  pose proof (move_blocks_live s LV) as LV0. pose proof (move_blocks_HS s (i_book s I) LV) as HS0.
  pose proof (HS_all_fresh _ (i_book _ I0) AO0 HS0) as AF0.
  assert (LL0 : length (clm (move_blocks s)) = length (scons (move_blocks s))).
  { pose proof (fold_uwp_facts (blist s) s) as MF. fold (move_blocks s) in MF. rewrite (mb_clm _ _ MF), (mb_scons _ _ MF). exact L0. }
  set (s0 := move_blocks s) in *. clearbody s0.
  destruct (sb_fold_quiet s0 (blist s0) q I0 AO0 AF0 LL0 H Hq) as [[L Len] K].
  set (x := fst q) in *. clearbody x. apply (exit_kkt_cleanup s0 x L).
  pose proof (i_book s0 I0) as BK.
  assert (KV : forall v, (v < length (svars s0))%nat -> blk_kkt s0 x (blk_of s0 v)).
  { intros v Hv. apply K; [exact (proj1 (LV0 v Hv))|]. apply var_blocks_In. exists v. split; [exact Hv | reflexivity]. }
  assert (A : forall i, (i < length (svars s0))%nat -> stat_res (svars s0) (lcons_of x) (xs_of s0) i == 0).
  { intros i Hi. rewrite (stat_res_resid s0 x i L Hi). exact (proj1 (KV i Hi) i Hi eq_refl). }
  assert (B : forall c, (c < length (scons s0))%nat -> act_of s0 c = true -> ceq (con_of s0 c) = false -> LAGRANGIAN_TOLERANCE <= lm_of x c).
  { intros c Hc Ac Ce. destruct (con_ends s0 c BK Hc) as [Hl _].
    apply (proj2 (KV _ Hl) c); [|exact Ce]. split; [exact Hc|]. split; [exact Ac | reflexivity]. }
  split; [exact A|]. split; [exact B|].
  apply (stationary_near_optimal s0 x (1 # 10000) I0 AO0 L A); [discriminate|].
  intros c Hc Ac Ce. exact (B c Hc Ac Ce).
Qed.

(* ================================================================== what solve()'s exit guarantees *)

(* ------------------------------------------------------------------ moveBlocks on up-to-date statistics moves nothing *)
Lemma uwp_shape2 s b :
  exists ab ad a2,
    update_weighted_position s b =
      set_block s b (mkblk (bvars (block_of s b)) (Qred ((ad - ab) / a2)) (bscale (block_of s b)) ab ad a2 (dead (block_of s b))) /\
    ab == csum (bvars (block_of s b)) (tAB s (bscale (block_of s b))) /\
    ad == csum (bvars (block_of s b)) (tAD s (bscale (block_of s b))) /\
    a2 == a2sum (svars s) (bscale (block_of s b)) (bvars (block_of s b)).
Proof.
  unfold update_weighted_position.
  destruct (stats_add_fold_abd s (bvars (block_of s b)) (bscale (block_of s b)) 0 0 0) as [ab [ad [a2 [E1 [E2 [E3 _]]]]]].
  destruct (stats_add_fold s (bvars (block_of s b)) (bscale (block_of s b)) 0 0 0) as [ab' [ad' [a2' [E1' E2']]]].
  rewrite E1 in E1'. inversion E1'. subst ab' ad' a2'. rewrite E1. exists ab, ad, a2. split; [reflexivity|].
  split; [rewrite E2; ring|]. split; [rewrite E3; ring | rewrite E2'; ring].
Qed.

(* the statistics record of block b in x agrees with the one in s up to == *)
Definition beq (B B' : blkT) : Prop :=
  bvars B' = bvars B /\ bscale B' = bscale B /\ AB B' == AB B /\ AD B' == AD B /\ A2 B' == A2 B /\ posn B' == posn B.

Definition mb_inv (s x : st) : Prop :=
  svars x = svars s /\ voff x = voff s /\ vblk x = vblk s /\ length (blocks x) = length (blocks s) /\
  forall v, (v < length (svars s))%nat -> beq (block_of s (blk_of s v)) (block_of x (blk_of s v)).

Lemma uwp_mb_inv s x b : book s -> all_pos s -> all_fresh s -> mb_inv s x -> mb_inv s (update_weighted_position x b).
Proof.
  intros BK AO AF [E1 [E2 [E3 [E4 K]]]].
  destruct (uwp_shape2 x b) as [ab [ad [a2 [E [Hab [Had Ha2]]]]]]. rewrite E.
  split; [exact E1|]. split; [exact E2|]. split; [exact E3|].
  split; [unfold set_block, set_blocks; cbn [blocks]; rewrite upd_nth_length; exact E4|].
  intros v Hv. destruct (Nat.eq_dec (blk_of s v) b) as [Eb|Nb]; [|rewrite set_block_other by exact Nb; exact (K v Hv)].
  assert (Hb : (b < length (blocks x))%nat) by (rewrite E4, <- Eb; exact (bk_blk s BK v Hv)).
  rewrite Eb. rewrite set_block_this by exact Hb.
  destruct (K v Hv) as [B1 [B2 [B3 [B4 [B5 B6]]]]]. rewrite Eb in B1, B2, B3, B4, B5, B6.
  destruct (AF v Hv) as [PS [PA [FA2 [FAB [FAD FP]]]]]. rewrite Eb in PS, PA, FA2, FAB, FAD, FP.
  assert (Tab : forall w, tAB x (bscale (block_of x b)) w = tAB s (bscale (block_of s b)) w).
  { intros w. unfold tAB, var_of, off_of. rewrite E1, E2, B2. reflexivity. }
  assert (Tad : forall w, tAD x (bscale (block_of x b)) w = tAD s (bscale (block_of s b)) w).
  { intros w. unfold tAD, var_of. rewrite E1, B2. reflexivity. }
  assert (Xab : ab == AB (block_of s b)).
  { rewrite Hab, FAB, B1. apply csum_ext. intros w _. rewrite Tab. reflexivity. }
  assert (Xad : ad == AD (block_of s b)).
  { rewrite Had, FAD, B1. apply csum_ext. intros w _. rewrite Tad. reflexivity. }
  assert (Xa2 : a2 == A2 (block_of s b)).
  { rewrite Ha2, FA2, E1, B1, B2. apply a2sum_csum. }
  unfold beq. cbn [bvars bscale AB AD A2 posn].
  split; [exact B1|]. split; [exact B2|]. split; [exact Xab|]. split; [exact Xad|]. split; [exact Xa2|].
  rewrite Qred_correct, Xab, Xad, Xa2, FP. reflexivity.
Qed.

Lemma move_blocks_mb_inv s : book s -> all_pos s -> all_fresh s -> mb_inv s (move_blocks s).
Proof.
  intros BK AO AF. unfold move_blocks. generalize (blist s) as l. intros l.
  assert (M0 : mb_inv s s).
  { repeat split; try reflexivity. }
  revert M0. generalize s at 2 4 as x. induction l as [|b l IH]; intros x M; cbn [fold_left]; [exact M|].
  apply IH. apply uwp_mb_inv; assumption.
Qed.

Lemma mb_inv_position s x i : mb_inv s x -> (i < length (svars s))%nat -> position x i == position s i.
Proof.
  intros [E1 [E2 [E3 [_ K]]]] Hi. destruct (K i Hi) as [_ [B2 [_ [_ [_ B6]]]]].
  unfold position, blk_of, off_of, var_of. rewrite E1, E2, E3. fold (blk_of s i).
  rewrite !Qred_correct, B2, B6. reflexivity.
Qed.

Lemma mb_inv_slack s x c :
  mb_inv s x -> scons x = scons s -> book s -> (c < length (scons s))%nat -> slack_val x c == slack_val s c.
Proof.
  intros M Es BK Hc. destruct (con_ends s c BK Hc) as [Hl Hr].
  pose proof M as [E1 _].
  unfold slack_val, con_of, var_of. rewrite Es, E1. fold (con_of s c).
  rewrite !Qred_correct, (mb_inv_position s x _ M Hl), (mb_inv_position s x _ M Hr). reflexivity.
Qed.

(* ------------------------------------------------------------------ splitBlocks with splitCnt = 0 only touches lm / tie and the list *)
Lemma split_blocks_quiet_lm s s' :
  split_blocks s = Ok (s', O) -> exists x, lm_only (move_blocks s) x /\ s' = cleanup x.
Proof.
  intros H. rewrite split_blocks_unfold in H. apply bind_ok in H. destruct H as [q [H E]].
  exists (fst q). split; [|inversion E; reflexivity]. assert (Hq : snd q = O) by (inversion E; reflexivity).
  destruct (fold_bind_inv sb_body (fun p => snd p = O -> lm_only (move_blocks s) (fst p)) (blist (move_blocks s)))
    with (acc := Ok (move_blocks s, O)) (r := q) as [p0 [E0 R]].
  - intros [x cnt] b [x' cnt'] _ Ip G. cbn [fst snd] in *. intros ->. pose proof (sb_body_cnt_zero _ _ _ _ G) as ->.
    destruct (sb_body_quiet _ _ _ _ _ G) as [X|[_ [mn [y [FM [Ly _]]]]]]; [discriminate|].
    apply (lm_only_trans _ x); [exact (Ip eq_refl)|]. apply (lm_only_trans _ y); [exact (proj1 (find_min_lm_spec _ _ _ _ FM)) | exact Ly].
  - exact H.
  - inversion E0. subst p0. apply R; [intros _; apply lm_only_refl | exact Hq].
Qed.

(* the exit condition of the satisfy loop survives moveBlocks + a quiet splitBlocks *)
Lemma exit_ok_quiet s s' :
  inv s -> all_pos s -> all_fresh s -> exit_ok s -> split_blocks s = Ok (s', O) -> exit_ok s'.
Proof.
  intros I AO AF [IS NE] H. destruct (split_blocks_quiet_lm s s' H) as [x [L ->]].
  pose proof (i_book s I) as BK. pose proof (move_blocks_mb_inv s BK AO AF) as M.
  pose proof (fold_uwp_facts (blist s) s) as MF. fold (move_blocks s) in MF.
  assert (Fi : inactive (move_blocks s) = inactive s /\ cact (move_blocks s) = cact s /\ cuns (move_blocks s) = cuns s).
  { unfold move_blocks. generalize (blist s) as l. intros l. generalize s as z. induction l as [|b l IH]; intros z; cbn [fold_left]; [repeat split; reflexivity|].
    destruct (IH (update_weighted_position z b)) as [A [B C]]. destruct (uwp_fields z b) as [_ [U2 [U3 [U4 _]]]]. rewrite A, B, C. repeat split; assumption. }
  destruct Fi as [Fi1 [Fi2 Fi3]].
  apply exit_ok_cleanup. destruct L as [lm [t ->]]. split.
  - intros c Hc Ha Hu. cbn [scons] in Hc. rewrite (mb_scons _ _ MF) in Hc.
    change (act_of (move_blocks s) c = false) in Ha. change (uns_of (move_blocks s) c = false) in Hu.
    unfold act_of in Ha. rewrite Fi2 in Ha. unfold uns_of in Hu. rewrite Fi3 in Hu.
    change (ZERO_UPPERBOUND <= slack_val (move_blocks s) c).
    rewrite (mb_inv_slack s (move_blocks s) c M (mb_scons _ _ MF) BK Hc). exact (IS c Hc Ha Hu).
  - intros c Hc. cbn [inactive] in Hc. rewrite Fi1 in Hc. change (ceq (con_of (move_blocks s) c) = false).
    unfold con_of. rewrite (mb_scons _ _ MF). exact (NE c Hc).
Qed.

(* ------------------------------------------------------------------ the satisfy loop on a state that already meets its exit condition *)
Lemma satisfy_step_idle s b s' :
  inv s -> exit_ok s -> satisfy_step s = Ok (b, s') -> b = false /\ lm_only s s' /\ clm s' = clm s.
Proof.
  intros I [IS NE] H. unfold satisfy_step in H.
  pose proof (most_violated_clm s) as C1.
  destruct (most_violated s) as [mv s1] eqn:MV. cbn [snd] in C1.
  pose proof (most_violated_spec s mv s1 (i_trich s I) MV) as SP.
  destruct mv as [v|].
  2:{ destruct SP as [_ L]. inversion H. subst b s'. split; [reflexivity|]. split; [exact L | exact C1]. }
  destruct SP as [Hin [[RUN _] | [RUN [L1 _]]]].
  - exfalso. destruct (t_in s (i_trich s I) v Hin) as [Hv [Av Uv]].
    unfold runs in RUN. rewrite (NE v Hin), Av in RUN. cbn [orb negb] in RUN. rewrite andb_true_r in RUN.
    unfold slack in RUN. rewrite Uv in RUN. cbn [lt_inf] in RUN. pose proof (IS v Hv Av Uv). qb2p. lra.
  - set (s3 := note_opt s1 (slack s1 v) (Some ZERO_UPPERBOUND)) in *.
    assert (L13 : lm_only s s3) by (apply (lm_only_trans _ s1); [exact L1 | apply lm_only_note_opt]).
    assert (Erun : ceq (con_of s1 v) || (lt_inf (slack s3 v) (Some ZERO_UPPERBOUND) && negb (act_of s3 v)) = false).
    { rewrite <- RUN. unfold runs. destruct L13 as [lm3 [t3 E3]]. rewrite E3. destruct L1 as [lm [t ->]]. reflexivity. }
    rewrite Erun in H. inversion H. subst b s'. split; [reflexivity|]. split; [exact L13|].
    unfold s3. rewrite clm_note_opt. exact C1.
Qed.

Lemma satisfy_loop_idle fuel s s' :
  inv s -> exit_ok s -> satisfy_loop fuel s = Ok s' -> lm_only s s' /\ clm s' = clm s.
Proof.
  intros I X H. destruct fuel as [|f]; [discriminate|].
  cbn [satisfy_loop] in H. apply bind_ok in H. destruct H as [[b s1] [H1 H]]. cbn [fst snd] in H.
  destruct (satisfy_step_idle s b s1 I X H1) as [-> [L C]]. inversion H. subst s'. split; assumption.
Qed.

(* ------------------------------------------------------------------ a satisfy() that splits nothing, started from a returned state *)
Theorem inc_satisfy_cnt_quiet_kkt fuel s s' :
  inv s -> all_pos s -> FI s -> exit_ok s -> inc_satisfy_cnt fuel s = Ok (s', O) -> exit_kkt s' s'.
Proof.
  intros I AO F X H. pose proof (HS_all_fresh s (i_book s I) AO (fi_hs s F)) as AF.
  unfold inc_satisfy_cnt in H.
  apply bind_ok in H. destruct H as [[s1 cnt] [H1 H]]. cbn [fst snd] in H.
  apply bind_ok in H. destruct H as [s2 [H2 H]].
  apply bind_ok in H. destruct H as [s3 [H3 E]].
  assert (Ec : cnt = O) by (inversion E; reflexivity). assert (Es : s' = s3) by (inversion E; reflexivity). subst cnt s'. clear E.
  apply final_scan_ok in H3. destruct H3 as [-> _].
  pose proof (split_blocks_quiet_kkt s s1 I AO (fi_live s F) (fi_ll s F) H1) as K1.
  pose proof (split_blocks_inv s (s1, O) I H1) as I1. cbn [fst] in I1.
  pose proof (exit_ok_quiet s s1 I AO AF X H1) as X1.
  destruct (satisfy_loop_idle fuel s1 s2 I1 X1 H2) as [L12 C12].
  apply (exit_kkt_cleanup s2 s2 (lm_only_refl s2)). exact (exit_kkt_lm_only s1 s2 L12 C12 K1).
Qed.

(* ------------------------------------------------------------------ solve(): the loop instrumented with the number of in-loop satisfy() calls
   and the way it was left (true: the test "cost change <= 1e-4 and splitCnt = 0"; false: maxtries exhausted) *)
Fixpoint solve_loop_k (fuel sfuel tries : nat) (lastcost : option Q) (c : Q) (cnt : nat) (s : st) (k : nat) : res (st * nat * bool) :=
  match fuel with
  | O => OutOfFuel
  | S f =>
      let changed := match lastcost with
                     | None => true
                     | Some lc => Qltb COST_EPS (Qabs' (lc - c))
                     end in
      let s0 := match lastcost with Some lc => note s (Qabs' (lc - c)) COST_EPS | None => s end in
      if changed || negb (Nat.eqb cnt O) then
        match tries with
        | O => Ok (s0, k, false)
        | S t => bind (inc_satisfy_cnt sfuel s0) (fun p => solve_loop_k f sfuel t (Some c) (cost (fst p)) (snd p) (fst p) (S k))
        end
      else Ok (s0, k, true)
  end.
Definition inc_solve_k (fuel : nat) (s : st) : res (st * nat * bool) :=
  bind (inc_satisfy_cnt fuel s) (fun p => solve_loop_k fuel fuel MAXTRIES None (cost (fst p)) (snd p) (fst p) O).

Lemma solve_loop_k_agrees sf : forall fuel tries lc c cnt s k s',
  solve_loop true fuel sf tries lc c cnt s = Ok s' ->
  exists k' bt, solve_loop_k fuel sf tries lc c cnt s k = Ok (s', k', bt).
Proof.
  induction fuel as [|f IH]; intros tries lc c cnt s k s' H; [discriminate|].
  cbn [solve_loop solve_loop_k] in *.
  destruct (_ || _).
  - destruct tries as [|t]; [inversion H; subst; eexists _, _; reflexivity|].
    apply bind_ok in H. destruct H as [p [G1 G2]]. rewrite G1. cbn [bind]. exact (IH _ _ _ _ _ (S k) _ G2).
  - inversion H. subst. eexists _, _. reflexivity.
Qed.

Lemma solve_loop_k_count sf : forall fuel tries lc c cnt s k s' k' bt,
  solve_loop_k fuel sf tries lc c cnt s k = Ok (s', k', bt) -> bt = false -> (k' = k + tries)%nat.
Proof.
  induction fuel as [|f IH]; intros tries lc c cnt s k s' k' bt H Hb; [discriminate|].
  cbn [solve_loop_k] in H. destruct (_ || _).
  - destruct tries as [|t]; [inversion H; subst; lia|].
    apply bind_ok in H. destruct H as [p [G1 G2]]. rewrite (IH _ _ _ _ _ _ _ _ _ G2 Hb). lia.
  - inversion H. subst. discriminate.
Qed.

Definition loop_pre (lc : option Q) (cnt : nat) (s : st) : Prop :=
  inv s /\ all_pos s /\ FI s /\ exit_ok s /\ (lc <> None -> cnt = O -> exit_kkt s s).

Lemma solve_loop_k_kkt sf : forall fuel tries lc c cnt s k s' k' bt,
  loop_pre lc cnt s -> solve_loop_k fuel sf tries lc c cnt s k = Ok (s', k', bt) -> bt = true -> exit_kkt s' s'.
Proof.
  induction fuel as [|f IH]; intros tries lc c cnt s k s' k' bt [I [AO [F [X K]]]] H Hb; [discriminate|].
  cbn [solve_loop_k] in H.
  set (s0 := match lc with Some l => note s (Qabs' (l - c)) COST_EPS | None => s end) in *.
  assert (L0 : lm_only s s0) by (unfold s0; destruct lc; [apply lm_only_note | apply lm_only_refl]).
  assert (C0 : clm s0 = clm s) by (unfold s0; destruct lc; [apply clm_note | reflexivity]).
  destruct (match lc with None => true | Some l => Qltb COST_EPS (Qabs' (l - c)) end || negb (Nat.eqb cnt O)) eqn:TEST.
  - destruct tries as [|t]; [inversion H; subst; discriminate|].
    apply bind_ok in H. destruct H as [[s1 cnt1] [G1 G2]]. cbn [fst snd] in G2.
    pose proof (inv_lm_only _ _ L0 I) as I0. pose proof (all_pos_lm_only _ _ L0 AO) as AO0.
    assert (F0 : FI s0) by (apply (FI_same_fr s); [apply same_fr_lm_only; [exact L0 | rewrite C0; reflexivity] | exact F]).
    assert (X0 : exit_ok s0) by (destruct (ret_ok_lm_only s s0 L0 (conj I X)) as [_ Y]; exact Y).
    destruct (inc_satisfy_cnt_ret sf s0 (s1, cnt1) I0 G1) as [I1 X1]. cbn [fst] in I1, X1.
    pose proof (inc_satisfy_cnt_all_pos sf s0 (s1, cnt1) AO0 G1) as AO1. cbn [fst] in AO1.
    pose proof (inc_satisfy_cnt_FI sf s0 (s1, cnt1) I0 AO0 (fi_live _ F0) (fi_ll _ F0) G1) as F1. cbn [fst] in F1.
    assert (K1 : Some c <> None -> cnt1 = O -> exit_kkt s1 s1).
    { intros _ Ec. subst cnt1. exact (inc_satisfy_cnt_quiet_kkt sf s0 s1 I0 AO0 F0 X0 G1). }
    apply (IH _ _ _ _ _ _ _ _ _ (conj I1 (conj AO1 (conj F1 (conj X1 K1)))) G2 Hb).
  - inversion H. subst s' k' bt.
    apply orb_false_iff in TEST. destruct TEST as [T1 T2]. apply negb_false_iff, Nat.eqb_eq in T2.
    assert (NL : lc <> None) by (intros ->; discriminate).
    exact (exit_kkt_lm_only s s0 L0 C0 (K NL T2)).
Qed.

(* what solve()'s exit guarantees, for every history: EITHER the loop was left through its test (the last satisfy()
   split nothing and changed the cost by at most 1e-4) and then the returned state with its STORED multipliers satisfies
   the stationarity equation exactly, has every multiplier of an active inequality >= -1e-4, and its objective exceeds that
   of every feasible placement by at most tau_bound s' 1e-4; OR solve() gave up after exactly MAXTRIES = 100 in-loop calls
   of satisfy(), in which case only C01 (feasibility of the returned state) is guaranteed *)
Theorem solve_exit_guarantee_gen fuel s s' :
  inv s -> all_pos s -> live s -> LL s -> inc_solve fuel s = Ok s' ->
  exists k bt, inc_solve_k fuel s = Ok (s', k, bt) /\
               (bt = true -> exit_kkt s' s') /\ (bt = false -> k = MAXTRIES).
Proof.
  intros I AO LV L0 H.
  unfold inc_solve, inc_solve_gen in H. apply bind_ok in H. destruct H as [p [H1 H]].
  destruct (solve_loop_k_agrees _ _ _ _ _ _ _ O _ H) as [k [bt HK]].
  exists k, bt. split; [unfold inc_solve_k; rewrite H1; exact HK|]. split.
  - intros Hb. destruct (inc_satisfy_cnt_ret fuel s p I H1) as [I1 X1].
    apply (solve_loop_k_kkt _ _ _ _ _ _ _ _ _ _ _ (conj I1 (conj (inc_satisfy_cnt_all_pos _ _ _ AO H1)
             (conj (inc_satisfy_cnt_FI _ _ _ I AO LV L0 H1) (conj X1 (fun (N : None <> None) _ => False_ind _ (N eq_refl)))))) HK Hb).
  - intros Hb. rewrite (solve_loop_k_count _ _ _ _ _ _ _ _ _ _ _ HK Hb). reflexivity.
Qed.

Theorem solve_exit_guarantee fuel s s' :
  reachable_wf s -> inc_solve fuel s = Ok s' ->
  exists k bt, inc_solve_k fuel s = Ok (s', k, bt) /\
               (bt = true -> exit_kkt s' s') /\ (bt = false -> k = MAXTRIES).
Proof.
  intros R. destruct (reachable_live_LL s R) as [LV L0].
  exact (solve_exit_guarantee_gen fuel s s' (reachable_inv s (reachable_wf_reachable s R)) (all_ok_all_pos _ (reachable_all_ok s R)) LV L0).
Qed.

(* ------------------------------------------------------------------ the same for histories that also change Variable::weight *)
Theorem solve_exit_guarantee_w fuel s s' :
  reachable_ww s -> inc_solve fuel s = Ok s' ->
  exists k bt, inc_solve_k fuel s = Ok (s', k, bt) /\
               (bt = true -> exit_kkt s' s') /\ (bt = false -> k = MAXTRIES).
Proof.
  intros R. destruct (reachable_ww_live_LL s R) as [LV L0].
  exact (solve_exit_guarantee_gen fuel s s' (reachable_w_inv s (reachable_ww_w s R)) (reachable_ww_all_pos s R) LV L0).
Qed.

(* VpscStationary.relm_stationary with the weight-independent statistics invariant *)
Theorem relm_stationary_p s s' :
  inv s -> all_pos s -> all_fresh s -> length (clm s) = length (scons s) ->
  relm s = Ok s' ->
  lm_only s s' /\
  forall i, (i < length (svars s))%nat -> stat_res (svars s) (lcons_of s') (xs_of s) i == 0.
Proof.
  intros I AO AF Hlen H. pose proof (i_book s I) as BK.
  assert (NZ : forall i, ~ scl (var_of s i) == 0).
  { intros i. destruct (vget_pos (svars s) i (proj1 AO)) as [_ P]. unfold var_of. lra. }
  destruct (relm_blocks_stationary s (var_blocks s) s' BK (i_act s I) (i_forest s I) NZ) as [[L _] ST]; auto.
  - intros b Hb. apply var_blocks_In in Hb. destruct Hb as [v [Hv <-]]. apply var_block_ready_p; auto.
  - split; [exact L|]. intros i Hi. rewrite (stat_res_resid s s' i L Hi).
    apply (ST (blk_of s i)); [|exact Hi | reflexivity]. apply var_blocks_In. exists i. split; [exact Hi | reflexivity].
Qed.

(* C02_solve_near_optimal_history for histories over the FIVE ops (addConstraint / desired position / weight / solve /
   satisfy): no hypothesis on the returned state *)
Theorem solve_near_optimal_history_w fuel s s' s2 tau :
  reachable_ww s -> inc_solve fuel s = Ok s' ->
  relm s' = Ok s2 -> 0 <= tau ->
  (forall c, (c < length (scons s'))%nat -> act_of s' c = true -> ceq (con_of s' c) = false -> - tau <= lm_of s2 c) ->
  (forall i, (i < length (svars s'))%nat -> stat_res (svars s') (lcons_of s2) (xs_of s') i == 0) /\
  forall y, feasible (svars s') (scons s') y ->
    obj (svars s') (place_of (final_positions s')) - obj (svars s') y <= tau_bound s' tau.
Proof.
  intros R H HR T NN. destruct (solve_return_fresh_w fuel s s' R H) as [AF Hlen].
  assert (R' : reachable_ww s') by exact (rww_step s (Base Solve) fuel s' R Logic.I H).
  pose proof (reachable_w_inv s' (reachable_ww_w s' R')) as I'. pose proof (reachable_ww_all_pos s' R') as AO'.
  destruct (relm_stationary_p s' s2 I' AO' AF Hlen HR) as [L ST].
  split; [exact ST|]. exact (stationary_near_optimal s' s2 tau I' AO' L ST T NN).
Qed.

(* ------------------------------------------------------------------ non-vacuity (the history ex2 of VpscFresh.v) *)
Lemma ex2_ret_reach : reachable_wf ex2_ret.
Proof.
  assert (H : step 100 ex2_s3 Solve = Ok ex2_ret) by (vm_compute; reflexivity).
  exact (rw_step ex2_s3 Solve 100 ex2_ret ex2_reach Logic.I H).
Qed.

Definition ex2_fm : st := Eval vm_compute in match find_min_lm ex2_ret 4 with Ok (_, s) => s | _ => init [] [] end.
Definition ex2_sb : st := Eval vm_compute in match split_blocks ex2_ret with Ok (s, _) => s | _ => init [] [] end.

(* findMinLM on the block {0,1,2} of the returned state (active: the equality 1 and the inequality 2) returns 2 *)
Example find_min_lm_min_example :
  find_min_lm ex2_ret 4 = Ok (Some 2%nat, ex2_fm) /\ Eof ex2_ret 4 2 /\ Eof ex2_ret 4 1 /\ ceq (con_of ex2_ret 1) = true /\
  forall e, Eof ex2_ret 4 e -> ceq (con_of ex2_ret e) = false -> lm_of ex2_fm 2 <= lm_of ex2_fm e.
Proof.
  assert (FM : find_min_lm ex2_ret 4 = Ok (Some 2%nat, ex2_fm)) by (vm_compute; reflexivity).
  pose proof (reachable_inv _ (reachable_wf_reachable _ ex2_ret_reach)) as [BK AI FO _].
  pose proof (all_ok_all_pos _ (reachable_all_ok _ ex2_ret_reach)) as AO.
  assert (NZ : forall i, ~ scl (var_of ex2_ret i) == 0).
  { intros i. destruct (vget_pos (svars ex2_ret) i (proj1 AO)) as [_ P]. unfold var_of. lra. }
  assert (Hr : (front ex2_ret 4 < length (svars ex2_ret))%nat) by (vm_compute; lia).
  pose proof (find_min_lm_min_spec ex2_ret 4 (Some 2%nat) ex2_fm BK AI FO NZ Hr eq_refl eq_refl FM) as [E2 [_ MIN]].
  split; [exact FM|]. split; [exact E2|]. split; [|split; [reflexivity | exact MIN]].
  split; [cbn; lia|]. split; reflexivity.
Qed.

(* solve() on the edited state leaves its loop through the test after one in-loop satisfy(); splitBlocks on the returned
   state splits nothing: both give the KKT package for the stored multipliers *)
Example solve_exit_guarantee_example :
  inc_solve_k 100 ex2_s3 = Ok (ex2_ret, 1%nat, true) /\ exit_kkt ex2_ret ex2_ret /\
  split_blocks ex2_ret = Ok (ex2_sb, O) /\ exit_kkt ex2_sb ex2_sb /\ act_of ex2_sb 2 = true /\ lm_of ex2_sb 2 == 12 # 5.
Proof.
  assert (HK : inc_solve_k 100 ex2_s3 = Ok (ex2_ret, 1%nat, true)) by (vm_compute; reflexivity).
  destruct (solve_exit_guarantee 100 ex2_s3 ex2_ret ex2_reach ex2_ret_ok) as [k [bt [HK' [G _]]]].
  rewrite HK in HK'. inversion HK'. subst k bt.
  assert (SB : split_blocks ex2_ret = Ok (ex2_sb, O)) by (vm_compute; reflexivity).
  destruct (reachable_live_LL _ ex2_ret_reach) as [LV L0].
  split; [exact HK|]. split; [exact (G eq_refl)|]. split; [exact SB|]. split; [|split; reflexivity].
  exact (split_blocks_quiet_kkt ex2_ret ex2_sb (reachable_inv _ (reachable_wf_reachable _ ex2_ret_reach)) (all_ok_all_pos _ (reachable_all_ok _ ex2_ret_reach)) LV L0 SB).
Qed.

(* ------------------------------------------------------------------ non-vacuity for weight histories: the pin idiom of VpscWeight.wex_* *)
Lemma wex_wfv : wf_vars wex_vs.
Proof. apply wf_varsb_spec. vm_compute. reflexivity. Qed.
Definition wx1 : st := Eval vm_compute in match step 100 (init wex_vs wex_cs) Solve with Ok s => s | _ => init [] [] end.
Definition wx2 : st := Eval vm_compute in set_weight wx1 0 1000.
Definition wx3 : st := Eval vm_compute in match inc_solve 100 wx2 with Ok s => s | _ => init [] [] end.
Definition wxr : st := Eval vm_compute in match relm wx3 with Ok s => s | _ => init [] [] end.
Lemma wx_reach_ww : reachable_ww wx2.
Proof.
  assert (H1 : step_w 100 (init wex_vs wex_cs) (Base Solve) = Ok wx1) by (vm_compute; reflexivity).
  assert (H2 : step_w 0 wx1 (SetWeight 0 1000) = Ok wx2) by (vm_compute; reflexivity).
  pose proof (rww_step (init wex_vs wex_cs) (Base Solve) 100 wx1 (rww_init wex_vs wex_cs wex_wfv wex_wfc) Logic.I H1) as R1.
  refine (rww_step wx1 (SetWeight 0 1000) 0 wx2 R1 _ H2). reflexivity.
Qed.

(* solve; weight of v0 := 1000 (A2 / AB / AD of its block are stale: all_fresh FAILS); solve again: fresh, stationary, optimal *)
Example solve_near_optimal_history_w_example :
  reachable_ww wx2 /\ ~ all_fresh wx2 /\ inc_solve 100 wx2 = Ok wx3 /\ relm wx3 = Ok wxr /\
  all_fresh wx3 /\
  final_positions wx3 = [10024 # 1003; 11027 # 1003; 12030 # 1003; 13033 # 1003] /\
  (forall i, (i < length (svars wx3))%nat -> stat_res (svars wx3) (lcons_of wxr) (xs_of wx3) i == 0) /\
  (forall y, feasible (svars wx3) (scons wx3) y ->
     obj (svars wx3) (place_of (final_positions wx3)) - obj (svars wx3) y <= tau_bound wx3 0).
Proof.
  assert (HS : inc_solve 100 wx2 = Ok wx3) by (vm_compute; reflexivity).
  assert (HR : relm wx3 = Ok wxr) by (vm_compute; reflexivity).
  assert (NN : forall c, (c < length (scons wx3))%nat -> act_of wx3 c = true -> ceq (con_of wx3 c) = false -> - 0 <= lm_of wxr c).
  { intros c Hc _ _. change (length (scons wx3)) with 3%nat in Hc.
    destruct c as [|[|[|c]]]; try lia; vm_compute; discriminate. }
  destruct (solve_near_optimal_history_w 100 wx2 wx3 wxr 0 wx_reach_ww HS HR (Qle_refl 0) NN) as [ST GAP].
  split; [exact wx_reach_ww|]. split.
  { intros H. assert (L : (0 < length (svars wx2))%nat) by (cbn; lia).
    destruct (H O L) as [_ [_ [D _]]]. vm_compute in D. discriminate D. }
  split; [exact HS|]. split; [exact HR|]. split; [exact (proj1 (solve_return_fresh_w 100 wx2 wx3 wx_reach_ww HS))|].
  split; [vm_compute; reflexivity|]. split; [exact ST | exact GAP].
Qed.
