(* Non-vacuity of Vpsc/StaticOutHeap.merge_right_all_sat_closed: a state with a violated out-constraint on which
   mergeRight really merges; every hypothesis holds. *)
From Adapt Require Import Num.Qaux Vpsc.VpscSpec Vpsc.VpscModel Vpsc.VpscInv Vpsc.StaticModel Vpsc.StaticFrame
  Vpsc.StaticInv Vpsc.StaticInvB Vpsc.StaticGeom Vpsc.StaticDag Vpsc.StaticRefine Vpsc.StaticRefineEx Vpsc.StaticOutHeap.
Local Open Scope Q_scope.

Example merge_right_all_sat_closed_example :
  let s := static_init mx_vs mx_cs in
  MRI (base s) 0 /\ inhabited (base s) 0 /\ T2 s /\ length (ctime s) = length (scons (base s)) /\
  (length (blocks (base s)) <= length (bout s))%nat /\
  (exists s', merge_right s 0 = Ok s') /\ slack_val (base s) 0 < 0.
Proof.
  cbv zeta. split; [exact mx_MRI|]. split; [exact mx_inh|]. split; [exact mx_T2|]. split; [exact mx_lct|].
  split; [exact mx_lbo|]. destruct merge_right_all_sat_example as [_ [_ [A B]]]. split; assumption.
Qed.
