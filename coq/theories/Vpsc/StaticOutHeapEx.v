(* Non-vacuity of Vpsc/StaticOutHeap.merge_right_all_sat_closed: a state with a violated out-constraint on which
   mergeRight really merges; every hypothesis holds. *)
From Adapt Require Import Num.Qaux Vpsc.VpscSpec Vpsc.VpscModel Vpsc.VpscInv Vpsc.StaticModel Vpsc.StaticFrame
  Vpsc.StaticInv Vpsc.StaticInvB Vpsc.StaticGeom Vpsc.StaticDag Vpsc.StaticRefine Vpsc.StaticRefineEx Vpsc.StaticOutHeap.
Local Open Scope Q_scope.

Definition mx_returns : bool :=
  match merge_right (static_init mx_vs mx_cs) 0 with Ok s' => all_satb s' | _ => false end.
Lemma mx_returns_true : mx_returns = true. Proof. vm_compute. reflexivity. Qed.

Example merge_right_all_sat_closed_example :
  let s := static_init mx_vs mx_cs in
  MRI (base s) 0 /\ inhabited (base s) 0 /\ T2 s /\ length (ctime s) = length (scons (base s)) /\
  (length (blocks (base s)) <= length (bout s))%nat /\
  (exists s', merge_right s 0 = Ok s') /\ slack_val (base s) 0 < 0.
Proof.
  cbv zeta. split; [exact mx_MRI|]. split; [|split; [|split; [|split; [|split]]]].
  - exists O. split; vm_compute; [lia | reflexivity].
  - intros B. unfold btime_of, static_init. cbn [btime ctr]. rewrite nth_repeat_O. lia.
  - vm_compute. reflexivity.
  - vm_compute. lia.
  - pose proof mx_returns_true as P. unfold mx_returns in P.
    destruct (merge_right (static_init mx_vs mx_cs) 0) as [s'| |]; try discriminate. exists s'. reflexivity.
  - vm_compute. reflexivity.
Qed.
