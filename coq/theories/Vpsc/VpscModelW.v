(* Additive extension of the IncSolver model (VpscModel.v) by one more caller-side edit between solves:
     the caller assigns the public field Variable::weight (w > 0) of a variable of a live solver
   - the "pin a node" idiom (give it weight 1000, solve() again; cf. cola's lock / fixPos handling).
   Nothing inside libvpsc caches a weight except the block statistics (PositionStats AB, AD, A2), and those are
   recomputed from the variables by Block::updateWeightedPosition (block.cpp:97-110), which IncSolver::moveBlocks
   calls for every live block at the start of every satisfy(); Variable::dfdv and Block::cost read Variable::weight
   directly.  So the model of the edit is: replace the weight in `svars` - update_weighted_position, dfdv and cost
   of VpscModel.v already read `svars`.
   NO PROOFS in this file (model-like: extracted and run by extract/c01_driver.ml).  The op is NOT added to
   VpscModel.op / step (their users - VpscReach, VpscStats, VpscTranslate (C20) ... - case on the four existing ops):
   it is a wrapper `opw` / `step_w` around them; preservation of the invariants is proved in VpscWeight.v. *)
From Adapt Require Import Num.Qaux Vpsc.VpscSpec Vpsc.VpscModel Vpsc.VpscInvB.
Local Open Scope Q_scope.

(* the caller assigning Variable::weight between solves *)
Definition set_weight (s : st) (i : nat) (w : Q) : st :=
  let V := var_of s i in
  set_svars s (upd_nth (svars s) i (mkvar (des V) w (scl V))).

Inductive opw := Base (o : op) | SetWeight (i : nat) (w : Q).

Definition step_w (fuel : nat) (s : st) (o : opw) : res st :=
  match o with
  | Base o' => step fuel s o'
  | SetWeight i w => Ok (set_weight s i w)
  end.

(* like VpscInvB.step_chk: P on every state visited *)
Definition step_w_chk (P : st -> bool) (fuel : nat) (s : st) (o : opw) : res st * chk :=
  match o with
  | Base o' => step_chk P fuel s o'
  | SetWeight i w => (Ok (set_weight s i w), chk_and P (set_weight s i w) (chk_and P s (true, O)))
  end.

(* What remains of the block-statistics invariant (VpscInvB.statsb / stats_liveb) once weights may change: the sums of
   a block that is not recomputed (a deleted block for ever, a live block until the next moveBlocks) were accumulated
   with the weights of that time, so `A2 = sum wt*(scale/scl)^2` over the CURRENT weights does not hold for them;
   what every division needs is only A2 > 0 (a sum of positive terms whatever the weights were), scale > 0, and
   posn = (AD - AB) / A2. *)
Definition stat_posb (B : blkT) : bool :=
  match bvars B with [] => false | _ => true end &&
  Qltb 0 (bscale B) && Qltb 0 (A2 B) && Qeqb (posn B) ((AD B - AB B) / A2 B).
Definition stats_posb (s : st) : bool :=
  wf_varsb (svars s) && forallb stat_posb (blocks s) &&
  forallb (fun b => Nat.ltb b (length (blocks s))) (blist s).
Definition all_invb_w (s : st) : bool :=
  bookb s && actb s && forestb s && trichotomyb s && stats_posb s.
