(* C20 vpsc_translate, MODEL version: the executable IncSolver model (Vpsc/VpscModel.v) commutes with translating every
   desired position by t, for problems whose scales are == 1 and whose weights are positive (unit_pos), with
   constraint endpoints in range (wf_cons).  (The declarative version is Vpsc/VpscSymmetry.v.)

   sh t s is the state s with every desired position moved by t, the posn of every non-empty block moved by t and its
   AD statistic moved by t * A2 (both re-normalised by Qred); every other field is untouched.  Every rational the model
   stores or compares has passed through Qred, and Qred_complete : p == q -> Qred p = Qred q; hence every function f
   of the model satisfies the LEIBNIZ equation      f (sh t s) = rmap (sh t) (f s)      under the unary invariant
   Inv n s (scales 1, weights > 0, block statistics of non-empty blocks have A2 > 0 and scale 1, every variable sits in
   a non-empty block, indices in range): the two runs take the same branches, set the same tie flag, throw at the same
   constraint, run out of fuel together, and return states that differ exactly by sh t.

   Proved, for all fuel, sizes, rationals and op histories (no bounds):
     *_sh lemmas for add_variable, update_weighted_position, move_blocks, merge_into, merge, populate, split, upd_min,
       reset_active_lm, compute_dfdv, find_min_lm, split_path, find_min_lm_between, is_active_directed_path_between,
       mv_scan, most_violated, satisfy_step, satisfy_loop, final_scan, split_blocks, inc_satisfy_cnt, inc_satisfy,
       cost, solve_loop, inc_solve_gen (both loop variants), add_constraint, set_desired, step_gen, run_gen, init;
     inc_solve_translate (the property), inc_solve_gen_translate / _eq, inc_solve_translate_positions,
     inc_satisfy_translate / _eq, run_translate / run_ops_translate (op histories from the initial states, including
     the instance without variables), step_translate (one op from ANY state satisfying Inv). *)
From Adapt Require Import Num.Qaux Vpsc.VpscSpec Vpsc.VpscModel Vpsc.VpscInv Vpsc.VpscSymmetry Vpsc.VpscRefute.
Local Open Scope Q_scope.


(* ------------------------------------------------------------------ the translated state *)
Definition rmap {A B} (f : A -> B) (r : res A) : res B :=
  match r with Ok a => Ok (f a) | ThrowUnsat c => ThrowUnsat c | OutOfFuel => OutOfFuel end.

Definition shift_blk (t : Q) (B : blkT) : blkT :=
  match bvars B with
  | [] => B
  | _ :: _ => mkblk (bvars B) (Qred (posn B + t)) (bscale B) (AB B) (Qred (AD B + t * A2 B)) (A2 B) (dead B)
  end.

Definition sh (t : Q) (s : st) : st :=
  mkst (shift_vars t (svars s)) (scons s) (voff s) (vblk s) (cact s) (cuns s) (clm s)
       (map (shift_blk t) (blocks s)) (blist s) (inactive s) (tie s).

Definition nv (s : st) : nat := length (svars s).

(* ------------------------------------------------------------------ list helpers *)
Lemma map_upd_nth {A B} (f : A -> B) (l : list A) n x : map f (upd_nth l n x) = upd_nth (map f l) n (f x).
Proof. revert n. induction l as [|h l IH]; intros [|n]; cbn; try reflexivity. rewrite IH. reflexivity. Qed.

Lemma nth_upd_nth_or {A} (l : list A) n m v d :
  (m = n /\ nth m (upd_nth l n v) d = v) \/ nth m (upd_nth l n v) d = nth m l d.
Proof.
  destruct (Nat.eq_dec n m) as [<-|N].
  - destruct (Nat.lt_ge_cases n (length l)) as [L|L].
    + left. split; [reflexivity | apply nth_upd_nth_eq; exact L].
    + right. rewrite !nth_overflow; [reflexivity | exact L | rewrite upd_nth_length; exact L].
  - right. apply nth_upd_nth_neq. exact N.
Qed.

Lemma fold_left_ext_in {A B} (f g : A -> B -> A) (l : list B) :
  (forall a x, In x l -> f a x = g a x) -> forall a, fold_left f l a = fold_left g l a.
Proof.
  induction l as [|x l IH]; intros H a; cbn [fold_left]; [reflexivity|].
  rewrite (H a x (or_introl eq_refl)). apply IH. intros a' y Hy. apply H. right. exact Hy.
Qed.

Lemma find_ext {A} (f g : A -> bool) (l : list A) : (forall x, f x = g x) -> find f l = find g l.
Proof. intros H. induction l as [|x l IH]; cbn; [reflexivity|]. rewrite H, IH. reflexivity. Qed.

(* ------------------------------------------------------------------ accessors of the translated state *)
Lemma nv_sh t s : nv (sh t s) = nv s.
Proof. unfold nv, sh. cbn [svars]. apply shift_vars_length. Qed.
Lemma walk_fuel_sh t s : walk_fuel (sh t s) = walk_fuel s.
Proof. unfold walk_fuel. f_equal. apply (nv_sh t s). Qed.

Lemma var_of_sh t s i : (i < nv s)%nat -> var_of (sh t s) i = shift_var t (var_of s i).
Proof. intros H. unfold var_of, sh. cbn [svars]. apply vget_shift. exact H. Qed.
Lemma scl_sh t s i : scl (var_of (sh t s) i) = scl (var_of s i).
Proof.
  destruct (Nat.lt_ge_cases i (nv s)) as [L|L].
  - rewrite var_of_sh by exact L. reflexivity.
  - unfold var_of, vget, sh. cbn [svars]. rewrite !nth_overflow; [reflexivity | exact L | rewrite shift_vars_length; exact L].
Qed.
Lemma wt_sh t s i : wt (var_of (sh t s) i) = wt (var_of s i).
Proof.
  destruct (Nat.lt_ge_cases i (nv s)) as [L|L].
  - rewrite var_of_sh by exact L. reflexivity.
  - unfold var_of, vget, sh. cbn [svars]. rewrite !nth_overflow; [reflexivity | exact L | rewrite shift_vars_length; exact L].
Qed.
Lemma des_sh t s i : (i < nv s)%nat -> des (var_of (sh t s) i) = des (var_of s i) + t.
Proof. intros H. rewrite var_of_sh by exact H. reflexivity. Qed.

Lemma block_of_sh t s b : block_of (sh t s) b = shift_blk t (block_of s b).
Proof. unfold block_of, sh. cbn [blocks]. change dblk with (shift_blk t dblk) at 1. apply map_nth. Qed.

Lemma bvars_shift t B : bvars (shift_blk t B) = bvars B.
Proof. unfold shift_blk. destruct (bvars B) eqn:E; [exact E | reflexivity]. Qed.
Lemma bscale_shift t B : bscale (shift_blk t B) = bscale B.
Proof. unfold shift_blk. destruct (bvars B); reflexivity. Qed.
Lemma AB_shift t B : AB (shift_blk t B) = AB B.
Proof. unfold shift_blk. destruct (bvars B); reflexivity. Qed.
Lemma A2_shift t B : A2 (shift_blk t B) = A2 B.
Proof. unfold shift_blk. destruct (bvars B); reflexivity. Qed.
Lemma dead_shift t B : dead (shift_blk t B) = dead B.
Proof. unfold shift_blk. destruct (bvars B); reflexivity. Qed.

Lemma set_block_sh t s b B : set_block (sh t s) b (shift_blk t B) = sh t (set_block s b B).
Proof. unfold set_block, set_blocks, sh. cbn [svars scons voff vblk cact cuns clm blocks blist inactive tie]. rewrite map_upd_nth. reflexivity. Qed.

Lemma front_sh t s b : front (sh t s) b = front s b.
Proof. unfold front. rewrite block_of_sh, bvars_shift. reflexivity. Qed.

Lemma note_sh t s a b : note (sh t s) a b = sh t (note s a b).
Proof. unfold note. destruct (Qltb _ _); reflexivity. Qed.
Lemma note_opt_sh t s a b : note_opt (sh t s) a b = sh t (note_opt s a b).
Proof. unfold note_opt. destruct a, b; try reflexivity. apply note_sh. Qed.

Lemma new_block_sh t s : new_block (sh t s) = (fst (new_block s), sh t (snd (new_block s))).
Proof.
  unfold new_block, sh, set_blocks. cbn [fst snd svars scons voff vblk cact cuns clm blocks blist inactive tie].
  rewrite map_length, map_app. reflexivity.
Qed.

Lemma kill_block_sh t s b : kill_block (sh t s) b = sh t (kill_block s b).
Proof.
  unfold kill_block. rewrite block_of_sh, <- set_block_sh. f_equal.
  unfold shift_blk. destruct (block_of s b) as [bv p sc ab ad a2 dd]. cbn [bvars posn bscale AB AD A2 dead].
  destruct bv; reflexivity.
Qed.

Lemma cleanup_sh t s : cleanup (sh t s) = sh t (cleanup s).
Proof.
  unfold cleanup. change (blist (sh t s)) with (blist s).
  rewrite (filter_ext (fun b => negb (dead (block_of (sh t s) b))) (fun b => negb (dead (block_of s b)))).
  - reflexivity.
  - intros b. rewrite block_of_sh, dead_shift. reflexivity.
Qed.


(* ------------------------------------------------------------------ the unary invariant *)
Section Translate.
Variable n0 : nat.   (* the number of variables; constant along every run *)

Definition blk_ok (B : blkT) : Prop :=
  (bvars B = [] /\ A2 B == 0) \/ (bvars B <> [] /\ 0 < A2 B /\ bscale B == 1).

Record Inv0 (s : st) : Prop := {
  i_var : forall i, (i < nv s)%nat -> scl (var_of s i) == 1 /\ 0 < wt (var_of s i);
  i_blk : forall b, blk_ok (block_of s b);
  i_rng : forall b v, In v (bvars (block_of s b)) -> (v < nv s)%nat;
  i_con : forall c, (cl (con_of s c) < nv s)%nat /\ (cr (con_of s c) < nv s)%nat;
  i_n : nv s = n0 }.

Definition Inv (s : st) : Prop :=
  Inv0 s /\ forall i, (i < nv s)%nat -> bvars (block_of s (blk_of s i)) <> [].

Lemma Inv0_frame s s' :
  svars s' = svars s -> scons s' = scons s -> blocks s' = blocks s -> Inv0 s -> Inv0 s'.
Proof.
  intros E1 E2 E3 [A B C D E]. constructor; unfold nv, var_of, block_of, con_of in *; rewrite ?E1, ?E2, ?E3; assumption.
Qed.
Lemma Inv_frame s s' :
  svars s' = svars s -> scons s' = scons s -> vblk s' = vblk s -> blocks s' = blocks s -> Inv s -> Inv s'.
Proof.
  intros E1 E2 E3 E4 [I N]. split; [apply (Inv0_frame s); assumption|].
  unfold nv, block_of, blk_of in *. rewrite E1, E3, E4. exact N.
Qed.
Lemma Inv_note s a b : Inv s -> Inv (note s a b).
Proof. unfold note. destruct (Qltb _ _); [|auto]. apply Inv_frame; reflexivity. Qed.
Lemma Inv_note_opt s a b : Inv s -> Inv (note_opt s a b).
Proof. unfold note_opt. destruct a, b; auto. apply Inv_note. Qed.

Lemma Inv_pos s : Inv0 s -> (0 < nv s)%nat.
Proof. intros I. destruct (i_con s I O). lia. Qed.
Lemma Inv_front s b : Inv0 s -> (front s b < nv s)%nat.
Proof.
  intros I. unfold front. destruct (bvars (block_of s b)) as [|v l] eqn:E; cbn [hd].
  - apply Inv_pos. exact I.
  - apply (i_rng s I b). rewrite E. left. reflexivity.
Qed.
Lemma Inv_blk_lt s i : Inv s -> (i < nv s)%nat -> (blk_of s i < length (blocks s))%nat.
Proof.
  intros [_ N] Hi. destruct (Nat.lt_ge_cases (blk_of s i) (length (blocks s))) as [L|L]; [exact L|].
  exfalso. apply (N i Hi). unfold block_of. rewrite nth_overflow by exact L. reflexivity.
Qed.

(* ------------------------------------------------------------------ numbers seen by the control flow are equal *)
Lemma position_sh t s i :
  bvars (block_of s (blk_of s i)) <> [] -> bscale (block_of s (blk_of s i)) == 1 -> scl (var_of s i) == 1 ->
  position (sh t s) i = Qred (position s i + t).
Proof.
  intros Hne Hb Hs. unfold position. rewrite scl_sh.
  change (blk_of (sh t s) i) with (blk_of s i). change (off_of (sh t s) i) with (off_of s i).
  rewrite block_of_sh. unfold shift_blk.
  destruct (block_of s (blk_of s i)) as [bv p sc ab ad a2 dd]. cbn [bvars bscale posn] in *.
  destruct bv; [congruence|]. cbn [bscale posn].
  apply Qred_complete. rewrite !Qred_correct, Hb, Hs. field.
Qed.

Lemma Inv_position t s i : Inv s -> (i < nv s)%nat -> position (sh t s) i = Qred (position s i + t).
Proof.
  intros [I N] Hi. apply position_sh.
  - apply N. exact Hi.
  - destruct (i_blk s I (blk_of s i)) as [[E _]|[_ [_ E]]]; [|exact E]. exfalso. apply (N i Hi). exact E.
  - apply (i_var s I i Hi).
Qed.

Lemma dfdv_sh t s i : Inv s -> (i < nv s)%nat -> dfdv (sh t s) i = dfdv s i.
Proof.
  intros I Hi. unfold dfdv. rewrite (Inv_position t s i I Hi), wt_sh, (des_sh t s i Hi).
  apply Qred_complete. rewrite Qred_correct. ring.
Qed.

Lemma slack_val_sh t s c : Inv s -> slack_val (sh t s) c = slack_val s c.
Proof.
  intros I. unfold slack_val. change (con_of (sh t s) c) with (con_of s c).
  destruct (i_con s (proj1 I) c) as [Hl Hr].
  rewrite (Inv_position t s _ I Hl), (Inv_position t s _ I Hr), !scl_sh.
  destruct (i_var s (proj1 I) _ Hl) as [El _]. destruct (i_var s (proj1 I) _ Hr) as [Er _].
  apply Qred_complete. rewrite !Qred_correct, El, Er. ring.
Qed.
Lemma slack_sh t s c : Inv s -> slack (sh t s) c = slack s c.
Proof. intros I. unfold slack. change (uns_of (sh t s) c) with (uns_of s c). rewrite (slack_val_sh t s c I). reflexivity. Qed.

Lemma cost_sh t s : Inv s -> cost (sh t s) = cost s.
Proof.
  intros I. unfold cost. change (blist (sh t s)) with (blist s).
  apply fold_left_ext_in. intros acc b _. rewrite block_of_sh, bvars_shift.
  apply fold_left_ext_in. intros acc' v Hv.
  assert (Hi : (v < nv s)%nat) by (apply (i_rng s (proj1 I) b v Hv)).
  rewrite (Inv_position t s v I Hi), wt_sh, (des_sh t s v Hi).
  apply Qred_complete. rewrite Qred_correct. ring.
Qed.

(* ------------------------------------------------------------------ Block::addVariable *)
Lemma addvar_ad ai wi ad ad' a2 d t :
  ai == 1 -> ad' == ad + t * a2 ->
  Qred (ad' + wi * ai * (d + t)) = Qred (Qred (ad + wi * ai * d) + t * Qred (a2 + wi * ai * ai)).
Proof. intros H1 H2. apply Qred_complete. rewrite !Qred_correct, H1, H2. ring. Qed.

Lemma addvar_posn x y z t : ~ z == 0 -> Qred ((Qred (x + t * z) - y) / z) = Qred (Qred ((x - y) / z) + t).
Proof. intros H. apply Qred_complete. rewrite !Qred_correct. field. exact H. Qed.

(* the scale a variable enters a block with is 1 *)
Lemma addvar_scale s b v :
  Inv0 s -> (v < nv s)%nat ->
  (if Qeqb (A2 (block_of s b)) 0 then scl (var_of s v) else bscale (block_of s b)) / scl (var_of s v) == 1
  /\ (if Qeqb (A2 (block_of s b)) 0 then scl (var_of s v) else bscale (block_of s b)) == 1
  /\ 0 <= A2 (block_of s b).
Proof.
  intros I Hv. destruct (i_var s I v Hv) as [Hs _].
  destruct (i_blk s I b) as [[_ E]|[_ [P E]]].
  - assert (Q : Qeqb (A2 (block_of s b)) 0 = true) by (apply Qeqb_spec; exact E).
    rewrite Q, Hs, E. split; [field|]. split; [reflexivity | lra].
  - assert (Q : Qeqb (A2 (block_of s b)) 0 = false) by (apply Qeqb_false; lra).
    rewrite Q, Hs, E. split; [field|]. split; [reflexivity | lra].
Qed.

Lemma set_vblk_sh t s x : sh t (set_vblk s x) = set_vblk (sh t s) x.
Proof. reflexivity. Qed.

Lemma add_variable_sh t s b v :
  Inv0 s -> (v < nv s)%nat -> add_variable (sh t s) b v = sh t (add_variable s b v).
Proof.
  intros I Hv. destruct (i_var s I v Hv) as [Hs Hw].
  destruct (addvar_scale s b v I Hv) as [Hai [Hsc Ha2]].
  unfold add_variable. rewrite set_vblk_sh, <- set_block_sh.
  change (off_of (sh t s) v) with (off_of s v). change (vblk (sh t s)) with (vblk s).
  rewrite block_of_sh, (var_of_sh t s v Hv), A2_shift, AB_shift, bscale_shift, dead_shift, bvars_shift.
  cbn [shift_var scl wt des].
  set (sc := if Qeqb (A2 (block_of s b)) 0 then scl (var_of s v) else bscale (block_of s b)) in *.
  set (ai := sc / scl (var_of s v)) in *.
  assert (EAD : AD (shift_blk t (block_of s b)) == AD (block_of s b) + t * A2 (block_of s b)).
  { unfold shift_blk. destruct (i_blk s I b) as [[E1 E2]|[E1 _]].
    - rewrite E1, E2. ring.
    - destruct (bvars (block_of s b)); [congruence|]. cbn [AD]. apply Qred_correct. }
  rewrite (addvar_ad ai (wt (var_of s v)) _ _ _ (des (var_of s v)) t Hai EAD).
  set (ab := Qred (AB (block_of s b) + _)). set (ad := Qred (AD (block_of s b) + _)).
  set (a2 := Qred (A2 (block_of s b) + _)).
  assert (Ha2' : ~ a2 == 0).
  { unfold a2. rewrite Qred_correct, Hai. nra. }
  rewrite (addvar_posn ad ab a2 t Ha2').
  unfold shift_blk. cbn [bvars posn bscale AB AD A2 dead].
  destruct (bvars (block_of s b) ++ [v]) eqn:E; [destruct (bvars (block_of s b)); discriminate|].
  reflexivity.
Qed.


(* ---- add_variable keeps the invariant *)
Definition av_blk (s : st) (b v : nat) : blkT :=
  let B := block_of s b in
  let V := var_of s v in
  let sc := if Qeqb (A2 B) 0 then scl V else bscale B in
  let ai := sc / scl V in
  let bi := off_of s v / scl V in
  let wi := wt V in
  let ab := Qred (AB B + wi * ai * bi) in
  let ad := Qred (AD B + wi * ai * des V) in
  let a2 := Qred (A2 B + wi * ai * ai) in
  mkblk (bvars B ++ [v]) (Qred ((ad - ab) / a2)) sc ab ad a2 (dead B).

Lemma add_variable_eq s b v :
  add_variable s b v = set_vblk (set_block s b (av_blk s b v)) (upd_nth (vblk s) v b).
Proof. reflexivity. Qed.

Lemma av_blk_ok s b v : Inv0 s -> (v < nv s)%nat -> blk_ok (av_blk s b v).
Proof.
  intros I Hv. destruct (addvar_scale s b v I Hv) as [Hai [Hsc Ha2]]. destruct (i_var s I v Hv) as [_ Hw].
  right. unfold av_blk. cbn [bvars A2 bscale]. split; [destruct (bvars (block_of s b)); discriminate|].
  split; [|exact Hsc]. rewrite Qred_correct, Hai. nra.
Qed.

Lemma block_of_set_block s b B x :
  (x = b /\ block_of (set_block s b B) x = B) \/ block_of (set_block s b B) x = block_of s x.
Proof. unfold block_of, set_block, set_blocks. cbn [blocks]. apply nth_upd_nth_or. Qed.

Lemma add_variable_Inv0 s b v : Inv0 s -> (v < nv s)%nat -> Inv0 (add_variable s b v).
Proof.
  intros I Hv. rewrite add_variable_eq. constructor.
  - exact (i_var s I).
  - intros x. change (block_of (set_vblk (set_block s b (av_blk s b v)) (upd_nth (vblk s) v b)) x)
      with (block_of (set_block s b (av_blk s b v)) x).
    destruct (block_of_set_block s b (av_blk s b v) x) as [[_ E]|E]; rewrite E; [apply av_blk_ok; assumption | apply (i_blk s I)].
  - intros x w. change (block_of (set_vblk (set_block s b (av_blk s b v)) (upd_nth (vblk s) v b)) x)
      with (block_of (set_block s b (av_blk s b v)) x).
    change (nv (set_vblk (set_block s b (av_blk s b v)) (upd_nth (vblk s) v b))) with (nv s).
    destruct (block_of_set_block s b (av_blk s b v) x) as [[_ E]|E]; rewrite E; [|apply (i_rng s I)].
    unfold av_blk. cbn [bvars]. intros H. apply in_app_or in H. destruct H as [H|[<-|[]]]; [exact (i_rng s I b w H) | exact Hv].
  - exact (i_con s I).
  - exact (i_n s I).
Qed.

Lemma add_variable_Inv s b v :
  Inv s -> (v < nv s)%nat -> (b < length (blocks s))%nat -> Inv (add_variable s b v).
Proof.
  intros [I N] Hv Hb. split; [apply add_variable_Inv0; assumption|].
  intros i Hi. change (nv (add_variable s b v)) with (nv s) in Hi.
  assert (NE : forall x, bvars (block_of s x) <> [] -> bvars (block_of (add_variable s b v) x) <> []).
  { intros x Hx. rewrite add_variable_eq.
    change (block_of (set_vblk (set_block s b (av_blk s b v)) (upd_nth (vblk s) v b)) x)
      with (block_of (set_block s b (av_blk s b v)) x).
    destruct (block_of_set_block s b (av_blk s b v) x) as [[_ E]|E]; rewrite E; [|exact Hx].
    unfold av_blk. cbn [bvars]. destruct (bvars (block_of s b)); discriminate. }
  assert (Eb : bvars (block_of (add_variable s b v) b) <> []).
  { rewrite add_variable_eq. unfold block_of, set_vblk, set_block, set_blocks. cbn [blocks].
    rewrite nth_upd_nth_eq by exact Hb. unfold av_blk. cbn [bvars]. destruct (bvars (block_of s b)); discriminate. }
  unfold blk_of at 1. rewrite add_variable_eq. cbn [vblk set_vblk]. rewrite <- add_variable_eq.
  destruct (nth_upd_nth_or (vblk s) v i b O) as [[_ E]|E]; rewrite E; [exact Eb|].
  apply NE. apply N. exact Hi.
Qed.

Lemma add_variable_len s b v : length (blocks (add_variable s b v)) = length (blocks s).
Proof. rewrite add_variable_eq. cbn. apply upd_nth_length. Qed.

(* ---- new_block *)
Lemma new_block_blocks s x :
  block_of (set_blocks s (blocks s ++ [mkblk [] 0 0 0 0 0 false])) x = block_of s x
  \/ block_of (set_blocks s (blocks s ++ [mkblk [] 0 0 0 0 0 false])) x = mkblk [] 0 0 0 0 0 false.
Proof.
  unfold block_of, set_blocks. cbn [blocks].
  destruct (Nat.lt_ge_cases x (length (blocks s))) as [L|L].
  - left. apply app_nth1. exact L.
  - rewrite app_nth2 by exact L. destruct (x - length (blocks s))%nat as [|[|k]]; cbn.
    + right. reflexivity.
    + left. rewrite nth_overflow by exact L. reflexivity.
    + left. rewrite nth_overflow by exact L. reflexivity.
Qed.
Lemma new_block_Inv0 s : Inv0 s -> Inv0 (snd (new_block s)).
Proof.
  intros I. unfold new_block. cbn [snd]. pose proof (new_block_blocks s) as B. constructor.
  - exact (i_var s I).
  - intros x. destruct (B x) as [E|E]; rewrite E; [apply (i_blk s I)|]. left. split; reflexivity.
  - intros x w. destruct (B x) as [E|E]; rewrite E; [apply (i_rng s I)|]. intros [].
  - exact (i_con s I).
  - exact (i_n s I).
Qed.
Lemma new_block_Inv s : Inv s -> Inv (snd (new_block s)).
Proof.
  intros [I N]. split; [apply new_block_Inv0; exact I|]. unfold new_block. cbn [snd].
  intros i Hi. change (blk_of (set_blocks s (blocks s ++ [mkblk [] 0 0 0 0 0 false])) i) with (blk_of s i).
  unfold block_of, set_blocks. cbn [blocks]. rewrite app_nth1 by (apply Inv_blk_lt; [split; assumption | exact Hi]).
  apply N. exact Hi.
Qed.
Lemma new_block_fst s : fst (new_block s) = length (blocks s).
Proof. reflexivity. Qed.
Lemma new_block_len s : length (blocks (snd (new_block s))) = S (length (blocks s)).
Proof. unfold new_block. cbn. rewrite app_length. cbn. lia. Qed.

(* ---- kill_block *)
Lemma kill_block_Inv s b : Inv s -> Inv (kill_block s b).
Proof.
  intros [I N]. unfold kill_block.
  set (K := mkblk _ _ _ _ _ _ true).
  assert (B : forall x, bvars (block_of (set_block s b K) x) = bvars (block_of s x) /\
                        (blk_ok (block_of s x) -> blk_ok (block_of (set_block s b K) x))).
  { intros x. destruct (block_of_set_block s b K x) as [[-> E]|E]; rewrite E; [|tauto].
    split; [reflexivity|]. intros H. exact H. }
  split.
  - constructor.
    + exact (i_var s I).
    + intros x. apply B. apply (i_blk s I).
    + intros x w. rewrite (proj1 (B x)). apply (i_rng s I).
    + exact (i_con s I).
    + exact (i_n s I).
  - intros i Hi. change (blk_of (set_block s b K) i) with (blk_of s i). rewrite (proj1 (B _)). apply N. exact Hi.
Qed.

(* ---- Block::updateWeightedPosition *)
Lemma stats_fold_sh t s : Inv0 s -> forall l sc ab ad ad' a2,
  (forall v, In v l -> (v < nv s)%nat) -> sc == 1 -> 0 <= a2 -> ad' = Qred (ad + t * a2) ->
  exists ab1 ad1 a21,
    fold_left (stats_add s) l (sc, ab, ad, a2) = (sc, ab1, ad1, a21) /\
    fold_left (stats_add (sh t s)) l (sc, ab, ad', a2) = (sc, ab1, Qred (ad1 + t * a21), a21) /\
    a2 <= a21 /\ (l <> [] -> 0 < a21).
Proof.
  intros I. induction l as [|v l IH]; intros sc ab ad ad' a2 Hl Hsc Ha2 Had; cbn [fold_left].
  - exists ab, ad, a2. rewrite Had. repeat split; try reflexivity; try lra. congruence.
  - assert (Hv : (v < nv s)%nat) by (apply Hl; left; reflexivity).
    destruct (i_var s I v Hv) as [Hs Hw].
    assert (Hai : sc / scl (var_of s v) == 1) by (rewrite Hsc, Hs; field).
    cbn [stats_add]. rewrite (var_of_sh t s v Hv). cbn [shift_var scl wt des].
    change (off_of (sh t s) v) with (off_of s v).
    assert (E : ad' == ad + t * a2) by (rewrite Had; apply Qred_correct).
    rewrite (addvar_ad _ (wt (var_of s v)) _ _ _ (des (var_of s v)) t Hai E).
    set (a2n := Qred (a2 + wt (var_of s v) * (sc / scl (var_of s v)) * (sc / scl (var_of s v)))).
    assert (Hn : a2 < a2n) by (unfold a2n; rewrite Qred_correct, Hai; nra).
    destruct (IH sc (Qred (ab + wt (var_of s v) * (sc / scl (var_of s v)) * (off_of s v / scl (var_of s v))))
                 (Qred (ad + wt (var_of s v) * (sc / scl (var_of s v)) * des (var_of s v)))
                 (Qred (Qred (ad + wt (var_of s v) * (sc / scl (var_of s v)) * des (var_of s v)) + t * a2n)) a2n)
      as [ab1 [ad1 [a21 [F1 [F2 [F3 F4]]]]]].
    + intros w Hw'. apply Hl. right. exact Hw'.
    + exact Hsc.
    + lra.
    + reflexivity.
    + exists ab1, ad1, a21. split; [exact F1|]. split; [exact F2|]. split; [lra|]. intros _. lra.
Qed.

Definition uwp_blk (s : st) (b : nat) : blkT :=
  let B := block_of s b in
  let '(sc, ab, ad, a2) := fold_left (stats_add s) (bvars B) (bscale B, 0, 0, 0) in
  mkblk (bvars B) (Qred ((ad - ab) / a2)) sc ab ad a2 (dead B).
Lemma uwp_eq s b : update_weighted_position s b = set_block s b (uwp_blk s b).
Proof.
  unfold update_weighted_position, uwp_blk.
  destruct (fold_left (stats_add s) (bvars (block_of s b)) (bscale (block_of s b), 0, 0, 0)) as [[[sc ab] ad] a2].
  reflexivity.
Qed.

Lemma uwp_blk_sh t s b : Inv0 s -> uwp_blk (sh t s) b = shift_blk t (uwp_blk s b) /\ blk_ok (uwp_blk s b)
                                   /\ bvars (uwp_blk s b) = bvars (block_of s b).
Proof.
  intros I. unfold uwp_blk. rewrite block_of_sh, bvars_shift, bscale_shift, dead_shift.
  destruct (i_blk s I b) as [[E1 E2]|[E1 [E2 E3]]].
  - rewrite E1. cbn [fold_left]. unfold shift_blk. cbn [bvars]. split; [reflexivity|]. split; [|reflexivity].
    left. split; reflexivity.
  - destruct (stats_fold_sh t s I (bvars (block_of s b)) (bscale (block_of s b)) 0 0 0 0) as [ab1 [ad1 [a21 [F1 [F2 [F3 F4]]]]]].
    + apply (i_rng s I b).
    + exact E3.
    + lra.
    + change 0 with (Qred 0) at 1. apply Qred_complete. ring.
    + rewrite F1, F2. specialize (F4 E1). split; [|split; [|reflexivity]].
      * unfold shift_blk. cbn [bvars posn bscale AB AD A2 dead].
        destruct (bvars (block_of s b)); [congruence|].
        rewrite (addvar_posn ad1 ab1 a21 t) by lra. reflexivity.
      * right. cbn [bvars A2 bscale]. auto.
Qed.

Lemma update_weighted_position_sh t s b :
  Inv0 s -> update_weighted_position (sh t s) b = sh t (update_weighted_position s b).
Proof. intros I. rewrite !uwp_eq, (proj1 (uwp_blk_sh t s b I)). apply set_block_sh. Qed.

Lemma update_weighted_position_Inv s b : Inv s -> Inv (update_weighted_position s b).
Proof.
  intros [I N]. rewrite uwp_eq. destruct (uwp_blk_sh 0 s b I) as [_ [K1 K2]].
  set (K := uwp_blk s b) in *.
  assert (B : forall x, bvars (block_of (set_block s b K) x) = bvars (block_of s x) /\ blk_ok (block_of (set_block s b K) x)).
  { intros x. destruct (block_of_set_block s b K x) as [[-> E]|E]; rewrite E; [tauto|]. split; [reflexivity | apply (i_blk s I)]. }
  split.
  - constructor.
    + exact (i_var s I).
    + intros x. apply B.
    + intros x w. rewrite (proj1 (B x)). apply (i_rng s I).
    + exact (i_con s I).
    + exact (i_n s I).
  - intros i Hi. change (blk_of (set_block s b K) i) with (blk_of s i). rewrite (proj1 (B _)). apply N. exact Hi.
Qed.

Lemma move_blocks_sh t s : Inv s -> move_blocks (sh t s) = sh t (move_blocks s) /\ Inv (move_blocks s).
Proof.
  unfold move_blocks. change (blist (sh t s)) with (blist s). generalize (blist s) as l. intros l. revert s.
  induction l as [|b l IH]; intros s I; cbn [fold_left]; [split; [reflexivity | exact I]|].
  rewrite (update_weighted_position_sh t s b (proj1 I)). apply IH. apply update_weighted_position_Inv. exact I.
Qed.


(* ------------------------------------------------------------------ generic commutation of res-folds *)
Lemma bind_rmap {X Y} (F : X -> X) (G : Y -> Y) (r : res X) (k k' : X -> res Y) :
  (forall x, r = Ok x -> k' (F x) = rmap G (k x)) -> bind (rmap F r) k' = rmap G (bind r k).
Proof. destruct r; cbn; auto. Qed.

Lemma fold_comm {X A} (F : X -> X) (P : X -> Prop) (g : X -> A -> res X) (l : list A) :
  (forall x a, In a l -> P x -> g (F x) a = rmap F (g x a) /\ (forall x', g x a = Ok x' -> P x')) ->
  forall acc, (forall x, acc = Ok x -> P x) ->
    fold_left (fun acc a => bind acc (fun x => g x a)) l (rmap F acc)
    = rmap F (fold_left (fun acc a => bind acc (fun x => g x a)) l acc)
    /\ (forall x', fold_left (fun acc a => bind acc (fun x => g x a)) l acc = Ok x' -> P x').
Proof.
  induction l as [|a l IH]; intros H acc Hacc; cbn [fold_left]; [split; [reflexivity | exact Hacc]|].
  assert (E : bind (rmap F acc) (fun x => g x a) = rmap F (bind acc (fun x => g x a))).
  { apply bind_rmap. intros x Hx. apply H; [left; reflexivity | apply Hacc; exact Hx]. }
  rewrite E. apply IH.
  - intros x b Hb. apply H. right. exact Hb.
  - intros x Hx. destruct acc as [x0| |]; cbn [bind] in Hx; try discriminate.
    exact (proj2 (H x0 a (or_introl eq_refl) (Hacc x0 eq_refl)) x Hx).
Qed.

(* ------------------------------------------------------------------ Block::merge *)
Lemma mstep_sh t this d s v : Inv0 s -> (v < nv s)%nat -> mstep this d (sh t s) v = sh t (mstep this d s v).
Proof.
  intros I Hv. unfold mstep.
  change (set_voff (sh t s) (upd_nth (voff (sh t s)) v (Qred (off_of (sh t s) v + d))))
    with (sh t (set_voff s (upd_nth (voff s) v (Qred (off_of s v + d))))).
  apply add_variable_sh; [|exact Hv]. apply (Inv0_frame s); try reflexivity. exact I.
Qed.
Lemma mstep_Inv this d s v :
  Inv s -> (v < nv s)%nat -> (this < length (blocks s))%nat ->
  Inv (mstep this d s v) /\ length (blocks (mstep this d s v)) = length (blocks s) /\ nv (mstep this d s v) = nv s.
Proof.
  intros I Hv Ht. unfold mstep. split; [|split; [rewrite add_variable_len; reflexivity | reflexivity]].
  apply add_variable_Inv; [|exact Hv|exact Ht]. apply (Inv_frame s); try reflexivity. exact I.
Qed.

Lemma mfold_sh t this d : forall l s,
  Inv s -> (this < length (blocks s))%nat -> (forall v, In v l -> (v < nv s)%nat) ->
  fold_left (mstep this d) l (sh t s) = sh t (fold_left (mstep this d) l s) /\ Inv (fold_left (mstep this d) l s).
Proof.
  induction l as [|v l IH]; intros s I Ht Hl; cbn [fold_left]; [split; [reflexivity | exact I]|].
  assert (Hv : (v < nv s)%nat) by (apply Hl; left; reflexivity).
  destruct (mstep_Inv this d s v I Hv Ht) as [I1 [L1 N1]].
  rewrite (mstep_sh t this d s v (proj1 I) Hv). apply IH; [exact I1 | rewrite L1; exact Ht|].
  intros w Hw. rewrite N1. apply Hl. right. exact Hw.
Qed.

Lemma merge_into_sh t s this b c d :
  Inv s -> (this < length (blocks s))%nat ->
  merge_into (sh t s) this b c d = sh t (merge_into s this b c d) /\ Inv (merge_into s this b c d).
Proof.
  intros I Ht. rewrite !merge_into_unfold.
  change (set_cact (sh t s) (upd_nth (cact (sh t s)) c true)) with (sh t (set_cact s (upd_nth (cact s) c true))).
  set (s1 := set_cact s (upd_nth (cact s) c true)).
  assert (I1 : Inv s1) by (apply (Inv_frame s); try reflexivity; exact I).
  rewrite block_of_sh, bvars_shift.
  destruct (mfold_sh t this d (bvars (block_of s1 b)) s1 I1 Ht (i_rng s1 (proj1 I1) b)) as [E I2].
  rewrite E, kill_block_sh. split; [reflexivity|]. apply kill_block_Inv. exact I2.
Qed.

Lemma merge_sh t s c :
  Inv s -> merge (sh t s) c = (sh t (fst (merge s c)), snd (merge s c)) /\ Inv (fst (merge s c)).
Proof.
  intros I. unfold merge. change (con_of (sh t s) c) with (con_of s c).
  change (off_of (sh t s)) with (off_of s). change (blk_of (sh t s)) with (blk_of s).
  rewrite !block_of_sh, !bvars_shift.
  destruct (i_con s (proj1 I) c) as [Hl Hr].
  destruct (Nat.ltb _ _); cbn [fst snd].
  - destruct (merge_into_sh t s (blk_of s (cr (con_of s c))) (blk_of s (cl (con_of s c))) c
               (off_of s (cr (con_of s c)) - off_of s (cl (con_of s c)) - gap (con_of s c)) I) as [E J].
    + apply Inv_blk_lt; assumption.
    + rewrite E. split; [reflexivity | exact J].
  - destruct (merge_into_sh t s (blk_of s (cl (con_of s c))) (blk_of s (cr (con_of s c))) c
               (- (off_of s (cr (con_of s c)) - off_of s (cl (con_of s c)) - gap (con_of s c))) I) as [E J].
    + apply Inv_blk_lt; assumption.
    + rewrite E. split; [reflexivity | exact J].
Qed.

(* ------------------------------------------------------------------ Block::populateSplitBlock / Block::split *)
Definition pop_in (rec : nat -> option nat -> st -> res st) (this : nat) (u : option nat) (v : nat) (s' : st) (c : nat) : res st :=
  if can_follow_left s' this c u then rec (cl (con_of s' c)) (Some v) s' else Ok s'.
Definition pop_out (rec : nat -> option nat -> st -> res st) (this : nat) (u : option nat) (v : nat) (s' : st) (c : nat) : res st :=
  if can_follow_right s' this c u then rec (cr (con_of s' c)) (Some v) s' else Ok s'.

Lemma populate_S f this b v u s :
  populate (S f) this b v u s =
  fold_left (fun acc c => bind acc (fun s' => pop_out (populate f this b) this u v s' c)) (outs_of s v)
    (fold_left (fun acc c => bind acc (fun s' => pop_in (populate f this b) this u v s' c)) (ins_of s v)
       (Ok (add_variable s b v))).
Proof. reflexivity. Qed.

Definition popP (b : nat) (L : nat) (x : st) : Prop := Inv x /\ length (blocks x) = L /\ (b < L)%nat.

Lemma populate_sh t : forall fuel this b v u s,
  Inv s -> (v < nv s)%nat -> (b < length (blocks s))%nat ->
  populate fuel this b v u (sh t s) = rmap (sh t) (populate fuel this b v u s) /\
  forall s', populate fuel this b v u s = Ok s' -> Inv s' /\ length (blocks s') = length (blocks s).
Proof.
  induction fuel as [|f IH]; intros this b v u s I Hv Hb; [split; [reflexivity | discriminate]|].
  rewrite !populate_S.
  change (ins_of (sh t s) v) with (ins_of s v). change (outs_of (sh t s) v) with (outs_of s v).
  rewrite (add_variable_sh t s b v (proj1 I) Hv).
  set (L := length (blocks s)).
  set (A0 := Ok (add_variable s b v)).
  change (Ok (sh t (add_variable s b v))) with (rmap (sh t) A0).
  assert (P0 : forall x, A0 = Ok x -> popP b L x).
  { intros x [= <-]. split; [apply add_variable_Inv; assumption|]. split; [apply add_variable_len | exact Hb]. }
  destruct (fold_comm (sh t) (popP b L) (pop_in (populate f this b) this u v) (ins_of s v)) with (acc := A0) as [E1 Q1].
  { intros x c _ [Ix [Lx Bx]]. unfold pop_in.
    change (can_follow_left (sh t x) this c u) with (can_follow_left x this c u).
    change (con_of (sh t x) c) with (con_of x c).
    destruct (can_follow_left x this c u).
    - destruct (IH this b (cl (con_of x c)) (Some v) x Ix) as [E Q].
      + apply (i_con x (proj1 Ix)).
      + rewrite Lx. exact Bx.
      + split; [exact E|]. intros x' Hx'. destruct (Q x' Hx') as [Q1 Q2]. split; [exact Q1|]. split; [congruence | exact Bx].
    - split; [reflexivity|]. intros x' [= <-]. split; [exact Ix|]. split; assumption. }
  { exact P0. }
  rewrite E1.
  destruct (fold_comm (sh t) (popP b L) (pop_out (populate f this b) this u v) (outs_of s v)) with
    (acc := fold_left (fun acc c => bind acc (fun s' => pop_in (populate f this b) this u v s' c)) (ins_of s v) A0) as [E2 Q2].
  { intros x c _ [Ix [Lx Bx]]. unfold pop_out.
    change (can_follow_right (sh t x) this c u) with (can_follow_right x this c u).
    change (con_of (sh t x) c) with (con_of x c).
    destruct (can_follow_right x this c u).
    - destruct (IH this b (cr (con_of x c)) (Some v) x Ix) as [E Q].
      + apply (i_con x (proj1 Ix)).
      + rewrite Lx. exact Bx.
      + split; [exact E|]. intros x' Hx'. destruct (Q x' Hx') as [Q3 Q4]. split; [exact Q3|]. split; [congruence | exact Bx].
    - split; [reflexivity|]. intros x' [= <-]. split; [exact Ix|]. split; assumption. }
  { exact Q1. }
  rewrite E2. split; [reflexivity|]. intros s' Hs'. destruct (Q2 s' Hs') as [A [B _]]. split; assumption.
Qed.

Definition sh3 {A B} (t : Q) (x : st * A * B) : st * A * B := (sh t (fst (fst x)), snd (fst x), snd x).

Lemma split_eq s this c :
  split s this c =
  bind (populate (walk_fuel s) this (length (blocks s)) (cl (con_of s c)) (Some (cr (con_of s c)))
          (snd (new_block (set_cact s (upd_nth (cact s) c false))))) (fun s2 =>
  bind (populate (walk_fuel s) this (length (blocks s2)) (cr (con_of s c)) (Some (cl (con_of s c))) (snd (new_block s2))) (fun s4 =>
  Ok (s4, length (blocks s), length (blocks s2)))).
Proof. reflexivity. Qed.

Lemma split_sh t s this c :
  Inv s -> split (sh t s) this c = rmap (sh3 t) (split s this c) /\
           forall s' l r, split s this c = Ok (s', l, r) -> Inv s'.
Proof.
  intros I. rewrite !split_eq. rewrite walk_fuel_sh.
  change (con_of (sh t s) c) with (con_of s c).
  change (set_cact (sh t s) (upd_nth (cact (sh t s)) c false)) with (sh t (set_cact s (upd_nth (cact s) c false))).
  set (s0 := set_cact s (upd_nth (cact s) c false)).
  assert (I0 : Inv s0) by (apply (Inv_frame s); try reflexivity; exact I).
  rewrite new_block_sh. cbn [snd].
  assert (Lsh : forall x, length (blocks (sh t x)) = length (blocks x)) by (intros x; unfold sh; cbn [blocks]; apply map_length).
  rewrite Lsh.
  destruct (i_con s (proj1 I) c) as [Hl Hr].
  destruct (populate_sh t (walk_fuel s) this (length (blocks s)) (cl (con_of s c)) (Some (cr (con_of s c)))
              (snd (new_block s0)) (new_block_Inv s0 I0)) as [E1 Q1].
  { exact Hl. }
  { rewrite new_block_len. change (length (blocks s0)) with (length (blocks s)). lia. }
  rewrite E1.
  destruct (populate (walk_fuel s) this (length (blocks s)) (cl (con_of s c)) (Some (cr (con_of s c))) (snd (new_block s0)))
    as [s2| |] eqn:P1; cbn [rmap bind]; [|split; [reflexivity | discriminate]..].
  destruct (Q1 s2 eq_refl) as [I2 L2].
  rewrite new_block_sh. cbn [snd]. rewrite Lsh.
  destruct (populate_sh t (walk_fuel s) this (length (blocks s2)) (cr (con_of s c)) (Some (cl (con_of s c)))
              (snd (new_block s2)) (new_block_Inv s2 I2)) as [E2 Q2].
  { assert (N2 : nv s2 = nv s).
    { apply populate_core in P1. destruct P1 as [_ [_ [P1 _]]]. unfold nv. rewrite P1. reflexivity. }
    change (nv (snd (new_block s2))) with (nv s2). rewrite N2. exact Hr. }
  { rewrite new_block_len. lia. }
  rewrite E2.
  destruct (populate (walk_fuel s) this (length (blocks s2)) (cr (con_of s c)) (Some (cl (con_of s c))) (snd (new_block s2)))
    as [s4| |] eqn:P2; cbn [rmap bind]; [|split; [reflexivity | discriminate]..].
  split; [reflexivity|]. intros s' l r [= <- _ _]. apply (Q2 s4 eq_refl).
Qed.


Definition shr {A} (t : Q) (x : A * st) : A * st := (fst x, sh t (snd x)).
Definition InvN (n : nat) (s : st) : Prop := Inv s /\ nv s = n.

Lemma set_lm_Inv s c x : Inv s -> Inv (set_lm s c x).
Proof. apply Inv_frame; reflexivity. Qed.

Lemma upd_min_sh t s c mn : upd_min (sh t s) c mn = shr t (upd_min s c mn).
Proof.
  unfold upd_min. change (con_of (sh t s) c) with (con_of s c). change (lm_of (sh t s)) with (lm_of s).
  destruct (ceq (con_of s c)); [reflexivity|]. destruct mn as [m0|]; [|reflexivity].
  rewrite note_sh. destruct (Qltb _ _); reflexivity.
Qed.
Lemma upd_min_Inv s c mn : Inv s -> Inv (snd (upd_min s c mn)).
Proof.
  intros I. unfold upd_min. destruct (ceq (con_of s c)); [exact I|]. destruct mn as [m0|]; [|exact I].
  destruct (Qltb _ _); cbn [snd]; apply Inv_note; exact I.
Qed.

(* ------------------------------------------------------------------ Block::reset_active_lm *)
Definition ra_out (rec : nat -> option nat -> st -> res st) (this : nat) (u : option nat) (v : nat) (s' : st) (c : nat) : res st :=
  if can_follow_right s' this c u then rec (cr (con_of s' c)) (Some v) (set_lm s' c 0) else Ok s'.
Definition ra_in (rec : nat -> option nat -> st -> res st) (this : nat) (u : option nat) (v : nat) (s' : st) (c : nat) : res st :=
  if can_follow_left s' this c u then rec (cl (con_of s' c)) (Some v) (set_lm s' c 0) else Ok s'.
Lemma reset_active_lm_S f this v u s :
  reset_active_lm (S f) this v u s =
  fold_left (fun acc c => bind acc (fun s' => ra_in (reset_active_lm f this) this u v s' c)) (ins_of s v)
    (fold_left (fun acc c => bind acc (fun s' => ra_out (reset_active_lm f this) this u v s' c)) (outs_of s v) (Ok s)).
Proof. reflexivity. Qed.

Lemma reset_active_lm_sh t : forall fuel this v u s,
  Inv s ->
  reset_active_lm fuel this v u (sh t s) = rmap (sh t) (reset_active_lm fuel this v u s) /\
  forall s', reset_active_lm fuel this v u s = Ok s' -> InvN (nv s) s'.
Proof.
  induction fuel as [|f IH]; intros this v u s I; [split; [reflexivity | discriminate]|].
  rewrite !reset_active_lm_S.
  change (ins_of (sh t s) v) with (ins_of s v). change (outs_of (sh t s) v) with (outs_of s v).
  set (n := nv s). set (A0 := @Ok st s).
  change (Ok (sh t s)) with (rmap (sh t) A0).
  assert (P0 : forall x, A0 = Ok x -> InvN n x) by (intros x [= <-]; split; [exact I | reflexivity]).
  destruct (fold_comm (sh t) (InvN n) (ra_out (reset_active_lm f this) this u v) (outs_of s v)) with (acc := A0) as [E1 Q1].
  { intros x c _ [Ix Nx]. unfold ra_out.
    change (can_follow_right (sh t x) this c u) with (can_follow_right x this c u).
    change (con_of (sh t x) c) with (con_of x c).
    change (set_lm (sh t x) c 0) with (sh t (set_lm x c 0)).
    destruct (can_follow_right x this c u).
    - destruct (IH this (cr (con_of x c)) (Some v) (set_lm x c 0) (set_lm_Inv x c 0 Ix)) as [E Q].
      split; [exact E|]. intros x' Hx'. destruct (Q x' Hx') as [Q1 Q2]. split; [exact Q1|]. rewrite Q2. exact Nx.
    - split; [reflexivity|]. intros x' [= <-]. split; assumption. }
  { exact P0. }
  rewrite E1.
  destruct (fold_comm (sh t) (InvN n) (ra_in (reset_active_lm f this) this u v) (ins_of s v)) with
    (acc := fold_left (fun acc c => bind acc (fun s' => ra_out (reset_active_lm f this) this u v s' c)) (outs_of s v) A0) as [E2 Q2].
  { intros x c _ [Ix Nx]. unfold ra_in.
    change (can_follow_left (sh t x) this c u) with (can_follow_left x this c u).
    change (con_of (sh t x) c) with (con_of x c).
    change (set_lm (sh t x) c 0) with (sh t (set_lm x c 0)).
    destruct (can_follow_left x this c u).
    - destruct (IH this (cl (con_of x c)) (Some v) (set_lm x c 0) (set_lm_Inv x c 0 Ix)) as [E Q].
      split; [exact E|]. intros x' Hx'. destruct (Q x' Hx') as [Q3 Q4]. split; [exact Q3|]. rewrite Q4. exact Nx.
    - split; [reflexivity|]. intros x' [= <-]. split; assumption. }
  { exact Q1. }
  rewrite E2. split; [reflexivity | exact Q2].
Qed.

(* ------------------------------------------------------------------ Block::compute_dfdv *)
Notation cdT := (Q * option nat * st)%type (only parsing).
Definition cd_out (rec : nat -> option nat -> option nat -> st -> res cdT) (track : bool) (this : nat) (u : option nat) (v : nat)
  (a : cdT) (c : nat) : res cdT :=
  let '(d, mn1, s1) := a in
  if can_follow_right s1 this c u then
    bind (rec (cr (con_of s1 c)) (Some v) mn1 s1) (fun r =>
      let '(lmv, mn2, s2) := r in
      let s3 := set_lm s2 c lmv in
      let d' := Qred (d + lmv * scl (var_of s3 (cl (con_of s3 c)))) in
      if track then let '(mn3, s4) := upd_min s3 c mn2 in Ok (d', mn3, s4) else Ok (d', mn2, s3))
  else Ok a.
Definition cd_in (rec : nat -> option nat -> option nat -> st -> res cdT) (track : bool) (this : nat) (u : option nat) (v : nat)
  (a : cdT) (c : nat) : res cdT :=
  let '(d, mn1, s1) := a in
  if can_follow_left s1 this c u then
    bind (rec (cl (con_of s1 c)) (Some v) mn1 s1) (fun r =>
      let '(lmv0, mn2, s2) := r in
      let lmv := Qred (- lmv0) in
      let s3 := set_lm s2 c lmv in
      let d' := Qred (d - lmv * scl (var_of s3 (cr (con_of s3 c)))) in
      if track then let '(mn3, s4) := upd_min s3 c mn2 in Ok (d', mn3, s4) else Ok (d', mn2, s3))
  else Ok a.
Lemma compute_dfdv_S f track this v u mn s :
  compute_dfdv (S f) track this v u mn s =
  bind (fold_left (fun acc c => bind acc (fun a => cd_in (compute_dfdv f track this) track this u v a c)) (ins_of s v)
         (fold_left (fun acc c => bind acc (fun a => cd_out (compute_dfdv f track this) track this u v a c)) (outs_of s v)
            (Ok (dfdv s v, mn, s))))
       (fun a => let '(d, mn', s') := a in Ok (Qred (d / scl (var_of s' v)), mn', s')).
Proof. reflexivity. Qed.

Definition rec_ok (t : Q) (rec : nat -> option nat -> option nat -> st -> res cdT) : Prop :=
  forall v u mn s, Inv s -> (v < nv s)%nat ->
    rec v u mn (sh t s) = rmap (shr t) (rec v u mn s) /\ forall r, rec v u mn s = Ok r -> Inv (snd r).

Lemma cd_out_sh t rec track this u v (a : cdT) c :
  rec_ok t rec -> Inv (snd a) ->
  cd_out rec track this u v (shr t a) c = rmap (shr t) (cd_out rec track this u v a c) /\
  forall a', cd_out rec track this u v a c = Ok a' -> Inv (snd a').
Proof.
  intros R Ia. destruct a as [[d mn1] s1]. cbn [snd] in Ia. unfold shr. cbn [fst snd]. unfold cd_out.
  change (can_follow_right (sh t s1) this c u) with (can_follow_right s1 this c u).
  change (con_of (sh t s1) c) with (con_of s1 c).
  destruct (can_follow_right s1 this c u); [|split; [reflexivity | intros a' [= <-]; exact Ia]].
  destruct (R (cr (con_of s1 c)) (Some v) mn1 s1 Ia (proj2 (i_con s1 (proj1 Ia) c))) as [E Q].
  rewrite E. destruct (rec (cr (con_of s1 c)) (Some v) mn1 s1) as [[[lmv mn2] s2]| |];
    cbn [rmap bind shr fst snd]; [|split; [reflexivity | discriminate]..].
  specialize (Q _ eq_refl). cbn [snd] in Q.
  change (set_lm (sh t s2) c lmv) with (sh t (set_lm s2 c lmv)).
  rewrite scl_sh. change (con_of (sh t (set_lm s2 c lmv)) c) with (con_of (set_lm s2 c lmv) c).
  destruct track.
  - rewrite upd_min_sh. pose proof (upd_min_Inv (set_lm s2 c lmv) c mn2 (set_lm_Inv s2 c lmv Q)) as U.
    destruct (upd_min (set_lm s2 c lmv) c mn2) as [mn3 s4]. cbn [shr fst snd] in *.
    split; [reflexivity | intros a' [= <-]; exact U].
  - split; [reflexivity | intros a' [= <-]; apply set_lm_Inv; exact Q].
Qed.
Lemma cd_in_sh t rec track this u v (a : cdT) c :
  rec_ok t rec -> Inv (snd a) ->
  cd_in rec track this u v (shr t a) c = rmap (shr t) (cd_in rec track this u v a c) /\
  forall a', cd_in rec track this u v a c = Ok a' -> Inv (snd a').
Proof.
  intros R Ia. destruct a as [[d mn1] s1]. cbn [snd] in Ia. unfold shr. cbn [fst snd]. unfold cd_in.
  change (can_follow_left (sh t s1) this c u) with (can_follow_left s1 this c u).
  change (con_of (sh t s1) c) with (con_of s1 c).
  destruct (can_follow_left s1 this c u); [|split; [reflexivity | intros a' [= <-]; exact Ia]].
  destruct (R (cl (con_of s1 c)) (Some v) mn1 s1 Ia (proj1 (i_con s1 (proj1 Ia) c))) as [E Q].
  rewrite E. destruct (rec (cl (con_of s1 c)) (Some v) mn1 s1) as [[[lmv0 mn2] s2]| |];
    cbn [rmap bind shr fst snd]; [|split; [reflexivity | discriminate]..].
  specialize (Q _ eq_refl). cbn [snd] in Q.
  set (lmv := Qred (- lmv0)).
  change (set_lm (sh t s2) c lmv) with (sh t (set_lm s2 c lmv)).
  rewrite scl_sh. change (con_of (sh t (set_lm s2 c lmv)) c) with (con_of (set_lm s2 c lmv) c).
  destruct track.
  - rewrite upd_min_sh. pose proof (upd_min_Inv (set_lm s2 c lmv) c mn2 (set_lm_Inv s2 c lmv Q)) as U.
    destruct (upd_min (set_lm s2 c lmv) c mn2) as [mn3 s4]. cbn [shr fst snd] in *.
    split; [reflexivity | intros a' [= <-]; exact U].
  - split; [reflexivity | intros a' [= <-]; apply set_lm_Inv; exact Q].
Qed.

Lemma compute_dfdv_sh t : forall fuel track this, rec_ok t (compute_dfdv fuel track this).
Proof.
  induction fuel as [|f IH]; intros track this v u mn s I Hv; [split; [reflexivity | discriminate]|].
  rewrite !compute_dfdv_S.
  change (ins_of (sh t s) v) with (ins_of s v). change (outs_of (sh t s) v) with (outs_of s v).
  rewrite (dfdv_sh t s v I Hv).
  set (A0 := @Ok cdT (dfdv s v, mn, s)).
  change (Ok (dfdv s v, mn, sh t s)) with (rmap (shr t) A0).
  set (P := fun a : cdT => Inv (snd a)).
  assert (P0 : forall x, A0 = Ok x -> P x) by (intros x [= <-]; exact I).
  destruct (fold_comm (shr t) P (cd_out (compute_dfdv f track this) track this u v) (outs_of s v)) with (acc := A0) as [E1 Q1].
  { intros x c _ Px. apply cd_out_sh; [apply IH | exact Px]. }
  { exact P0. }
  rewrite E1.
  destruct (fold_comm (shr t) P (cd_in (compute_dfdv f track this) track this u v) (ins_of s v)) with
    (acc := fold_left (fun acc c => bind acc (fun a => cd_out (compute_dfdv f track this) track this u v a c)) (outs_of s v) A0) as [E2 Q2].
  { intros x c _ Px. apply cd_in_sh; [apply IH | exact Px]. }
  { exact Q1. }
  rewrite E2.
  destruct (fold_left _ (ins_of s v) (fold_left _ _ A0)) as [[[d mn'] s']| |]; cbn [rmap bind shr fst snd]; [|split; [reflexivity | discriminate]..].
  specialize (Q2 _ eq_refl). unfold P in Q2. cbn [snd] in Q2.
  rewrite scl_sh. split; [reflexivity | intros r [= <-]; exact Q2].
Qed.

(* ------------------------------------------------------------------ Block::findMinLM *)
Lemma find_min_lm_sh t s b :
  Inv s -> find_min_lm (sh t s) b = rmap (shr t) (find_min_lm s b) /\
           forall r, find_min_lm s b = Ok r -> Inv (snd r).
Proof.
  intros I. unfold find_min_lm. rewrite walk_fuel_sh, front_sh.
  destruct (reset_active_lm_sh t (walk_fuel s) b (front s b) None s I) as [E1 Q1]. rewrite E1.
  destruct (reset_active_lm (walk_fuel s) b (front s b) None s) as [s1| |]; cbn [rmap bind]; [|split; [reflexivity | discriminate]..].
  destruct (Q1 s1 eq_refl) as [I1 N1].
  destruct (compute_dfdv_sh t (walk_fuel s) true b (front s b) None None s1 I1) as [E2 Q2].
  { rewrite N1. apply Inv_front. exact (proj1 I). }
  rewrite E2.
  destruct (compute_dfdv (walk_fuel s) true b (front s b) None None s1) as [[[d mn] s2]| |]; cbn [rmap bind shr fst snd];
    [|split; [reflexivity | discriminate]..].
  specialize (Q2 _ eq_refl). split; [reflexivity | intros r [= <-]; exact Q2].
Qed.


(* definitional facts, as rewrite rules *)
Lemma con_of_sh t s c : con_of (sh t s) c = con_of s c. Proof. reflexivity. Qed.
Lemma blk_of_sh t s i : blk_of (sh t s) i = blk_of s i. Proof. reflexivity. Qed.
Lemma off_of_sh t s i : off_of (sh t s) i = off_of s i. Proof. reflexivity. Qed.
Lemma act_of_sh t s c : act_of (sh t s) c = act_of s c. Proof. reflexivity. Qed.
Lemma lm_of_sh t s c : lm_of (sh t s) c = lm_of s c. Proof. reflexivity. Qed.
Lemma inactive_sh t s : inactive (sh t s) = inactive s. Proof. reflexivity. Qed.
Lemma blist_sh t s : blist (sh t s) = blist s. Proof. reflexivity. Qed.
Lemma set_inactive_sh t s x : set_inactive (sh t s) x = sh t (set_inactive s x). Proof. reflexivity. Qed.
Lemma set_blist_sh t s x : set_blist (sh t s) x = sh t (set_blist s x). Proof. reflexivity. Qed.
Lemma flag_unsat_sh t s c : flag_unsat (sh t s) c = sh t (flag_unsat s c). Proof. reflexivity. Qed.
Lemma can_follow_left_sh t s this c u : can_follow_left (sh t s) this c u = can_follow_left s this c u. Proof. reflexivity. Qed.
Lemma can_follow_right_sh t s this c u : can_follow_right (sh t s) this c u = can_follow_right s this c u. Proof. reflexivity. Qed.

Lemma set_inactive_Inv s x : Inv s -> Inv (set_inactive s x).
Proof. apply Inv_frame; reflexivity. Qed.
Lemma set_blist_Inv s x : Inv s -> Inv (set_blist s x).
Proof. apply Inv_frame; reflexivity. Qed.
Lemma flag_unsat_Inv s c : Inv s -> Inv (flag_unsat s c).
Proof. apply Inv_frame; reflexivity. Qed.
Lemma cleanup_Inv s : Inv s -> Inv (cleanup s).
Proof. apply Inv_frame; reflexivity. Qed.

(* ------------------------------------------------------------------ Block::split_path *)
Notation spT := (bool * option nat * st)%type (only parsing).
Definition sp_in (rec : nat -> option nat -> option nat -> st -> res spT) (this r : nat) (u : option nat) (v : nat)
  (a : spT) (c : nat) : res spT :=
  let '(fnd, m1, s1) := a in
  if fnd then Ok a
  else if can_follow_left s1 this c u then
    if Nat.eqb (cl (con_of s1 c)) r then Ok (true, m1, s1)
    else bind (rec (cl (con_of s1 c)) (Some v) m1 s1) (fun b => let '(fnd2, m2, s2) := b in Ok (fnd2, m2, s2))
  else Ok a.
Definition sp_out (rec : nat -> option nat -> option nat -> st -> res spT) (this r : nat) (u : option nat) (v : nat)
  (a : spT) (c : nat) : res spT :=
  let '(fnd, m1, s1) := a in
  if fnd then Ok a
  else if can_follow_right s1 this c u then
    if Nat.eqb (cr (con_of s1 c)) r
    then Ok (true, (if ceq (con_of s1 c) then m1 else Some c), s1)
    else bind (rec (cr (con_of s1 c)) (Some v) m1 s1) (fun b =>
           let '(fnd2, m2, s2) := b in
           if fnd2 then
             if ceq (con_of s2 c) then Ok (true, m2, s2)
             else match m2 with
                  | None => Ok (true, Some c, s2)
                  | Some m0 => let s3 := note s2 (lm_of s2 c) (lm_of s2 m0) in
                               if Qltb (lm_of s2 c) (lm_of s2 m0) then Ok (true, Some c, s3)
                               else Ok (true, m2, s3)
                  end
           else Ok (false, m2, s2))
  else Ok a.
Lemma split_path_S f this r v u m s :
  split_path (S f) this r v u m s =
  fold_left (fun acc c => bind acc (fun a => sp_out (split_path f this r) this r u v a c)) (outs_of s v)
    (fold_left (fun acc c => bind acc (fun a => sp_in (split_path f this r) this r u v a c)) (ins_of s v) (Ok (false, m, s))).
Proof. reflexivity. Qed.

Definition rec_ok2 (t : Q) (rec : nat -> option nat -> option nat -> st -> res spT) : Prop :=
  forall v u m s, Inv s ->
    rec v u m (sh t s) = rmap (shr t) (rec v u m s) /\ forall r, rec v u m s = Ok r -> Inv (snd r).

Lemma sp_in_sh t rec this r u v (a : spT) c :
  rec_ok2 t rec -> Inv (snd a) ->
  sp_in rec this r u v (shr t a) c = rmap (shr t) (sp_in rec this r u v a c) /\
  forall a', sp_in rec this r u v a c = Ok a' -> Inv (snd a').
Proof.
  intros R Ia. destruct a as [[fnd m1] s1]. cbn [snd] in Ia. unfold shr. cbn [fst snd]. unfold sp_in.
  rewrite can_follow_left_sh, con_of_sh.
  destruct fnd; [split; [reflexivity | intros a' [= <-]; exact Ia]|].
  destruct (can_follow_left s1 this c u); [|split; [reflexivity | intros a' [= <-]; exact Ia]].
  destruct (Nat.eqb _ r); [split; [reflexivity | intros a' [= <-]; exact Ia]|].
  destruct (R (cl (con_of s1 c)) (Some v) m1 s1 Ia) as [E Q]. rewrite E.
  destruct (rec (cl (con_of s1 c)) (Some v) m1 s1) as [[[fnd2 m2] s2]| |]; cbn [rmap bind shr fst snd];
    [|split; [reflexivity | discriminate]..].
  specialize (Q _ eq_refl). split; [reflexivity | intros a' [= <-]; exact Q].
Qed.
Lemma sp_out_sh t rec this r u v (a : spT) c :
  rec_ok2 t rec -> Inv (snd a) ->
  sp_out rec this r u v (shr t a) c = rmap (shr t) (sp_out rec this r u v a c) /\
  forall a', sp_out rec this r u v a c = Ok a' -> Inv (snd a').
Proof.
  intros R Ia. destruct a as [[fnd m1] s1]. cbn [snd] in Ia. unfold shr. cbn [fst snd]. unfold sp_out.
  rewrite can_follow_right_sh, !con_of_sh.
  destruct fnd; [split; [reflexivity | intros a' [= <-]; exact Ia]|].
  destruct (can_follow_right s1 this c u); [|split; [reflexivity | intros a' [= <-]; exact Ia]].
  destruct (Nat.eqb _ r); [split; [reflexivity | intros a' [= <-]; exact Ia]|].
  destruct (R (cr (con_of s1 c)) (Some v) m1 s1 Ia) as [E Q]. rewrite E.
  destruct (rec (cr (con_of s1 c)) (Some v) m1 s1) as [[[fnd2 m2] s2]| |]; cbn [rmap bind shr fst snd];
    [|split; [reflexivity | discriminate]..].
  specialize (Q _ eq_refl). cbn [snd] in Q. rewrite con_of_sh.
  destruct fnd2; [|split; [reflexivity | intros a' [= <-]; exact Q]].
  destruct (ceq (con_of s2 c)); [split; [reflexivity | intros a' [= <-]; exact Q]|].
  destruct m2 as [m0|]; [|split; [reflexivity | intros a' [= <-]; exact Q]].
  rewrite !lm_of_sh, note_sh.
  destruct (Qltb _ _); (split; [reflexivity | intros a' [= <-]; apply Inv_note; exact Q]).
Qed.

Lemma split_path_sh t : forall fuel this r, rec_ok2 t (split_path fuel this r).
Proof.
  induction fuel as [|f IH]; intros this r v u m s I; [split; [reflexivity | discriminate]|].
  rewrite !split_path_S.
  change (ins_of (sh t s) v) with (ins_of s v). change (outs_of (sh t s) v) with (outs_of s v).
  set (A0 := @Ok spT (false, m, s)).
  change (Ok (false, m, sh t s)) with (rmap (shr t) A0).
  set (P := fun a : spT => Inv (snd a)).
  assert (P0 : forall x, A0 = Ok x -> P x) by (intros x [= <-]; exact I).
  destruct (fold_comm (shr t) P (sp_in (split_path f this r) this r u v) (ins_of s v)) with (acc := A0) as [E1 Q1].
  { intros x c _ Px. apply sp_in_sh; [apply IH | exact Px]. }
  { exact P0. }
  rewrite E1.
  destruct (fold_comm (shr t) P (sp_out (split_path f this r) this r u v) (outs_of s v)) with
    (acc := fold_left (fun acc c => bind acc (fun a => sp_in (split_path f this r) this r u v a c)) (ins_of s v) A0) as [E2 Q2].
  { intros x c _ Px. apply sp_out_sh; [apply IH | exact Px]. }
  { exact Q1. }
  rewrite E2. split; [reflexivity | exact Q2].
Qed.

(* ------------------------------------------------------------------ Block::findMinLMBetween *)
Lemma find_min_lm_between_sh t s b lv rv :
  Inv s -> find_min_lm_between (sh t s) b lv rv = rmap (shr t) (find_min_lm_between s b lv rv) /\
           forall r, find_min_lm_between s b lv rv = Ok r -> Inv (snd r).
Proof.
  intros I. unfold find_min_lm_between. rewrite walk_fuel_sh, front_sh.
  destruct (reset_active_lm_sh t (walk_fuel s) b (front s b) None s I) as [E1 Q1]. rewrite E1.
  destruct (reset_active_lm (walk_fuel s) b (front s b) None s) as [s1| |]; cbn [rmap bind]; [|split; [reflexivity | discriminate]..].
  destruct (Q1 s1 eq_refl) as [I1 N1].
  destruct (compute_dfdv_sh t (walk_fuel s) false b (front s b) None None s1 I1) as [E2 Q2].
  { rewrite N1. apply Inv_front. exact (proj1 I). }
  rewrite E2.
  destruct (compute_dfdv (walk_fuel s) false b (front s b) None None s1) as [[[d mn] s2]| |]; cbn [rmap bind shr fst snd];
    [|split; [reflexivity | discriminate]..].
  specialize (Q2 _ eq_refl). cbn [snd] in Q2.
  destruct (split_path_sh t (walk_fuel s) b rv lv None None s2 Q2) as [E3 Q3]. rewrite E3.
  destruct (split_path (walk_fuel s) b rv lv None None s2) as [[[fnd m] s3]| |]; cbn [rmap bind shr fst snd];
    [|split; [reflexivity | discriminate]..].
  specialize (Q3 _ eq_refl). split; [reflexivity | intros r [= <-]; exact Q3].
Qed.

(* ------------------------------------------------------------------ Block::isActiveDirectedPathBetween *)
Lemma is_active_directed_path_between_sh t : forall fuel s this u v,
  is_active_directed_path_between fuel (sh t s) this u v = is_active_directed_path_between fuel s this u v.
Proof.
  induction fuel as [|f IH]; intros s this u v; [reflexivity|]. cbn [is_active_directed_path_between].
  destruct (Nat.eqb u v); [reflexivity|].
  change (outs_of (sh t s) u) with (outs_of s u).
  apply fold_left_ext_in. intros acc c _. destruct acc as [fnd| |]; cbn [bind]; try reflexivity.
  destruct fnd; [reflexivity|]. rewrite can_follow_right_sh, con_of_sh.
  destruct (can_follow_right s this c None); [apply IH | reflexivity].
Qed.

(* ------------------------------------------------------------------ IncSolver::mostViolated *)
Lemma mv_scan_sh t : forall l s idx best mv del,
  Inv s -> mv_scan (sh t s) l idx best mv del = shr t (mv_scan s l idx best mv del) /\
           Inv (snd (mv_scan s l idx best mv del)).
Proof.
  induction l as [|c l IH]; intros s idx best mv del I; cbn [mv_scan]; [split; [reflexivity | exact I]|].
  rewrite (slack_sh t s c I), note_opt_sh, con_of_sh.
  pose proof (Inv_note_opt s (slack s c) best I) as I1.
  destruct (ceq (con_of s c)); [split; [reflexivity | exact I1]|].
  destruct (lt_inf (slack s c) best); apply IH; exact I1.
Qed.

Lemma most_violated_sh t s :
  Inv s -> most_violated (sh t s) = shr t (most_violated s) /\ Inv (snd (most_violated s)).
Proof.
  intros I. unfold most_violated. rewrite inactive_sh.
  destruct (mv_scan_sh t (inactive s) s O None None (length (inactive s)) I) as [E Q]. rewrite E.
  destruct (mv_scan s (inactive s) 0 None None (length (inactive s))) as [[[best mv] del] s1]. cbn [shr fst snd] in *.
  destruct mv as [c|]; [|split; [reflexivity | exact Q]].
  rewrite note_opt_sh, act_of_sh, con_of_sh, set_inactive_sh.
  pose proof (Inv_note_opt s1 best (Some ZERO_UPPERBOUND) Q) as I2.
  destruct (_ && _); cbn [shr fst snd]; (split; [reflexivity|]); [apply set_inactive_Inv|]; exact I2.
Qed.

(* ------------------------------------------------------------------ the satisfy loop *)
Lemma satisfy_step_sh t s :
  Inv s -> satisfy_step (sh t s) = rmap (shr t) (satisfy_step s) /\
           forall r, satisfy_step s = Ok r -> Inv (snd r).
Proof.
  intros I. unfold satisfy_step.
  destruct (most_violated_sh t s I) as [E Q]. rewrite E.
  destruct (most_violated s) as [mv s1]. cbn [shr fst snd] in *.
  destruct mv as [v|]; [|split; [reflexivity | intros r [= <-]; exact Q]].
  rewrite con_of_sh, (slack_sh t s1 v Q), note_opt_sh.
  set (s2 := note_opt s1 (slack s1 v) (Some ZERO_UPPERBOUND)).
  assert (I2 : Inv s2) by (apply Inv_note_opt; exact Q).
  rewrite (slack_sh t s2 v I2), act_of_sh, !blk_of_sh.
  set (k := con_of s1 v).
  destruct (ceq k || _); [|split; [reflexivity | intros r [= <-]; exact I2]].
  destruct (negb (Nat.eqb (blk_of s2 (cl k)) (blk_of s2 (cr k)))).
  { destruct (merge_sh t s2 v I2) as [E1 Q1]. rewrite E1. cbn [fst].
    split; [reflexivity | intros r [= <-]; exact Q1]. }
  rewrite walk_fuel_sh, is_active_directed_path_between_sh.
  destruct (is_active_directed_path_between (walk_fuel s2) s2 (blk_of s2 (cl k)) (cr k) (cl k)) as [cyc| |];
    cbn [rmap bind]; [|split; [reflexivity | discriminate]..].
  destruct cyc.
  { rewrite flag_unsat_sh. split; [reflexivity | intros r [= <-]; apply flag_unsat_Inv; exact I2]. }
  destruct (find_min_lm_between_sh t s2 (blk_of s2 (cl k)) (cl k) (cr k) I2) as [E3 Q3]. rewrite E3.
  destruct (find_min_lm_between s2 (blk_of s2 (cl k)) (cl k) (cr k)) as [[sc s3]| |]; cbn [rmap bind shr fst snd];
    [|split; [reflexivity | discriminate]..].
  specialize (Q3 _ eq_refl). cbn [snd] in Q3.
  destruct sc as [spl|].
  2:{ rewrite flag_unsat_sh. split; [reflexivity | intros r [= <-]; apply flag_unsat_Inv; exact Q3]. }
  destruct (split_sh t s3 (blk_of s2 (cl k)) spl Q3) as [E4 Q4]. rewrite E4.
  destruct (split s3 (blk_of s2 (cl k)) spl) as [[[s4 l] r]| |]; cbn [rmap bind sh3 fst snd];
    [|split; [reflexivity | discriminate]..].
  specialize (Q4 _ _ _ eq_refl).
  rewrite kill_block_sh, inactive_sh, set_inactive_sh.
  set (s6 := set_inactive (kill_block s4 (blk_of s2 (cl k))) (inactive (kill_block s4 (blk_of s2 (cl k))) ++ [spl])).
  assert (I6 : Inv s6) by (apply set_inactive_Inv, kill_block_Inv; exact Q4).
  rewrite (slack_sh t s6 v I6), note_opt_sh.
  set (s7 := note_opt s6 (slack s6 v) (Some 0)).
  assert (I7 : Inv s7) by (apply Inv_note_opt; exact I6).
  rewrite (slack_sh t s7 v I7).
  destruct (lt_inf (slack s7 v) (Some 0)).
  - destruct (merge_sh t s7 v I7) as [E8 Q8]. rewrite E8.
    destruct (merge s7 v) as [s8 mb]. cbn [fst snd] in *.
    rewrite blist_sh, set_blist_sh. split; [reflexivity | intros r0 [= <-]; apply set_blist_Inv; exact Q8].
  - rewrite inactive_sh, set_inactive_sh, blist_sh, set_blist_sh.
    split; [reflexivity | intros r0 [= <-]; apply set_blist_Inv, set_inactive_Inv; exact I7].
Qed.

Lemma satisfy_loop_sh t : forall fuel s,
  Inv s -> satisfy_loop fuel (sh t s) = rmap (sh t) (satisfy_loop fuel s) /\
           forall s', satisfy_loop fuel s = Ok s' -> Inv s'.
Proof.
  induction fuel as [|f IH]; intros s I; [split; [reflexivity | discriminate]|].
  cbn [satisfy_loop]. destruct (satisfy_step_sh t s I) as [E Q]. rewrite E.
  destruct (satisfy_step s) as [[go s1]| |]; cbn [rmap bind shr fst snd]; [|split; [reflexivity | discriminate]..].
  specialize (Q _ eq_refl). cbn [snd] in Q.
  destruct go; [apply IH; exact Q | split; [reflexivity | intros s' [= <-]; exact Q]].
Qed.

Lemma final_scan_sh t s : Inv s -> final_scan (sh t s) = rmap (sh t) (final_scan s).
Proof.
  intros I. unfold final_scan. change (scons (sh t s)) with (scons s).
  rewrite (find_ext (fun c => negb (act_of (sh t s) c) && lt_inf (slack (sh t s) c) (Some ZERO_UPPERBOUND))
                    (fun c => negb (act_of s c) && lt_inf (slack s c) (Some ZERO_UPPERBOUND))).
  - destruct (find _ _); reflexivity.
  - intros c. rewrite act_of_sh, (slack_sh t s c I). reflexivity.
Qed.

(* ------------------------------------------------------------------ IncSolver::splitBlocks *)
Definition shl {A} (t : Q) (p : st * A) : st * A := (sh t (fst p), snd p).

Definition sb_step (p : st * nat) (b : nat) : res (st * nat) :=
  let '(s1, cnt) := p in
  bind (find_min_lm s1 b) (fun a =>
    let '(mn, s2) := a in
    match mn with
    | None => Ok (s2, cnt)
    | Some v =>
        let s3 := note s2 (lm_of s2 v) LAGRANGIAN_TOLERANCE in
        if Qltb (lm_of s3 v) LAGRANGIAN_TOLERANCE then
          let b' := blk_of s3 (cl (con_of s3 v)) in
          bind (split s3 b' v) (fun t =>
            let '(s4, l, r) := t in
            let s5 := update_weighted_position (update_weighted_position s4 l) r in
            let s6 := set_blist s5 (blist s5 ++ [l; r]) in
            let s7 := kill_block s6 b' in
            Ok (set_inactive s7 (inactive s7 ++ [v]), S cnt))
        else Ok (s3, cnt)
    end).
Lemma split_blocks_eq s :
  split_blocks s =
  bind (fold_left (fun acc b => bind acc (fun p => sb_step p b)) (blist (move_blocks s)) (Ok (move_blocks s, O)))
       (fun p => Ok (cleanup (fst p), snd p)).
Proof. reflexivity. Qed.

Lemma sb_step_sh t (p : st * nat) b :
  Inv (fst p) -> sb_step (shl t p) b = rmap (shl t) (sb_step p b) /\ forall p', sb_step p b = Ok p' -> Inv (fst p').
Proof.
  destruct p as [s1 cnt]. cbn [fst]. intros I. unfold shl. cbn [fst snd]. unfold sb_step.
  destruct (find_min_lm_sh t s1 b I) as [E Q]. rewrite E.
  destruct (find_min_lm s1 b) as [[mn s2]| |]; cbn [rmap bind shr fst snd]; [|split; [reflexivity | discriminate]..].
  specialize (Q _ eq_refl). cbn [snd] in Q.
  destruct mn as [v|]; [|split; [reflexivity | intros p' [= <-]; exact Q]].
  rewrite !lm_of_sh, note_sh.
  set (s3 := note s2 (lm_of s2 v) LAGRANGIAN_TOLERANCE).
  assert (I3 : Inv s3) by (apply Inv_note; exact Q).
  rewrite lm_of_sh.
  destruct (Qltb (lm_of s3 v) LAGRANGIAN_TOLERANCE); [|split; [reflexivity | intros p' [= <-]; exact I3]].
  rewrite con_of_sh, blk_of_sh.
  destruct (split_sh t s3 (blk_of s3 (cl (con_of s3 v))) v I3) as [E4 Q4]. rewrite E4.
  destruct (split s3 (blk_of s3 (cl (con_of s3 v))) v) as [[[s4 l] r]| |]; cbn [rmap bind sh3 fst snd];
    [|split; [reflexivity | discriminate]..].
  specialize (Q4 _ _ _ eq_refl).
  rewrite (update_weighted_position_sh t s4 l (proj1 Q4)).
  pose proof (update_weighted_position_Inv s4 l Q4) as I5a.
  rewrite (update_weighted_position_sh t _ r (proj1 I5a)).
  pose proof (update_weighted_position_Inv _ r I5a) as I5.
  set (s5 := update_weighted_position (update_weighted_position s4 l) r) in *.
  rewrite blist_sh, set_blist_sh, kill_block_sh, inactive_sh, set_inactive_sh.
  split; [reflexivity|]. intros p' [= <-]. cbn [fst]. apply set_inactive_Inv, kill_block_Inv, set_blist_Inv. exact I5.
Qed.

Lemma split_blocks_sh t s :
  Inv s -> split_blocks (sh t s) = rmap (shl t) (split_blocks s) /\ forall p, split_blocks s = Ok p -> Inv (fst p).
Proof.
  intros I. rewrite !split_blocks_eq. destruct (move_blocks_sh t s I) as [E0 I0]. rewrite E0, blist_sh.
  set (A0 := @Ok (st * nat) (move_blocks s, O)).
  change (Ok (sh t (move_blocks s), O)) with (rmap (shl t) A0).
  destruct (fold_comm (shl t) (fun p : st * nat => Inv (fst p)) sb_step (blist (move_blocks s))) with (acc := A0) as [E1 Q1].
  { intros x b _ Px. apply sb_step_sh. exact Px. }
  { intros x [= <-]. exact I0. }
  rewrite E1.
  destruct (fold_left _ (blist (move_blocks s)) A0) as [[s1 cnt]| |]; cbn [rmap bind shl fst snd];
    [|split; [reflexivity | discriminate]..].
  specialize (Q1 _ eq_refl). cbn [fst] in Q1. rewrite cleanup_sh.
  split; [reflexivity | intros p [= <-]; apply cleanup_Inv; exact Q1].
Qed.

(* ------------------------------------------------------------------ IncSolver::satisfy *)
Lemma inc_satisfy_cnt_sh t fuel s :
  Inv s -> inc_satisfy_cnt fuel (sh t s) = rmap (shl t) (inc_satisfy_cnt fuel s) /\
           forall p, inc_satisfy_cnt fuel s = Ok p -> Inv (fst p).
Proof.
  intros I. unfold inc_satisfy_cnt. destruct (split_blocks_sh t s I) as [E1 Q1]. rewrite E1.
  destruct (split_blocks s) as [[s1 cnt]| |]; cbn [rmap bind shl fst snd]; [|split; [reflexivity | discriminate]..].
  specialize (Q1 _ eq_refl). cbn [fst] in Q1.
  destruct (satisfy_loop_sh t fuel s1 Q1) as [E2 Q2]. rewrite E2.
  destruct (satisfy_loop fuel s1) as [s2| |]; cbn [rmap bind]; [|split; [reflexivity | discriminate]..].
  specialize (Q2 _ eq_refl). pose proof (cleanup_Inv s2 Q2) as I3.
  rewrite cleanup_sh, (final_scan_sh t _ I3).
  destruct (final_scan (cleanup s2)) as [s3| |] eqn:F; cbn [rmap bind]; [|split; [reflexivity | discriminate]..].
  apply final_scan_ok in F. destruct F as [-> _].
  split; [reflexivity | intros p [= <-]; exact I3].
Qed.

Theorem inc_satisfy_sh t fuel s :
  Inv s -> inc_satisfy fuel (sh t s) = rmap (sh t) (inc_satisfy fuel s) /\
           forall s', inc_satisfy fuel s = Ok s' -> Inv s'.
Proof.
  intros I. unfold inc_satisfy. destruct (inc_satisfy_cnt_sh t fuel s I) as [E Q]. rewrite E.
  destruct (inc_satisfy_cnt fuel s) as [[s1 cnt]| |]; cbn [rmap bind shl fst snd]; [|split; [reflexivity | discriminate]..].
  split; [reflexivity | intros s' [= <-]; exact (Q _ eq_refl)].
Qed.

(* ------------------------------------------------------------------ IncSolver::solve *)
Lemma solve_loop_sh t fixed sfuel : forall fuel tries lastcost c cnt s,
  Inv s -> solve_loop fixed fuel sfuel tries lastcost c cnt (sh t s) = rmap (sh t) (solve_loop fixed fuel sfuel tries lastcost c cnt s) /\
           forall s', solve_loop fixed fuel sfuel tries lastcost c cnt s = Ok s' -> Inv s'.
Proof.
  induction fuel as [|f IH]; intros tries lastcost c cnt s I; [split; [reflexivity | discriminate]|].
  cbn [solve_loop].
  set (s0 := match lastcost with Some lc => note s (Qabs' (lc - c)) COST_EPS | None => s end).
  assert (E0 : match lastcost with Some lc => note (sh t s) (Qabs' (lc - c)) COST_EPS | None => sh t s end = sh t s0).
  { unfold s0. destruct lastcost; [apply note_sh | reflexivity]. }
  rewrite E0.
  assert (I0 : Inv s0) by (unfold s0; destruct lastcost; [apply Inv_note|]; exact I).
  assert (Again : forall tr,
    bind (inc_satisfy_cnt sfuel (sh t s0)) (fun p => solve_loop fixed f sfuel tr (Some c) (cost (fst p)) (snd p) (fst p)) =
    rmap (sh t) (bind (inc_satisfy_cnt sfuel s0) (fun p => solve_loop fixed f sfuel tr (Some c) (cost (fst p)) (snd p) (fst p))) /\
    forall s', bind (inc_satisfy_cnt sfuel s0) (fun p => solve_loop fixed f sfuel tr (Some c) (cost (fst p)) (snd p) (fst p)) = Ok s' -> Inv s').
  { intros tr. destruct (inc_satisfy_cnt_sh t sfuel s0 I0) as [E Q]. rewrite E.
    destruct (inc_satisfy_cnt sfuel s0) as [[s1 cnt1]| |]; cbn [rmap bind shl fst snd]; [|split; [reflexivity | discriminate]..].
    specialize (Q _ eq_refl). cbn [fst] in Q. rewrite (cost_sh t s1 Q). apply IH. exact Q. }
  destruct fixed.
  - destruct (_ || _); [|split; [reflexivity | intros s' [= <-]; exact I0]].
    destruct tries as [|tr]; [split; [reflexivity | intros s' [= <-]; exact I0] | apply Again].
  - destruct (match lastcost with None => true | Some lc => Qltb COST_EPS (Qabs' (lc - c)) end);
      [apply Again | split; [reflexivity | intros s' [= <-]; exact I0]].
Qed.

Theorem inc_solve_gen_sh t fixed fuel s :
  Inv s -> inc_solve_gen fixed fuel (sh t s) = rmap (sh t) (inc_solve_gen fixed fuel s) /\
           forall s', inc_solve_gen fixed fuel s = Ok s' -> Inv s'.
Proof.
  intros I. unfold inc_solve_gen. destruct (inc_satisfy_cnt_sh t fuel s I) as [E Q]. rewrite E.
  destruct (inc_satisfy_cnt fuel s) as [[s1 cnt1]| |]; cbn [rmap bind shl fst snd]; [|split; [reflexivity | discriminate]..].
  specialize (Q _ eq_refl). cbn [fst] in Q. rewrite (cost_sh t s1 Q). apply solve_loop_sh. exact Q.
Qed.

(* ------------------------------------------------------------------ op histories *)
Definition shift_op (t : Q) (o : op) : op :=
  match o with SetDesired i d => SetDesired i (d + t) | _ => o end.
Definition op_ok (o : op) : Prop :=
  match o with AddConstraint c => (cl c < n0)%nat /\ (cr c < n0)%nat | _ => True end.

Lemma add_constraint_Inv s c : Inv s -> (cl c < n0)%nat -> (cr c < n0)%nat -> Inv (add_constraint s c).
Proof.
  intros [[A B C D E] N] Hl Hr. split; [constructor|]; try assumption.
  intros c'. change (nv (add_constraint s c)) with (nv s). unfold con_of, add_constraint. cbn [scons set_inactive set_clm set_cuns set_cact set_scons].
  destruct (Nat.lt_ge_cases c' (length (scons s))) as [L|L].
  - rewrite app_nth1 by exact L. apply D.
  - rewrite app_nth2 by exact L. destruct (c' - length (scons s))%nat as [|[|k]]; cbn [nth].
    + rewrite E. split; assumption.
    + cbn. rewrite E. lia.
    + cbn. rewrite E. lia.
Qed.

Lemma set_desired_sh t s i d : set_desired (sh t s) i (d + t) = sh t (set_desired s i d).
Proof.
  unfold set_desired. rewrite wt_sh, scl_sh. unfold sh, set_svars.
  cbn [svars scons voff vblk cact cuns clm blocks blist inactive tie].
  unfold shift_vars. rewrite map_upd_nth. reflexivity.
Qed.
Lemma set_desired_Inv s i d : Inv s -> Inv (set_desired s i d).
Proof.
  intros [[A B C D E] N].
  assert (L : nv (set_desired s i d) = nv s) by (unfold nv, set_desired; cbn [svars set_svars]; apply upd_nth_length).
  split; [constructor|]; rewrite ?L; try assumption.
  intros j Hj. unfold var_of, vget, set_desired. cbn [svars set_svars].
  destruct (nth_upd_nth_or (svars s) i j (mkvar d (wt (var_of s i)) (scl (var_of s i))) dvar) as [[-> H]|H]; rewrite H.
  - cbn [scl wt]. apply A. exact Hj.
  - apply A. exact Hj.
Qed.

Theorem step_gen_sh t fixed fuel s o :
  Inv s -> op_ok o ->
  step_gen fixed fuel (sh t s) (shift_op t o) = rmap (sh t) (step_gen fixed fuel s o) /\
  forall s', step_gen fixed fuel s o = Ok s' -> Inv s'.
Proof.
  intros I Ho. destruct o as [c|i d| |]; cbn [step_gen shift_op rmap].
  - split; [reflexivity|]. intros s' [= <-]. destruct Ho. apply add_constraint_Inv; assumption.
  - rewrite set_desired_sh. split; [reflexivity|]. intros s' [= <-]. apply set_desired_Inv. exact I.
  - apply inc_solve_gen_sh. exact I.
  - apply inc_satisfy_sh. exact I.
Qed.

Definition run_gen (fixed : bool) (fuel : nat) (ops : list op) (acc : res st) : res st :=
  fold_left (fun r o => bind r (fun s' => step_gen fixed fuel s' o)) ops acc.

Theorem run_gen_sh t fixed fuel : forall ops acc,
  (forall o, In o ops -> op_ok o) -> (forall s, acc = Ok s -> Inv s) ->
  run_gen fixed fuel (map (shift_op t) ops) (rmap (sh t) acc) = rmap (sh t) (run_gen fixed fuel ops acc) /\
  forall s', run_gen fixed fuel ops acc = Ok s' -> Inv s'.
Proof.
  unfold run_gen. induction ops as [|o ops IH]; intros acc Hops Hacc; cbn [map fold_left]; [split; [reflexivity | exact Hacc]|].
  assert (E : bind (rmap (sh t) acc) (fun s' => step_gen fixed fuel s' (shift_op t o)) =
              rmap (sh t) (bind acc (fun s' => step_gen fixed fuel s' o))).
  { apply bind_rmap. intros x Hx. apply step_gen_sh; [apply Hacc; exact Hx | apply Hops; left; reflexivity]. }
  rewrite E. apply IH.
  - intros o' Ho'. apply Hops. right. exact Ho'.
  - intros x Hx. destruct acc as [x0| |]; cbn [bind] in Hx; try discriminate.
    exact (proj2 (step_gen_sh t fixed fuel x0 o (Hacc x0 eq_refl) (Hops o (or_introl eq_refl))) x Hx).
Qed.

End Translate.

(* ------------------------------------------------------------------ the initial state *)
Lemma init_step_eq s v :
  init_step s v = set_blist (add_variable (snd (new_block s)) (fst (new_block s)) v)
                            (blist (add_variable (snd (new_block s)) (fst (new_block s)) v) ++ [fst (new_block s)]).
Proof. reflexivity. Qed.

Lemma init_step_sh t n s v :
  Inv0 n s -> (v < n)%nat -> init_step (sh t s) v = sh t (init_step s v) /\ Inv0 n (init_step s v).
Proof.
  intros I Hv. rewrite !init_step_eq, new_block_sh. cbn [fst snd].
  pose proof (new_block_Inv0 n s I) as I1.
  assert (Hv1 : (v < nv (snd (new_block s)))%nat) by (rewrite (i_n n _ I1); exact Hv).
  rewrite (add_variable_sh n t _ (fst (new_block s)) v I1 Hv1). split; [reflexivity|].
  apply (Inv0_frame n (add_variable (snd (new_block s)) (fst (new_block s)) v)); try reflexivity.
  apply add_variable_Inv0; assumption.
Qed.

Lemma init_fold_sh t n : forall k s,
  Inv0 n s -> (k <= n)%nat ->
  fold_left init_step (seq 0 k) (sh t s) = sh t (fold_left init_step (seq 0 k) s) /\
  Inv0 n (fold_left init_step (seq 0 k) s).
Proof.
  induction k as [|k IH]; intros s I Hk; [split; [reflexivity | exact I]|].
  rewrite seq_S, !fold_left_app. cbn [fold_left plus].
  destruct (IH s I) as [E J]; [lia|]. rewrite E. apply init_step_sh; [exact J | lia].
Qed.

Definition init0 (vs : list var) (cs : list con) : st :=
  mkst vs cs (repeat 0 (length vs)) (repeat O (length vs)) (repeat false (length cs)) (repeat false (length cs))
       (repeat 0 (length cs)) [] [] (seq 0 (length cs)) false.

Definition unit_pos (vs : list var) : Prop := forall v, In v vs -> scl v == 1 /\ 0 < wt v.

Lemma init0_Inv0 vs cs : unit_pos vs -> wf_cons vs cs -> vs <> [] -> Inv0 (length vs) (init0 vs cs).
Proof.
  intros U W NE.
  assert (P : (0 < length vs)%nat) by (destruct vs; [congruence | cbn; lia]).
  constructor.
  - intros i Hi. apply U. unfold var_of, vget, init0. cbn [svars]. apply nth_In. exact Hi.
  - intros b. unfold block_of, init0. cbn [blocks]. left. destruct b; split; reflexivity.
  - intros b v. unfold block_of, init0. cbn [blocks]. destruct b; intros [].
  - intros c. unfold con_of, init0, nv. cbn [scons svars].
    destruct (nth_in_or_default c cs dcon) as [H|H]; [exact (W _ H) | rewrite H; cbn; lia].
  - reflexivity.
Qed.

Lemma init_sh t vs cs :
  unit_pos vs -> wf_cons vs cs -> vs <> [] ->
  init (shift_vars t vs) cs = sh t (init vs cs) /\ Inv (length vs) (init vs cs).
Proof.
  intros U W NE. rewrite !init_unfold, shift_vars_length.
  change (mkst (shift_vars t vs) cs _ _ _ _ _ _ _ _ _) with (sh t (init0 vs cs)).
  change (mkst vs cs _ _ _ _ _ _ _ _ _) with (init0 vs cs).
  destruct (init_fold_sh t (length vs) (length vs) (init0 vs cs) (init0_Inv0 vs cs U W NE) (le_n _)) as [E J].
  split; [exact E|]. split; [exact J|].
  assert (H0 : init_facts vs cs 0 (init0 vs cs)).
  { constructor; cbn; try reflexivity; try (apply repeat_length). intros i Hi. lia. }
  destruct (init_fold_facts vs cs (length vs) (init0 vs cs) (le_n _) H0) as [_ _ _ _ _ _ G].
  intros i Hi. rewrite (i_n _ _ J) in Hi. destruct (G i Hi) as [G1 G2]. rewrite G1, G2. discriminate.
Qed.

(* no variables: wf_cons forces no constraints, and the two runs are the same run *)
Lemma wf_cons_nil cs : wf_cons [] cs -> cs = [].
Proof. destruct cs as [|c cs]; [reflexivity|]. intros W. destruct (W c (or_introl eq_refl)) as [H _]. cbn in H. lia. Qed.

Lemma solve_nil fixed t fuel :
  inc_solve_gen fixed fuel (init [] []) = rmap (sh t) (inc_solve_gen fixed fuel (init [] [])) /\
  forall s, inc_solve_gen fixed fuel (init [] []) = Ok s -> svars s = [] /\ blocks s = [].
Proof.
  destruct fuel as [|[|f]].
  - split; [reflexivity | discriminate].
  - destruct fixed; (split; [reflexivity | discriminate]).
  - destruct fixed; (split; [reflexivity | intros s [= <-]; split; reflexivity]).
Qed.
Lemma satisfy_nil t fuel :
  inc_satisfy fuel (init [] []) = rmap (sh t) (inc_satisfy fuel (init [] [])) /\
  forall s, inc_satisfy fuel (init [] []) = Ok s -> svars s = [] /\ blocks s = [].
Proof.
  destruct fuel as [|f].
  - split; [reflexivity | discriminate].
  - split; [reflexivity | intros s [= <-]; split; reflexivity].
Qed.

(* ---- histories on the instance without variables: every state is its own translate *)
Definition Zst (s : st) : Prop := svars s = [] /\ scons s = [] /\ blocks s = [] /\ blist s = [] /\ inactive s = [].

Lemma Z_sh t s : Zst s -> sh t s = s.
Proof. destruct s. unfold Zst, sh. cbn. intros (-> & -> & -> & -> & ->). reflexivity. Qed.

Lemma Z_solve fixed fuel s s' : Zst s -> inc_solve_gen fixed fuel s = Ok s' -> Zst s'.
Proof.
  destruct s. unfold Zst. cbn. intros (-> & -> & -> & -> & ->) H.
  destruct fuel as [|[|f]]; destruct fixed; vm_compute in H; try discriminate; inversion H; subst; repeat split; reflexivity.
Qed.
Lemma Z_satisfy fuel s s' : Zst s -> inc_satisfy fuel s = Ok s' -> Zst s'.
Proof.
  destruct s. unfold Zst. cbn. intros (-> & -> & -> & -> & ->) H.
  destruct fuel as [|f]; vm_compute in H; try discriminate; inversion H; subst; repeat split; reflexivity.
Qed.

Lemma Z_step t fixed fuel s o :
  Zst s -> op_ok 0 o ->
  step_gen fixed fuel s (shift_op t o) = step_gen fixed fuel s o /\
  forall s', step_gen fixed fuel s o = Ok s' -> Zst s'.
Proof.
  intros Z Ho. destruct o as [c|i d| |]; cbn [step_gen shift_op].
  - destruct Ho. lia.
  - destruct Z as (A & B & C & D & E). unfold set_desired. rewrite A. split; [destruct i; reflexivity|].
    intros s' [= <-]. unfold Zst. cbn. destruct i; repeat split; assumption.
  - split; [reflexivity|]. intros s'. apply Z_solve. exact Z.
  - split; [reflexivity|]. intros s'. apply Z_satisfy. exact Z.
Qed.

Lemma Z_run t fixed fuel : forall ops acc,
  (forall o, In o ops -> op_ok 0 o) -> (forall s, acc = Ok s -> Zst s) ->
  run_gen fixed fuel (map (shift_op t) ops) acc = run_gen fixed fuel ops acc /\
  forall s', run_gen fixed fuel ops acc = Ok s' -> Zst s'.
Proof.
  unfold run_gen. induction ops as [|o ops IH]; intros acc Hops Hacc; cbn [map fold_left]; [split; [reflexivity | exact Hacc]|].
  assert (E : bind acc (fun s' => step_gen fixed fuel s' (shift_op t o)) = bind acc (fun s' => step_gen fixed fuel s' o)).
  { destruct acc as [x| |]; cbn [bind]; try reflexivity.
    apply Z_step; [apply Hacc; reflexivity | apply Hops; left; reflexivity]. }
  rewrite E. apply IH.
  - intros o' Ho'. apply Hops. right. exact Ho'.
  - intros x Hx. destruct acc as [x0| |]; cbn [bind] in Hx; try discriminate.
    exact (proj2 (Z_step t fixed fuel x0 o (Hacc x0 eq_refl) (Hops o (or_introl eq_refl))) x Hx).
Qed.

Lemma Z_init : Zst (init [] []).
Proof. repeat split; reflexivity. Qed.

(* ------------------------------------------------------------------ the relation between the two runs' states *)
Definition blk_rel (t : Q) (B B' : blkT) : Prop :=
  bvars B' = bvars B /\ bscale B' = bscale B /\ AB B' = AB B /\ A2 B' = A2 B /\ dead B' = dead B /\
  AD B' == AD B + t * A2 B /\ (bvars B = [] \/ posn B' == posn B + t).

Record shifted (t : Q) (s s' : st) : Prop := {
  sf_scons : scons s' = scons s;
  sf_voff : voff s' = voff s;
  sf_vblk : vblk s' = vblk s;
  sf_cact : cact s' = cact s;
  sf_cuns : cuns s' = cuns s;
  sf_clm : clm s' = clm s;
  sf_blist : blist s' = blist s;
  sf_inactive : inactive s' = inactive s;
  sf_tie : tie s' = tie s;
  sf_nvars : length (svars s') = length (svars s);
  sf_vars : forall i, (i < length (svars s))%nat ->
              des (var_of s' i) == des (var_of s i) + t /\ wt (var_of s' i) = wt (var_of s i) /\ scl (var_of s' i) = scl (var_of s i);
  sf_nblocks : length (blocks s') = length (blocks s);
  sf_blocks : forall b, blk_rel t (block_of s b) (block_of s' b) }.

Lemma sh_shifted t s : (forall b, bvars (block_of s b) = [] -> A2 (block_of s b) == 0) -> shifted t s (sh t s).
Proof.
  intros H. constructor; try reflexivity.
  - apply shift_vars_length.
  - intros i Hi. rewrite (var_of_sh t s i Hi). cbn [shift_var des wt scl]. repeat split; reflexivity.
  - unfold sh. cbn [blocks]. apply map_length.
  - intros b. rewrite block_of_sh. specialize (H b). unfold blk_rel, shift_blk.
    destruct (block_of s b) as [bv p sc ab ad a2 dd]. cbn [bvars posn bscale AB AD A2 dead] in *.
    destruct bv as [|x bv]; cbn [bvars posn bscale AB AD A2 dead].
    + repeat split; try reflexivity; [|left; reflexivity]. rewrite (H eq_refl). ring.
    + repeat split; try reflexivity; [apply Qred_correct | right; apply Qred_correct].
Qed.

Lemma Inv_shifted n t s : Inv n s -> shifted t s (sh t s).
Proof.
  intros [I _]. apply sh_shifted. intros b Hb. destruct (i_blk n s I b) as [[_ E]|[E _]]; [exact E | contradiction].
Qed.

Lemma sh_positions n t s i :
  Inv n s -> (i < n)%nat -> nth i (final_positions (sh t s)) 0 == nth i (final_positions s) 0 + t.
Proof.
  intros I Hi. pose proof (i_n n s (proj1 I)) as N.
  change (nth i (final_positions (sh t s)) 0) with (place_of (final_positions (sh t s)) i).
  change (nth i (final_positions s) 0) with (place_of (final_positions s) i).
  rewrite !final_positions_nth; [| unfold nv in N; lia | fold (nv (sh t s)); rewrite nv_sh; lia].
  rewrite (Inv_position n t s i I) by lia. apply Qred_correct.
Qed.

(* what the two results have in common, in one statement *)
Definition translated (t : Q) (n : nat) (r r' : res st) : Prop :=
  match r, r' with
  | Ok s, Ok s' => s' = sh t s /\ shifted t s s' /\
                   (forall i, (i < n)%nat -> nth i (final_positions s') 0 == nth i (final_positions s) 0 + t)
  | ThrowUnsat c, ThrowUnsat c' => c = c'
  | OutOfFuel, OutOfFuel => True
  | _, _ => False
  end.

Lemma translated_intro t n (r r' : res st) :
  r' = rmap (sh t) r -> (forall s, r = Ok s -> Inv n s) -> translated t n r r'.
Proof.
  intros -> H. destruct r as [s| |]; cbn; auto.
  specialize (H s eq_refl). split; [reflexivity|]. split; [exact (Inv_shifted n t s H)|].
  intros i Hi. apply (sh_positions n t s i H Hi).
Qed.

(* ------------------------------------------------------------------ C20 vpsc_translate for the model *)
(* functional form: same outcome constructor, same thrown constraint, result state = sh t of the other result *)
Theorem inc_solve_gen_translate_eq fixed t fuel vs cs :
  unit_pos vs -> wf_cons vs cs ->
  inc_solve_gen fixed fuel (init (shift_vars t vs) cs) = rmap (sh t) (inc_solve_gen fixed fuel (init vs cs)).
Proof.
  intros U W. destruct vs as [|v0 vs].
  - rewrite (wf_cons_nil cs W). exact (proj1 (solve_nil fixed t fuel)).
  - destruct (init_sh t (v0 :: vs) cs U W) as [E I]; [discriminate|]. rewrite E.
    exact (proj1 (inc_solve_gen_sh _ t fixed fuel _ I)).
Qed.

Theorem inc_satisfy_translate_eq t fuel vs cs :
  unit_pos vs -> wf_cons vs cs ->
  inc_satisfy fuel (init (shift_vars t vs) cs) = rmap (sh t) (inc_satisfy fuel (init vs cs)).
Proof.
  intros U W. destruct vs as [|v0 vs].
  - rewrite (wf_cons_nil cs W). exact (proj1 (satisfy_nil t fuel)).
  - destruct (init_sh t (v0 :: vs) cs U W) as [E I]; [discriminate|]. rewrite E.
    exact (proj1 (inc_satisfy_sh _ t fuel _ I)).
Qed.

Lemma nil_translated t (r : res st) :
  (forall s, r = Ok s -> svars s = [] /\ blocks s = []) -> translated t 0 r (rmap (sh t) r).
Proof.
  intros H. destruct r as [s| |]; cbn; auto. destruct (H s eq_refl) as [A B].
  split; [reflexivity|]. split; [|intros i Hi; lia].
  apply sh_shifted. intros b _. unfold block_of. rewrite B. destruct b; reflexivity.
Qed.

Theorem inc_solve_gen_translate fixed t fuel vs cs :
  unit_pos vs -> wf_cons vs cs ->
  translated t (length vs) (inc_solve_gen fixed fuel (init vs cs)) (inc_solve_gen fixed fuel (init (shift_vars t vs) cs)).
Proof.
  intros U W. destruct vs as [|v0 vs].
  - rewrite (wf_cons_nil cs W). destruct (solve_nil fixed t fuel) as [E Q].
    change (init (shift_vars t []) []) with (init [] []). rewrite E at 2. apply nil_translated. exact Q.
  - destruct (init_sh t (v0 :: vs) cs U W) as [E I]; [discriminate|]. rewrite E.
    destruct (inc_solve_gen_sh _ t fixed fuel _ I) as [E1 Q1]. apply translated_intro; assumption.
Qed.

(* the statement of the property: IncSolver::solve on the translated instance *)
Theorem inc_solve_translate t fuel vs cs :
  unit_pos vs -> wf_cons vs cs ->
  match inc_solve fuel (init vs cs), inc_solve fuel (init (shift_vars t vs) cs) with
  | Ok s, Ok s' => shifted t s s'
  | ThrowUnsat c, ThrowUnsat c' => c = c'
  | OutOfFuel, OutOfFuel => True
  | _, _ => False
  end.
Proof.
  intros U W. pose proof (inc_solve_gen_translate true t fuel vs cs U W) as H. unfold inc_solve, translated in *.
  destruct (inc_solve_gen true fuel (init vs cs)), (inc_solve_gen true fuel (init (shift_vars t vs) cs)); tauto.
Qed.

Corollary inc_solve_translate_positions t fuel vs cs s s' :
  unit_pos vs -> wf_cons vs cs ->
  inc_solve fuel (init vs cs) = Ok s -> inc_solve fuel (init (shift_vars t vs) cs) = Ok s' ->
  (forall i, (i < length vs)%nat -> nth i (final_positions s') 0 == nth i (final_positions s) 0 + t) /\
  cuns s' = cuns s /\ cact s' = cact s /\ blist s' = blist s /\ vblk s' = vblk s.
Proof.
  intros U W H H'. pose proof (inc_solve_gen_translate true t fuel vs cs U W) as T. unfold inc_solve in *.
  rewrite H, H' in T. destruct T as [-> [_ P]]. split; [exact P|]. repeat split; reflexivity.
Qed.

Theorem inc_satisfy_translate t fuel vs cs :
  unit_pos vs -> wf_cons vs cs ->
  translated t (length vs) (inc_satisfy fuel (init vs cs)) (inc_satisfy fuel (init (shift_vars t vs) cs)).
Proof.
  intros U W. destruct vs as [|v0 vs].
  - rewrite (wf_cons_nil cs W). destruct (satisfy_nil t fuel) as [E Q].
    change (init (shift_vars t []) []) with (init [] []). rewrite E at 2. apply nil_translated. exact Q.
  - destruct (init_sh t (v0 :: vs) cs U W) as [E I]; [discriminate|]. rewrite E.
    destruct (inc_satisfy_sh _ t fuel _ I) as [E1 Q1]. apply translated_intro; assumption.
Qed.

(* op histories: AddConstraint c / SetDesired i d vs SetDesired i (d + t) / Solve / Satisfy from the initial states
   (run_gen fixed fuel ops (Ok s) is VpscRefute.run_ops_gen fixed fuel s ops) *)
Lemma run_translate_ne fixed t fuel vs cs ops :
  unit_pos vs -> wf_cons vs cs -> vs <> [] ->
  (forall o, In o ops -> op_ok (length vs) o) ->
  translated t (length vs) (run_gen fixed fuel ops (Ok (init vs cs)))
                           (run_gen fixed fuel (map (shift_op t) ops) (Ok (init (shift_vars t vs) cs))).
Proof.
  intros U W NE Hops. destruct (init_sh t vs cs U W NE) as [E I]. rewrite E.
  destruct (run_gen_sh (length vs) t fixed fuel ops (Ok (init vs cs)) Hops) as [E1 Q1].
  { intros s [= <-]. exact I. }
  apply translated_intro; assumption.
Qed.

Theorem run_translate fixed t fuel vs cs ops :
  unit_pos vs -> wf_cons vs cs ->
  (forall o, In o ops -> op_ok (length vs) o) ->
  translated t (length vs) (run_gen fixed fuel ops (Ok (init vs cs)))
                           (run_gen fixed fuel (map (shift_op t) ops) (Ok (init (shift_vars t vs) cs))).
Proof.
  intros U W Hops. destruct vs as [|v0 vs].
  - rewrite (wf_cons_nil cs W). change (init (shift_vars t []) []) with (init [] []).
    destruct (Z_run t fixed fuel ops (Ok (init [] [])) Hops) as [E Q]; [intros s [= <-]; exact Z_init|].
    rewrite E.
    assert (R : run_gen fixed fuel ops (Ok (init [] [])) = rmap (sh t) (run_gen fixed fuel ops (Ok (init [] [])))).
    { destruct (run_gen fixed fuel ops (Ok (init [] []))) as [s| |]; cbn [rmap]; try reflexivity.
      rewrite (Z_sh t s (Q s eq_refl)). reflexivity. }
    rewrite R at 2. apply nil_translated. intros s Hs. destruct (Q s Hs) as (A & _ & C & _). split; assumption.
  - apply run_translate_ne; [assumption | assumption | discriminate | assumption].
Qed.

(* the same for the op-history runner of VpscRefute.v *)
Corollary run_ops_translate t fuel vs cs ops :
  unit_pos vs -> wf_cons vs cs ->
  (forall o, In o ops -> op_ok (length vs) o) ->
  translated t (length vs) (run_ops fuel (init vs cs) ops) (run_ops fuel (init (shift_vars t vs) cs) (map (shift_op t) ops)).
Proof. exact (run_translate true t fuel vs cs ops). Qed.

(* one step from ANY pair of related states *)
Theorem step_translate n t fuel s o :
  Inv n s -> op_ok n o ->
  translated t n (step fuel s o) (step fuel (sh t s) (shift_op t o)).
Proof.
  intros I Ho. destruct (step_gen_sh n t true fuel s o I Ho) as [E Q]. apply translated_intro; assumption.
Qed.

(* ------------------------------------------------------------------ non-vacuity *)
Definition tv_vs : list var := [mkvar 3 1 1; mkvar 0 2 1; mkvar 1 1 1].
Definition tv_cs : list con := [mkcon 0 1 2 false; mkcon 1 2 1 true].
Lemma tv_unit : unit_pos tv_vs.
Proof. intros v [<-|[<-|[<-|[]]]]; cbn; split; try reflexivity; lra. Qed.
Lemma tv_wf : wf_cons tv_vs tv_cs.
Proof. intros c [<-|[<-|[]]]; cbn; split; lia. Qed.

Example translate_run_example :
  exists s s', inc_solve 100 (init tv_vs tv_cs) = Ok s /\ inc_solve 100 (init (shift_vars (7#2) tv_vs) tv_cs) = Ok s' /\
    final_positions s = [-3#4; 5#4; 9#4] /\ final_positions s' = [11#4; 19#4; 23#4] /\
    act_of s 0 = true /\ act_of s' 0 = true /\ s' = sh (7#2) s.
Proof. eexists. eexists. split; [vm_compute; reflexivity|]. split; [vm_compute; reflexivity|]. vm_compute. repeat split; reflexivity. Qed.

Example translate_theorem_example :
  translated (7#2) 3 (inc_solve 100 (init tv_vs tv_cs)) (inc_solve 100 (init (shift_vars (7#2) tv_vs) tv_cs)).
Proof. exact (inc_solve_gen_translate true (7#2) 100 tv_vs tv_cs tv_unit tv_wf). Qed.

Example step_translate_example :
  translated (7#2) 3 (step 100 (init tv_vs tv_cs) Solve) (step 100 (sh (7#2) (init tv_vs tv_cs)) (shift_op (7#2) Solve)).
Proof.
  apply (step_translate 3); [|exact I].
  refine (proj2 (init_sh (7#2) tv_vs tv_cs tv_unit tv_wf _)). discriminate.
Qed.

(* an infeasible instance: both runs flag the same constraint and agree on everything discrete *)
Definition tu_cs : list con := [mkcon 0 1 2 false; mkcon 1 2 1 true; mkcon 2 0 0 false].
Example translate_unsat_example :
  exists s s', inc_solve 100 (init tv_vs tu_cs) = Ok s /\ inc_solve 100 (init (shift_vars (7#2) tv_vs) tu_cs) = Ok s' /\
    cuns s = [false; false; true] /\ cuns s' = [false; false; true] /\ s' = sh (7#2) s.
Proof. eexists. eexists. split; [vm_compute; reflexivity|]. split; [vm_compute; reflexivity|]. vm_compute. repeat split; reflexivity. Qed.

(* an op history with an added constraint, a moved desired position, two solves and a satisfy *)
Example translate_history_example :
  let ops := [Solve; AddConstraint (mkcon 0 2 5 false); SetDesired 1 (-4); Solve; Satisfy] in
  exists s, run_gen true 100 ops (Ok (init tv_vs tv_cs)) = Ok s /\
            (forall o, In o ops -> op_ok (length tv_vs) o) /\
            run_gen true 100 (map (shift_op (7#2)) ops) (Ok (init (shift_vars (7#2) tv_vs) tv_cs)) = Ok (sh (7#2) s).
Proof.
  cbv zeta. eexists. split; [vm_compute; reflexivity|]. split; [|vm_compute; reflexivity].
  intros o [<-|[<-|[<-|[<-|[<-|[]]]]]]; cbn; auto; lia.
Qed.

Print Assumptions inc_solve_translate.
Print Assumptions inc_solve_gen_translate.
Print Assumptions inc_solve_translate_positions.
Print Assumptions inc_satisfy_translate.
Print Assumptions run_translate.
Print Assumptions run_ops_translate.
Print Assumptions step_translate.
