(* Non-vacuity of StaticRefinePass.refine_pass_all_sat: the state sf_pre of StaticSplitFirstEx.v (after satisfy(), desired
   positions pulled apart): the pass sets up the heaps, findMinLM on block 1 finds lm(c0) = -4 and Blocks::split is
   called in a state where split_ready holds; the pass returns with a split made. *)
From Adapt Require Import Num.Qaux Vpsc.VpscSpec Vpsc.VpscModel Vpsc.VpscInv Vpsc.VpscFrame Vpsc.VpscForest
  Vpsc.VpscStationary Vpsc.StaticModel Vpsc.StaticInv Vpsc.StaticInvB Vpsc.StaticGeom Vpsc.StaticDag Vpsc.StaticRefine Vpsc.StaticSplitML
  Vpsc.StaticInHeap Vpsc.StaticSplitFirst Vpsc.StaticSplitFirstEx Vpsc.StaticSplitSecond Vpsc.StaticSplitSecondEx Vpsc.StaticRefinePass.
Local Open Scope Q_scope.

Definition rp_facts : bool :=
  match blist (base (setup_all sf_pre)) with
  | b :: _ =>
      Nat.eqb b 1 &&
      match find_min_lm (base (setup_all sf_pre)) 1 with
      | Ok (Some c, bs) => Nat.eqb c 0 && Qltb (lm_of bs 0) LAGRANGIAN_TOLERANCE
      | _ => false
      end
  | [] => false
  end &&
  match refine_pass sf_pre with Ok (_, true) => true | _ => false end && all_satb sf_pre.
Lemma rp_facts_true : rp_facts = true. Proof. vm_compute. reflexivity. Qed.

Lemma sf_setup_eq : setup_all sf_pre = sf_setup. Proof. vm_compute. reflexivity. Qed.
Lemma sf_fml : find_min_lm (base sf_setup) 1 = Ok (Some 0%nat, sf_lm). Proof. vm_compute. reflexivity. Qed.
Lemma sf_blist : blist (base sf_setup) = [1%nat; 2%nat]. Proof. vm_compute. reflexivity. Qed.
Lemma sf_snote : snote (set_base sf_setup sf_lm) (lm_of sf_lm 0) LAGRANGIAN_TOLERANCE = sf_s. Proof. vm_compute. reflexivity. Qed.

Example refine_pass_all_sat_example :
  all_sat0 (base sf_pre) /\ scan_ready (blist (base (setup_all sf_pre))) (setup_all sf_pre) /\
  (exists s', refine_pass sf_pre = Ok (s', true)).
Proof.
  pose proof rp_facts_true as P. unfold rp_facts in P.
  apply andb_prop in P. destruct P as [P P3]. apply andb_prop in P. destruct P as [_ P2].
  split; [apply all_satb_spec; exact P3|]. split.
  - rewrite sf_setup_eq, sf_blist. cbn [scan_ready]. rewrite sf_fml. cbv zeta. cbn [base set_base]. rewrite sf_snote.
    assert (Q : Qltb (lm_of (base sf_s) 0) LAGRANGIAN_TOLERANCE = true) by (vm_compute; reflexivity).
    rewrite Q.
    destruct static_split_all_sat_example as [P1 [Q2 [Q3 [P4 [P5 [_ [_ [P8 [P9 [_ [P11 [P12 [P13 [P14 [P15 [P16 [P17 _]]]]]]]]]]]]]]]]].
    unfold split_ready. repeat (split; [assumption|]). exact P17.
  - destruct (refine_pass sf_pre) as [[s' [|]]| |]; try discriminate. exists s'. reflexivity.
Qed.
