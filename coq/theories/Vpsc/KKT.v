(* C02: a KKT certificate is sufficient for (unique) optimality of the weighted least-squares problem
   with scaled separation constraints; boolean certificate checker with soundness; duality-gap bound for
   approximate certificates.  Pure algebra over finite sums, any n and m.  (DESIGN 5.2) *)
From Coq Require Import Permutation.
From Adapt Require Import Num.Qaux Vpsc.VpscSpec.
Local Open Scope Q_scope.

(* ------------------------------------------------------------------ squares *)
Lemma sq_nonneg a : 0 <= sq a.
Proof. unfold sq. nra. Qed.
Lemma wsq_nonneg w a : 0 < w -> 0 <= w * sq a.
Proof. intros. pose proof (sq_nonneg a). nra. Qed.
Lemma wsq_zero w a : 0 < w -> w * sq a <= 0 -> a == 0.
Proof.
  unfold sq. intros Hw H. destruct (Qeq_dec a 0) as [E|N]; [exact E|exfalso].
  assert (0 < a * a).
  { destruct (Qlt_le_dec a 0) as [q|q].
    - nra.
    - assert (0 < a) by (destruct (Qle_lt_or_eq _ _ q); [assumption|exfalso; apply N; lra]). nra. }
  assert (0 < w * (a * a)) by (apply Qmult_lt_0_compat; assumption). lra.
Qed.

(* ------------------------------------------------------------------ finite sums *)
Lemma sumn_ext n f g : (forall i, (i < n)%nat -> f i == g i) -> sumn n f == sumn n g.
Proof.
  induction n as [|n IH]; intros H; cbn [sumn]; [reflexivity|].
  rewrite IH by (intros; apply H; lia). rewrite (H n) by lia. reflexivity.
Qed.
Lemma sumn_plus n f g : sumn n (fun i => f i + g i) == sumn n f + sumn n g.
Proof. induction n as [|n IH]; cbn [sumn]; [lra|]. rewrite IH. lra. Qed.
Lemma sumn_minus n f g : sumn n (fun i => f i - g i) == sumn n f - sumn n g.
Proof. induction n as [|n IH]; cbn [sumn]; [lra|]. rewrite IH. lra. Qed.
Lemma sumn_zero n : sumn n (fun _ => 0) == 0.
Proof. induction n as [|n IH]; cbn [sumn]; [lra|]. rewrite IH. lra. Qed.
Lemma sumn_le n f g : (forall i, (i < n)%nat -> f i <= g i) -> sumn n f <= sumn n g.
Proof.
  induction n as [|n IH]; intros H; cbn [sumn]; [lra|].
  assert (sumn n f <= sumn n g) by (apply IH; intros; apply H; lia).
  assert (f n <= g n) by (apply H; lia). lra.
Qed.
Lemma sumn_nonneg n f : (forall i, (i < n)%nat -> 0 <= f i) -> 0 <= sumn n f.
Proof. intros H. rewrite <- (sumn_zero n). apply sumn_le. exact H. Qed.
Lemma sumn_nonneg_zero n f :
  (forall i, (i < n)%nat -> 0 <= f i) -> sumn n f <= 0 -> forall i, (i < n)%nat -> f i == 0.
Proof.
  induction n as [|n IH]; intros H S i Hi; [lia|]. cbn [sumn] in S.
  assert (0 <= sumn n f) by (apply sumn_nonneg; intros; apply H; lia).
  assert (0 <= f n) by (apply H; lia).
  destruct (Nat.eq_dec i n) as [->|].
  - lra.
  - apply IH; [intros; apply H; lia | lra | lia].
Qed.
(* the one non-trivial step: a sum against an indicator *)
Lemma sumn_indicator n j a :
  sumn n (fun i => if Nat.eqb j i then a i else 0) == if Nat.ltb j n then a j else 0.
Proof.
  induction n as [|n IH]; cbn [sumn]; [reflexivity|]. rewrite IH.
  destruct (Nat.eqb j n) eqn:E.
  - apply Nat.eqb_eq in E. subst j.
    replace (Nat.ltb n n) with false by (symmetry; apply Nat.ltb_irrefl).
    replace (Nat.ltb n (S n)) with true by (symmetry; apply Nat.ltb_lt; lia). lra.
  - apply Nat.eqb_neq in E.
    destruct (Nat.ltb j n) eqn:L.
    + apply Nat.ltb_lt in L. replace (Nat.ltb j (S n)) with true by (symmetry; apply Nat.ltb_lt; lia). lra.
    + apply Nat.ltb_ge in L. replace (Nat.ltb j (S n)) with false by (symmetry; apply Nat.ltb_ge; lia). lra.
Qed.

Fixpoint csum {A} (l : list A) (f : A -> Q) : Q := match l with [] => 0 | a :: t => f a + csum t f end.
Lemma csum_ext {A} (l : list A) f g : (forall a, In a l -> f a == g a) -> csum l f == csum l g.
Proof.
  induction l as [|a l IH]; intros H; cbn; [reflexivity|].
  rewrite IH by (intros; apply H; right; assumption). rewrite (H a) by (left; reflexivity). reflexivity.
Qed.
Lemma csum_minus {A} (l : list A) f g : csum l (fun a => f a - g a) == csum l f - csum l g.
Proof. induction l as [|a l IH]; cbn; [lra|]. rewrite IH. lra. Qed.
Lemma csum_le {A} (l : list A) f g : (forall a, In a l -> f a <= g a) -> csum l f <= csum l g.
Proof.
  induction l as [|a l IH]; intros H; cbn; [lra|].
  assert (csum l f <= csum l g) by (apply IH; intros; apply H; right; assumption).
  assert (f a <= g a) by (apply H; left; reflexivity). lra.
Qed.
Lemma csum_zero {A} (l : list A) : csum l (fun _ => 0) == 0.
Proof. induction l as [|a l IH]; cbn; [lra|]. rewrite IH. lra. Qed.
Lemma csum_nonneg {A} (l : list A) f : (forall a, In a l -> 0 <= f a) -> 0 <= csum l f.
Proof. intros H. rewrite <- (csum_zero l). apply csum_le. exact H. Qed.

(* ------------------------------------------------------------------ multipliers *)
(* constraints paired with their multipliers *)
Notation lcon := (con * Q)%type (only parsing).
Definition outs (L : list lcon) (i : nat) : Q := csum L (fun p => if Nat.eqb (cl (fst p)) i then snd p else 0).
Definition ins  (L : list lcon) (i : nat) : Q := csum L (fun p => if Nat.eqb (cr (fst p)) i then snd p else 0).

(* stationarity residual at variable i:  2 w_i (x_i - d_i) + s_i (sum_{c:l(c)=i} lam_c - sum_{c:r(c)=i} lam_c) *)
Definition stat_res (vs : list var) (L : list lcon) (x : place) (i : nat) : Q :=
  2 * wt (vget vs i) * (x i - des (vget vs i)) + scl (vget vs i) * (outs L i - ins L i).

Lemma exch_out n a L :
  (forall p, In p L -> (cl (fst p) < n)%nat) ->
  sumn n (fun i => a i * outs L i) == csum L (fun p => snd p * a (cl (fst p))).
Proof.
  induction L as [|p L IH]; intros H.
  - cbn [csum]. transitivity (sumn n (fun _ => 0)); [|apply sumn_zero]. apply sumn_ext. intros. unfold outs. cbn [csum]. ring.
  - unfold outs in *. cbn [csum].
    rewrite <- IH by (intros; apply H; right; assumption).
    rewrite (sumn_ext n _ (fun i => (if Nat.eqb (cl (fst p)) i then snd p * a i else 0)
                                    + a i * csum L (fun p0 => if Nat.eqb (cl (fst p0)) i then snd p0 else 0))).
    + rewrite sumn_plus. rewrite (sumn_indicator n (cl (fst p)) (fun i => snd p * a i)).
      assert (Hl : (cl (fst p) < n)%nat) by (apply H; left; reflexivity).
      apply Nat.ltb_lt in Hl. rewrite Hl. reflexivity.
    + intros i _. destruct (Nat.eqb (cl (fst p)) i); ring.
Qed.
Lemma exch_in n a L :
  (forall p, In p L -> (cr (fst p) < n)%nat) ->
  sumn n (fun i => a i * ins L i) == csum L (fun p => snd p * a (cr (fst p))).
Proof.
  induction L as [|p L IH]; intros H.
  - cbn [csum]. transitivity (sumn n (fun _ => 0)); [|apply sumn_zero]. apply sumn_ext. intros. unfold ins. cbn [csum]. ring.
  - unfold ins in *. cbn [csum].
    rewrite <- IH by (intros; apply H; right; assumption).
    rewrite (sumn_ext n _ (fun i => (if Nat.eqb (cr (fst p)) i then snd p * a i else 0)
                                    + a i * csum L (fun p0 => if Nat.eqb (cr (fst p0)) i then snd p0 else 0))).
    + rewrite sumn_plus. rewrite (sumn_indicator n (cr (fst p)) (fun i => snd p * a i)).
      assert (Hl : (cr (fst p) < n)%nat) by (apply H; left; reflexivity).
      apply Nat.ltb_lt in Hl. rewrite Hl. reflexivity.
    + intros i _. destruct (Nat.eqb (cr (fst p)) i); ring.
Qed.

Definition wf_lcons (vs : list var) (L : list lcon) : Prop :=
  forall p, In p L -> (cl (fst p) < length vs)%nat /\ (cr (fst p) < length vs)%nat.

(* The identity everything follows from (no sign or feasibility hypothesis at all). *)
Lemma obj_diff_identity vs L x y :
  wf_lcons vs L ->
  obj vs y - obj vs x ==
    sumn (length vs) (fun i => wt (vget vs i) * sq (y i - x i) + stat_res vs L x i * (y i - x i))
    + csum L (fun p => snd p * (slackv vs y (fst p) - slackv vs x (fst p))).
Proof.
  intros W. unfold obj. set (n := length vs).
  set (a := fun i => scl (vget vs i) * (y i - x i)).
  assert (E1 : csum L (fun p => snd p * (slackv vs y (fst p) - slackv vs x (fst p)))
               == sumn n (fun i => a i * ins L i) - sumn n (fun i => a i * outs L i)).
  { rewrite exch_in by (intros p Hp; apply (W p Hp)).
    rewrite exch_out by (intros p Hp; apply (W p Hp)).
    rewrite <- csum_minus. apply csum_ext. intros p _. unfold slackv, a. ring. }
  rewrite E1. rewrite <- sumn_minus, <- sumn_minus, <- sumn_plus.
  apply sumn_ext. intros i _. unfold stat_res, a, sq. ring.
Qed.

(* ------------------------------------------------------------------ exact KKT conditions *)
Record kkt (vs : list var) (L : list lcon) (x : place) : Prop := {
  kkt_feas : forall p, In p L -> holds vs x (fst p);
  kkt_sign : forall p, In p L -> ceq (fst p) = false -> 0 <= snd p;
  kkt_comp : forall p, In p L -> ~ slackv vs x (fst p) == 0 -> snd p == 0;
  kkt_stat : forall i, (i < length vs)%nat -> stat_res vs L x i == 0 }.

Definition lfeasible vs (L : list lcon) y := forall p, In p L -> holds vs y (fst p).

Lemma kkt_lower_bound vs L x y :
  wf_lcons vs L -> kkt vs L x -> lfeasible vs L y ->
  sumn (length vs) (fun i => wt (vget vs i) * sq (y i - x i)) <= obj vs y - obj vs x.
Proof.
  intros W K F. rewrite (obj_diff_identity vs L x y W).
  assert (S1 : sumn (length vs) (fun i => wt (vget vs i) * sq (y i - x i) + stat_res vs L x i * (y i - x i))
               == sumn (length vs) (fun i => wt (vget vs i) * sq (y i - x i))).
  { apply sumn_ext. intros i Hi. rewrite (kkt_stat _ _ _ K i Hi). ring. }
  rewrite S1.
  assert (S2 : 0 <= csum L (fun p => snd p * (slackv vs y (fst p) - slackv vs x (fst p)))).
  { apply csum_nonneg. intros p Hp.
    pose proof (F p Hp) as Fy. pose proof (kkt_feas _ _ _ K p Hp) as Fx.
    destruct (Qeq_dec (slackv vs x (fst p)) 0) as [T|NT].
    - rewrite T. unfold holds in Fy. destruct (ceq (fst p)) eqn:Eq.
      + rewrite Fy. lra.
      + pose proof (kkt_sign _ _ _ K p Hp Eq). nra.
    - rewrite (kkt_comp _ _ _ K p Hp NT). lra. }
  lra.
Qed.

(* kkt_sufficient: a KKT point is optimal, and it is the only optimum (weights > 0). *)
Theorem kkt_sufficient_l vs L x y :
  wf_vars vs -> wf_lcons vs L -> kkt vs L x -> lfeasible vs L y ->
  obj vs x <= obj vs y /\
  (obj vs y <= obj vs x -> forall i, (i < length vs)%nat -> y i == x i).
Proof.
  intros WV W K F. pose proof (kkt_lower_bound vs L x y W K F) as LB.
  assert (NN : forall i, (i < length vs)%nat -> 0 <= wt (vget vs i) * sq (y i - x i)).
  { intros i Hi. destruct (WV i Hi) as [Hw _]. apply wsq_nonneg. exact Hw. }
  pose proof (sumn_nonneg _ _ NN) as S0.
  split; [lra|]. intros Le i Hi.
  assert (Z : wt (vget vs i) * sq (y i - x i) <= 0).
  { rewrite (sumn_nonneg_zero (length vs) _ NN); [lra | lra | exact Hi]. }
  destruct (WV i Hi) as [Hw _]. apply (wsq_zero (wt (vget vs i))) in Z; [lra | exact Hw].
Qed.

(* presentation with a multiplier list aligned with the constraint list *)
Lemma in_combine_fst {A B} (l : list A) (l' : list B) a :
  length l = length l' -> In a l -> exists b, In (a, b) (combine l l').
Proof.
  revert l'. induction l as [|h t IH]; intros [|h' t'] Hl Hin; cbn in *; try lia; try tauto.
  destruct Hin as [->|Hin].
  - exists h'. left. reflexivity.
  - destruct (IH t' ltac:(lia) Hin) as [b Hb]. exists b. right. exact Hb.
Qed.

Lemma wf_lcons_combine vs cs lam : wf_cons vs cs -> wf_lcons vs (combine cs lam).
Proof. intros W [c l] Hp. apply in_combine_l in Hp. exact (W c Hp). Qed.

Lemma lfeasible_combine vs cs lam y : feasible vs cs y -> lfeasible vs (combine cs lam) y.
Proof. intros F [c l] Hp. apply in_combine_l in Hp. exact (F c Hp). Qed.

Theorem kkt_sufficient vs cs lam x :
  wf_vars vs -> wf_cons vs cs -> kkt vs (combine cs lam) x ->
  forall y, feasible vs cs y ->
    obj vs x <= obj vs y /\
    (obj vs y <= obj vs x -> forall i, (i < length vs)%nat -> y i == x i).
Proof.
  intros WV WC K y F.
  apply (kkt_sufficient_l vs (combine cs lam) x y WV (wf_lcons_combine _ _ _ WC) K).
  apply lfeasible_combine. exact F.
Qed.

(* with |lam| = |cs| the certificate also contains feasibility of x itself *)
Lemma kkt_feasible vs cs lam x :
  length lam = length cs -> kkt vs (combine cs lam) x -> feasible vs cs x.
Proof.
  intros Hl K c Hc. destruct (in_combine_fst cs lam c (eq_sym Hl) Hc) as [l Hp].
  exact (kkt_feas _ _ _ K (c, l) Hp).
Qed.

(* uniqueness: two certified points of the same problem coincide *)
Theorem kkt_unique vs cs lam lam' x x' :
  wf_vars vs -> wf_cons vs cs ->
  length lam = length cs -> length lam' = length cs ->
  kkt vs (combine cs lam) x -> kkt vs (combine cs lam') x' ->
  forall i, (i < length vs)%nat -> x i == x' i.
Proof.
  intros WV WC Hl Hl' K K' i Hi.
  pose proof (kkt_feasible _ _ _ _ Hl K) as Fx. pose proof (kkt_feasible _ _ _ _ Hl' K') as Fx'.
  destruct (kkt_sufficient vs cs lam x WV WC K x' Fx') as [A _].
  destruct (kkt_sufficient vs cs lam' x' WV WC K' x Fx) as [_ B].
  apply B; assumption.
Qed.

(* ------------------------------------------------------------------ order independence *)
Lemma feasible_perm vs cs cs' x : Permutation cs cs' -> feasible vs cs x -> feasible vs cs' x.
Proof. intros P F c Hc. apply F. apply (Permutation_in c (Permutation_sym P) Hc). Qed.
Lemma wf_cons_perm vs cs cs' : Permutation cs cs' -> wf_cons vs cs -> wf_cons vs cs'.
Proof. intros P F c Hc. apply F. apply (Permutation_in c (Permutation_sym P) Hc). Qed.

(* the optimum does not depend on the order in which constraints are supplied *)
Theorem optimum_constraint_order_independent vs cs cs' lam lam' x x' :
  wf_vars vs -> wf_cons vs cs -> Permutation cs cs' ->
  length lam = length cs -> length lam' = length cs' ->
  kkt vs (combine cs lam) x -> kkt vs (combine cs' lam') x' ->
  forall i, (i < length vs)%nat -> x i == x' i.
Proof.
  intros WV WC P Hl Hl' K K' i Hi.
  pose proof (wf_cons_perm _ _ _ P WC) as WC'.
  pose proof (kkt_feasible _ _ _ _ Hl K) as Fx. pose proof (kkt_feasible _ _ _ _ Hl' K') as Fx'.
  destruct (kkt_sufficient vs cs lam x WV WC K x' (feasible_perm _ _ _ _ (Permutation_sym P) Fx')) as [A _].
  destruct (kkt_sufficient vs cs' lam' x' WV WC' K' x (feasible_perm _ _ _ _ P Fx)) as [_ B].
  apply B; assumption.
Qed.

(* ------------------------------------------------------------------ duality-gap bound *)
(* For ANY placement x (not even feasible) and ANY multipliers that are >= 0 on the inequalities:
   obj x - obj y <= sum_i res_i^2/(4 w_i) + sum_c lam_c * slack_x(c)   for every feasible y. *)
Definition gap_bound (vs : list var) (L : list lcon) (x : place) : Q :=
  sumn (length vs) (fun i => sq (stat_res vs L x i) / (4 * wt (vget vs i)))
  + csum L (fun p => snd p * slackv vs x (fst p)).

Theorem kkt_gap_bound_l vs L x y :
  wf_vars vs -> wf_lcons vs L ->
  (forall p, In p L -> ceq (fst p) = false -> 0 <= snd p) ->
  lfeasible vs L y ->
  obj vs x - obj vs y <= gap_bound vs L x.
Proof.
  intros WV W S F. pose proof (obj_diff_identity vs L x y W) as I. unfold gap_bound.
  assert (A : sumn (length vs) (fun i => - (sq (stat_res vs L x i) / (4 * wt (vget vs i))))
              <= sumn (length vs) (fun i => wt (vget vs i) * sq (y i - x i) + stat_res vs L x i * (y i - x i))).
  { apply sumn_le. intros i Hi. destruct (WV i Hi) as [Hw _].
    set (w := wt (vget vs i)) in *. set (r := stat_res vs L x i). set (d := y i - x i).
    assert (E : sq r / (4 * w) == (r / (2 * w)) * (r / (2 * w)) * w) by (unfold sq; field; lra).
    rewrite E. unfold sq.
    assert (0 <= w * ((d + r / (2 * w)) * (d + r / (2 * w)))) by (apply (wsq_nonneg w (d + r / (2 * w))); exact Hw).
    assert (E2 : w * ((d + r / (2 * w)) * (d + r / (2 * w)))
                 == w * (d * d) + r * d + (r / (2 * w)) * (r / (2 * w)) * w) by (field; lra).
    lra. }
  assert (B : csum L (fun p => - (snd p * slackv vs x (fst p)))
              <= csum L (fun p => snd p * (slackv vs y (fst p) - slackv vs x (fst p)))).
  { apply csum_le. intros p Hp. pose proof (F p Hp) as Fy. unfold holds in Fy.
    destruct (ceq (fst p)) eqn:Eq.
    - rewrite Fy. lra.
    - pose proof (S p Hp Eq). nra. }
  assert (A' : sumn (length vs) (fun i => - (sq (stat_res vs L x i) / (4 * wt (vget vs i))))
               == - sumn (length vs) (fun i => sq (stat_res vs L x i) / (4 * wt (vget vs i)))).
  { rewrite <- (Qplus_0_l (- sumn _ _)). rewrite <- (sumn_zero (length vs)).
    change (sumn (length vs) (fun _ => 0) + - sumn (length vs) (fun i => sq (stat_res vs L x i) / (4 * wt (vget vs i))))
      with (sumn (length vs) (fun _ => 0) - sumn (length vs) (fun i => sq (stat_res vs L x i) / (4 * wt (vget vs i)))).
    rewrite <- sumn_minus. apply sumn_ext. intros. lra. }
  assert (B' : csum L (fun p => - (snd p * slackv vs x (fst p)))
               == - csum L (fun p => snd p * slackv vs x (fst p))).
  { rewrite <- (Qplus_0_l (- csum _ _)). rewrite <- (csum_zero L).
    change (csum L (fun _ => 0) + - csum L (fun p => snd p * slackv vs x (fst p)))
      with (csum L (fun _ => 0) - csum L (fun p => snd p * slackv vs x (fst p))).
    rewrite <- csum_minus. apply csum_ext. intros. lra. }
  lra.
Qed.

(* distance of a certified optimum x* to any other placement x in terms of the objective difference and x's
   constraint violations: sum_i w_i (x_i - x*_i)^2 <= obj x - obj x* - sum_c lam*_c slack_x(c)  *)
Lemma kkt_distance vs L xs x :
  wf_lcons vs L -> kkt vs L xs ->
  sumn (length vs) (fun i => wt (vget vs i) * sq (x i - xs i))
    == obj vs x - obj vs xs - csum L (fun p => snd p * slackv vs x (fst p)).
Proof.
  intros W K. rewrite (obj_diff_identity vs L xs x W).
  assert (S1 : sumn (length vs) (fun i => wt (vget vs i) * sq (x i - xs i) + stat_res vs L xs i * (x i - xs i))
               == sumn (length vs) (fun i => wt (vget vs i) * sq (x i - xs i))).
  { apply sumn_ext. intros i Hi. rewrite (kkt_stat _ _ _ K i Hi). ring. }
  rewrite S1.
  assert (S2 : csum L (fun p => snd p * (slackv vs x (fst p) - slackv vs xs (fst p)))
               == csum L (fun p => snd p * slackv vs x (fst p))).
  { apply csum_ext. intros p Hp.
    destruct (Qeq_dec (slackv vs xs (fst p)) 0) as [T|NT].
    - rewrite T. ring.
    - rewrite (kkt_comp _ _ _ K p Hp NT). ring. }
  rewrite S2. ring.
Qed.

(* ------------------------------------------------------------------ boolean certificate checker *)
Definition holdsb (vs : list var) (x : place) (c : con) : bool :=
  if ceq c then Qeqb (slackv vs x c) 0 else Qleb 0 (slackv vs x c).

Definition kkt_okl (vs : list var) (L : list lcon) (x : place) : bool :=
  forallb (fun p => holdsb vs x (fst p)
                    && (ceq (fst p) || Qleb 0 (snd p))
                    && (Qeqb (slackv vs x (fst p)) 0 || Qeqb (snd p) 0)) L
  && forallb (fun i => Qeqb (stat_res vs L x i) 0) (seq 0 (length vs)).

Lemma holdsb_spec vs x c : holdsb vs x c = true <-> holds vs x c.
Proof.
  unfold holdsb, holds. destruct (ceq c).
  - apply Qeqb_spec.
  - apply Qleb_spec.
Qed.

Lemma kkt_okl_spec vs L x : kkt_okl vs L x = true <-> kkt vs L x.
Proof.
  unfold kkt_okl. rewrite andb_true_iff, !forallb_forall. split.
  - intros [A B]. constructor.
    + intros p Hp. specialize (A p Hp). rewrite !andb_true_iff in A. apply holdsb_spec. tauto.
    + intros p Hp Eq. specialize (A p Hp). rewrite !andb_true_iff, Eq in A. cbn in A.
      apply Qleb_spec. tauto.
    + intros p Hp NT. specialize (A p Hp). rewrite !andb_true_iff, !orb_true_iff in A.
      destruct A as [_ [T|Z]].
      * apply Qeqb_spec in T. contradiction.
      * apply Qeqb_spec in Z. exact Z.
    + intros i Hi. apply Qeqb_spec. apply B. apply in_seq. lia.
  - intros K. split.
    + intros p Hp. rewrite !andb_true_iff. repeat split.
      * apply holdsb_spec. exact (kkt_feas _ _ _ K p Hp).
      * destruct (ceq (fst p)) eqn:Eq; [reflexivity|]. cbn. apply Qleb_spec. exact (kkt_sign _ _ _ K p Hp Eq).
      * apply orb_true_iff. destruct (Qeq_dec (slackv vs x (fst p)) 0) as [T|NT].
        -- left. apply Qeqb_spec. exact T.
        -- right. apply Qeqb_spec. exact (kkt_comp _ _ _ K p Hp NT).
    + intros i Hi. apply in_seq in Hi. apply Qeqb_spec. apply (kkt_stat _ _ _ K). lia.
Qed.

(* the checker the extracted driver calls: lists in, everything checked *)
Definition kkt_ok (vs : list var) (cs : list con) (xs lam : list Q) : bool :=
  wf_varsb vs && wf_consb vs cs && Nat.eqb (length lam) (length cs) && Nat.eqb (length xs) (length vs)
  && kkt_okl vs (combine cs lam) (place_of xs).

Lemma wf_varsb_spec vs : wf_varsb vs = true -> wf_vars vs.
Proof.
  unfold wf_varsb, wf_vars, vget. rewrite forallb_forall. intros H i Hi.
  specialize (H (nth i vs dvar) (nth_In _ _ Hi)). rewrite andb_true_iff, !Qltb_spec in H. exact H.
Qed.
Lemma wf_consb_spec vs cs : wf_consb vs cs = true -> wf_cons vs cs.
Proof.
  unfold wf_consb, wf_cons. rewrite forallb_forall. intros H c Hc.
  specialize (H c Hc). rewrite andb_true_iff, !Nat.ltb_lt in H. exact H.
Qed.

(* kkt_ok_sound (tol = 0): an accepted certificate proves that xs is THE optimum *)
Theorem kkt_ok_sound vs cs xs lam :
  kkt_ok vs cs xs lam = true ->
  feasible vs cs (place_of xs) /\
  forall y, feasible vs cs y ->
    obj vs (place_of xs) <= obj vs y /\
    (obj vs y <= obj vs (place_of xs) -> forall i, (i < length vs)%nat -> y i == place_of xs i).
Proof.
  unfold kkt_ok. rewrite !andb_true_iff. intros [[[[WV WC] Hl] _] K].
  apply wf_varsb_spec in WV. apply wf_consb_spec in WC. apply Nat.eqb_eq in Hl.
  apply kkt_okl_spec in K. split.
  - exact (kkt_feasible _ _ _ _ Hl K).
  - exact (kkt_sufficient vs cs lam (place_of xs) WV WC K).
Qed.

(* approximate certificate: clip negative multipliers of inequalities to 0, return the exact gap bound *)
Definition clip (c : con) (l : Q) : Q := if ceq c then l else if Qltb l 0 then 0 else l.
Definition clipL (cs : list con) (lam : list Q) : list lcon :=
  map (fun p => (fst p, clip (fst p) (snd p))) (combine cs lam).

Definition kkt_gap (vs : list var) (cs : list con) (xs lam : list Q) : option Q :=
  if wf_varsb vs && wf_consb vs cs && Nat.eqb (length lam) (length cs)
  then Some (gap_bound vs (clipL cs lam) (place_of xs)) else None.

Theorem kkt_gap_sound vs cs xs lam B :
  kkt_gap vs cs xs lam = Some B ->
  forall y, feasible vs cs y -> obj vs (place_of xs) - obj vs y <= B.
Proof.
  unfold kkt_gap. destruct (wf_varsb vs && wf_consb vs cs && Nat.eqb (length lam) (length cs)) eqn:E; [|discriminate].
  rewrite !andb_true_iff in E. destruct E as [[WV WC] _]. intros [= <-] y F.
  apply wf_varsb_spec in WV. apply wf_consb_spec in WC.
  apply kkt_gap_bound_l; try assumption.
  - intros p Hp. unfold clipL in Hp. apply in_map_iff in Hp. destruct Hp as [[c l] [<- Hq]].
    apply in_combine_l in Hq. exact (WC c Hq).
  - intros p Hp Eq. unfold clipL in Hp. apply in_map_iff in Hp. destruct Hp as [[c l] [<- Hq]].
    cbn in *. unfold clip. rewrite Eq. qcase; qb2p; lra.
  - intros p Hp. unfold clipL in Hp. apply in_map_iff in Hp. destruct Hp as [[c l] [<- Hq]].
    apply in_combine_l in Hq. exact (F c Hq).
Qed.

(* ------------------------------------------------------------------ non-vacuity *)
(* two variables wanting to sit at 0 and 0 with weights 1 and 3 (scale 2 on the second), constraint
   x0 + 4 <= 2*x1.  Optimum: x0 = -12/7, x1 = 8/7, multiplier 24/7. *)
Definition ex_vs := [mkvar 0 1 1; mkvar 0 3 2].
Definition ex_cs := [mkcon 0 1 4 false; mkcon 0 1 1 false].
Example kkt_ok_example : kkt_ok ex_vs ex_cs [-12#7; 8#7] [24#7; 0] = true.
Proof. vm_compute. reflexivity. Qed.
Example kkt_ok_example_rejects : kkt_ok ex_vs ex_cs [-2; 1] [4; 0] = false.
Proof. vm_compute. reflexivity. Qed.
Example kkt_gap_example : exists B, kkt_gap ex_vs ex_cs [-2; 1] [4; 0] = Some B /\ B == 1 # 3.
Proof. eexists. split; [vm_compute; reflexivity | reflexivity]. Qed.
