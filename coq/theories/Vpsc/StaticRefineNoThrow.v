(* Solver::refine of the static Solver model never raises UnsatisfiableException inside its loop: the only `throw` of
   Solver::refine / Solver::solve is the closing scan (sfinal_scan).  mergeRight, Blocks::split, the scan loop and the
   try loop can at worst run out of fuel in the model (= a null heap pointer / a non-terminating loop in the C++),
   never ThrowUnsat.  Together with StaticSplitSecond.static_split_all_sat this reduces `passes_ok` to totality
   (static_split returns) + the invariants carried between splits. *)
From Adapt Require Import Num.Qaux Vpsc.VpscSpec Vpsc.VpscModel Vpsc.VpscNoThrow Vpsc.StaticModel Vpsc.StaticFrame Vpsc.StaticDag.
Local Open Scope Q_scope.

Lemma fmo_loop_nothrow : forall fuel s h, nothrow (fmo_loop fuel s h).
Proof.
  induction fuel as [|f IH]; intros s h; cbn [fmo_loop]; [apply nothrow_oof|].
  destruct h as [[v kids]|]; [|apply nothrow_ok].
  destruct (Nat.eqb _ _); [destruct (s_delete_min _ _); apply IH | apply nothrow_ok].
Qed.
Lemma find_min_out_nothrow s b : nothrow (find_min_out s b).
Proof.
  unfold find_min_out. destruct (bout_of s b); [|apply nothrow_oof].
  apply nothrow_bind; [apply fmo_loop_nothrow|]. intros [s1 h1]. apply nothrow_ok.
Qed.
Lemma merge_heaps_out_nothrow s r l : nothrow (merge_heaps false s r l).
Proof.
  unfold merge_heaps. apply nothrow_bind; [apply find_min_out_nothrow|]. intros p1.
  apply nothrow_bind; [apply find_min_out_nothrow|]. intros p2.
  destruct (heap_of _ _ _); [|apply nothrow_oof]. destruct (heap_of _ _ _); [|apply nothrow_oof].
  destruct (s_merge _ _ _). apply nothrow_ok.
Qed.
Lemma mr_body_nothrow s l c : nothrow (mr_body s l c).
Proof.
  unfold mr_body. apply nothrow_bind; [apply delete_min_nothrow|]. intros s1.
  apply nothrow_bind; [apply merge_heaps_out_nothrow|]. intros s5.
  apply nothrow_bind; [apply find_min_out_nothrow|]. intros p. apply nothrow_ok.
Qed.
Lemma mr_loop_nothrow : forall fuel s l c, nothrow (mr_loop fuel s l c).
Proof.
  induction fuel as [|f IH]; intros s l c; cbn [mr_loop]; [apply nothrow_oof|].
  destruct c as [c0|]; [|apply nothrow_ok].
  destruct (Qltb _ _); [|apply nothrow_ok].
  apply nothrow_bind; [apply mr_body_nothrow|]. intros [[s' l'] c']. apply IH.
Qed.
Lemma merge_right_nothrow s l : nothrow (merge_right s l).
Proof. unfold merge_right. apply nothrow_bind; [apply find_min_out_nothrow|]. intros p. apply mr_loop_nothrow. Qed.

Lemma static_split_nothrow s b c : nothrow (static_split s b c).
Proof.
  unfold static_split. apply nothrow_bind; [intros x E; exact (split_no_throw _ _ _ _ E)|]. intros [[bs l] r].
  apply nothrow_bind; [apply merge_left_nothrow|]. intros s4.
  apply nothrow_bind; [apply merge_right_nothrow|]. intros s6. apply nothrow_ok.
Qed.
Lemma refine_scan_nothrow : forall bl s, nothrow (refine_scan bl s).
Proof.
  induction bl as [|b t IH]; intros s; cbn [refine_scan]; [apply nothrow_ok|].
  apply nothrow_bind; [intros x E; exact (find_min_lm_no_throw _ _ _ E)|]. intros [mn bs].
  destruct mn as [c|]; [|apply IH].
  destruct (Qltb _ _); [|apply IH].
  apply nothrow_bind; [apply static_split_nothrow|]. intros s3. apply nothrow_ok.
Qed.
Lemma refine_pass_nothrow s : nothrow (refine_pass s).
Proof. unfold refine_pass. apply refine_scan_nothrow. Qed.
Theorem refine_loop_nothrow : forall tries s, nothrow (refine_loop tries s).
Proof.
  induction tries as [|t IH]; intros s; cbn [refine_loop]; [apply nothrow_ok|].
  apply nothrow_bind; [apply refine_pass_nothrow|]. intros [s1 d]. cbn [fst snd].
  destruct d; [apply IH | apply nothrow_ok].
Qed.

(* hence: if Solver::refine throws, it is the closing scan that throws, i.e. the try loop returned a state s1 in which
   constraint c has slack < -1e-10 *)
Theorem static_refine_throw_only_in_scan s c :
  static_refine s = ThrowUnsat c ->
  exists s1, refine_loop MAXTRIES s = Ok s1 /\ sslack (note_scan s1) c < ZERO_UPPERBOUND.
Proof.
  unfold static_refine. intros H. destruct (refine_loop MAXTRIES s) as [s1|c0|] eqn:E; cbn [bind] in H.
  - exists s1. split; [reflexivity|]. unfold sfinal_scan in H.
    destruct (find _ _) as [c1|] eqn:F; [|discriminate]. inversion H. subst c1.
    apply find_some in F. destruct F as [_ F]. apply Qltb_spec in F. exact F.
  - exfalso. exact (refine_loop_nothrow MAXTRIES s c0 E).
  - discriminate.
Qed.

(* non-vacuity: on an infeasible 2-cycle Solver::refine does throw - in the closing scan *)
Definition nt_vs : list var := [mkvar 0 1 1; mkvar 0 1 1].
Definition nt_cs : list con := [mkcon 0 1 1 false; mkcon 1 0 1 false].
Definition nt_throws : bool :=
  match static_refine (static_init nt_vs nt_cs) with ThrowUnsat _ => true | _ => false end.
Lemma nt_throws_true : nt_throws = true. Proof. vm_compute. reflexivity. Qed.
Example static_refine_throw_only_in_scan_example : exists c, static_refine (static_init nt_vs nt_cs) = ThrowUnsat c.
Proof.
  pose proof nt_throws_true as P. unfold nt_throws in P.
  destruct (static_refine (static_init nt_vs nt_cs)) as [x|c|]; try discriminate. exists c. reflexivity.
Qed.
