(* Executable Gallina model of the STATIC solver vpsc::Solver (cola/libvpsc/solve_VPSC.cpp:100-200 satisfy / refine /
   solve; blocks.cpp totalOrder / dfsVisit / mergeLeft / mergeRight / split / cleanup; block.cpp setUpConstraintHeap /
   findMinInConstraint / findMinOutConstraint / deleteMin*Constraint / mergeIn / mergeOut / merge / split / findMinLM;
   pairing_heap.h; constraint.cpp:91-112 CompareConstraints) over exact rationals.
   One Gallina function per C++ function, same iteration orders.  NO PROOFS in this file.

   The state is VpscModel.st (variables, offsets, blocks with statistics, active flags, m_blocks) extended with the
   bookkeeping only the static solver uses: Block::timeStamp, Constraint::timeStamp, Blocks::blockTimeCtr and the two
   PairingHeap<Constraint*,CompareConstraints> of every block.

   The pairing heap is modelled EXACTLY (tree of constraint indices; insert / merge = compareAndLink with the root,
   deleteMin = the two-pass combineSiblings of pairing_heap.h:301-338), not as "a list from which the minimum is taken":
   the key CompareConstraints reads (slack, time stamps, block membership) changes while a constraint sits in a heap, so
   the root of the real heap is the winner of comparisons made at EARLIER states and need not be the minimum of the
   present keys.  The shape-exact model has no freedom left: equal keys are resolved as compareAndLink resolves them
   (`lessThan(second,first)` strict: the first argument stays root).  CompareConstraints itself is total on distinct
   (left id, right id) pairs only: two constraints between the same ordered pair with equal keys (equal slack, or both
   -DBL_MAX) are equivalent.  Variable::id is modelled by the variable's index (every caller in the library, and the
   harness, constructs Variable(i, ...) with id = index).
   Instrumentation (no influence on control flow): `stie` records that a comparison steering control flow was between
   keys closer than 1e-7, equal ones included (exact and binary64 arithmetic may order them differently).
   -DBL_MAX is None in option Q.  Loops take fuel; OutOfFuel also stands for "the C++ would dereference a null heap
   pointer" (Block::in / ::out == nullptr where the code uses it unguarded) - never observed, excluded by the theorems. *)
From Adapt Require Import Num.Qaux Vpsc.VpscSpec Vpsc.VpscModel.
Local Open Scope Q_scope.

(* ------------------------------------------------------------------ pairing_heap.h *)
Inductive ph : Type := PH (c : nat) (kids : list ph).
Definition heap := option ph.               (* PairingHeap::root *)
Definition ph_root (p : ph) : nat := match p with PH c _ => c end.
Definition ph_kids (p : ph) : list ph := match p with PH _ k => k end.

Section Heap.
  Variable lt : nat -> nat -> bool.         (* lessThan = CompareConstraints at the present state *)
  Variable nr : nat -> nat -> bool.         (* instrumentation: the two keys are (nearly) tied *)

  (* compareAndLink(first, second) (pairing_heap.h:262-293); result = new `first` *)
  Definition link (first second : ph) : ph * bool :=
    let t := nr (ph_root second) (ph_root first) in
    if lt (ph_root second) (ph_root first)
    then (PH (ph_root second) (first :: ph_kids second), t)     (* first becomes leftmost child of second *)
    else (PH (ph_root first) (second :: ph_kids first), t).     (* second becomes leftmost child of first *)

  (* insert (pairing_heap.h:139-150) *)
  Definition h_insert (h : heap) (c : nat) : heap * bool :=
    match h with
    | None => (Some (PH c []), false)
    | Some r => let '(p, t) := link r (PH c []) in (Some p, t)
    end.

  (* merge (pairing_heap.h:246-256): this = h, rhs = g (g's root is removed by the caller) *)
  Definition h_merge (h g : heap) : heap * bool :=
    match h, g with
    | None, _ => (g, false)
    | Some r, None => (h, false)
    | Some r, Some b => let '(p, t) := link r b in (Some p, t)
    end.

  (* combineSiblings, first pass left to right in pairs; an odd last tree is linked into the last pair's result *)
  Fixpoint pass1 (l : list ph) : list ph * option ph * bool :=
    match l with
    | a :: b :: t => let '(p, t1) := link a b in
                     let '(ps, lo, t2) := pass1 t in (p :: ps, lo, t1 || t2)
    | [a] => ([], Some a, false)
    | [] => ([], None, false)
    end.
  Fixpoint link_last (ps : list ph) (x : ph) : list ph * bool :=
    match ps with
    | [] => ([x], false)                     (* not reached: an odd count >= 3 has at least one pair *)
    | [p] => let '(q, t) := link p x in ([q], t)
    | p :: t => let '(r, t0) := link_last t x in (p :: r, t0)
    end.
  (* second pass right to left: the last tree is linked into the one before it *)
  Fixpoint pass2 (ps : list ph) : option ph * bool :=
    match ps with
    | [] => (None, false)
    | p :: t => match pass2 t with
                | (None, t0) => (Some p, t0)
                | (Some acc, t0) => let '(q, t1) := link p acc in (Some q, t1 || t0)
                end
    end.
  Definition combine_siblings (l : list ph) : heap * bool :=
    match l with
    | [] => (None, false)
    | [a] => (Some a, false)
    | _ => let '(ps, lo, t1) := pass1 l in
           let '(ps', t2) := match lo with Some x => link_last ps x | None => (ps, false) end in
           let '(r, t3) := pass2 ps' in (r, t1 || t2 || t3)
    end.
  (* deleteMin (pairing_heap.h:167-182) *)
  Definition h_delete_min (h : heap) : heap * bool :=
    match h with
    | None => (None, false)                  (* Underflow: callers test isEmpty first *)
    | Some (PH _ kids) => combine_siblings kids
    end.
End Heap.

Fixpoint ph_elems (p : ph) : list nat :=
  match p with PH c kids => c :: flat_map ph_elems kids end.
Definition heap_elems (h : heap) : list nat := match h with None => [] | Some p => ph_elems p end.

(* ------------------------------------------------------------------ state *)
Record sst := mksst {
  base : st;
  btime : list nat;            (* Block::timeStamp, by block id *)
  ctime : list nat;            (* Constraint::timeStamp *)
  bin : list (option heap);    (* Block::in ; None = nullptr *)
  bout : list (option heap);   (* Block::out *)
  ctr : nat;                   (* Blocks::blockTimeCtr *)
  stie : bool
}.
Definition set_base s x := mksst x (btime s) (ctime s) (bin s) (bout s) (ctr s) (stie s).
Definition set_btime s x := mksst (base s) x (ctime s) (bin s) (bout s) (ctr s) (stie s).
Definition set_ctime s x := mksst (base s) (btime s) x (bin s) (bout s) (ctr s) (stie s).
Definition set_bin s x := mksst (base s) (btime s) (ctime s) x (bout s) (ctr s) (stie s).
Definition set_bout s x := mksst (base s) (btime s) (ctime s) (bin s) x (ctr s) (stie s).
Definition set_ctr s x := mksst (base s) (btime s) (ctime s) (bin s) (bout s) x (stie s).
Definition set_stie s x := mksst (base s) (btime s) (ctime s) (bin s) (bout s) (ctr s) x.

Definition btime_of (s : sst) (b : nat) : nat := nth b (btime s) O.
Definition ctime_of (s : sst) (c : nat) : nat := nth c (ctime s) O.
Definition bin_of (s : sst) (b : nat) : option heap := nth b (bin s) None.
Definition bout_of (s : sst) (b : nat) : option heap := nth b (bout s) None.
Definition heap_of (s : sst) (inn : bool) (b : nat) : option heap := if inn then bin_of s b else bout_of s b.
Definition set_heap (s : sst) (inn : bool) (b : nat) (h : option heap) : sst :=
  if inn then set_bin s (upd_nth (bin s) b h) else set_bout s (upd_nth (bout s) b h).

Definition snote (s : sst) (a b : Q) : sst :=
  if Qltb (Qabs' (a - b)) TIE_EPS then set_stie s true else s.
Definition snote_b (s : sst) (t : bool) : sst := if t then set_stie s true else s.

(* ------------------------------------------------------------------ CompareConstraints (constraint.cpp:91-112) *)
Definition lblk (s : sst) (c : nat) : nat := blk_of (base s) (cl (con_of (base s) c)).
Definition rblk (s : sst) (c : nat) : nat := blk_of (base s) (cr (con_of (base s) c)).
(* sl = l->left->block->timeStamp > l->timeStamp || l->left->block==l->right->block ? -DBL_MAX : l->slack() *)
Definition skey (s : sst) (c : nat) : option Q :=
  if Nat.ltb (ctime_of s c) (btime_of s (lblk s c)) || Nat.eqb (lblk s c) (rblk s c)
  then None else Some (slack_val (base s) c).
Definition id_lt (s : sst) (a b : nat) : bool :=
  let ka := con_of (base s) a in
  let kb := con_of (base s) b in
  if Nat.eqb (cl ka) (cl kb) then Nat.ltb (cr ka) (cr kb) else Nat.ltb (cl ka) (cl kb).
Definition key_eqb (x y : option Q) : bool :=
  match x, y with
  | None, None => true
  | Some a, Some b => Qeqb a b
  | _, _ => false
  end.
Definition key_ltb (x y : option Q) : bool :=
  match x, y with
  | None, None => false
  | None, Some _ => true
  | Some _, None => false
  | Some a, Some b => Qltb a b
  end.
Definition cmp_less (s : sst) (a b : nat) : bool :=
  if key_eqb (skey s a) (skey s b) then id_lt s a b else key_ltb (skey s a) (skey s b).
(* instrumentation: a comparison is a (near-)tie when the two numbers are closer than 1e-7, unless they are EQUAL and
   binary64 computes both exactly (every ingredient of both slacks a small dyadic: then the C++ sees them equal too) *)
Fixpoint pow2 (p : positive) : bool := match p with xH => true | xO q => pow2 q | xI _ => false end.
Definition dyadic (q : Q) : bool :=
  let r := Qred q in
  pow2 (Qden r) && Pos.leb (Qden r) 1048576 && Z.leb (Z.abs (Qnum r)) 1048576.
Definition slack_exact (s : sst) (c : nat) : bool :=
  let b := base s in
  let k := con_of b c in
  let dyv := fun v => dyadic (off_of b v) && dyadic (scl (var_of b v)) &&
                      dyadic (posn (block_of b (blk_of b v))) && dyadic (bscale (block_of b (blk_of b v))) in
  dyadic (gap k) && dyv (cl k) && dyv (cr k).
Definition cmp_near (s : sst) (a b : nat) : bool :=
  match skey s a, skey s b with
  | Some x, Some y => Qltb (Qabs' (x - y)) TIE_EPS && negb (Qeqb x y && slack_exact s a && slack_exact s b)
  | _, _ => false
  end.
(* the same for a comparison of slack(c) with the constant z *)
Definition snote_slack (eps : Q) (s : sst) (c : nat) (z : Q) : sst :=
  let x := slack_val (base s) c in
  if Qltb (Qabs' (x - z)) eps && negb (Qeqb x z && slack_exact s c) then set_stie s true else s.
(* the closing scans compare with -1e-10: a tight constraint (slack 0, rounding noise ~1e-16 on the instances compared)
   is not a tie; a slack within 5e-11 of the threshold is *)
Definition SCAN_EPS : Q := 5 # 100000000000.
Definition cmp_equiv (s : sst) (a b : nat) : bool :=
  negb (Nat.eqb a b) && negb (cmp_less s a b) && negb (cmp_less s b a).
Definition nr_of (s : sst) (a b : nat) : bool := cmp_near s a b.

Definition s_insert (s : sst) (h : heap) (c : nat) : sst * heap :=
  let '(h', t) := h_insert (cmp_less s) (nr_of s) h c in (snote_b s t, h').
Definition s_delete_min (s : sst) (h : heap) : sst * heap :=
  let '(h', t) := h_delete_min (cmp_less s) (nr_of s) h in (snote_b s t, h').
Definition s_merge (s : sst) (h g : heap) : sst * heap :=
  let '(h', t) := h_merge (cmp_less s) (nr_of s) h g in (snote_b s t, h').

(* ------------------------------------------------------------------ Block::setUpConstraintHeap (block.cpp:123-139) *)
Definition set_ctime_of (s : sst) (c : nat) (t : nat) : sst := set_ctime s (upd_nth (ctime s) c t).

Definition heap_add (b : nat) (inn : bool) (acc : sst * heap) (c : nat) : sst * heap :=
  let '(s1, h1) := acc in
  let s2 := set_ctime_of s1 c (ctr s1) in
  if (if inn then negb (Nat.eqb (lblk s2 c) b) else negb (Nat.eqb (rblk s2 c) b))
  then s_insert s2 h1 c
  else (s2, h1).
Definition set_up_heap (inn : bool) (s : sst) (b : nat) : sst :=
  let '(s', h) :=
    fold_left (fun acc v =>
                 fold_left (heap_add b inn)
                           (if inn then ins_of (base s) v else outs_of (base s) v) acc)
              (bvars (block_of (base s) b)) (s, None) in
  set_heap s' inn b (Some h).

(* ------------------------------------------------------------------ Block::findMinInConstraint (block.cpp:213-263) *)
Fixpoint ph_size (p : ph) : nat := match p with PH _ kids => S (fold_right (fun k a => ph_size k + a)%nat O kids) end.
Definition heap_size (h : heap) : nat := match h with None => O | Some p => ph_size p end.

(* the while loop: (state, heap, outOfDate) *)
Fixpoint fmi_loop (fuel : nat) (s : sst) (h : heap) (ood : list nat) : res (sst * heap * list nat) :=
  match fuel with
  | O => OutOfFuel
  | S f =>
      match h with
      | None => Ok (s, h, ood)
      | Some (PH v _) =>
          if Nat.eqb (lblk s v) (rblk s v) then
            let '(s1, h1) := s_delete_min s h in fmi_loop f s1 h1 ood
          else if Nat.ltb (ctime_of s v) (btime_of s (lblk s v)) then
            let '(s1, h1) := s_delete_min s h in fmi_loop f s1 h1 (ood ++ [v])
          else Ok (s, h, ood)
      end
  end.
Definition reinsert (acc : sst * heap) (v : nat) : sst * heap :=
  let '(s, h) := acc in s_insert (set_ctime_of s v (ctr s)) h v.
Definition heap_min (h : heap) : option nat := match h with None => None | Some p => Some (ph_root p) end.
Definition find_min_in (s : sst) (b : nat) : res (sst * option nat) :=
  match bin_of s b with
  | None => OutOfFuel                         (* in == nullptr *)
  | Some h =>
      bind (fmi_loop (S (heap_size h)) s h []) (fun t =>
        let '(s1, h1, ood) := t in
        let '(s2, h2) := fold_left reinsert ood (s1, h1) in
        Ok (set_heap s2 true b (Some h2), heap_min h2))
  end.

(* Block::findMinOutConstraint (block.cpp:264-273) *)
Fixpoint fmo_loop (fuel : nat) (s : sst) (h : heap) : res (sst * heap) :=
  match fuel with
  | O => OutOfFuel
  | S f =>
      match h with
      | None => Ok (s, h)
      | Some (PH v _) =>
          if Nat.eqb (lblk s v) (rblk s v) then
            let '(s1, h1) := s_delete_min s h in fmo_loop f s1 h1
          else Ok (s, h)
      end
  end.
Definition find_min_out (s : sst) (b : nat) : res (sst * option nat) :=
  match bout_of s b with
  | None => OutOfFuel
  | Some h =>
      bind (fmo_loop (S (heap_size h)) s h) (fun t =>
        let '(s1, h1) := t in Ok (set_heap s1 false b (Some h1), heap_min h1))
  end.

(* Block::deleteMinInConstraint / deleteMinOutConstraint *)
Definition delete_min (inn : bool) (s : sst) (b : nat) : res sst :=
  match heap_of s inn b with
  | None => OutOfFuel
  | Some h => let '(s1, h1) := s_delete_min s h in Ok (set_heap s1 inn b (Some h1))
  end.

(* Block::mergeIn / mergeOut (block.cpp:196-212): this = r, b = l; b's heap loses its root (removeRootForMerge) *)
Definition merge_heaps (inn : bool) (s : sst) (r l : nat) : res sst :=
  let fm := if inn then find_min_in else find_min_out in
  bind (fm s r) (fun p1 =>
  bind (fm (fst p1) l) (fun p2 =>
    let s2 := fst p2 in
    match heap_of s2 inn r, heap_of s2 inn l with
    | Some hr, Some hl =>
        let '(s3, h) := s_merge s2 hr hl in
        Ok (set_heap (set_heap s3 inn r (Some h)) inn l (Some None))
    | _, _ => OutOfFuel
    end)).

Definition nvars (s : sst) (b : nat) : nat := length (bvars (block_of (base s) b)).
Definition sslack (s : sst) (c : nat) : Q := slack_val (base s) c.

(* ------------------------------------------------------------------ Blocks::mergeLeft (blocks.cpp:107-137) *)
(* one iteration of the while body; returns (state, the new r, the new c) *)
Definition ml_body (s : sst) (r c : nat) : res (sst * nat * option nat) :=
  bind (delete_min true s r) (fun s1 =>
    let k := con_of (base s1) c in
    let l := lblk s1 c in
    let s2 := match bin_of s1 l with None => set_up_heap true s1 l | Some _ => s1 end in
    let dist := off_of (base s2) (cr k) - off_of (base s2) (cl k) - gap k in
    let sw := Nat.ltb (nvars s2 r) (nvars s2 l) in
    let r' := if sw then l else r in
    let l' := if sw then r else l in
    let dist' := if sw then - dist else dist in
    let s3 := set_ctr s2 (S (ctr s2)) in
    let s4 := set_base s3 (merge_into (base s3) r' l' c dist') in
    bind (merge_heaps true s4 r' l') (fun s5 =>
      let s6 := set_btime s5 (upd_nth (btime s5) r' (ctr s5)) in
      bind (find_min_in s6 r') (fun p => Ok (fst p, r', snd p)))).

Fixpoint ml_loop (fuel : nat) (s : sst) (r : nat) (c : option nat) : res sst :=
  match fuel with
  | O => OutOfFuel
  | S f =>
      match c with
      | None => Ok s
      | Some c0 =>
          let s0 := snote_slack TIE_EPS s c0 0 in
          if Qltb (sslack s0 c0) 0 then
            bind (ml_body s0 r c0) (fun t => let '(s', r', c') := t in ml_loop f s' r' c')
          else Ok s0
      end
  end.

Definition loop_fuel (s : sst) : nat := S (S (length (svars (base s)))).

Definition merge_left (s : sst) (r : nat) : res sst :=
  let s1 := set_ctr s (S (ctr s)) in
  let s2 := set_btime s1 (upd_nth (btime s1) r (ctr s1)) in
  let s3 := set_up_heap true s2 r in
  bind (find_min_in s3 r) (fun p => ml_loop (loop_fuel s) (fst p) r (snd p)).

(* ------------------------------------------------------------------ Blocks::mergeRight (blocks.cpp:141-166) *)
Definition mr_body (s : sst) (l c : nat) : res (sst * nat * option nat) :=
  bind (delete_min false s l) (fun s1 =>
    let k := con_of (base s1) c in
    let r := rblk s1 c in
    let s2 := set_up_heap false s1 r in
    let dist := off_of (base s2) (cl k) + gap k - off_of (base s2) (cr k) in
    let sw := Nat.ltb (nvars s2 r) (nvars s2 l) in       (* l->vars->size() > r->vars->size() *)
    let l' := if sw then r else l in
    let r' := if sw then l else r in
    let dist' := if sw then - dist else dist in
    let s4 := set_base s2 (merge_into (base s2) l' r' c dist') in
    bind (merge_heaps false s4 l' r') (fun s5 =>
      bind (find_min_out s5 l') (fun p => Ok (fst p, l', snd p)))).

Fixpoint mr_loop (fuel : nat) (s : sst) (l : nat) (c : option nat) : res sst :=
  match fuel with
  | O => OutOfFuel
  | S f =>
      match c with
      | None => Ok s
      | Some c0 =>
          let s0 := snote_slack TIE_EPS s c0 0 in
          if Qltb (sslack s0 c0) 0 then
            bind (mr_body s0 l c0) (fun t => let '(s', l', c') := t in mr_loop f s' l' c')
          else Ok s0
      end
  end.

Definition merge_right (s : sst) (l : nat) : res sst :=
  let s1 := set_up_heap false s l in
  bind (find_min_out s1 l) (fun p => mr_loop (loop_fuel s) (fst p) l (snd p)).

(* ------------------------------------------------------------------ Blocks::totalOrder / dfsVisit (blocks.cpp:74-103) *)
Fixpoint dfs_visit (fuel : nat) (s : st) (v : nat) (acc : list bool * list nat) : res (list bool * list nat) :=
  match fuel with
  | O => OutOfFuel
  | S f =>
      let vis1 := upd_nth (fst acc) v true in
      bind (fold_left (fun (a : res (list bool * list nat)) (c : nat) =>
                         bind a (fun a' =>
                           let w := cr (con_of s c) in
                           if nth w (fst a') false then Ok a' else dfs_visit f s w a'))
                      (outs_of s v) (Ok (vis1, snd acc)))
           (fun a' => Ok (fst a', v :: snd a'))                  (* order->push_front(v) *)
  end.
Definition total_order (s : st) : res (list nat) :=
  let n := length (svars s) in
  bind (fold_left (fun (a : res (list bool * list nat)) (v : nat) =>
                     bind a (fun a' =>
                       match ins_of s v with
                       | [] => dfs_visit (S n) s v a'
                       | _ => Ok a'
                       end))
                  (seq 0 n) (Ok (repeat false n, [])))
       (fun a' => Ok (snd a')).

(* ------------------------------------------------------------------ Solver::satisfy (solve_VPSC.cpp:127-152) *)
Definition sfinal_scan (s : sst) : res sst :=
  match find (fun c => Qltb (sslack s c) ZERO_UPPERBOUND) (seq 0 (length (scons (base s)))) with
  | Some c => ThrowUnsat c
  | None => Ok s
  end.
Definition note_scan (s : sst) : sst :=
  fold_left (fun s' c => snote_slack SCAN_EPS s' c ZERO_UPPERBOUND) (seq 0 (length (scons (base s)))) s.

Definition sat_visit (acc : res sst) (v : nat) : res sst :=
  bind acc (fun s =>
    let b := blk_of (base s) v in
    if dead (block_of (base s) b) then Ok s else merge_left s b).

Definition merge_pass (s : sst) : res sst :=
  bind (total_order (base s)) (fun order => fold_left sat_visit order (Ok s)).

Definition static_satisfy (s : sst) : res sst :=
  bind (merge_pass s) (fun s1 =>
    let s2 := set_base s1 (cleanup (base s1)) in
    sfinal_scan (note_scan s2)).

(* ------------------------------------------------------------------ Blocks::split (blocks.cpp:193-220) *)
Definition pad2 (s : sst) : sst :=
  set_bout (set_bin (set_btime s (btime s ++ [O; O])) (bin s ++ [None; None])) (bout s ++ [None; None]).

Definition static_split (s : sst) (b c : nat) : res sst :=
  bind (split (base s) b c) (fun t =>
    let '(bs, l, r) := t in
    let s1 := pad2 (set_base s bs) in
    let s2 := set_base s1 (set_blist (base s1) (blist (base s1) ++ [l; r])) in
    let B := block_of (base s2) b in
    let R := block_of (base s2) r in
    (* r->posn = b->posn * b->ps.scale / r->ps.scale *)
    let R' := mkblk (bvars R) (Qred (posn B * bscale B / bscale R)) (bscale R) (AB R) (AD R) (A2 R) (dead R) in
    let s3 := set_base s2 (set_block (base s2) r R') in
    bind (merge_left s3 l) (fun s4 =>
      let r' := rblk s4 c in
      let s5 := set_base s4 (update_weighted_position (base s4) r') in
      bind (merge_right s5 r') (fun s6 => Ok (set_base s6 (kill_block (base s6) b))))).

(* ------------------------------------------------------------------ Solver::refine (solve_VPSC.cpp:154-192) *)
Definition setup_all (s : sst) : sst :=
  fold_left (fun s' b => set_up_heap false (set_up_heap true s' b) b) (blist (base s)) s.

(* the second for loop: (state, a split was made) *)
Fixpoint refine_scan (bl : list nat) (s : sst) : res (sst * bool) :=
  match bl with
  | [] => Ok (s, false)
  | b :: t =>
      bind (find_min_lm (base s) b) (fun a =>
        let '(mn, bs) := a in
        let s1 := set_base s bs in
        match mn with
        | None => refine_scan t s1
        | Some c =>
            let s2 := snote s1 (lm_of (base s1) c) LAGRANGIAN_TOLERANCE in
            if Qltb (lm_of (base s2) c) LAGRANGIAN_TOLERANCE then
              bind (static_split s2 b c) (fun s3 => Ok (set_base s3 (cleanup (base s3)), true))
            else refine_scan t s2
        end)
  end.
Definition refine_pass (s : sst) : res (sst * bool) :=
  let s1 := setup_all s in refine_scan (blist (base s1)) s1.
(* while(!solved && maxtries>0) *)
Fixpoint refine_loop (tries : nat) (s : sst) : res sst :=
  match tries with
  | O => Ok s
  | S t => bind (refine_pass s) (fun p => if snd p then refine_loop t (fst p) else Ok (fst p))
  end.
Definition static_refine (s : sst) : res sst :=
  bind (refine_loop MAXTRIES s) (fun s1 => sfinal_scan (note_scan s1)).

(* Solver::solve (solve_VPSC.cpp:194-199) *)
Definition static_solve (s : sst) : res sst := bind (static_satisfy s) static_refine.

(* Solver::Solver + Blocks::Blocks *)
Definition static_init (vs : list var) (cs : list con) : sst :=
  let n := length vs in
  mksst (init vs cs) (repeat O n) (repeat O (length cs)) (repeat None n) (repeat None n) O false.

Definition static_positions (s : sst) : list Q := final_positions (base s).

(* observation wrappers for the correspondence run: the same computations, also returning the tie flag in force when the
   closing scan threw (a ThrowUnsat result carries no state) *)
Definition static_satisfy_t (s : sst) : res sst * bool :=
  match merge_pass s with
  | Ok s1 => let s2 := note_scan (set_base s1 (cleanup (base s1))) in (sfinal_scan s2, stie s2 || tie (base s2))
  | ThrowUnsat c => (ThrowUnsat c, false)
  | OutOfFuel => (OutOfFuel, false)
  end.
Definition static_solve_t (s : sst) : res sst * bool :=
  match static_satisfy_t s with
  | (Ok s1, _) =>
      match refine_loop MAXTRIES s1 with
      | Ok s2 => let s3 := note_scan s2 in (sfinal_scan s3, stie s3 || tie (base s3))
      | ThrowUnsat c => (ThrowUnsat c, false)
      | OutOfFuel => (OutOfFuel, false)
      end
  | x => x
  end.
