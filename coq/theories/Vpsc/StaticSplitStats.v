(* Block::split (Vpsc/VpscModel.split = two populateSplitBlock walks into two new blocks) leaves BOTH new blocks with
   statistics that describe their variable lists at the current offsets and with posn at the weighted optimum
   (StaticGeom.blk_ok), whatever the constraint graph: every Block::addVariable keeps that, starting from the empty block.
   Needed for the entry of the mergeLeft half of Blocks::split (StaticSplitML.MLS_entry: l is at ITS optimum; r is put
   back to the old position afterwards, so only its statistics part blk_st survives). *)
From Adapt Require Import Num.Qaux Vpsc.VpscSpec Vpsc.VpscModel Vpsc.VpscInv Vpsc.VpscFrame Vpsc.VpscStats Vpsc.StaticGeom Vpsc.StaticGeom2.
Local Open Scope Q_scope.

Definition gfresh (s : st) (B : nat) : Prop :=
  let K := block_of s B in bvars K = [] /\ A2 K == 0 /\ AD K == 0 /\ AB K == 0.
Definition gstat (s : st) (B : nat) : Prop := gfresh s B \/ blk_ok s B.

Lemma blk_ok_frame s s' B :
  svars s' = svars s -> voff s' = voff s -> block_of s' B = block_of s B -> blk_ok s B -> blk_ok s' B.
Proof.
  intros E1 E2 E3 H. unfold blk_ok in *. cbv zeta in *. rewrite E3, E1.
  assert (EO : forall V, tsum (svars s) (off_of s') V == tsum (svars s) (off_of s) V).
  { intros V. apply tsum_ext. intros v _. unfold off_of. rewrite E2. reflexivity. }
  rewrite EO. exact H.
Qed.

Lemma add_variable_gstat s B v :
  wf_vars (svars s) -> (B < length (blocks s))%nat -> gstat s B -> blk_ok (add_variable s B v) B.
Proof.
  intros W HB [[F1 [F2 [F3 F4]]]|OK].
  - destruct (vget_pos' (svars s) v W) as [Pw Ps].
    unfold blk_ok. cbv zeta.
    change (svars (add_variable s B v)) with (svars s).
    assert (EO : forall V, tsum (svars s) (off_of (add_variable s B v)) V == tsum (svars s) (off_of s) V).
    { intros V. apply tsum_ext. intros u _. reflexivity. }
    rewrite EO.
    unfold add_variable, block_of, set_block, set_blocks. cbn [blocks set_vblk]. rewrite nth_upd_nth_eq by exact HB.
    fold (block_of s B). set (K := block_of s B) in *. cbn [bvars bscale A2 posn AD AB]. unfold var_of.
    set (V := vget (svars s) v) in *.
    assert (E : Qeqb (A2 K) 0 = true) by (apply Qeqb_spec; exact F2). rewrite E.
    rewrite !Qred_correct. rewrite F1. cbn [app usum tsum]. fold V.
    split; [discriminate|]. split; [exact Ps|].
    split; [rewrite F2; field; lra|]. split; [rewrite F3, F4; field; lra | reflexivity].
  - pose proof OK as [N [Sc [E2 [EN EP]]]]. cbv zeta in *.
    assert (Pa : 0 < A2 (block_of s B)).
    { rewrite E2. pose proof (usum_pos _ _ W N). apply Qmult_lt_0_compat; [apply Qmult_lt_0_compat; exact Sc | assumption]. }
    destruct (add_variable_stats s B v W HB Sc Pa) as [A1 [A2' [A3 [A4 [A5 A6]]]]]. cbv zeta in *.
    unfold blk_ok. cbv zeta.
    change (svars (add_variable s B v)) with (svars s).
    assert (EO : forall V, tsum (svars s) (off_of (add_variable s B v)) V == tsum (svars s) (off_of s) V).
    { intros V. apply tsum_ext. intros u _. reflexivity. }
    rewrite EO, A1, A2', usum_app, tsum_app. cbn [usum tsum].
    split; [destruct (bvars (block_of s B)); discriminate|]. split; [exact Sc|].
    split; [rewrite A3, E2; ring|]. split; [rewrite A4, EN; ring | exact A5].
Qed.

Lemma populate_gstat : forall fuel this b v u s s',
  populate fuel this b v u s = Ok s' -> wf_vars (svars s) -> (b < length (blocks s))%nat -> gstat s b ->
  blk_ok s' b /\ length (blocks s') = length (blocks s) /\ svars s' = svars s /\ voff s' = voff s /\
  (forall B, B <> b -> block_of s' B = block_of s B).
Proof.
  induction fuel as [|f IH]; intros this b v u s s' H W Hb G; [discriminate|].
  cbn [populate] in H.
  pose proof (add_variable_gstat s b v W Hb G) as A1.
  set (s1 := add_variable s b v) in *.
  set (I := fun x : st => blk_ok x b /\ length (blocks x) = length (blocks s) /\ svars x = svars s /\ voff x = voff s /\
                          (forall B, B <> b -> block_of x B = block_of s B)).
  set (gin := fun (s' : st) (c : nat) => if can_follow_left s' this c u
                                          then populate f this b (cl (con_of s' c)) (Some v) s' else Ok s').
  set (gout := fun (s' : st) (c : nat) => if can_follow_right s' this c u
                                           then populate f this b (cr (con_of s' c)) (Some v) s' else Ok s').
  assert (STEP : forall x w x', I x -> populate f this b w (Some v) x = Ok x' -> I x').
  { intros x w x' [Ax [Lx [Sx [Vx Ox]]]] P.
    destruct (IH _ _ _ _ _ _ P) as [B1 [B2 [B3 [B4 B5]]]]; [rewrite Sx; exact W | rewrite Lx; exact Hb | right; exact Ax|].
    split; [exact B1|]. split; [congruence|]. split; [congruence|]. split; [congruence|].
    intros B NB. rewrite (B5 B NB). apply Ox. exact NB. }
  destruct (fold_bind_inv gout I (outs_of s v)) with
    (acc := fold_left (fun acc c => bind acc (fun x => gin x c)) (ins_of s v) (Ok s1)) (r := s') as [smid [Emid Rout]].
  { intros x c x' _ Ix P. unfold gout in P. destruct (can_follow_right x this c u); [exact (STEP _ _ _ Ix P)|].
    inversion P. subst. exact Ix. }
  { exact H. }
  destruct (fold_bind_inv gin I (ins_of s v)) with (acc := Ok s1) (r := smid) as [s0 [E0 Rin]].
  { intros x c x' _ Ix P. unfold gin in P. destruct (can_follow_left x this c u); [exact (STEP _ _ _ Ix P)|].
    inversion P. subst. exact Ix. }
  { exact Emid. }
  inversion E0. subst s0. apply Rout, Rin.
  split; [exact A1|]. split; [apply add_variable_lblocks|]. split; [reflexivity|]. split; [reflexivity|].
  intros B NB. apply add_variable_blk_other. exact NB.
Qed.

Lemma new_block_gfresh s :
  let l := fst (new_block s) in let s1 := snd (new_block s) in
  l = length (blocks s) /\ gfresh s1 l /\ length (blocks s1) = S (length (blocks s)) /\
  svars s1 = svars s /\ voff s1 = voff s /\ (forall B, (B < length (blocks s))%nat -> block_of s1 B = block_of s B).
Proof.
  cbv zeta. unfold new_block. cbn [fst snd].
  split; [reflexivity|]. split.
  - unfold gfresh, block_of. cbn [blocks set_blocks]. rewrite app_nth2 by lia. rewrite Nat.sub_diag. cbn. repeat split; reflexivity.
  - split; [cbn [blocks set_blocks]; rewrite app_length; cbn; lia|]. split; [reflexivity|]. split; [reflexivity|].
    intros B HB. unfold block_of. cbn [blocks set_blocks]. apply app_nth1. exact HB.
Qed.

(* Block::split: both halves at their optimum with correct statistics; old blocks, offsets, variables untouched *)
Theorem split_blk_ok s this c s' l r :
  wf_vars (svars s) -> split s this c = Ok (s', l, r) ->
  blk_ok s' l /\ blk_ok s' r /\ l = length (blocks s) /\ r = S l /\ length (blocks s') = S (S l) /\
  svars s' = svars s /\ voff s' = voff s /\
  (forall B, (B < length (blocks s))%nat -> block_of s' B = block_of s B).
Proof.
  intros W H. unfold split in H.
  set (s0 := set_cact s (upd_nth (cact s) c false)) in *.
  destruct (new_block_gfresh s0) as [N1 [N2 [N3 [N4 [N5 N6]]]]]. cbv zeta in *.
  destruct (new_block s0) as [l0 s1]. cbn [fst snd] in *.
  apply bind_ok in H. destruct H as [s2 [P1 H]].
  destruct (populate_gstat _ _ _ _ _ _ _ P1) as [A1 [A2' [A3 [A4 A5]]]];
    [rewrite N4; exact W | rewrite N3, N1; lia | left; exact N2|].
  destruct (new_block_gfresh s2) as [M1 [M2 [M3 [M4 [M5 M6]]]]]. cbv zeta in *.
  destruct (new_block s2) as [r0 s3]. cbn [fst snd] in *.
  apply bind_ok in H. destruct H as [s4 [P2 H]].
  assert (E : s' = s4 /\ l = l0 /\ r = r0) by (inversion H; auto). destruct E as [-> [-> ->]]. clear H.
  destruct (populate_gstat _ _ _ _ _ _ _ P2) as [B1 [B2 [B3 [B4 B5]]]];
    [rewrite M4, A3, N4; exact W | rewrite M3; lia | left; exact M2|].
  change (length (blocks s0)) with (length (blocks s)) in *. change (svars s0) with (svars s) in *.
  change (voff s0) with (voff s) in *.
  assert (Hl0 : (l0 < length (blocks s2))%nat) by (rewrite A2', N3; lia).
  assert (Nlr : l0 <> r0) by lia.
  split.
  { apply (blk_ok_frame s2); [congruence | congruence | rewrite (B5 l0 Nlr); apply M6; exact Hl0 | exact A1]. }
  split; [exact B1|]. split; [exact N1|]. split; [rewrite M1, A2', N3, N1; reflexivity|].
  split; [rewrite B2, M3, A2', N3, N1; reflexivity|]. split; [congruence|]. split; [congruence|].
  intros B HB. rewrite (B5 B) by lia. rewrite (M6 B) by lia. rewrite (A5 B) by lia. rewrite (N6 B HB). reflexivity.
Qed.

(* ------------------------------------------------------------------ Block::updateWeightedPosition *)
Lemma stats_add_fold_geo s : wf_vars (svars s) -> forall V sc ab ad a2,
  exists ab' ad' a2', fold_left (stats_add s) V (sc, ab, ad, a2) = (sc, ab', ad', a2') /\
    a2' == a2 + sc * sc * usum (svars s) V /\
    ad' - ab' == ad - ab + sc * tsum (svars s) (off_of s) V.
Proof.
  intros W. induction V as [|v t IH]; intros sc ab ad a2; cbn [fold_left].
  - exists ab, ad, a2. split; [reflexivity|]. cbn [usum tsum]. split; ring.
  - unfold stats_add at 2. cbv zeta.
    destruct (IH sc (Qred (ab + wt (var_of s v) * (sc / scl (var_of s v)) * (off_of s v / scl (var_of s v))))
                 (Qred (ad + wt (var_of s v) * (sc / scl (var_of s v)) * des (var_of s v)))
                 (Qred (a2 + wt (var_of s v) * (sc / scl (var_of s v)) * (sc / scl (var_of s v))))) as [ab' [ad' [a2' [E1 [E2 E3]]]]].
    exists ab', ad', a2'. split; [exact E1|].
    destruct (vget_pos' (svars s) v W) as [_ Ps]. unfold var_of in *.
    split; [rewrite E2, Qred_correct; cbn [usum]; field; lra|].
    rewrite E3, !Qred_correct. cbn [tsum]. field. lra.
Qed.

(* the block is recomputed from its variable list: statistics and optimum are right whatever they were before *)
Theorem uwp_blk_ok s b :
  wf_vars (svars s) -> (b < length (blocks s))%nat -> bvars (block_of s b) <> [] -> 0 < bscale (block_of s b) ->
  let s' := update_weighted_position s b in
  blk_ok s' b /\ svars s' = svars s /\ scons s' = scons s /\ voff s' = voff s /\ vblk s' = vblk s /\ cact s' = cact s /\
  length (blocks s') = length (blocks s) /\
  bvars (block_of s' b) = bvars (block_of s b) /\ bscale (block_of s' b) = bscale (block_of s b) /\
  (forall X, X <> b -> block_of s' X = block_of s X).
Proof.
  intros W Hb N Sc. cbv zeta. unfold update_weighted_position.
  destruct (stats_add_fold_geo s W (bvars (block_of s b)) (bscale (block_of s b)) 0 0 0) as [ab [ad [a2 [E1 [E2 E3]]]]].
  rewrite E1. set (K := block_of s b) in *.
  assert (EB : block_of (set_block s b (mkblk (bvars K) (Qred ((ad - ab) / a2)) (bscale K) ab ad a2 (dead K))) b =
               mkblk (bvars K) (Qred ((ad - ab) / a2)) (bscale K) ab ad a2 (dead K)).
  { unfold block_of, set_block, set_blocks. cbn [blocks]. apply nth_upd_nth_eq. exact Hb. }
  split.
  { unfold blk_ok. cbv zeta. rewrite EB. cbn [bvars bscale A2 AD AB posn].
    change (svars (set_block s b _)) with (svars s).
    assert (EO : forall V, tsum (svars s) (off_of (set_block s b (mkblk (bvars K) (Qred ((ad - ab) / a2)) (bscale K) ab ad a2 (dead K)))) V
                           == tsum (svars s) (off_of s) V).
    { intros V. apply tsum_ext. intros v _. reflexivity. }
    rewrite EO. split; [exact N|]. split; [exact Sc|]. split; [rewrite E2; ring|]. split; [rewrite E3; ring | apply Qred_correct]. }
  split; [reflexivity|]. split; [reflexivity|]. split; [reflexivity|]. split; [reflexivity|]. split; [reflexivity|].
  split; [unfold set_block, set_blocks; cbn [blocks]; apply upd_nth_length|].
  split; [rewrite EB; reflexivity|]. split; [rewrite EB; reflexivity|].
  intros X NX. unfold block_of, set_block, set_blocks. cbn [blocks]. apply nth_upd_nth_neq. congruence.
Qed.
