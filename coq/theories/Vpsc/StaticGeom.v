(* Geometry of one Block::merge of the VPSC model (VpscModel.merge_into), in the "scaled" coordinates
     Yof b u = bscale(block u) * posn(block u) + offset u   ( = scale_u * position_u ),
   in which every constraint is a difference constraint: slack c = Yof (right c) - gap c - Yof (left c).
   blk_ok: the statistics of a block are the sums over its variables and the block sits at its weighted optimum.
   merge_shift: when block a is merged into block t across a constraint c made tight by the merge, the variables
   of the side of c's right end all move by rho_r >= 0, those of the side of c's left end by rho_l <= 0 with
   rho_r - rho_l = - slack c (the merged block sits between the two optima), every other variable stays. *)
From Adapt Require Import Num.Qaux Vpsc.VpscSpec Vpsc.VpscModel Vpsc.VpscInv Vpsc.VpscForest.
Local Open Scope Q_scope.

Definition Yof (b : st) (u : nat) : Q :=
  bscale (block_of b (blk_of b u)) * posn (block_of b (blk_of b u)) + off_of b u.

Lemma slack_Y b c :
  ~ scl (var_of b (cl (con_of b c))) == 0 -> ~ scl (var_of b (cr (con_of b c))) == 0 ->
  slack_val b c == Yof b (cr (con_of b c)) - gap (con_of b c) - Yof b (cl (con_of b c)).
Proof.
  intros Nl Nr. unfold slack_val, position, Yof. rewrite !Qred_correct. field. split; assumption.
Qed.

(* ------------------------------------------------------------------ sums *)
Fixpoint usum (vs : list var) (V : list nat) : Q :=
  match V with
  | [] => 0
  | v :: t => wt (vget vs v) / (scl (vget vs v) * scl (vget vs v)) + usum vs t
  end.
Fixpoint tsum (vs : list var) (o : nat -> Q) (V : list nat) : Q :=
  match V with
  | [] => 0
  | v :: t => wt (vget vs v) * (des (vget vs v) * scl (vget vs v) - o v) / (scl (vget vs v) * scl (vget vs v)) + tsum vs o t
  end.

Lemma usum_app vs V W : usum vs (V ++ W) == usum vs V + usum vs W.
Proof. induction V as [|v t IH]; cbn [app usum]; [lra | rewrite IH; lra]. Qed.
Lemma tsum_app vs o V W : tsum vs o (V ++ W) == tsum vs o V + tsum vs o W.
Proof. induction V as [|v t IH]; cbn [app tsum]; [lra | rewrite IH; lra]. Qed.
Lemma tsum_shift vs o o' d V :
  (forall v, In v V -> o' v == o v + d) -> tsum vs o' V == tsum vs o V - d * usum vs V.
Proof.
  induction V as [|v t IH]; intros H; cbn [tsum usum]; [lra|].
  rewrite IH by (intros w Hw; apply H; right; exact Hw). rewrite (H v (or_introl eq_refl)).
  unfold Qdiv. ring.
Qed.
Lemma tsum_ext vs o o' V : (forall v, In v V -> o' v == o v) -> tsum vs o' V == tsum vs o V.
Proof.
  intros H. rewrite (tsum_shift vs o o' 0 V); [lra|]. intros v Hv. rewrite (H v Hv). lra.
Qed.

Lemma vget_pos' vs v : wf_vars vs -> 0 < wt (vget vs v) /\ 0 < scl (vget vs v).
Proof.
  intros W. destruct (Nat.lt_ge_cases v (length vs)) as [L|L]; [exact (W v L)|].
  unfold vget. rewrite nth_overflow by exact L. cbn. split; reflexivity.
Qed.
Lemma uterm_pos vs v : wf_vars vs -> 0 < wt (vget vs v) / (scl (vget vs v) * scl (vget vs v)).
Proof.
  intros W. destruct (vget_pos' vs v W) as [A B]. unfold Qdiv. apply Qmult_lt_0_compat; [exact A|].
  apply Qinv_lt_0_compat. apply Qmult_lt_0_compat; exact B.
Qed.
Lemma usum_nonneg vs V : wf_vars vs -> 0 <= usum vs V.
Proof. intros W. induction V as [|v t IH]; cbn [usum]; [lra|]. pose proof (uterm_pos vs v W). lra. Qed.
Lemma usum_pos vs V : wf_vars vs -> V <> [] -> 0 < usum vs V.
Proof.
  intros W N. destruct V as [|v t]; [congruence|]. cbn [usum].
  pose proof (uterm_pos vs v W). pose proof (usum_nonneg vs t W). lra.
Qed.

(* ------------------------------------------------------------------ block statistics *)
Definition blk_ok (b : st) (B : nat) : Prop :=
  let K := block_of b B in
  bvars K <> [] /\ 0 < bscale K /\
  A2 K == bscale K * bscale K * usum (svars b) (bvars K) /\
  AD K - AB K == bscale K * tsum (svars b) (off_of b) (bvars K) /\
  posn K == (AD K - AB K) / A2 K.
Definition all_blk_ok (b : st) : Prop := forall u, (u < length (svars b))%nat -> blk_ok b (blk_of b u).

(* the block's position in Y coordinates is the weighted optimum T / U *)
Lemma blk_ok_Y b B : wf_vars (svars b) -> blk_ok b B ->
  0 < usum (svars b) (bvars (block_of b B)) /\
  bscale (block_of b B) * posn (block_of b B) ==
    tsum (svars b) (off_of b) (bvars (block_of b B)) / usum (svars b) (bvars (block_of b B)).
Proof.
  intros W [N [S [E2 [EN EP]]]]. cbv zeta in *. pose proof (usum_pos _ _ W N) as U. split; [exact U|].
  rewrite EP, EN, E2. field. split; lra.
Qed.

(* one addVariable on a block with A2 > 0 *)
Lemma add_variable_stats s t v :
  wf_vars (svars s) -> (t < length (blocks s))%nat -> 0 < bscale (block_of s t) -> 0 < A2 (block_of s t) ->
  let K := block_of s t in
  let K' := block_of (add_variable s t v) t in
  let V := vget (svars s) v in
  bvars K' = bvars K ++ [v] /\ bscale K' = bscale K /\
  A2 K' == A2 K + bscale K * bscale K * (wt V / (scl V * scl V)) /\
  AD K' - AB K' == AD K - AB K + bscale K * (wt V * (des V * scl V - off_of s v) / (scl V * scl V)) /\
  posn K' == (AD K' - AB K') / A2 K' /\ 0 < A2 K'.
Proof.
  intros W Ht Sc Pa. cbv zeta. destruct (vget_pos' (svars s) v W) as [Pw Ps].
  unfold add_variable, block_of, set_block, set_blocks. cbn [blocks set_vblk]. rewrite nth_upd_nth_eq by exact Ht.
  fold (block_of s t). set (K := block_of s t) in *. cbn [bvars bscale A2 posn AD AB]. unfold var_of.
  set (V := vget (svars s) v) in *.
  assert (E : Qeqb (A2 K) 0 = false) by (apply Qeqb_false; lra). rewrite E.
  rewrite !Qred_correct.
  assert (T1 : wt V * (bscale K / scl V) * (bscale K / scl V) == bscale K * bscale K * (wt V / (scl V * scl V))) by (field; lra).
  assert (T1p : 0 < bscale K * bscale K * (wt V / (scl V * scl V))).
  { apply Qmult_lt_0_compat; [apply Qmult_lt_0_compat; exact Sc|]. unfold Qdiv. apply Qmult_lt_0_compat; [exact Pw|].
    apply Qinv_lt_0_compat. apply Qmult_lt_0_compat; exact Ps. }
  split; [reflexivity|]. split; [reflexivity|]. split; [rewrite T1; reflexivity|]. split.
  - field. lra.
  - split; [reflexivity|]. rewrite T1. lra.
Qed.

Lemma add_variable_blk_other s t v B : B <> t -> block_of (add_variable s t v) B = block_of s B.
Proof.
  intros N. unfold add_variable, block_of, set_block, set_blocks. cbn [blocks set_vblk]. apply nth_upd_nth_neq. congruence.
Qed.

(* the loop of Block::merge on the statistics of the receiving block *)
Lemma mfold_stats t d : forall vars s,
  wf_vars (svars s) -> NoDup vars ->
  (forall v, In v vars -> (v < length (voff s))%nat) ->
  (t < length (blocks s))%nat -> 0 < bscale (block_of s t) -> 0 < A2 (block_of s t) ->
  let s2 := fold_left (mstep t d) vars s in
  let K := block_of s t in
  let K2 := block_of s2 t in
  bscale K2 = bscale K /\
  A2 K2 == A2 K + bscale K * bscale K * usum (svars s) vars /\
  AD K2 - AB K2 == AD K - AB K + bscale K * (tsum (svars s) (off_of s) vars - d * usum (svars s) vars) /\
  (vars <> [] -> posn K2 == (AD K2 - AB K2) / A2 K2) /\ 0 < A2 K2.
Proof.
  induction vars as [|v vars IH]; intros s W ND Hr Ht Sc Pa; cbv zeta.
  - cbn [fold_left usum tsum]. split; [reflexivity|]. split; [lra|]. split; [lra|]. split; [congruence | exact Pa].
  - cbn [fold_left]. inversion ND as [|? ? Hnv ND']. subst.
    set (s0 := set_voff s (upd_nth (voff s) v (Qred (off_of s v + d)))).
    assert (Hv : (v < length (voff s))%nat) by (apply Hr; left; reflexivity).
    assert (Eo : off_of s0 v == off_of s v + d).
    { unfold off_of at 1. cbn [s0 set_voff voff]. rewrite nth_upd_nth_eq by exact Hv. apply Qred_correct. }
    change (mstep t d s v) with (add_variable s0 t v).
    destruct (add_variable_stats s0 t v W Ht Sc Pa) as [B1 [B2 [B3 [B4 [B5 B6]]]]].
    change (block_of s0 t) with (block_of s t) in *. change (svars s0) with (svars s) in *.
    set (s1 := add_variable s0 t v) in *.
    assert (L1 : length (voff s1) = length (voff s)) by (cbn; apply upd_nth_length).
    assert (Lb : length (blocks s1) = length (blocks s)) by (cbn; apply upd_nth_length).
    destruct (IH s1) as [C1 [C2 [C3 [C4 C5]]]].
    + exact W.
    + exact ND'.
    + intros w Hw. rewrite L1. apply Hr. right. exact Hw.
    + rewrite Lb. exact Ht.
    + rewrite B2. exact Sc.
    + exact B6.
    + change (svars s1) with (svars s) in *.
      assert (Eoff : forall w, In w vars -> off_of s1 w == off_of s w).
      { intros w Hw. assert (v <> w) by (intros ->; contradiction).
        unfold off_of. cbn [s1 add_variable set_vblk set_block set_blocks s0 set_voff voff]. rewrite nth_upd_nth_neq by assumption. reflexivity. }
      rewrite (tsum_ext _ _ _ _ Eoff) in C3.
      split; [congruence|]. split.
      * rewrite C2, B3, B2. cbn [usum]. ring.
      * split; [|split; [intros _ | exact C5]].
        -- rewrite C3, B4, B2, Eo. cbn [usum tsum]. unfold Qdiv. ring.
        -- destruct vars as [|w vars']; [cbn [fold_left]; exact B5 | apply C4; discriminate].
Qed.

(* ------------------------------------------------------------------ a weighted mean lies between its two points *)
Lemma wmean_between (U1 U2 Y1 Y2 P : Q) :
  0 < U1 -> 0 < U2 -> P == (U1 * Y1 + U2 * Y2) / (U1 + U2) ->
  (Y1 <= Y2 -> Y1 <= P <= Y2) /\ (Y2 <= Y1 -> Y2 <= P <= Y1).
Proof.
  intros P1 P2 E.
  assert (S : 0 < U1 + U2) by lra.
  assert (E' : P * (U1 + U2) == U1 * Y1 + U2 * Y2) by (rewrite E; field; lra).
  split; intros H; split.
  - assert (Y1 * (U1 + U2) <= P * (U1 + U2)) by nra. nra.
  - assert (P * (U1 + U2) <= Y2 * (U1 + U2)) by nra. nra.
  - assert (Y2 * (U1 + U2) <= P * (U1 + U2)) by nra. nra.
  - assert (P * (U1 + U2) <= Y1 * (U1 + U2)) by nra. nra.
Qed.

(* ------------------------------------------------------------------ Block::merge in Y coordinates *)
Lemma merge_into_geom b t a c d x y :
  book b -> wf_vars (svars b) -> all_blk_ok b ->
  (x < length (svars b))%nat -> (y < length (svars b))%nat ->
  blk_of b x = t -> blk_of b y = a -> t <> a ->
  let b' := merge_into b t a c d in
  let Yt := bscale (block_of b t) * posn (block_of b t) in
  let Ya := bscale (block_of b a) * posn (block_of b a) in
  exists P',
    (Yt <= Ya - d -> Yt <= P' <= Ya - d) /\ (Ya - d <= Yt -> Ya - d <= P' <= Yt) /\
    (forall u, (u < length (svars b))%nat ->
       (blk_of b u = t -> Yof b' u == P' + off_of b u) /\
       (blk_of b u = a -> Yof b' u == P' + off_of b u + d) /\
       (blk_of b u <> t -> blk_of b u <> a -> Yof b' u == Yof b u)) /\
    all_blk_ok b'.
Proof.
  intros BK W OK Hx Hy Ht Hb Hne. cbv zeta.
  pose proof (merge_into_facts b t a c d x y BK Hx Hy Ht Hb Hne) as MF.
  pose proof (OK x Hx) as OKt. rewrite Ht in OKt. pose proof (OK y Hy) as OKa. rewrite Hb in OKa.
  destruct (blk_ok_Y b t W OKt) as [Ut EYt]. destruct (blk_ok_Y b a W OKa) as [Ua EYa].
  destruct OKt as [Nt [Sct [A2t [Nmt Pt]]]]. destruct OKa as [Na [Sca [A2a [Nma Pa]]]]. cbv zeta in *.
  revert MF. rewrite merge_into_unfold. intros MF.
  set (s1 := set_cact b (upd_nth (cact b) c true)) in *.
  set (V := bvars (block_of s1 a)) in *.
  assert (HV : V = bvars (block_of b a)) by reflexivity.
  pose proof BK as [K1 K2 K3 K4 K5 K6 K7].
  assert (HVin : forall w, In w V <-> ((w < length (svars b))%nat /\ blk_of b w = a)).
  { intros w. rewrite HV, <- Hb. apply K5. exact Hy. }
  assert (NDV : NoDup V) by (rewrite HV, <- Hb; apply K6; exact Hy).
  assert (Htl : (t < length (blocks s1))%nat) by (cbn [s1 set_cact blocks]; rewrite <- Ht; apply K4; exact Hx).
  assert (F : mfold_facts t d V s1 (fold_left (mstep t d) V s1)).
  { apply mfold_spec; [exact NDV | | exact Htl].
    intros v Hv. apply HVin in Hv. destruct Hv as [Hv _]. cbn [s1 set_cact voff vblk]. rewrite K1, K2. split; exact Hv. }
  assert (A2pos : 0 < A2 (block_of s1 t)).
  { change (block_of s1 t) with (block_of b t). rewrite A2t.
    apply Qmult_lt_0_compat; [apply Qmult_lt_0_compat; exact Sct | exact Ut]. }
  destruct (mfold_stats t d V s1 W NDV) as [C1 [C2 [C3 [C4 C5]]]].
  { intros v Hv. apply HVin in Hv. cbn [s1 set_cact voff]. rewrite K1. exact (proj1 Hv). }
  { exact Htl. } { exact Sct. } { exact A2pos. }
  specialize (C4 Na).
  set (s2 := fold_left (mstep t d) V s1) in *.
  destruct F as [F1 F2 F3 F4 F5 F6 F7 F8 F9 F10].
  change (block_of s1 t) with (block_of b t) in *. change (svars s1) with (svars b) in *.
  change (off_of s1) with (off_of b) in *.
  set (b' := kill_block s2 a) in *.
  assert (Et : block_of b' t = block_of s2 t).
  { unfold b', kill_block, set_block, set_blocks, block_of. cbn [blocks]. apply nth_upd_nth_neq. congruence. }
  assert (Goff : forall w, off_of b' w = off_of s2 w) by reflexivity.
  assert (Gblk : forall w, blk_of b' w = blk_of s2 w) by reflexivity.
  assert (Gsv : svars b' = svars b) by (exact (mg_svars _ _ _ _ _ MF)).
  set (Kt := block_of b t) in *. set (Kn := block_of s2 t) in *.
  set (Tt := tsum (svars b) (off_of b) (bvars Kt)) in *.
  set (Ta := tsum (svars b) (off_of b) V) in *.
  set (UT := usum (svars b) (bvars Kt)) in *. set (UA := usum (svars b) V) in *.
  change (usum (svars b) (bvars (block_of b a))) with UA in *.
  change (tsum (svars b) (off_of b) (bvars (block_of b a))) with Ta in *.
  exists (bscale Kt * posn Kn).
  assert (EP : bscale Kt * posn Kn ==
               (UT * (bscale Kt * posn Kt) + UA * (bscale (block_of b a) * posn (block_of b a) - d)) / (UT + UA)).
  { rewrite C4, C3, C2, Nmt, A2t, EYt, EYa. field. repeat split; lra. }
  destruct (wmean_between UT UA _ _ _ Ut Ua EP) as [M1 M2].
  split; [exact M1|]. split; [exact M2|]. split.
  - intros u Hu. unfold Yof. rewrite Gblk, Goff.
    destruct (mg_blk _ _ _ _ _ MF u Hu) as [B1 B2]. fold s2 in B1, B2. fold b' in B1, B2. rewrite Gblk in B1, B2.
    split; [|split].
    + intros E. assert (Ea : blk_of b u <> a) by congruence. rewrite (B2 Ea), E.
      destruct (F8 u) as [Eo _]; [rewrite HVin; tauto|]. rewrite Eo, Et, C1. reflexivity.
    + intros E. rewrite (B1 E). destruct (F7 u) as [Eo _]; [apply HVin; tauto|]. rewrite Et, C1, Eo.
      change (off_of s1 u) with (off_of b u). ring.
    + intros E1 E2. rewrite (B2 E2). destruct (F8 u) as [Eo _]; [rewrite HVin; tauto|]. rewrite Eo.
      rewrite (mg_other _ _ _ _ _ MF _ E1 E2). reflexivity.
  - intros u Hu. rewrite Gsv in Hu.
    destruct (mg_blk _ _ _ _ _ MF u Hu) as [B1 B2]. fold s2 in B1, B2. fold b' in B1, B2.
    assert (Ooff : forall w, ~ In w V -> off_of b' w == off_of b w).
    { intros w Hw. rewrite Goff. destruct (F8 w Hw) as [Eo _]. rewrite Eo. reflexivity. }
    assert (Main : blk_of b' u = t -> blk_ok b' t).
    { intros _. unfold blk_ok. cbv zeta. rewrite Gsv, Et. fold Kn. rewrite F9. fold Kt.
      split; [destruct (bvars Kt); discriminate|]. split; [rewrite C1; exact Sct|].
      split; [rewrite C2, C1, A2t, usum_app; unfold UT, UA; ring|]. split; [|exact C4].
      rewrite C3, C1, Nmt, tsum_app.
      rewrite (tsum_ext (svars b) (off_of b) (off_of b') (bvars Kt)).
      2:{ intros w Hw. apply Ooff. rewrite HVin. unfold Kt in Hw. rewrite <- Ht in Hw. apply (K5 x w Hx) in Hw. intros [_ X]. destruct Hw as [_ Hw]. congruence. }
      rewrite (tsum_shift (svars b) (off_of b) (off_of b') d V).
      2:{ intros w Hw. rewrite Goff. destruct (F7 w Hw) as [Eo _]. exact Eo. }
      unfold Tt, Ta, UA. ring. }
    destruct (Nat.eq_dec (blk_of b u) a) as [E|E].
    + rewrite (B1 E). apply Main. exact (B1 E).
    + rewrite (B2 E). destruct (Nat.eq_dec (blk_of b u) t) as [E2|E2].
      * rewrite E2. apply Main. rewrite (B2 E). exact E2.
      * unfold blk_ok. cbv zeta. rewrite Gsv. rewrite (mg_other _ _ _ _ _ MF _ E2 E).
        destruct (OK u Hu) as [N0 [S0 [A0 [M0 P0]]]]. cbv zeta in *.
        split; [exact N0|]. split; [exact S0|]. split; [exact A0|]. split; [|exact P0].
        rewrite M0. rewrite (tsum_ext (svars b) (off_of b) (off_of b') _); [reflexivity|].
        intros w Hw. apply Ooff. rewrite HVin. apply (K5 u w Hu) in Hw. intros [_ X]. destruct Hw as [_ Hw]. congruence.
Qed.

(* ------------------------------------------------------------------ the initial state *)
Record init_geo (vs : list var) (k : nat) (s : st) : Prop := {
  ig_svars : svars s = vs;
  ig_voff : voff s = repeat 0 (length vs);
  ig_lvblk : length (vblk s) = length vs;
  ig_blocks : length (blocks s) = k;
  ig_blk : forall i, (i < k)%nat -> blk_of s i = i /\ bvars (block_of s i) = [i] /\ blk_ok s i }.

Lemma off_repeat0 s n i : voff s = repeat 0 n -> off_of s i = 0.
Proof.
  intros E. unfold off_of. rewrite E. clear E. revert i. induction n as [|n IH]; intros [|i]; cbn; auto.
Qed.

Lemma init_step_geo vs k s :
  wf_vars vs -> (k < length vs)%nat -> init_geo vs k s -> init_geo vs (S k) (init_step s k).
Proof.
  intros W Hk [A B C D G]. subst k. set (k := length (blocks s)) in *.
  destruct (W k Hk) as [Pw Ps].
  unfold init_step, new_block, add_variable, set_vblk, set_block, set_blocks, set_blist. fold k.
  constructor; cbn [svars voff vblk blocks]; try assumption.
  - rewrite upd_nth_length. exact C.
  - rewrite upd_nth_length, app_length. cbn. fold k. lia.
  - intros i Hi. unfold blk_ok, blk_of, block_of, off_of. cbn [vblk blocks svars voff].
    destruct (Nat.eq_dec i k) as [->|N].
    + rewrite nth_upd_nth_eq by (rewrite C; exact Hk).
      rewrite nth_upd_nth_eq by (rewrite app_length; cbn; fold k; lia).
      split; [reflexivity|]. cbn [bvars bscale A2 AD AB posn]. unfold block_of. cbn [blocks].
      rewrite !app_nth2 by (fold k; lia). fold k. rewrite !Nat.sub_diag. cbn [nth bvars bscale A2 AD AB posn app].
      split; [reflexivity|]. unfold var_of. cbn [svars]. rewrite A.
      change (Qeqb 0 0) with true. cbv iota. cbv zeta.
      assert (Z0 : nth k (voff s) 0 = 0) by (apply (off_repeat0 s _ k B)).
      split; [discriminate|]. split; [exact Ps|]. rewrite !Qred_correct. cbn [usum tsum]. cbv beta. rewrite !Z0.
      split; [field; lra|]. split; [field; lra | reflexivity].
    + assert (Hik : (i < k)%nat) by lia. destruct (G i Hik) as [G1 [G2 G3]].
      unfold blk_of in G1. rewrite nth_upd_nth_neq by congruence. rewrite G1.
      rewrite nth_upd_nth_neq by congruence. rewrite app_nth1 by (fold k; lia).
      split; [reflexivity|]. split; [exact G2|].
      unfold blk_ok, block_of, off_of in G3. cbv zeta in G3. exact G3.
Qed.

Lemma init_geo_fold vs : forall k s,
  wf_vars vs -> (k <= length vs)%nat -> init_geo vs 0 s -> init_geo vs k (fold_left init_step (seq 0 k) s).
Proof.
  induction k as [|k IH]; intros s W Hk H0; [exact H0|].
  rewrite seq_S, fold_left_app. cbn [fold_left plus]. apply init_step_geo; [exact W | lia|]. apply IH; [exact W | lia | exact H0].
Qed.

Theorem init_all_blk_ok vs cs : wf_vars vs -> all_blk_ok (init vs cs).
Proof.
  intros W. rewrite init_unfold.
  set (s0 := mkst vs cs _ _ _ _ _ _ _ _ _).
  assert (H0 : init_geo vs 0 s0).
  { constructor; cbn; try reflexivity; try (apply repeat_length). intros i Hi. lia. }
  destruct (init_geo_fold vs (length vs) s0 W (le_n _) H0) as [A B C D G].
  intros u Hu. rewrite A in Hu. destruct (G u Hu) as [G1 [_ G3]]. rewrite G1. exact G3.
Qed.
