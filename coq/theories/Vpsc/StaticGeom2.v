(* Block::merge in Y coordinates (StaticGeom.merge_into_geom) for blocks whose STATISTICS are valid but whose position
   need not be the weighted optimum: inside Blocks::split the right half r is re-positioned by `r->posn = b->posn`
   (it stays where the old block was) and may be merged in that state by mergeLeft(l).  The merged block is at its
   optimum again (Block::merge recomputes posn from the accumulated statistics); its variables move rigidly, but the
   merged position need not lie between the two old positions. *)
From Adapt Require Import Num.Qaux Vpsc.VpscSpec Vpsc.VpscModel Vpsc.VpscInv Vpsc.VpscForest Vpsc.StaticGeom.
Local Open Scope Q_scope.

Definition blk_st (b : st) (B : nat) : Prop :=
  let K := block_of b B in
  bvars K <> [] /\ 0 < bscale K /\
  A2 K == bscale K * bscale K * usum (svars b) (bvars K) /\
  AD K - AB K == bscale K * tsum (svars b) (off_of b) (bvars K).

Lemma blk_ok_st b B : blk_ok b B -> blk_st b B.
Proof. intros [A [B0 [C [D _]]]]. repeat split; assumption. Qed.
Lemma blk_st_ok b B : blk_st b B -> posn (block_of b B) == (AD (block_of b B) - AB (block_of b B)) / A2 (block_of b B) -> blk_ok b B.
Proof. intros [A [B0 [C D]]] E. repeat split; assumption. Qed.

Lemma merge_into_geom_st b t a c d x y :
  book b -> wf_vars (svars b) ->
  (x < length (svars b))%nat -> (y < length (svars b))%nat ->
  blk_of b x = t -> blk_of b y = a -> t <> a ->
  blk_st b t -> blk_st b a ->
  let b' := merge_into b t a c d in
  exists P',
    (forall u, (u < length (svars b))%nat ->
       (blk_of b u = t -> Yof b' u == P' + off_of b u) /\
       (blk_of b u = a -> Yof b' u == P' + off_of b u + d) /\
       (blk_of b u <> t -> blk_of b u <> a -> Yof b' u == Yof b u)) /\
    blk_ok b' t /\
    (forall u, (u < length (svars b))%nat -> blk_of b u <> t -> blk_of b u <> a ->
       (blk_st b (blk_of b u) -> blk_st b' (blk_of b u)) /\ (blk_ok b (blk_of b u) -> blk_ok b' (blk_of b u))) /\
    (blk_ok b t -> blk_ok b a ->
     let Yt := bscale (block_of b t) * posn (block_of b t) in
     let Ya := bscale (block_of b a) * posn (block_of b a) in
     (Yt <= Ya - d -> Yt <= P' <= Ya - d) /\ (Ya - d <= Yt -> Ya - d <= P' <= Yt)).
Proof.
  intros BK W Hx Hy Ht Hb Hne OKt OKa. cbv zeta.
  assert (BTW : blk_ok b t -> blk_ok b a ->
                0 < usum (svars b) (bvars (block_of b t)) /\ 0 < usum (svars b) (bvars (block_of b a)) /\
                bscale (block_of b t) * posn (block_of b t) ==
                  tsum (svars b) (off_of b) (bvars (block_of b t)) / usum (svars b) (bvars (block_of b t)) /\
                bscale (block_of b a) * posn (block_of b a) ==
                  tsum (svars b) (off_of b) (bvars (block_of b a)) / usum (svars b) (bvars (block_of b a))).
  { intros O1 O2. destruct (blk_ok_Y b t W O1) as [U1 E1]. destruct (blk_ok_Y b a W O2) as [U2 E2]. auto. }
  pose proof (merge_into_facts b t a c d x y BK Hx Hy Ht Hb Hne) as MF.
  destruct OKt as [Nt [Sct [A2t Nmt]]]. destruct OKa as [Na [Sca [A2a Nma]]]. cbv zeta in *.
  pose proof (usum_pos _ _ W Nt) as Ut.
  revert MF. rewrite merge_into_unfold. intros MF.
  set (s1 := set_cact b (upd_nth (cact b) c true)) in *.
  set (V := bvars (block_of s1 a)) in *.
  assert (HV : V = bvars (block_of b a)) by reflexivity.
  pose proof BK as [K1 K2 K3 K4 K5 K6 K7].
  assert (HVin : forall w, In w V <-> ((w < length (svars b))%nat /\ blk_of b w = a)).
  { intros w. rewrite HV, <- Hb. apply K5. exact Hy. }
  assert (NDV : NoDup V) by (rewrite HV, <- Hb; apply K6; exact Hy).
  assert (Htl : (t < length (blocks s1))%nat) by (cbn [s1 set_cact blocks]; rewrite <- Ht; apply K4; exact Hx).
  assert (F : mfold_facts t d V s1 (fold_left (mstep t d) V s1)).
  { apply mfold_spec; [exact NDV | | exact Htl].
    intros v Hv. apply HVin in Hv. destruct Hv as [Hv _]. cbn [s1 set_cact voff vblk]. rewrite K1, K2. split; exact Hv. }
  assert (A2pos : 0 < A2 (block_of s1 t)).
  { change (block_of s1 t) with (block_of b t). rewrite A2t.
    apply Qmult_lt_0_compat; [apply Qmult_lt_0_compat; exact Sct | exact Ut]. }
  destruct (mfold_stats t d V s1 W NDV) as [C1 [C2 [C3 [C4 C5]]]].
  { intros v Hv. apply HVin in Hv. cbn [s1 set_cact voff]. rewrite K1. exact (proj1 Hv). }
  { exact Htl. } { exact Sct. } { exact A2pos. }
  specialize (C4 Na).
  set (s2 := fold_left (mstep t d) V s1) in *.
  destruct F as [F1 F2 F3 F4 F5 F6 F7 F8 F9 F10].
  change (block_of s1 t) with (block_of b t) in *. change (svars s1) with (svars b) in *.
  change (off_of s1) with (off_of b) in *.
  set (b' := kill_block s2 a) in *.
  assert (Et : block_of b' t = block_of s2 t).
  { unfold b', kill_block, set_block, set_blocks, block_of. cbn [blocks]. apply nth_upd_nth_neq. congruence. }
  assert (Goff : forall w, off_of b' w = off_of s2 w) by reflexivity.
  assert (Gblk : forall w, blk_of b' w = blk_of s2 w) by reflexivity.
  assert (Gsv : svars b' = svars b) by (exact (mg_svars _ _ _ _ _ MF)).
  set (Kt := block_of b t) in *. set (Kn := block_of s2 t) in *.
  set (Tt := tsum (svars b) (off_of b) (bvars Kt)) in *.
  set (Ta := tsum (svars b) (off_of b) V) in *.
  set (UT := usum (svars b) (bvars Kt)) in *. set (UA := usum (svars b) V) in *.
  exists (bscale Kt * posn Kn).
  assert (Ooff : forall w, ~ In w V -> off_of b' w == off_of b w).
  { intros w Hw. rewrite Goff. destruct (F8 w Hw) as [Eo _]. rewrite Eo. reflexivity. }
  split; [|split; [|split]].
  4:{ intros O1 O2. destruct (BTW O1 O2) as [U1 [U2 [EYt EYa]]]. fold Kt in U1, EYt.
      change (usum (svars b) (bvars (block_of b a))) with UA in *.
      change (tsum (svars b) (off_of b) (bvars (block_of b a))) with Ta in *. fold UT Tt in U1, EYt.
      assert (EP : bscale Kt * posn Kn ==
                   (UT * (bscale Kt * posn Kt) + UA * (bscale (block_of b a) * posn (block_of b a) - d)) / (UT + UA)).
      { rewrite C4, C3, C2, Nmt, A2t, EYt, EYa. field. repeat split; lra. }
      exact (wmean_between UT UA _ _ _ U1 U2 EP). }
  - intros u Hu. unfold Yof. rewrite Gblk, Goff.
    destruct (mg_blk _ _ _ _ _ MF u Hu) as [B1 B2]. fold s2 in B1, B2. fold b' in B1, B2. rewrite Gblk in B1, B2.
    split; [|split].
    + intros E. assert (Ea : blk_of b u <> a) by congruence. rewrite (B2 Ea), E.
      destruct (F8 u) as [Eo _]; [rewrite HVin; tauto|]. rewrite Eo, Et, C1. reflexivity.
    + intros E. rewrite (B1 E). destruct (F7 u) as [Eo _]; [apply HVin; tauto|]. rewrite Et, C1, Eo.
      change (off_of s1 u) with (off_of b u). ring.
    + intros E1 E2. rewrite (B2 E2). destruct (F8 u) as [Eo _]; [rewrite HVin; tauto|]. rewrite Eo.
      rewrite (mg_other _ _ _ _ _ MF _ E1 E2). reflexivity.
  - unfold blk_ok. cbv zeta. rewrite Gsv, Et. fold Kn. rewrite F9. fold Kt.
    split; [destruct (bvars Kt); discriminate|]. split; [rewrite C1; exact Sct|].
    split; [rewrite C2, C1, A2t, usum_app; unfold UT, UA; ring|]. split; [|exact C4].
    rewrite C3, C1, Nmt, tsum_app.
    rewrite (tsum_ext (svars b) (off_of b) (off_of b') (bvars Kt)).
    2:{ intros w Hw. apply Ooff. rewrite HVin. unfold Kt in Hw. rewrite <- Ht in Hw. apply (K5 x w Hx) in Hw. intros [_ X]. destruct Hw as [_ Hw]. congruence. }
    rewrite (tsum_shift (svars b) (off_of b) (off_of b') d V).
    2:{ intros w Hw. rewrite Goff. destruct (F7 w Hw) as [Eo _]. exact Eo. }
    unfold Tt, Ta, UA. ring.
  - intros u Hu E2 E.
    assert (TS : tsum (svars b) (off_of b') (bvars (block_of b (blk_of b u))) ==
                 tsum (svars b) (off_of b) (bvars (block_of b (blk_of b u)))).
    { apply tsum_ext. intros w Hw. apply Ooff. rewrite HVin. apply (K5 u w Hu) in Hw. intros [_ X]. destruct Hw as [_ Hw]. congruence. }
    split.
    + intros [N0 [S0 [A0 M0]]]. unfold blk_st. cbv zeta in *. rewrite Gsv. rewrite (mg_other _ _ _ _ _ MF _ E2 E).
      split; [exact N0|]. split; [exact S0|]. split; [exact A0|]. rewrite M0, TS. reflexivity.
    + intros [N0 [S0 [A0 [M0 P0]]]]. unfold blk_ok. cbv zeta in *. rewrite Gsv. rewrite (mg_other _ _ _ _ _ MF _ E2 E).
      split; [exact N0|]. split; [exact S0|]. split; [exact A0|]. split; [|exact P0]. rewrite M0, TS. reflexivity.
Qed.

(* rigid shifts: merging across a constraint c (made tight by the merge distance) moves the side of c's right end by rr
   and the side of its left end by rl with rr - rl = - slack c; no sign information when a side is not at its optimum *)
Definition mdist' (b : st) (c : nat) : Q :=
  off_of b (cr (con_of b c)) - off_of b (cl (con_of b c)) - gap (con_of b c).

Lemma merge_shift_st b c (sw : bool) d :
  book b -> wf_vars (svars b) -> (c < length (scons b))%nat ->
  let r := blk_of b (cr (con_of b c)) in
  let l := blk_of b (cl (con_of b c)) in
  l <> r -> blk_st b l -> blk_st b r ->
  d == (if sw then - mdist' b c else mdist' b c) ->
  let t := if sw then l else r in
  let b' := merge_into b t (if sw then r else l) c d in
  exists rr rl, rr - rl == - slack_val b c /\
    (forall u, (u < length (svars b))%nat ->
       (blk_of b u = r -> Yof b' u == Yof b u + rr) /\
       (blk_of b u = l -> Yof b' u == Yof b u + rl) /\
       (blk_of b u <> r -> blk_of b u <> l -> Yof b' u == Yof b u)) /\
    blk_ok b' t /\
    (forall u, (u < length (svars b))%nat -> blk_of b u <> r -> blk_of b u <> l ->
       (blk_st b (blk_of b u) -> blk_st b' (blk_of b u)) /\ (blk_ok b (blk_of b u) -> blk_ok b' (blk_of b u))) /\
    (blk_ok b l -> blk_ok b r -> slack_val b c < 0 -> 0 <= rr /\ rl <= 0).
Proof.
  intros BK W Hc r l Hne Sl Sr Hd. cbv zeta.
  assert (Ends : (cl (con_of b c) < length (svars b))%nat /\ (cr (con_of b c) < length (svars b))%nat).
  { apply (bk_cons b BK). unfold con_of. apply nth_In. exact Hc. }
  destruct Ends as [Hl Hr].
  assert (SY : slack_val b c == Yof b (cr (con_of b c)) - gap (con_of b c) - Yof b (cl (con_of b c))).
  { apply slack_Y; unfold var_of.
    - destruct (vget_pos' (svars b) (cl (con_of b c)) W) as [_ P]. lra.
    - destruct (vget_pos' (svars b) (cr (con_of b c)) W) as [_ P]. lra. }
  unfold Yof in SY. fold r l in SY.
  set (Yr := bscale (block_of b r) * posn (block_of b r)) in *.
  set (Yl := bscale (block_of b l) * posn (block_of b l)) in *.
  assert (Ed : slack_val b c == Yr - Yl + mdist' b c) by (rewrite SY; unfold mdist'; ring).
  destruct sw.
  - destruct (merge_into_geom_st b l r c d _ _ BK W Hl Hr eq_refl eq_refl Hne Sl Sr) as [P' [MY [MOK [MO MB]]]].
    cbv zeta in *. fold l r in MY, MOK, MO, MB. fold Yl Yr in MB.
    exists (P' + d - Yr), (P' - Yl). split; [rewrite Ed, Hd; ring|]. split; [|split; [exact MOK|split]].
    3:{ intros O1 O2 Hs. destruct (MB O1 O2) as [_ M2]. assert (B : Yr - d <= P' <= Yl) by (apply M2; lra). lra. }
    + intros u Hu. destruct (MY u Hu) as [Y1 [Y2 Y3]]. split; [|split].
      * intros E. rewrite (Y2 E). unfold Yof. rewrite E. fold Yr. ring.
      * intros E. rewrite (Y1 E). unfold Yof. rewrite E. fold Yl. ring.
      * intros E1 E2. apply Y3; assumption.
    + intros u Hu E1 E2. apply MO; assumption.
  - assert (Hne' : r <> l) by congruence.
    destruct (merge_into_geom_st b r l c d _ _ BK W Hr Hl eq_refl eq_refl Hne' Sr Sl) as [P' [MY [MOK [MO MB]]]].
    cbv zeta in *. fold l r in MY, MOK, MO, MB. fold Yl Yr in MB.
    exists (P' - Yr), (P' + d - Yl). split; [rewrite Ed, Hd; ring|]. split; [|split; [exact MOK|split]].
    3:{ intros O1 O2 Hs. destruct (MB O2 O1) as [M1 _]. assert (B : Yr <= P' <= Yl - d) by (apply M1; lra). lra. }
    + intros u Hu. destruct (MY u Hu) as [Y1 [Y2 Y3]]. split; [|split].
      * intros E. rewrite (Y1 E). unfold Yof. rewrite E. fold Yr. ring.
      * intros E. rewrite (Y2 E). unfold Yof. rewrite E. fold Yl. ring.
      * intros E1 E2. apply Y3; assumption.
    + intros u Hu E1 E2. apply MO; assumption.
Qed.
