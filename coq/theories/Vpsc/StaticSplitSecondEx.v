(* Non-vacuity of StaticSplitSecond.split_second_half / static_split_all_sat on the state of StaticSplitFirstEx.v
   (block {v0, v1} with desired positions pulled apart, lm(c0) = -4, after refine's first loop and findMinLM): every
   premise holds, mergeLeft(l) returns the state sf_s4, mergeRight(r') and the whole Blocks::split return. *)
From Adapt Require Import Num.Qaux Vpsc.VpscSpec Vpsc.VpscModel Vpsc.VpscInv Vpsc.VpscFrame Vpsc.VpscForest
  Vpsc.VpscStationary Vpsc.StaticModel Vpsc.StaticInv Vpsc.StaticGeom Vpsc.StaticDag Vpsc.StaticRefine Vpsc.StaticSplitML
  Vpsc.StaticInHeap Vpsc.StaticSplitFirst Vpsc.StaticSplitFirstEx Vpsc.StaticSplitSecond.
Local Open Scope Q_scope.

Definition sf_s4 : sst := Eval vm_compute in
  match merge_left (split_pre sf_s 1 sf_bs 3 4) 3 with Ok x => x | _ => sf_s end.
Lemma sf_s4_eq : merge_left (split_pre sf_s 1 sf_bs 3 4) 3 = Ok sf_s4.
Proof. vm_compute. reflexivity. Qed.

Definition sf_R : nat := Eval vm_compute in blk_of (base sf_s4) 1.
Definition sf_second_returns : bool :=
  match merge_right (set_base sf_s4 (update_weighted_position (base sf_s4) sf_R)) sf_R with Ok _ => true | _ => false end.
Definition sf_split_returns : bool := match static_split sf_s 1 0 with Ok _ => true | _ => false end.
Lemma sf_second_returns_true : sf_second_returns = true. Proof. vm_compute. reflexivity. Qed.
Lemma sf_split_returns_true : sf_split_returns = true. Proof. vm_compute. reflexivity. Qed.

Example split_second_half_example :
  exists M, MLS (Yof (base sf_s)) 1 (base sf_s4) M /\
    (forall i, (i < length (scons (base sf_s4)))%nat -> blk_of (base sf_s4) (cr (con_of (base sf_s4) i)) = M ->
               blk_of (base sf_s4) (cl (con_of (base sf_s4) i)) <> M -> 0 <= slack_val (base sf_s4) i) /\
    T2 sf_s4 /\ length (ctime sf_s4) = length (scons (base sf_s4)) /\
    (length (blocks (base sf_s4)) <= length (bout sf_s4))%nat /\
    posn (block_of (base sf_s4) sf_R) <= posn (block_of (update_weighted_position (base sf_s4) sf_R) sf_R) /\
    sf_R = blk_of (base sf_s4) 1 /\ sf_second_returns = true.
Proof.
  destruct split_first_half_example as [P1 [P2 [P3 [P4 [P5 [P6 [P7 [P8 [P9 [P10 [P11 [P12 [P13 [P14 [P15 [P16 [P17 _]]]]]]]]]]]]]]]]].
  destruct (split_first_half sf_s 1 0 sf_bs 3 4 sf_s4 P1 P2 P3 P4 P5 P6 P7 P8 P9 P10 P11 P12 P13 P14 P15 P16 P17 sf_s4_eq)
    as [M [IM [HI [_ [_ [M' [c' [HW4 _]]]]]]]].
  exists M. split; [exact IM|]. split; [exact HI|]. split; [exact (w_T2 _ _ HW4)|].
  split; [reflexivity|]. split; [vm_compute; lia|]. split; [vm_compute; discriminate|].
  split; [reflexivity | exact sf_second_returns_true].
Qed.

Example static_split_all_sat_example :
  book (base sf_s) /\ act_inv (base sf_s) /\ forest (base sf_s) /\ wf_vars (svars (base sf_s)) /\ all_blk_ok (base sf_s) /\
  all_sat0 (base sf_s) /\ act_of (base sf_s) 0 = true /\ 1%nat = blk_of (base sf_s) (cl (con_of (base sf_s) 0)) /\
  stationary_block (base sf_s) (base sf_s) 1 /\ lm_of (base sf_s) 0 <= 0 /\
  T2 sf_s /\ (forall x, (x < length (scons (base sf_s)))%nat -> ctime_of sf_s x = ctr sf_s) /\
  length (ctime sf_s) = length (scons (base sf_s)) /\
  length (bin sf_s) = length (blocks (base sf_s)) /\ length (btime sf_s) = length (blocks (base sf_s)) /\
  (length (blocks (base sf_s)) <= length (bout sf_s))%nat /\
  (forall B, inhabited (base sf_s) B -> exists h, bin_of sf_s B = Some h /\ hgoodC sf_s h /\ hsound sf_s B h /\ hcomplete sf_s B h) /\
  sf_split_returns = true.
Proof.
  destruct split_first_half_example as [P1 [P2 [P3 [P4 [P5 [P6 [P7 [P8 [P9 [P10 [P11 [P12 [P13 [P14 [P15 [P16 _]]]]]]]]]]]]]]]].
  repeat (split; [assumption|]). split; [vm_compute; lia|]. split; [exact P16 | exact sf_split_returns_true].
Qed.
