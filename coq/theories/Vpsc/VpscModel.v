(* Executable Gallina model of vpsc::IncSolver (cola/libvpsc/solve_VPSC.cpp, block.cpp, blocks.cpp,
   constraint.h, variable.h; identical copy in cola/libavoid/vpsc.cpp) over exact rationals.
   One Gallina function per C++ function, same iteration orders, same tie-breaking, same tolerances.
   NO PROOFS in this file (DESIGN 3.3): it must still extract and run when a proof is broken.

   Object graph -> index-addressed lists:
     Variable* = nat index into svars/voff/vblk;  Constraint* = nat index into scons/cact/cuns/clm;
     Block*    = nat index into `blocks` (a heap that only grows; `dead` = Block::deleted);
     Blocks::m_blocks = blist (vector of block ids, compacted by cleanup);
     Variable::in / ::out = the constraints with cr / cl equal to the variable, in index order
     (the constructor and addConstraint push_back in that order; solve_VPSC.cpp:71-76, :87-95).
   DBL_MAX is modelled by None in option Q.  Loops and tree walks take fuel and return OutOfFuel. *)
From Adapt Require Import Num.Qaux Vpsc.VpscSpec.
Local Open Scope Q_scope.

Inductive res (A : Type) : Type := Ok (a : A) | ThrowUnsat (c : nat) | OutOfFuel.
Arguments Ok {A} a.
Arguments ThrowUnsat {A} c.
Arguments OutOfFuel {A}.
Definition bind {A B} (r : res A) (f : A -> res B) : res B :=
  match r with Ok a => f a | ThrowUnsat c => ThrowUnsat c | OutOfFuel => OutOfFuel end.

Record blkT := mkblk { bvars : list nat; posn : Q; bscale : Q; AB : Q; AD : Q; A2 : Q; dead : bool }.
Definition dblk : blkT := mkblk [] 0 0 0 0 0 true.

Record st := mkst {
  svars : list var;      (* desired / weight / scale (desired may be changed between solves) *)
  scons : list con;
  voff : list Q;         (* Variable::offset *)
  vblk : list nat;       (* Variable::block *)
  cact : list bool;      (* Constraint::active *)
  cuns : list bool;      (* Constraint::unsatisfiable *)
  clm : list Q;          (* Constraint::lm *)
  blocks : list blkT;
  blist : list nat;      (* Blocks::m_blocks *)
  inactive : list nat;   (* IncSolver::inactive *)
  tie : bool             (* instrumentation only: some control-flow comparison was an exact tie or closer than 1e-7 *)
}.

Definition ZERO_UPPERBOUND : Q := - (1 # 10000000000).
Definition LAGRANGIAN_TOLERANCE : Q := - (1 # 10000).
Definition COST_EPS : Q := 1 # 10000.
Definition TIE_EPS : Q := 1 # 10000000.

Definition dcon : con := mkcon 0 0 0 false.
Definition var_of (s : st) (i : nat) : var := vget (svars s) i.
Definition con_of (s : st) (c : nat) : con := nth c (scons s) dcon.
Definition off_of (s : st) (i : nat) : Q := nth i (voff s) 0.
Definition blk_of (s : st) (i : nat) : nat := nth i (vblk s) O.
Definition act_of (s : st) (c : nat) : bool := nth c (cact s) false.
Definition uns_of (s : st) (c : nat) : bool := nth c (cuns s) false.
Definition lm_of (s : st) (c : nat) : Q := nth c (clm s) 0.
Definition block_of (s : st) (b : nat) : blkT := nth b (blocks s) dblk.

Definition set_voff s x := mkst (svars s) (scons s) x (vblk s) (cact s) (cuns s) (clm s) (blocks s) (blist s) (inactive s) (tie s).
Definition set_vblk s x := mkst (svars s) (scons s) (voff s) x (cact s) (cuns s) (clm s) (blocks s) (blist s) (inactive s) (tie s).
Definition set_cact s x := mkst (svars s) (scons s) (voff s) (vblk s) x (cuns s) (clm s) (blocks s) (blist s) (inactive s) (tie s).
Definition set_cuns s x := mkst (svars s) (scons s) (voff s) (vblk s) (cact s) x (clm s) (blocks s) (blist s) (inactive s) (tie s).
Definition set_clm s x := mkst (svars s) (scons s) (voff s) (vblk s) (cact s) (cuns s) x (blocks s) (blist s) (inactive s) (tie s).
Definition set_blocks s x := mkst (svars s) (scons s) (voff s) (vblk s) (cact s) (cuns s) (clm s) x (blist s) (inactive s) (tie s).
Definition set_blist s x := mkst (svars s) (scons s) (voff s) (vblk s) (cact s) (cuns s) (clm s) (blocks s) x (inactive s) (tie s).
Definition set_inactive s x := mkst (svars s) (scons s) (voff s) (vblk s) (cact s) (cuns s) (clm s) (blocks s) (blist s) x (tie s).
Definition set_tie s x := mkst (svars s) (scons s) (voff s) (vblk s) (cact s) (cuns s) (clm s) (blocks s) (blist s) (inactive s) x.
Definition set_svars s x := mkst x (scons s) (voff s) (vblk s) (cact s) (cuns s) (clm s) (blocks s) (blist s) (inactive s) (tie s).
Definition set_scons s x := mkst (svars s) x (voff s) (vblk s) (cact s) (cuns s) (clm s) (blocks s) (blist s) (inactive s) (tie s).

Definition set_block (s : st) (b : nat) (B : blkT) : st := set_blocks s (upd_nth (blocks s) b B).

(* instrumentation: remember near-ties of comparisons that steer control flow *)
Definition note (s : st) (a b : Q) : st :=
  if Qltb (Qabs' (a - b)) TIE_EPS then set_tie s true else s.
Definition note_opt (s : st) (a b : option Q) : st :=
  match a, b with Some x, Some y => note s x y | _, _ => s end.

(* Variable::in / Variable::out *)
Definition idx_filter (f : con -> bool) (cs : list con) : list nat :=
  map fst (filter (fun p => f (snd p)) (combine (seq 0 (length cs)) cs)).
Definition ins_of (s : st) (v : nat) : list nat := idx_filter (fun c => Nat.eqb (cr c) v) (scons s).
Definition outs_of (s : st) (v : nat) : list nat := idx_filter (fun c => Nat.eqb (cl c) v) (scons s).

(* Variable::position (variable.h:81-83) *)
Definition position (s : st) (i : nat) : Q :=
  let B := block_of s (blk_of s i) in
  Qred ((bscale B * posn B + off_of s i) / scl (var_of s i)).
(* Variable::dfdv (variable.h:77-79) *)
Definition dfdv (s : st) (i : nat) : Q :=
  Qred (2 * wt (var_of s i) * (position s i - des (var_of s i))).
(* Constraint::slack (constraint.h:80-96); None = DBL_MAX for constraints flagged unsatisfiable *)
Definition slack_val (s : st) (c : nat) : Q :=
  let k := con_of s c in
  Qred (scl (var_of s (cr k)) * position s (cr k) - gap k - scl (var_of s (cl k)) * position s (cl k)).
Definition slack (s : st) (c : nat) : option Q :=
  if uns_of s c then None else Some (slack_val s c).
Definition lt_inf (a b : option Q) : bool :=
  match a, b with
  | Some x, Some y => Qltb x y
  | Some _, None => true
  | None, _ => false
  end.

(* PositionStats::addVariable + Block::addVariable (block.cpp:47-79) *)
Definition add_variable (s : st) (b v : nat) : st :=
  let B := block_of s b in
  let V := var_of s v in
  let sc := if Qeqb (A2 B) 0 then scl V else bscale B in
  let ai := sc / scl V in
  let bi := off_of s v / scl V in
  let wi := wt V in
  let ab := Qred (AB B + wi * ai * bi) in
  let ad := Qred (AD B + wi * ai * des V) in
  let a2 := Qred (A2 B + wi * ai * ai) in
  let B' := mkblk (bvars B ++ [v]) (Qred ((ad - ab) / a2)) sc ab ad a2 (dead B) in
  set_vblk (set_block s b B') (upd_nth (vblk s) v b).

(* new Block(blocks) with no variable *)
Definition new_block (s : st) : nat * st :=
  (length (blocks s), set_blocks s (blocks s ++ [mkblk [] 0 0 0 0 0 false])).

(* Block::updateWeightedPosition (block.cpp:97-110): stats recomputed, scale kept *)
Definition stats_add (s : st) (acc : Q * Q * Q * Q) (v : nat) : Q * Q * Q * Q :=
  let '(sc, ab, ad, a2) := acc in
  let V := var_of s v in
  let ai := sc / scl V in
  let bi := off_of s v / scl V in
  let wi := wt V in
  (sc, Qred (ab + wi * ai * bi), Qred (ad + wi * ai * des V), Qred (a2 + wi * ai * ai)).
Definition update_weighted_position (s : st) (b : nat) : st :=
  let B := block_of s b in
  let '(sc, ab, ad, a2) := fold_left (stats_add s) (bvars B) (bscale B, 0, 0, 0) in
  set_block s b (mkblk (bvars B) (Qred ((ad - ab) / a2)) sc ab ad a2 (dead B)).

(* Block::merge(Block *b, Constraint *c, double dist) (block.cpp:166-195): b is merged into `this` *)
Definition merge_into (s : st) (this b c : nat) (dist : Q) : st :=
  let s1 := set_cact s (upd_nth (cact s) c true) in
  let s2 := fold_left (fun s' v =>
                         let s'' := set_voff s' (upd_nth (voff s') v (Qred (off_of s' v + dist))) in
                         add_variable s'' this v)
                      (bvars (block_of s1 b)) s1 in
  let B := block_of s2 b in
  set_block s2 b (mkblk (bvars B) (posn B) (bscale B) (AB B) (AD B) (A2 B) true).

(* Block::merge(Block* b, Constraint* c) (block.cpp:140-158); returns the surviving block *)
Definition merge (s : st) (c : nat) : st * nat :=
  let k := con_of s c in
  let dist := off_of s (cr k) - off_of s (cl k) - gap k in
  let l := blk_of s (cl k) in
  let r := blk_of s (cr k) in
  if Nat.ltb (length (bvars (block_of s l))) (length (bvars (block_of s r)))
  then (merge_into s r l c dist, r)
  else (merge_into s l r c (- dist), l).

(* Block::canFollowLeft / canFollowRight (block.cpp:285-290) *)
Definition neq_opt (u : option nat) (v : nat) : bool :=
  match u with Some w => negb (Nat.eqb w v) | None => true end.
Definition can_follow_left (s : st) (this c : nat) (last : option nat) : bool :=
  Nat.eqb (blk_of s (cl (con_of s c))) this && act_of s c && neq_opt last (cl (con_of s c)).
Definition can_follow_right (s : st) (this c : nat) (last : option nat) : bool :=
  Nat.eqb (blk_of s (cr (con_of s c))) this && act_of s c && neq_opt last (cr (con_of s c)).

(* Block::populateSplitBlock (block.cpp:522-532) *)
Fixpoint populate (fuel : nat) (this b v : nat) (u : option nat) (s : st) : res st :=
  match fuel with
  | O => OutOfFuel
  | S f =>
      let s1 := add_variable s b v in
      let go_in := fun (acc : res st) (c : nat) =>
        bind acc (fun s' => if can_follow_left s' this c u
                            then populate f this b (cl (con_of s' c)) (Some v) s' else Ok s') in
      let go_out := fun (acc : res st) (c : nat) =>
        bind acc (fun s' => if can_follow_right s' this c u
                            then populate f this b (cr (con_of s' c)) (Some v) s' else Ok s') in
      fold_left go_out (outs_of s v) (fold_left go_in (ins_of s v) (Ok s1))
  end.

Definition walk_fuel (s : st) : nat := S (length (svars s)).

(* Block::split (block.cpp:612-620): returns (state, l, r) *)
Definition split (s : st) (this c : nat) : res (st * nat * nat) :=
  let k := con_of s c in
  let s0 := set_cact s (upd_nth (cact s) c false) in
  let '(l, s1) := new_block s0 in
  bind (populate (walk_fuel s) this l (cl k) (Some (cr k)) s1) (fun s2 =>
  let '(r, s3) := new_block s2 in
  bind (populate (walk_fuel s) this r (cr k) (Some (cl k)) s3) (fun s4 =>
  Ok (s4, l, r))).

Definition set_lm (s : st) (c : nat) (x : Q) : st := set_clm s (upd_nth (clm s) c x).

(* min_lm update: if(!c->equality&&(min_lm==nullptr||c->lm<min_lm->lm)) min_lm=c; *)
Definition upd_min (s : st) (c : nat) (mn : option nat) : option nat * st :=
  if ceq (con_of s c) then (mn, s)
  else match mn with
       | None => (Some c, s)
       | Some m0 => let s' := note s (lm_of s c) (lm_of s m0) in
                    if Qltb (lm_of s c) (lm_of s m0) then (Some c, s') else (mn, s')
       end.

(* Block::compute_dfdv(v,u,min_lm) (block.cpp:297-317); with track=false it is the two-argument
   overload (block.cpp:318-335) that does not record min_lm *)
Fixpoint compute_dfdv (fuel : nat) (track : bool) (this v : nat) (u : option nat) (mn : option nat) (s : st)
  : res (Q * option nat * st) :=
  match fuel with
  | O => OutOfFuel
  | S f =>
      let d0 := dfdv s v in
      let go_out := fun (acc : res (Q * option nat * st)) (c : nat) =>
        bind acc (fun a => let '(d, mn1, s1) := a in
          if can_follow_right s1 this c u then
            bind (compute_dfdv f track this (cr (con_of s1 c)) (Some v) mn1 s1) (fun r =>
              let '(lmv, mn2, s2) := r in
              let s3 := set_lm s2 c lmv in
              let d' := Qred (d + lmv * scl (var_of s3 (cl (con_of s3 c)))) in
              if track then let '(mn3, s4) := upd_min s3 c mn2 in Ok (d', mn3, s4) else Ok (d', mn2, s3))
          else Ok a) in
      let go_in := fun (acc : res (Q * option nat * st)) (c : nat) =>
        bind acc (fun a => let '(d, mn1, s1) := a in
          if can_follow_left s1 this c u then
            bind (compute_dfdv f track this (cl (con_of s1 c)) (Some v) mn1 s1) (fun r =>
              let '(lmv0, mn2, s2) := r in
              let lmv := Qred (- lmv0) in
              let s3 := set_lm s2 c lmv in
              let d' := Qred (d - lmv * scl (var_of s3 (cr (con_of s3 c)))) in
              if track then let '(mn3, s4) := upd_min s3 c mn2 in Ok (d', mn3, s4) else Ok (d', mn2, s3))
          else Ok a) in
      bind (fold_left go_in (ins_of s v) (fold_left go_out (outs_of s v) (Ok (d0, mn, s)))) (fun a =>
        let '(d, mn', s') := a in Ok (Qred (d / scl (var_of s' v)), mn', s'))
  end.

(* Block::reset_active_lm (block.cpp:444-459) *)
Fixpoint reset_active_lm (fuel : nat) (this v : nat) (u : option nat) (s : st) : res st :=
  match fuel with
  | O => OutOfFuel
  | S f =>
      let go_out := fun (acc : res st) (c : nat) =>
        bind acc (fun s' => if can_follow_right s' this c u
                            then reset_active_lm f this (cr (con_of s' c)) (Some v) (set_lm s' c 0) else Ok s') in
      let go_in := fun (acc : res st) (c : nat) =>
        bind acc (fun s' => if can_follow_left s' this c u
                            then reset_active_lm f this (cl (con_of s' c)) (Some v) (set_lm s' c 0) else Ok s') in
      fold_left go_in (ins_of s v) (fold_left go_out (outs_of s v) (Ok s))
  end.

Definition front (s : st) (b : nat) : nat := hd O (bvars (block_of s b)).

(* Block::findMinLM (block.cpp:486-496) *)
Definition find_min_lm (s : st) (b : nat) : res (option nat * st) :=
  bind (reset_active_lm (walk_fuel s) b (front s b) None s) (fun s1 =>
  bind (compute_dfdv (walk_fuel s) true b (front s b) None None s1) (fun a =>
    let '(_, mn, s2) := a in Ok (mn, s2))).

(* Block::split_path with desperation=false (block.cpp:346-394): (found, m, state) *)
Fixpoint split_path (fuel : nat) (this r v : nat) (u : option nat) (m : option nat) (s : st)
  : res (bool * option nat * st) :=
  match fuel with
  | O => OutOfFuel
  | S f =>
      (* acc = (done?, result) ; once `done` the loops return *)
      let go_in := fun (acc : res (bool * option nat * st)) (c : nat) =>
        bind acc (fun a => let '(fnd, m1, s1) := a in
          if fnd then Ok a
          else if can_follow_left s1 this c u then
            if Nat.eqb (cl (con_of s1 c)) r then Ok (true, m1, s1)
            else bind (split_path f this r (cl (con_of s1 c)) (Some v) m1 s1) (fun b =>
                   let '(fnd2, m2, s2) := b in Ok (fnd2, m2, s2))
          else Ok a) in
      let go_out := fun (acc : res (bool * option nat * st)) (c : nat) =>
        bind acc (fun a => let '(fnd, m1, s1) := a in
          if fnd then Ok a
          else if can_follow_right s1 this c u then
            if Nat.eqb (cr (con_of s1 c)) r
            then Ok (true, (if ceq (con_of s1 c) then m1 else Some c), s1)
            else bind (split_path f this r (cr (con_of s1 c)) (Some v) m1 s1) (fun b =>
                   let '(fnd2, m2, s2) := b in
                   if fnd2 then
                     if ceq (con_of s2 c) then Ok (true, m2, s2)
                     else match m2 with
                          | None => Ok (true, Some c, s2)
                          | Some m0 => let s3 := note s2 (lm_of s2 c) (lm_of s2 m0) in
                                       if Qltb (lm_of s2 c) (lm_of s2 m0) then Ok (true, Some c, s3)
                                       else Ok (true, m2, s3)
                          end
                   else Ok (false, m2, s2))
          else Ok a) in
      fold_left go_out (outs_of s v) (fold_left go_in (ins_of s v) (Ok (false, m, s)))
  end.

(* Block::findMinLMBetween (block.cpp:497-518); None = the UnsatisfiableException path *)
Definition find_min_lm_between (s : st) (b lv rv : nat) : res (option nat * st) :=
  bind (reset_active_lm (walk_fuel s) b (front s b) None s) (fun s1 =>
  bind (compute_dfdv (walk_fuel s) false b (front s b) None None s1) (fun a =>
    let '(_, _, s2) := a in
    bind (split_path (walk_fuel s) b rv lv None None s2) (fun r =>
      let '(_, m, s3) := r in Ok (m, s3)))).

(* Block::isActiveDirectedPathBetween (block.cpp:560-570) *)
Fixpoint is_active_directed_path_between (fuel : nat) (s : st) (this u v : nat) : res bool :=
  match fuel with
  | O => OutOfFuel
  | S f =>
      if Nat.eqb u v then Ok true
      else fold_left (fun (acc : res bool) (c : nat) =>
                        bind acc (fun fnd =>
                          if fnd then Ok true
                          else if can_follow_right s this c None
                               then is_active_directed_path_between f s this (cr (con_of s c)) v
                               else Ok false))
                     (outs_of s u) (Ok false)
  end.

(* Blocks::cleanup (blocks.cpp:155-188) *)
Definition cleanup (s : st) : st :=
  set_blist s (filter (fun b => negb (dead (block_of s b))) (blist s)).

Definition kill_block (s : st) (b : nat) : st :=
  let B := block_of s b in set_block s b (mkblk (bvars B) (posn B) (bscale B) (AB B) (AD B) (A2 B) true).

(* IncSolver::moveBlocks (solve_VPSC.cpp:336-351) *)
Definition move_blocks (s : st) : st := fold_left update_weighted_position (blist s) s.

(* IncSolver::splitBlocks (solve_VPSC.cpp:352-394); the second component is IncSolver::splitCnt *)
Definition split_blocks (s : st) : res (st * nat) :=
  let s0 := move_blocks s in
  bind (fold_left (fun (acc : res (st * nat)) (b : nat) =>
          bind acc (fun p => let '(s1, cnt) := p in
            bind (find_min_lm s1 b) (fun a =>
              let '(mn, s2) := a in
              match mn with
              | None => Ok (s2, cnt)
              | Some v =>
                  let s3 := note s2 (lm_of s2 v) LAGRANGIAN_TOLERANCE in
                  if Qltb (lm_of s3 v) LAGRANGIAN_TOLERANCE then
                    let b' := blk_of s3 (cl (con_of s3 v)) in
                    bind (split s3 b' v) (fun t =>
                      let '(s4, l, r) := t in
                      let s5 := update_weighted_position (update_weighted_position s4 l) r in
                      let s6 := set_blist s5 (blist s5 ++ [l; r]) in
                      let s7 := kill_block s6 b' in
                      Ok (set_inactive s7 (inactive s7 ++ [v]), S cnt))
                  else Ok (s3, cnt)
              end)))
          (blist s0) (Ok (s0, O)))
       (fun p => Ok (cleanup (fst p), snd p)).

(* IncSolver::mostViolated (solve_VPSC.cpp:400-449).  scan returns (slackForMostViolated, mostViolated, deleteIndex) *)
Fixpoint mv_scan (s : st) (l : list nat) (idx : nat) (best : option Q) (mv : option nat) (del : nat)
  : option Q * option nat * nat * st :=
  match l with
  | [] => (best, mv, del, s)
  | c :: t =>
      let sl := slack s c in
      let s1 := note_opt s sl best in
      if ceq (con_of s c) then (sl, Some c, idx, s1)
      else if lt_inf sl best then mv_scan s1 t (S idx) sl (Some c) idx
      else mv_scan s1 t (S idx) best mv del
  end.

Definition remove_swap_last (l : list nat) (i : nat) : list nat :=
  let n := length l in
  removelast (upd_nth l i (nth (n - 1) l O)).

Definition most_violated (s : st) : option nat * st :=
  let l := inactive s in
  let '(best, mv, del, s1) := mv_scan s l O None None (length l) in
  match mv with
  | None => (None, s1)
  | Some c =>
      let s2 := note_opt s1 best (Some ZERO_UPPERBOUND) in
      if Nat.ltb del (length l) &&
         ((lt_inf best (Some ZERO_UPPERBOUND) && negb (act_of s2 c)) || ceq (con_of s2 c))
      then (Some c, set_inactive s2 (remove_swap_last l del))
      else (Some c, s2)
  end.

Definition flag_unsat (s : st) (c : nat) : st := set_cuns s (upd_nth (cuns s) c true).

(* one evaluation of the loop condition + body of the while loop of IncSolver::satisfy (solve_VPSC.cpp:252-310):
   (true, s') = the body ran, go round again; (false, s') = the condition failed, loop exit.
   mostViolated removes the constraint from `inactive` under exactly the condition under which the body runs. *)
Definition satisfy_step (s : st) : res (bool * st) :=
  let '(mv, s1) := most_violated s in
  match mv with
  | None => Ok (false, s1)
  | Some v =>
      let k := con_of s1 v in
      let s2 := note_opt s1 (slack s1 v) (Some ZERO_UPPERBOUND) in
      if ceq k || (lt_inf (slack s2 v) (Some ZERO_UPPERBOUND) && negb (act_of s2 v)) then
        let lb := blk_of s2 (cl k) in
        let rb := blk_of s2 (cr k) in
        if negb (Nat.eqb lb rb) then Ok (true, fst (merge s2 v))
        else
          bind (is_active_directed_path_between (walk_fuel s2) s2 lb (cr k) (cl k)) (fun cyc =>
          if cyc then Ok (true, flag_unsat s2 v)
          else
            bind (find_min_lm_between s2 lb (cl k) (cr k)) (fun a =>
              let '(sc, s3) := a in
              match sc with
              | None => Ok (true, flag_unsat s3 v)            (* UnsatisfiableException caught *)
              | Some spl =>
                  bind (split s3 lb spl) (fun t =>
                    let '(s4, l, r) := t in
                    let s5 := kill_block s4 lb in
                    let s6 := set_inactive s5 (inactive s5 ++ [spl]) in
                    let s7 := note_opt s6 (slack s6 v) (Some 0) in
                    if lt_inf (slack s7 v) (Some 0)
                    then let '(s8, mb) := merge s7 v in Ok (true, set_blist s8 (blist s8 ++ [mb]))
                    else Ok (true, set_blist (set_inactive s7 (inactive s7 ++ [v])) (blist s7 ++ [l; r])))
              end))
      else Ok (false, s2)
  end.

Fixpoint satisfy_loop (fuel : nat) (s : st) : res st :=
  match fuel with
  | O => OutOfFuel
  | S f => bind (satisfy_step s) (fun o => if fst o then satisfy_loop f (snd o) else Ok (snd o))
  end.

(* the final scan of satisfy (solve_VPSC.cpp:316-330; since /repo 80a897a it skips active constraints, whose
   recomputed slack differs from zero only by rounding) *)
Definition final_scan (s : st) : res st :=
  match find (fun c => negb (act_of s c) && lt_inf (slack s c) (Some ZERO_UPPERBOUND)) (seq 0 (length (scons s))) with
  | Some c => ThrowUnsat c
  | None => Ok s
  end.

(* IncSolver::satisfy (solve_VPSC.cpp:243-335); also returns splitCnt of this pass *)
Definition inc_satisfy_cnt (fuel : nat) (s : st) : res (st * nat) :=
  bind (split_blocks s) (fun p =>
  bind (satisfy_loop fuel (fst p)) (fun s2 =>
  bind (final_scan (cleanup s2)) (fun s3 => Ok (s3, snd p)))).
Definition inc_satisfy (fuel : nat) (s : st) : res st :=
  bind (inc_satisfy_cnt fuel s) (fun p => Ok (fst p)).

(* Blocks::cost (blocks.cpp:236-245, block.cpp:626-633) *)
Definition cost (s : st) : Q :=
  fold_left (fun acc b =>
    fold_left (fun acc' v => let d := position s v - des (var_of s v) in Qred (acc' + wt (var_of s v) * d * d))
              (bvars (block_of s b)) acc) (blist s) 0.

(* IncSolver::solve (solve_VPSC.cpp:212-236).  fixed = true is the current code (/repo 676ca34):
     while((fabs(lastcost-cost)>0.0001 || splitCnt>0) && maxtries-->0)        with maxtries = 100;
   fixed = false is the loop before that commit, while(fabs(lastcost-cost)>0.0001), kept for the refutation
   theorem C02_solve_optimal_refuted_before_fix. *)
Fixpoint solve_loop (fixed : bool) (fuel sfuel tries : nat) (lastcost : option Q) (c : Q) (cnt : nat) (s : st) : res st :=
  match fuel with
  | O => OutOfFuel
  | S f =>
      let changed := match lastcost with
                     | None => true
                     | Some lc => Qltb COST_EPS (Qabs' (lc - c))
                     end in
      let s0 := match lastcost with Some lc => note s (Qabs' (lc - c)) COST_EPS | None => s end in
      let again := fun tries' =>
        bind (inc_satisfy_cnt sfuel s0) (fun p => solve_loop fixed f sfuel tries' (Some c) (cost (fst p)) (snd p) (fst p)) in
      if fixed then
        if changed || negb (Nat.eqb cnt O) then
          match tries with O => Ok s0 | S t => again t end
        else Ok s0
      else
        if changed then again tries else Ok s0
  end.
Definition MAXTRIES : nat := 100.
Definition inc_solve_gen (fixed : bool) (fuel : nat) (s : st) : res st :=
  bind (inc_satisfy_cnt fuel s) (fun p => solve_loop fixed fuel fuel MAXTRIES None (cost (fst p)) (snd p) (fst p)).
Definition inc_solve (fuel : nat) (s : st) : res st := inc_solve_gen true fuel s.
Definition inc_solve_before_fix (fuel : nat) (s : st) : res st := inc_solve_gen false fuel s.

(* IncSolver::IncSolver / Solver::Solver / Blocks::Blocks (solve_VPSC.cpp:49-82, blocks.cpp:52-59) *)
Definition init (vs : list var) (cs : list con) : st :=
  let n := length vs in
  let m := length cs in
  let s0 := mkst vs cs (repeat 0 n) (repeat O n) (repeat false m) (repeat false m) (repeat 0 m)
                 [] [] (seq 0 m) false in
  fold_left (fun s v => let '(b, s1) := new_block s in
                        let s2 := add_variable s1 b v in
                        set_blist s2 (blist s2 ++ [b])) (seq 0 n) s0.

(* IncSolver::addConstraint (solve_VPSC.cpp:87-95) *)
Definition add_constraint (s : st) (c : con) : st :=
  let m := length (scons s) in
  let s1 := set_scons s (scons s ++ [c]) in
  let s2 := set_cact s1 (cact s1 ++ [false]) in
  let s3 := set_cuns s2 (cuns s2 ++ [false]) in
  let s4 := set_clm s3 (clm s3 ++ [0]) in
  set_inactive s4 (inactive s4 ++ [m]).

(* the caller assigning Variable::desiredPosition between solves *)
Definition set_desired (s : st) (i : nat) (d : Q) : st :=
  let V := var_of s i in
  set_svars s (upd_nth (svars s) i (mkvar d (wt V) (scl V))).

Inductive op := AddConstraint (c : con) | SetDesired (i : nat) (d : Q) | Solve | Satisfy.

Definition step_gen (fixed : bool) (fuel : nat) (s : st) (o : op) : res st :=
  match o with
  | AddConstraint c => Ok (add_constraint s c)
  | SetDesired i d => Ok (set_desired s i d)
  | Solve => inc_solve_gen fixed fuel s
  | Satisfy => inc_satisfy fuel s
  end.
Definition step (fuel : nat) (s : st) (o : op) : res st := step_gen true fuel s o.

(* observations *)
Definition final_positions (s : st) : list Q := map (position s) (seq 0 (length (svars s))).
Definition live_blocks (s : st) : list nat := blist s.
