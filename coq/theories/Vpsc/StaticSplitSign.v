(* The sign lemma for Blocks::split (Vpsc/StaticModel.static_split): when the block b, stationary for the multipliers
   findMinLM has just computed, is split across the active constraint c, the side t of c (t = the new left block l or the
   new right block r) has its own weighted optimum at distance  - sg * lm(c) / (2 U_t)  from where it sits, sg = +1 for
   the side of left(c), -1 for the side of right(c).  So with lm(c) < 0 the left half moves LEFT (dl >= 0 in
   StaticSplitML.MLS_entry) and the optimum of the right half is to the RIGHT of its position (rho >= 0 in
   StaticRefine.geo2_entry_move).  Proof: sum the stationarity residuals over the side; the multipliers of the active
   constraints inside the side cancel, only lm(c) is left (KKT.exch_out / exch_in with the side's indicator). *)
From Adapt Require Import Num.Qaux Vpsc.VpscSpec Vpsc.KKT Vpsc.VpscModel Vpsc.VpscInv Vpsc.VpscFrame Vpsc.VpscKktB
  Vpsc.VpscStationary Vpsc.StaticGeom.
Local Open Scope Q_scope.

(* a sum over (constraint, multiplier) pairs as a sum over constraint indices *)
Lemma csum_combine_idx (f : nat -> Q) (g : con * Q -> Q) : forall cs a,
  csum (combine cs (map f (seq a (length cs)))) g == csum (seq a (length cs)) (fun k => g (nth (k - a) cs dcon, f k)).
Proof.
  induction cs as [|h t IH]; intros a; cbn [length seq map combine csum]; [reflexivity|].
  rewrite Nat.sub_diag. cbn [nth]. rewrite IH. apply Qplus_comp; [reflexivity|].
  apply csum_ext. intros k Hk. apply in_seq in Hk. replace (k - a)%nat with (S (k - S a)) by lia. reflexivity.
Qed.

(* derivative of the side's cost along a rigid shift, in block statistics *)
Lemma dfdv_side_sum s b : wf_vars (svars s) -> forall V,
  (forall w, In w V -> blk_of s w = b) ->
  csum V (fun w => dfdv s w / scl (var_of s w)) ==
  2 * (bscale (block_of s b) * posn (block_of s b) * usum (svars s) V - tsum (svars s) (off_of s) V).
Proof.
  intros W. induction V as [|w V IH]; intros H; cbn [csum usum tsum]; [ring|].
  rewrite IH by (intros x Hx; apply H; right; exact Hx).
  destruct (vget_pos' (svars s) w W) as [Pw Ps].
  unfold dfdv, position. rewrite !Qred_correct. rewrite (H w (or_introl eq_refl)). unfold var_of.
  field. lra.
Qed.

Section Sign.
  Variables (s s' : st) (b c t : nat) (sg : Q).
  Hypothesis BK : book s.
  Hypothesis AI : act_inv s.
  Hypothesis W : wf_vars (svars s).
  Hypothesis Hc : (c < length (scons s))%nat.
  Hypothesis Ac : act_of s c = true.
  Hypothesis ST : stationary_block s s b.
  Hypothesis Ev : svars s' = svars s.
  Hypothesis Eo : voff s' = voff s.
  Hypothesis BK' : book s'.
  Hypothesis SUB : forall i, (i < length (svars s))%nat -> blk_of s' i = t -> blk_of s i = b.
  Hypothesis INH : exists v, (v < length (svars s))%nat /\ blk_of s' v = t.
  Hypothesis ACT : forall k, (k < length (scons s))%nat -> act_of s k = true -> k <> c ->
                     (blk_of s' (cl (con_of s k)) = t <-> blk_of s' (cr (con_of s k)) = t).
  Hypothesis SIDE : (blk_of s' (cl (con_of s c)) = t /\ blk_of s' (cr (con_of s c)) <> t /\ sg == 1) \/
                    (blk_of s' (cl (con_of s c)) <> t /\ blk_of s' (cr (con_of s c)) = t /\ sg == -1).
  Hypothesis OKt : blk_ok s' t.

  Let n := length (svars s).
  Let a := fun i => Nat.eqb (blk_of s' i) t.
  Let A := fun i => if a i then 1 else 0.
  Let V := bvars (block_of s' t).

  Let Mem : forall w, In w V <-> ((w < n)%nat /\ a w = true).
  Proof.
    destruct INH as [v [Hv Et]]. intros w. unfold V, a. rewrite <- Et.
    assert (Hv' : (v < length (svars s'))%nat) by (rewrite Ev; exact Hv).
    rewrite (bk_mem _ BK' v w Hv'), Ev, Nat.eqb_eq. reflexivity.
  Qed.
  Let ND : NoDup V.
  Proof.
    destruct INH as [v [Hv Et]]. unfold V. rewrite <- Et. apply (bk_nodup _ BK'). rewrite Ev. exact Hv.
  Qed.
  Let NZ i : ~ scl (var_of s i) == 0.
  Proof. destruct (vget_pos' (svars s) i W) as [_ P]. unfold var_of. lra. Qed.

  (* the multipliers over the side: only lm(c) is left *)
  Lemma side_multipliers :
    sumn n (fun i => if a i then OUT s s i - IN s s i else 0) == sg * lm_of s c.
  Proof.
    assert (Wp : forall p, In p (lcons_of s) -> (cl (fst p) < n)%nat /\ (cr (fst p) < n)%nat).
    { intros [k l] Hp. unfold lcons_of in Hp. apply in_combine_l in Hp. exact (bk_cons s BK k Hp). }
    assert (E1 : sumn n (fun i => if a i then OUT s s i - IN s s i else 0)
                 == sumn n (fun i => A i * outs (lcons_of s) i) - sumn n (fun i => A i * ins (lcons_of s) i)).
    { rewrite <- sumn_minus. apply sumn_ext. intros i _. unfold A, OUT, IN.
      rewrite (outs_lcons s s i) by reflexivity. rewrite (ins_lcons s s i) by reflexivity.
      destruct (a i); ring. }
    rewrite E1. rewrite exch_out by (intros p Hp; apply (Wp p Hp)). rewrite exch_in by (intros p Hp; apply (Wp p Hp)).
    rewrite <- csum_minus. unfold lcons_of, lam_of.
    rewrite (csum_combine_idx (lam_at s) _ (scons s) 0).
    set (g := fun k => snd (nth (k - 0) (scons s) dcon, lam_at s k) * A (cl (fst (nth (k - 0) (scons s) dcon, lam_at s k))) -
                       snd (nth (k - 0) (scons s) dcon, lam_at s k) * A (cr (fst (nth (k - 0) (scons s) dcon, lam_at s k)))).
    assert (Eg : forall k, g k == lam_at s k * (A (cl (con_of s k)) - A (cr (con_of s k)))).
    { intros k. unfold g. cbn [fst snd]. rewrite Nat.sub_0_r. unfold con_of. ring. }
    rewrite (csum_single (seq 0 (length (scons s))) g c (seq_NoDup _ _)).
    - destruct (in_dec Nat.eq_dec c (seq 0 (length (scons s)))) as [_|X]; [|exfalso; apply X; apply in_seq; lia].
      rewrite Eg. unfold lam_at. rewrite Ac. unfold A, a.
      destruct SIDE as [[S1 [S2 S3]]|[S1 [S2 S3]]].
      + apply Nat.eqb_eq in S1. apply Nat.eqb_neq in S2. rewrite S1, S2, S3. ring.
      + apply Nat.eqb_neq in S1. apply Nat.eqb_eq in S2. rewrite S1, S2, S3. ring.
    - intros k Hk Nk. apply in_seq in Hk. rewrite Eg. unfold lam_at. destruct (act_of s k) eqn:Ak; [|ring].
      unfold A, a. destruct (ACT k ltac:(lia) Ak Nk) as [X1 X2].
      destruct (Nat.eqb (blk_of s' (cl (con_of s k))) t) eqn:E.
      + apply Nat.eqb_eq in E. apply X1 in E. apply Nat.eqb_eq in E. rewrite E. ring.
      + destruct (Nat.eqb (blk_of s' (cr (con_of s k))) t) eqn:E'; [|ring].
        apply Nat.eqb_eq in E'. apply X2 in E'. apply Nat.eqb_neq in E. contradiction.
  Qed.

  (* the derivative of the side's cost along a rigid shift is -sg * lm(c) *)
  Lemma side_dfdv : csum V (fun w => dfdv s w / scl (var_of s w)) == - sg * lm_of s c.
  Proof.
    assert (S0 : sumn n (fun i => if a i then resid s s i / scl (var_of s i) else 0) == 0).
    { rewrite <- (sumn_zero n). apply sumn_ext. intros i Hi. destruct (a i) eqn:Ea; [|reflexivity].
      apply Nat.eqb_eq in Ea. rewrite (ST i Hi (SUB i Hi Ea)). unfold Qdiv. ring. }
    assert (S1 : sumn n (fun i => if a i then resid s s i / scl (var_of s i) else 0) ==
                 sumn n (fun i => if a i then dfdv s i / scl (var_of s i) else 0) +
                 sumn n (fun i => if a i then OUT s s i - IN s s i else 0)).
    { rewrite <- sumn_plus. apply sumn_ext. intros i _. destruct (a i); [|ring]. unfold resid. field. apply NZ. }
    rewrite S1, side_multipliers in S0.
    rewrite (sumn_indicator_list a (fun i => dfdv s i / scl (var_of s i)) n V ND Mem) in S0. lra.
  Qed.

  (* the side's optimum relative to where the block was *)
  Theorem split_side_shift :
    0 < usum (svars s) V /\
    bscale (block_of s b) * posn (block_of s b) - bscale (block_of s' t) * posn (block_of s' t) ==
    - sg * lm_of s c / (2 * usum (svars s) V).
  Proof.
    destruct (blk_ok_Y s' t ltac:(rewrite Ev; exact W) OKt) as [U EP]. fold V in U, EP. rewrite Ev in U, EP.
    assert (ET : tsum (svars s) (off_of s') V == tsum (svars s) (off_of s) V).
    { apply tsum_ext. intros v _. unfold off_of. rewrite Eo. reflexivity. }
    rewrite ET in EP. split; [exact U|].
    pose proof side_dfdv as D.
    rewrite (dfdv_side_sum s b W V) in D by (intros w Hw; apply Mem in Hw; destruct Hw as [Hw Ea]; apply Nat.eqb_eq in Ea; apply SUB; assumption).
    rewrite EP. set (P := bscale (block_of s b) * posn (block_of s b)) in *.
    set (T := tsum (svars s) (off_of s) V) in *. set (U0 := usum (svars s) V) in *.
    clearbody P T U0.
    assert (X : P * U0 - T == - sg * lm_of s c / 2).
    { assert (H2 : P * U0 - T == (2 * (P * U0 - T)) / 2) by field. rewrite H2, D. reflexivity. }
    assert (NU : ~ U0 == 0) by lra.
    assert (Y : P - T / U0 == (P * U0 - T) / U0) by (field; exact NU).
    rewrite Y, X. field. exact NU.
  Qed.

  (* every variable of the side moves rigidly by that amount *)
  Corollary split_side_Y u : blk_of s' u = t -> (u < n)%nat ->
    Yof s' u == Yof s u - (- sg * lm_of s c / (2 * usum (svars s) V)).
  Proof.
    intros Et Hu. destruct split_side_shift as [_ E]. unfold Yof. rewrite Et, (SUB u Hu Et).
    assert (EO : off_of s' u = off_of s u) by (unfold off_of; rewrite Eo; reflexivity). rewrite EO. lra.
  Qed.

  (* lm(c) <= 0: the side of left(c) moves LEFT to its optimum (dl >= 0 of StaticSplitML.MLS_entry) ... *)
  Corollary split_left_half_moves_left : sg == 1 -> lm_of s c <= 0 ->
    exists dl, 0 <= dl /\ forall u, blk_of s' u = t -> (u < n)%nat -> Yof s' u == Yof s u - dl.
  Proof.
    intros E1 Hl. destruct split_side_shift as [U _].
    exists (- sg * lm_of s c / (2 * usum (svars s) V)). split; [|intros u Et Hu; apply split_side_Y; assumption].
    rewrite E1. unfold Qdiv. apply Qmult_le_0_compat; [lra|]. apply Qinv_le_0_compat. lra.
  Qed.
  (* ... and the optimum of the side of right(c) is to the RIGHT of where the block was *)
  Corollary split_right_half_optimum_right : sg == -1 -> lm_of s c <= 0 ->
    bscale (block_of s b) * posn (block_of s b) <= bscale (block_of s' t) * posn (block_of s' t).
  Proof.
    intros E1 Hl. destruct split_side_shift as [U E].
    assert (X : - sg * lm_of s c / (2 * usum (svars s) V) <= 0).
    { rewrite E1. assert (Y : - -1 * lm_of s c / (2 * usum (svars s) V) == - ((- lm_of s c) * / (2 * usum (svars s) V))) by (field; lra).
      rewrite Y. assert (Z : 0 <= (- lm_of s c) * / (2 * usum (svars s) V)).
      { apply Qmult_le_0_compat; [lra|]. apply Qinv_le_0_compat. lra. }
      lra. }
    lra.
  Qed.
End Sign.
