(* The combined invariant of the IncSolver model and its preservation by every step:
     inv s = book s /\ act_inv s /\ forest s /\ trich s
   (bookkeeping; active => same block and tight; active constraints of a block form a spanning tree; every constraint
   is exactly one of active / flagged / in the work-list).  Proved: init, add_constraint, set_desired, every iteration
   of the satisfy loop (merge / flag / split + merge / split + requeue), splitBlocks, satisfy(), solve(), every op
   history.  Consequences: when the satisfy loop exits the final scan finds nothing (C01_no_final_throw), and every
   returned state satisfies act_inv, which removes that hypothesis from C01_sat_on_return_full. *)
From Adapt Require Import Num.Qaux Vpsc.VpscSpec Vpsc.VpscModel Vpsc.VpscInv Vpsc.VpscFrame Vpsc.VpscTree
  Vpsc.VpscPopulate Vpsc.VpscForest Vpsc.VpscWalks Vpsc.VpscTrichotomy.
Local Open Scope Q_scope.

Record inv (s : st) : Prop := {
  i_book : book s; i_act : act_inv s; i_forest : forest s; i_trich : trich s }.
Record invx (s : st) (v : nat) : Prop := {
  ix_book : book s; ix_act : act_inv s; ix_forest : forest s; ix_trich : trichx s v }.

Lemma inv_lm_only s s' : lm_only s s' -> inv s -> inv s'.
Proof.
  intros L [A B C D]. constructor;
    [exact (book_lm_only _ _ L A) | exact (act_inv_lm_only _ _ L B) | exact (forest_lm_only _ _ L C) | exact (trich_lm_only _ _ L D)].
Qed.
Lemma invx_lm_only s s' v : lm_only s s' -> invx s v -> invx s' v.
Proof.
  intros L [A B C D]. constructor;
    [exact (book_lm_only _ _ L A) | exact (act_inv_lm_only _ _ L B) | exact (forest_lm_only _ _ L C) | exact (trichx_lm_only _ _ _ L D)].
Qed.
Lemma inv_set_blist s x : inv s -> inv (set_blist s x).
Proof.
  intros [A B C D]. constructor.
  - apply (book_frame s); try reflexivity; exact A.
  - apply (act_inv_frame s); try reflexivity; exact B.
  - apply set_blist_forest; exact C.
  - apply (trich_frame s); try reflexivity; exact D.
Qed.
Lemma book_kill_block s b : book s -> book (kill_block s b).
Proof.
  intros BK. apply (book_frame_bvars s); try reflexivity; [|intros B; apply set_block_bvars; reflexivity | exact BK].
  unfold kill_block, set_block, set_blocks. cbn [blocks]. apply upd_nth_length.
Qed.
Lemma inv_kill_block s b : inv s -> inv (kill_block s b).
Proof.
  intros [A B C D]. constructor.
  - apply book_kill_block; exact A.
  - apply (act_inv_frame s); try reflexivity; exact B.
  - apply kill_block_forest; exact C.
  - apply (trich_frame s); try reflexivity; exact D.
Qed.
Lemma invx_kill_block s b v : invx s v -> invx (kill_block s b) v.
Proof.
  intros [A B C D]. constructor.
  - apply book_kill_block; exact A.
  - apply (act_inv_frame s); try reflexivity; exact B.
  - apply kill_block_forest; exact C.
  - apply (trichx_frame s); try reflexivity; exact D.
Qed.
Lemma uwp_fields s b :
  scons (update_weighted_position s b) = scons s /\ cact (update_weighted_position s b) = cact s /\
  cuns (update_weighted_position s b) = cuns s /\ inactive (update_weighted_position s b) = inactive s /\
  blist (update_weighted_position s b) = blist s.
Proof.
  unfold update_weighted_position.
  destruct (fold_left (stats_add s) (bvars (block_of s b)) (bscale (block_of s b), 0, 0, 0)) as [[[sc ab] ad] a2].
  repeat split; reflexivity.
Qed.
Lemma inv_uwp s b : inv s -> inv (update_weighted_position s b).
Proof.
  intros [A B C D]. destruct (update_weighted_position_preserves s b A B) as [A' B'].
  destruct (uwp_fields s b) as [E1 [E2 [E3 [E4 _]]]].
  constructor; [exact A' | exact B' | apply update_weighted_position_forest; exact C | apply (trich_frame s); assumption].
Qed.
Lemma inv_move_blocks s : inv s -> inv (move_blocks s).
Proof.
  unfold move_blocks. generalize (blist s) as l. intros l. revert s.
  induction l as [|b l IH]; intros s I; cbn [fold_left]; [exact I|]. apply IH. apply inv_uwp. exact I.
Qed.
Lemma inv_cleanup s : inv s -> inv (cleanup s).
Proof. apply inv_set_blist. Qed.

(* ------------------------------------------------------------------ init and the two editing ops *)
Theorem init_inv vs cs : wf_cons vs cs -> inv (init vs cs).
Proof.
  intros W. destruct (init_book vs cs W) as [A B].
  constructor; [exact A | exact B | apply init_forest; exact W | apply init_trich].
Qed.
Theorem add_constraint_inv s k :
  inv s -> (cl k < length (svars s))%nat -> (cr k < length (svars s))%nat -> inv (add_constraint s k).
Proof.
  intros [A B C D] Hl Hr. destruct (add_constraint_preserves s k A B Hl Hr) as [A' B'].
  constructor; [exact A' | exact B' | apply add_constraint_forest; assumption | apply add_constraint_trich; [exact (bk_cact s A) | exact D]].
Qed.
Theorem set_desired_inv s i d : inv s -> inv (set_desired s i d).
Proof.
  intros [A B C D]. destruct (set_desired_preserves s i d A B) as [A' B'].
  constructor; [exact A' | exact B' | apply set_desired_forest; exact C | apply set_desired_trich; exact D].
Qed.

(* ------------------------------------------------------------------ mostViolated *)
Definition runs (s : st) (v : nat) : bool :=
  ceq (con_of s v) || (lt_inf (slack s v) (Some ZERO_UPPERBOUND) && negb (act_of s v)).

Lemma most_violated_spec s mv s' :
  trich s -> most_violated s = (mv, s') ->
  match mv with
  | None => inactive s = [] /\ lm_only s s'
  | Some v =>
      In v (inactive s) /\
      ((runs s v = true /\
        exists s2 l', lm_only s s2 /\ s' = set_inactive s2 l' /\ NoDup l' /\
                      forall x, In x l' <-> (In x (inactive s) /\ x <> v)) \/
       (runs s v = false /\ lm_only s s' /\ noeq s (inactive s) /\
        forall c, In c (inactive s) -> lt_inf (slack s c) (slack s v) = false))
  end.
Proof.
  intros TR H. unfold most_violated in H.
  destruct (mv_scan s (inactive s) 0 None None (length (inactive s))) as [[[best mv1] del] s1] eqn:SC.
  assert (SI0 : scan_inv s [] None None (length (inactive s))) by (constructor; [intros c [] | reflexivity]).
  destruct (mv_scan_spec s _ [] s O None None _ _ _ _ _ (lm_only_refl s) eq_refl (fun c (F : In c []) => match F with end) SI0 SC)
    as [L1 Cases].
  cbn [app] in Cases.
  assert (Lrun : forall s2 c, lm_only s s2 -> ceq (con_of s2 c) = ceq (con_of s c) /\ act_of s2 c = act_of s c).
  { intros s2 c [lm [t ->]]. split; reflexivity. }
  destruct Cases as [[pre' [c [t [El [NE [EQ [-> [-> ->]]]]]]]] | [NE [S1 S2]]].
  - (* an equality heads the scan *)
    set (s2 := note_opt s1 (slack s c) (Some ZERO_UPPERBOUND)) in *.
    assert (L2 : lm_only s s2) by (apply (lm_only_trans _ s1); [exact L1 | apply lm_only_note_opt]).
    destruct (Lrun s2 c L2) as [Ec Ea]. rewrite Ec, EQ, orb_true_r, andb_true_r in H.
    assert (Hlt : Nat.ltb (length pre') (length (inactive s)) = true).
    { apply Nat.ltb_lt. rewrite El, app_length. cbn. lia. }
    rewrite Hlt in H. inversion H. subst mv s'. clear H.
    split; [rewrite El; apply in_or_app; right; left; reflexivity|].
    left. split; [unfold runs; rewrite EQ; reflexivity|].
    pose proof (t_nodup s TR) as ND. rewrite El in ND.
    destruct (remove_swap_last_spec pre' c t ND) as [N' I']. rewrite <- El in I', N'.
    exists s2, (remove_swap_last (inactive s) (length pre')). repeat split; try assumption; apply I'; assumption.
  - destruct mv1 as [c|].
    + destruct S2 as [P [Q R]]. subst best.
      set (s2 := note_opt s1 (slack s c) (Some ZERO_UPPERBOUND)) in *.
      assert (L2 : lm_only s s2) by (apply (lm_only_trans _ s1); [exact L1 | apply lm_only_note_opt]).
      assert (Hin : In c (inactive s)) by (rewrite <- Q; apply nth_In; exact P).
      destruct (Lrun s2 c L2) as [Ec Ea]. rewrite Ec, Ea, (NE c Hin), orb_false_r in H.
      apply Nat.ltb_lt in P. rewrite P in H. cbn [andb] in H. apply Nat.ltb_lt in P.
      assert (Erun : runs s c = lt_inf (slack s c) (Some ZERO_UPPERBOUND) && negb (act_of s c)).
      { unfold runs. rewrite (NE c Hin). reflexivity. }
      rewrite <- Erun in H.
      destruct (runs s c) eqn:RUN; inversion H; subst mv s'; clear H; (split; [exact Hin|]).
      * left. split; [exact RUN|].
        destruct (nth_split (inactive s) O P) as [l1 [l2 [El Ll]]]. rewrite Q in El.
        pose proof (t_nodup s TR) as ND. rewrite El in ND.
        destruct (remove_swap_last_spec l1 c l2 ND) as [N' I']. rewrite Ll, <- El in I', N'.
        exists s2, (remove_swap_last (inactive s) del). repeat split; try assumption; apply I'; assumption.
      * right. split; [exact RUN|]. split; [exact L2|]. split; [exact NE | exact S1].
    + subst best. inversion H. subst mv s'. split; [|exact L1].
      destruct (inactive s) as [|c t] eqn:El; [reflexivity|]. exfalso.
      assert (Hin : In c (inactive s)) by (rewrite El; left; reflexivity).
      rewrite <- El in S1. specialize (S1 c Hin). destruct (t_in s TR c Hin) as [_ [_ U]].
      unfold slack in S1. rewrite U in S1. discriminate.
Qed.

(* ------------------------------------------------------------------ merge across a constraint in processing *)
Lemma merge_fields s c :
  book s -> (c < length (scons s))%nat -> blk_of s (cl (con_of s c)) <> blk_of s (cr (con_of s c)) ->
  let s' := fst (merge s c) in
  scons s' = scons s /\ cuns s' = cuns s /\ inactive s' = inactive s /\ cact s' = upd_nth (cact s) c true.
Proof.
  intros BK Hc Hne. destruct (con_ends s c BK Hc) as [Hl Hr].
  unfold merge. fold (con_of s c). cbv zeta.
  destruct (Nat.ltb _ _); cbn [fst].
  - destruct (merge_into_facts s _ _ c (off_of s (cr (con_of s c)) - off_of s (cl (con_of s c)) - gap (con_of s c))
                               (cr (con_of s c)) (cl (con_of s c)) BK Hr Hl eq_refl eq_refl (not_eq_sym Hne)) as [G1 G2 G3 G4 G5 G6 G7 _ _ _].
    repeat split; assumption.
  - destruct (merge_into_facts s _ _ c (- (off_of s (cr (con_of s c)) - off_of s (cl (con_of s c)) - gap (con_of s c)))
                               (cl (con_of s c)) (cr (con_of s c)) BK Hl Hr eq_refl eq_refl Hne) as [G1 G2 G3 G4 G5 G6 G7 _ _ _].
    repeat split; assumption.
Qed.

Lemma merge_invx s v :
  invx s v -> blk_of s (cl (con_of s v)) <> blk_of s (cr (con_of s v)) -> inv (fst (merge s v)).
Proof.
  intros [A B C D] Hne. destruct (tx_v s v D) as [Hv _].
  destruct (merge_preserves s v A B Hv Hne) as [A' B'].
  destruct (merge_fields s v A Hv Hne) as [E1 [E2 [E3 E4]]].
  constructor; [exact A' | exact B' | apply merge_forest; assumption |].
  apply (trichx_activate s _ v D E1 E2 E3 E4). exact (bk_cact s A).
Qed.

(* ------------------------------------------------------------------ one iteration of the satisfy loop *)
Lemma slack_val_fields s s' c :
  svars s' = svars s -> scons s' = scons s -> voff s' = voff s -> vblk s' = vblk s -> blocks s' = blocks s ->
  slack_val s' c = slack_val s c.
Proof.
  intros E1 E2 E3 E4 E5. unfold slack_val, position, var_of, con_of, off_of, blk_of, block_of.
  rewrite E1, E2, E3, E4, E5. reflexivity.
Qed.

Theorem satisfy_step_inv s b s' :
  inv s -> satisfy_step s = Ok (b, s') -> inv s' /\ (b = false -> inactive_sat s' /\ noeq s' (inactive s')).
Proof.
  intros I H. unfold satisfy_step in H.
  destruct (most_violated s) as [mv s1] eqn:MV.
  pose proof (most_violated_spec s mv s1 (i_trich s I) MV) as SP.
  destruct mv as [v|].
  2:{ destruct SP as [Emp L]. inversion H. subst b s'. split; [exact (inv_lm_only _ _ L I)|]. intros _.
      assert (Emp1 : inactive s1 = []) by (destruct L as [lm [t ->]]; exact Emp).
      split; [|rewrite Emp1; intros c []].
      intros c Hc Ha Hu. exfalso. pose proof (inv_lm_only _ _ L I) as I1.
      pose proof (t_cover s1 (i_trich s1 I1) c Hc Ha Hu) as X. rewrite Emp1 in X. exact X. }
  destruct SP as [Hin [[RUN [s2 [l' [L2 [-> [ND HL]]]]]] | [RUN [L1 [NEQ MIN]]]]].
  - (* the body runs *)
    set (s1 := set_inactive s2 l') in *.
    set (s3 := note_opt s1 (slack s1 v) (Some ZERO_UPPERBOUND)) in *.
    assert (L13 : lm_only s1 s3) by apply lm_only_note_opt.
    assert (Ek : con_of s1 v = con_of s v) by (destruct L2 as [lm [t ->]]; reflexivity).
    assert (Erun : ceq (con_of s1 v) || (lt_inf (slack s3 v) (Some ZERO_UPPERBOUND) && negb (act_of s3 v)) = true).
    { rewrite <- RUN. unfold runs. rewrite Ek. destruct L13 as [lm3 [t3 E3]]. rewrite E3. destruct L2 as [lm [t ->]]. reflexivity. }
    rewrite Erun in H. clear Erun.
    (* the invariant with v taken out *)
    assert (IX1 : invx s1 v).
    { pose proof (inv_lm_only _ _ L2 I) as [A B C D]. constructor.
      - apply (book_frame s2); try reflexivity; exact A.
      - apply (act_inv_frame s2); try reflexivity; exact B.
      - apply set_inactive_forest; exact C.
      - apply trich_take; try assumption.
        + destruct L2 as [lm [t ->]]. exact Hin.
        + intros x. rewrite HL. destruct L2 as [lm [t ->]]. reflexivity. }
    pose proof (invx_lm_only _ _ v L13 IX1) as IX3.
    assert (E13 : con_of s1 v = con_of s3 v /\ blk_of s1 = blk_of s3) by (destruct L13 as [lm [t ->]]; split; reflexivity).
    destruct E13 as [Ek3 Eb3]. rewrite Ek3 in H.
    set (k := con_of s3 v) in *.
    destruct (negb (Nat.eqb (blk_of s3 (cl k)) (blk_of s3 (cr k)))) eqn:NEQ.
    + (* different blocks: merge *)
      inversion H. subst b s'. split; [|discriminate].
      apply merge_invx; [exact IX3|]. apply negb_true_iff, Nat.eqb_neq in NEQ. exact NEQ.
    + apply negb_false_iff, Nat.eqb_eq in NEQ.
      apply bind_ok in H. destruct H as [cyc [_ H]].
      destruct cyc.
      * inversion H. subst b s'. split; [|discriminate].
        destruct IX3 as [A B C D]. constructor.
        -- apply (book_frame s3); try reflexivity; exact A.
        -- apply (act_inv_frame s3); try reflexivity; exact B.
        -- apply flag_unsat_forest; exact C.
        -- apply trichx_flag; exact D.
      * apply bind_ok in H. destruct H as [[sc s4] [FM H]].
        destruct (tx_v s3 v (ix_trich _ _ IX3)) as [Hv [Av Uv]].
        destruct (con_ends s3 v (ix_book _ _ IX3) Hv) as [Hvl Hvr].
        destruct (find_min_lm_between_spec s3 _ (cl k) (cr k) sc s4 (ix_book _ _ IX3) (ix_act _ _ IX3) (ix_forest _ _ IX3) Hvl eq_refl FM)
          as [L34 SEP].
        pose proof (invx_lm_only _ _ v L34 IX3) as IX4.
        destruct sc as [spl|].
        2:{ inversion H. subst b s'. split; [|discriminate].
            destruct IX4 as [A B C D]. constructor.
            - apply (book_frame s4); try reflexivity; exact A.
            - apply (act_inv_frame s4); try reflexivity; exact B.
            - apply flag_unsat_forest; exact C.
            - apply trichx_flag; exact D. }
        apply bind_ok in H. destruct H as [[[s5 l] r] [SPL H]].
        set (lb := blk_of s3 (cl k)) in *.
        destruct (SEP spl eq_refl) as [V1 [E1 [V2 [E2 [SD Sides]]]]].
        (* transport the decomposition to s4 (only lm / tie differ) *)
        assert (T4 : con_of s4 = con_of s3 /\ Vof s4 = Vof s3 /\ Eof s4 = Eof s3 /\ blk_of s4 = blk_of s3 /\ act_of s4 = act_of s3)
          by (destruct L34 as [lm [t ->]]; repeat split; reflexivity).
        destruct T4 as [T41 [T42 [T43 [T44 T45]]]].
        assert (SD4 : split_dec (con_of s4) (Vof s4 lb) (Eof s4 lb) spl V1 E1 V2 E2) by (rewrite T41, T42, T43; exact SD).
        assert (HE : Eof s4 lb spl) by (apply (sd_E _ _ _ _ _ _ _ _ SD4); left; reflexivity).
        destruct HE as [Hspl [Aspl Bspl]].
        assert (Bspl' : lb = blk_of s4 (cr (con_of s4 spl))).
        { destruct (ix_act _ _ IX4 spl Aspl) as [Sb _]. congruence. }
        pose proof (split_spec s4 spl lb s5 l r V1 E1 V2 E2 (ix_book _ _ IX4) Aspl (eq_sym Bspl) Bspl' SD4 SPL) as SF.
        pose proof (split_book s4 spl lb s5 l r V1 E1 V2 E2 (ix_book _ _ IX4) Aspl (eq_sym Bspl) SD4 SF) as BK5.
        pose proof (split_act_inv s4 spl lb s5 l r V1 E1 V2 E2 (ix_book _ _ IX4) (ix_act _ _ IX4) Aspl SD4 SF) as AI5.
        pose proof (split_forest s4 spl lb s5 l r V1 E1 V2 E2 (ix_book _ _ IX4) Aspl (eq_sym Bspl) SD4 SF (ix_forest _ _ IX4)) as FO5.
        (* after the split: kill the old block, requeue spl *)
        set (s6 := kill_block s5 lb) in *.
        set (s7 := set_inactive s6 (inactive s6 ++ [spl])) in *.
        set (s8 := note_opt s7 (slack s7 v) (Some 0)) in *.
        assert (IX7 : invx s7 v).
        { constructor.
          - apply (book_frame s6); try reflexivity. apply book_kill_block. exact BK5.
          - apply (act_inv_frame s6); try reflexivity. apply (act_inv_frame s5); try reflexivity. exact AI5.
          - apply set_inactive_forest, kill_block_forest. exact FO5.
          - apply (trichx_split s4 s7 v spl (ix_trich _ _ IX4) Aspl (bk_cact s4 (ix_book _ _ IX4))).
            + exact (sf_scons _ _ _ _ _ _ _ _ SF).
            + exact (sf_cuns _ _ _ _ _ _ _ _ SF).
            + exact (sf_cact _ _ _ _ _ _ _ _ SF).
            + cbn. rewrite (sf_inactive _ _ _ _ _ _ _ _ SF). reflexivity. }
        assert (L78 : lm_only s7 s8) by apply lm_only_note_opt.
        pose proof (invx_lm_only _ _ v L78 IX7) as IX8.
        destruct (lt_inf (slack s8 v) (Some 0)).
        -- destruct (merge s8 v) as [s9 mb] eqn:MG. inversion H. subst b s'. split; [|discriminate].
           apply inv_set_blist. change s9 with (fst (s9, mb)). rewrite <- MG. apply merge_invx; [exact IX8|].
           (* the two ends of v are on different sides of the split *)
           assert (E8 : blk_of s8 = blk_of s5 /\ con_of s8 v = k).
           { destruct L78 as [lm [t ->]]. split; [reflexivity|]. unfold con_of. cbn. rewrite (sf_scons _ _ _ _ _ _ _ _ SF).
             fold (con_of s4 v). rewrite T41. reflexivity. }
           destruct E8 as [E8 E8k]. rewrite E8, E8k.
           pose proof (sf_r _ _ _ _ _ _ _ _ SF) as Er.
           destruct Sides as [[S1 S2]|[S1 S2]].
           ++ rewrite (sf_V1 _ _ _ _ _ _ _ _ SF _ S1), (sf_V2 _ _ _ _ _ _ _ _ SF _ S2). lia.
           ++ rewrite (sf_V2 _ _ _ _ _ _ _ _ SF _ S1), (sf_V1 _ _ _ _ _ _ _ _ SF _ S2). lia.
        -- inversion H. subst b s'. split; [|discriminate].
           apply inv_set_blist. destruct IX8 as [A B C D]. constructor.
           ++ apply (book_frame s8); try reflexivity; exact A.
           ++ apply (act_inv_frame s8); try reflexivity; exact B.
           ++ apply set_inactive_forest; exact C.
           ++ apply trichx_put_back; exact D.
  - (* the loop condition fails *)
    set (s3 := note_opt s1 (slack s1 v) (Some ZERO_UPPERBOUND)) in *.
    assert (L13 : lm_only s s3) by (apply (lm_only_trans _ s1); [exact L1 | apply lm_only_note_opt]).
    assert (Erun : ceq (con_of s1 v) || (lt_inf (slack s3 v) (Some ZERO_UPPERBOUND) && negb (act_of s3 v)) = false).
    { rewrite <- RUN. unfold runs. destruct L13 as [lm3 [t3 E3]]. rewrite E3. destruct L1 as [lm [t ->]]. reflexivity. }
    rewrite Erun in H. inversion H. subst b s'. clear H Erun.
    pose proof (inv_lm_only _ _ L13 I) as I3. split; [exact I3|]. intros _.
    split; [|destruct L13 as [lm [t ->]]; exact NEQ].
    intros c Hc Ha Hu.
    pose proof (t_cover s3 (i_trich _ I3) c Hc Ha Hu) as Hci.
    assert (T3 : inactive s3 = inactive s /\ slack_val s3 c = slack_val s c /\ uns_of s3 c = uns_of s c)
      by (destruct L13 as [lm [t ->]]; repeat split; reflexivity).
    destruct T3 as [T31 [T32 T33]]. rewrite T31 in Hci. rewrite T32. rewrite T33 in Hu.
    specialize (MIN c Hci).
    destruct (t_in s (i_trich _ I) v Hin) as [_ [Av Uv]].
    unfold runs in RUN. apply orb_false_iff in RUN. destruct RUN as [_ RUN]. rewrite Av in RUN. cbn [negb] in RUN.
    rewrite andb_true_r in RUN.
    unfold slack in MIN, RUN. rewrite Hu, Uv in *. cbn [lt_inf] in MIN, RUN. qb2p. lra.
Qed.

(* ------------------------------------------------------------------ the satisfy loop *)
Definition exit_ok (s : st) : Prop := inactive_sat s /\ noeq s (inactive s).

Theorem satisfy_loop_inv : forall fuel s s', inv s -> satisfy_loop fuel s = Ok s' -> inv s' /\ exit_ok s'.
Proof.
  induction fuel as [|f IH]; intros s s' I H; [discriminate|].
  cbn [satisfy_loop] in H. apply bind_ok in H. destruct H as [[b s1] [H1 H]]. cbn [fst snd] in H.
  destruct (satisfy_step_inv s b s1 I H1) as [I1 X]. destruct b.
  - exact (IH s1 s' I1 H).
  - inversion H. subst s'. split; [exact I1 | exact (X eq_refl)].
Qed.

(* ------------------------------------------------------------------ splitBlocks *)
Lemma split_inv_fields s c s' l r :
  book s -> act_inv s -> forest s -> act_of s c = true ->
  split s (blk_of s (cl (con_of s c))) c = Ok (s', l, r) ->
  book s' /\ act_inv s' /\ forest s' /\
  scons s' = scons s /\ cuns s' = cuns s /\ cact s' = upd_nth (cact s) c false /\ inactive s' = inactive s.
Proof.
  intros BK AI FO Hact H.
  assert (Hc : (c < length (scons s))%nat) by (rewrite <- (bk_cact s BK); apply act_of_lt; exact Hact).
  destruct (con_ends s c BK Hc) as [Hl Hr].
  destruct (AI c Hact) as [Sb _].
  assert (Ec : Eof s (blk_of s (cl (con_of s c))) c) by (repeat split; assumption).
  destruct (tree_remove_edge _ _ _ (FO _ Hl) c Ec) as [V1 [E1 [V2 [E2 SD]]]].
  pose proof (split_spec s c _ s' l r V1 E1 V2 E2 BK Hact eq_refl Sb SD H) as SF.
  split; [exact (split_book s c _ s' l r V1 E1 V2 E2 BK Hact eq_refl SD SF)|].
  split; [exact (split_act_inv s c _ s' l r V1 E1 V2 E2 BK AI Hact SD SF)|].
  split; [exact (split_forest s c _ s' l r V1 E1 V2 E2 BK Hact eq_refl SD SF FO)|].
  destruct SF. repeat split; assumption.
Qed.

Definition sb_body (p : st * nat) (b : nat) : res (st * nat) :=
  let '(s1, cnt) := p in
  bind (find_min_lm s1 b) (fun a =>
    let '(mn, s2) := a in
    match mn with
    | None => Ok (s2, cnt)
    | Some v =>
        let s3 := note s2 (lm_of s2 v) LAGRANGIAN_TOLERANCE in
        if Qltb (lm_of s3 v) LAGRANGIAN_TOLERANCE then
          let b' := blk_of s3 (cl (con_of s3 v)) in
          bind (split s3 b' v) (fun t =>
            let '(s4, l, r) := t in
            let s5 := update_weighted_position (update_weighted_position s4 l) r in
            let s6 := set_blist s5 (blist s5 ++ [l; r]) in
            let s7 := kill_block s6 b' in
            Ok (set_inactive s7 (inactive s7 ++ [v]), S cnt))
        else Ok (s3, cnt)
    end).

Lemma split_blocks_unfold s :
  split_blocks s =
  bind (fold_left (fun acc b => bind acc (fun p => sb_body p b)) (blist (move_blocks s)) (Ok (move_blocks s, O)))
       (fun p => Ok (cleanup (fst p), snd p)).
Proof. reflexivity. Qed.

Lemma sb_body_inv p b p' : inv (fst p) -> sb_body p b = Ok p' -> inv (fst p').
Proof.
  destruct p as [s1 cnt]. cbn [fst]. intros I H. unfold sb_body in H.
  apply bind_ok in H. destruct H as [[mn s2] [FM H]].
  destruct (find_min_lm_spec _ _ _ _ FM) as [L12 MA].
  pose proof (inv_lm_only _ _ L12 I) as I2.
  destruct mn as [v|]; [|inversion H; subst p'; exact I2].
  set (s3 := note s2 (lm_of s2 v) LAGRANGIAN_TOLERANCE) in *.
  assert (L23 : lm_only s2 s3) by apply lm_only_note.
  pose proof (inv_lm_only _ _ L23 I2) as I3.
  destruct (Qltb (lm_of s3 v) LAGRANGIAN_TOLERANCE); [|inversion H; subst p'; exact I3].
  apply bind_ok in H. destruct H as [[[s4 l] r] [SPL H]]. inversion H. subst p'. clear H. cbn [fst].
  assert (Av : act_of s3 v = true).
  { assert (E : act_of s3 = act_of s1).
    { destruct L23 as [lm3 [t3 ->]]. destruct L12 as [lm [t ->]]. reflexivity. }
    rewrite E. exact (MA v eq_refl). }
  destruct I3 as [A B C D].
  destruct (split_inv_fields s3 v s4 l r A B C Av SPL) as [A4 [B4 [C4 [E1 [E2 [E3 E4]]]]]].
  set (s5 := update_weighted_position (update_weighted_position s4 l) r).
  destruct (update_weighted_position_preserves s4 l A4 B4) as [A5' B5'].
  destruct (update_weighted_position_preserves _ r A5' B5') as [A5 B5]. fold s5 in A5, B5.
  assert (F5 : scons s5 = scons s4 /\ cact s5 = cact s4 /\ cuns s5 = cuns s4 /\ inactive s5 = inactive s4).
  { unfold s5. destruct (uwp_fields (update_weighted_position s4 l) r) as [X1 [X2 [X3 [X4 _]]]].
    destruct (uwp_fields s4 l) as [Y1 [Y2 [Y3 [Y4 _]]]]. repeat split; congruence. }
  destruct F5 as [F51 [F52 [F53 F54]]].
  constructor.
  - apply (book_frame (kill_block (set_blist s5 (blist s5 ++ [l; r])) (blk_of s3 (cl (con_of s3 v))))); try reflexivity.
    apply book_kill_block. apply (book_frame s5); try reflexivity. exact A5.
  - apply (act_inv_frame s5); try reflexivity. exact B5.
  - apply set_inactive_forest, kill_block_forest, set_blist_forest.
    unfold s5. apply update_weighted_position_forest, update_weighted_position_forest. exact C4.
  - apply (trich_split s3 _ v D Av (bk_cact s3 A)); cbn; congruence.
Qed.

Theorem split_blocks_inv s p : inv s -> split_blocks s = Ok p -> inv (fst p).
Proof.
  intros I H. rewrite split_blocks_unfold in H.
  apply bind_ok in H. destruct H as [q [H E]]. inversion E. subst p. cbn [fst]. apply inv_cleanup.
  destruct (fold_bind_inv sb_body (fun p => inv (fst p)) (blist (move_blocks s))) with (acc := Ok (move_blocks s, O)) (r := q)
    as [q0 [E0 R]].
  - intros x b x' _ Ix G. exact (sb_body_inv x b x' Ix G).
  - exact H.
  - inversion E0. subst q0. apply R. cbn [fst]. apply inv_move_blocks. exact I.
Qed.

(* ------------------------------------------------------------------ satisfy() *)
Lemma exit_ok_cleanup s : exit_ok s -> exit_ok (cleanup s).
Proof. intros [A B]. split; [intros c; exact (A c) | intros c; exact (B c)]. Qed.

(* C01_no_final_throw: whenever the satisfy loop exits, the final scan finds no violated constraint *)
Theorem no_final_throw fuel s p s2 :
  inv s -> split_blocks s = Ok p -> satisfy_loop fuel (fst p) = Ok s2 ->
  final_scan (cleanup s2) = Ok (cleanup s2).
Proof.
  intros I H1 H2. pose proof (split_blocks_inv s p I H1) as I1.
  destruct (satisfy_loop_inv fuel _ _ I1 H2) as [_ X].
  apply final_scan_no_throw_partial. exact (proj1 (exit_ok_cleanup _ X)).
Qed.

Definition ret_ok (s : st) : Prop := inv s /\ exit_ok s.

Theorem inc_satisfy_cnt_ret fuel s p : inv s -> inc_satisfy_cnt fuel s = Ok p -> ret_ok (fst p).
Proof.
  intros I H. unfold inc_satisfy_cnt in H.
  apply bind_ok in H. destruct H as [p1 [H1 H]].
  apply bind_ok in H. destruct H as [s2 [H2 H]].
  apply bind_ok in H. destruct H as [s3 [H3 E]]. inversion E. subst p. cbn [fst].
  apply final_scan_ok in H3. destruct H3 as [-> _].
  pose proof (split_blocks_inv s p1 I H1) as I1.
  destruct (satisfy_loop_inv fuel _ _ I1 H2) as [I2 X].
  split; [apply inv_cleanup; exact I2 | apply exit_ok_cleanup; exact X].
Qed.

Lemma ret_ok_lm_only s s' : lm_only s s' -> ret_ok s -> ret_ok s'.
Proof.
  intros L [I [A B]]. split; [exact (inv_lm_only _ _ L I)|].
  destruct L as [lm [t ->]]. split; [intros c; exact (A c) | intros c; exact (B c)].
Qed.

Lemma solve_loop_ret fixed fuel sf : forall tries lc c cnt s s',
  ret_ok s -> solve_loop fixed fuel sf tries lc c cnt s = Ok s' -> ret_ok s'.
Proof.
  induction fuel as [|f IH]; intros tries lc c cnt s s' Hs H; [discriminate|].
  cbn [solve_loop] in H.
  set (s0 := match lc with Some l => note s (Qabs' (l - c)) COST_EPS | None => s end) in *.
  assert (Hs0 : ret_ok s0).
  { unfold s0. destruct lc; [apply (ret_ok_lm_only s); [apply lm_only_note | exact Hs] | exact Hs]. }
  assert (Again : forall t, bind (inc_satisfy_cnt sf s0)
             (fun p => solve_loop fixed f sf t (Some c) (cost (fst p)) (snd p) (fst p)) = Ok s' -> ret_ok s').
  { intros t G. apply bind_ok in G. destruct G as [p [G1 G2]].
    apply (IH _ _ _ _ _ _ (inc_satisfy_cnt_ret _ _ _ (proj1 Hs0) G1) G2). }
  destruct fixed.
  - destruct (_ || _).
    + destruct tries as [|t]; [inversion H; subst; exact Hs0 | exact (Again t H)].
    + inversion H. subst. exact Hs0.
  - destruct (match lc with None => true | Some l => Qltb COST_EPS (Qabs' (l - c)) end).
    + exact (Again tries H).
    + inversion H. subst. exact Hs0.
Qed.

Theorem inc_solve_gen_ret fixed fuel s s' : inv s -> inc_solve_gen fixed fuel s = Ok s' -> ret_ok s'.
Proof.
  intros I H. unfold inc_solve_gen in H. apply bind_ok in H. destruct H as [p [H1 H]].
  exact (solve_loop_ret _ _ _ _ _ _ _ _ _ (inc_satisfy_cnt_ret _ _ _ I H1) H).
Qed.
Theorem inc_satisfy_ret fuel s s' : inv s -> inc_satisfy fuel s = Ok s' -> ret_ok s'.
Proof.
  intros I H. unfold inc_satisfy in H. apply bind_ok in H. destruct H as [p [H E]]. inversion E. subst s'.
  exact (inc_satisfy_cnt_ret _ _ _ I H).
Qed.

(* ------------------------------------------------------------------ op histories *)
Definition op_ok (s : st) (o : op) : Prop :=
  match o with
  | AddConstraint k => (cl k < length (svars s))%nat /\ (cr k < length (svars s))%nat
  | _ => True
  end.

Theorem step_inv fuel s o s' : inv s -> op_ok s o -> step fuel s o = Ok s' -> inv s'.
Proof.
  intros I W H. destruct o as [k|i d| |]; cbn in H.
  - inversion H. subst s'. destruct W. apply add_constraint_inv; assumption.
  - inversion H. subst s'. apply set_desired_inv. exact I.
  - exact (proj1 (inc_solve_gen_ret true fuel s s' I H)).
  - exact (proj1 (inc_satisfy_ret fuel s s' I H)).
Qed.

(* the states reachable from a fresh solver by any history of ops that returned *)
Inductive reachable : st -> Prop :=
| reach_init vs cs : wf_cons vs cs -> reachable (init vs cs)
| reach_step s o fuel s' : reachable s -> op_ok s o -> step fuel s o = Ok s' -> reachable s'.

Theorem reachable_inv s : reachable s -> inv s.
Proof.
  induction 1 as [vs cs W | s o fuel s' _ IH W H]; [apply init_inv; exact W | exact (step_inv fuel s o s' IH W H)].
Qed.

(* C01_sat_on_return without the act_inv hypothesis, and with the equalities *)
Theorem sat_on_return_reach fuel s o s' :
  reachable s -> run_result o fuel s s' -> wf_vars (svars s') ->
  forall k, (k < length (scons s'))%nat -> uns_of s' k = false ->
    let sl := slackv (svars s') (place_of (final_positions s')) (con_of s' k) in
    ZERO_UPPERBOUND <= sl /\ (act_of s' k = true -> sl == 0) /\ (ceq (con_of s' k) = true -> sl == 0).
Proof.
  intros R RR WV k Hk Hu sl.
  pose proof (reachable_inv s R) as I.
  assert (RO : ret_ok s').
  { destruct o; cbn in RR; try contradiction; [exact (inc_solve_gen_ret true _ _ _ I RR) | exact (inc_satisfy_ret _ _ _ I RR)]. }
  destruct RO as [I' [XS XE]].
  destruct (sat_on_return_full fuel s o s' RR (bk_cons s' (i_book _ I')) WV (i_act _ I') k Hk Hu) as [A B].
  split; [exact A|]. split; [exact B|].
  intros EQ. apply B. destruct (act_of s' k) eqn:Ak; [reflexivity|]. exfalso.
  pose proof (t_cover s' (i_trich _ I') k Hk Ak Hu) as Hin. rewrite (XE k Hin) in EQ. discriminate.
Qed.

(* no_final_throw from a reachable state *)
Theorem no_final_throw_reach fuel s p s2 :
  reachable s -> split_blocks s = Ok p -> satisfy_loop fuel (fst p) = Ok s2 ->
  final_scan (cleanup s2) = Ok (cleanup s2).
Proof. intros R. apply no_final_throw. apply reachable_inv. exact R. Qed.
